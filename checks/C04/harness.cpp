// C04: SignalEvent over two loops on two threads, driven in lock-step (engine H, fork per evaluation).
// usage: harness <engine> <depth> <sentinel: 0 none(SIG_IGN), 1 plain handler, 2 SA_SIGINFO handler>
#include "hist/hist.h"
#include <tbox/event/loop.h>
#include <tbox/event/signal_event.h>
#include <tbox/event/common_loop.h>
#include <tbox/event/common_loop_signal.cpp>     // as source: gives access to the file-local _signal_ctxs_
#include <condition_variable>
#include <mutex>
#include <thread>
#include <signal.h>
#ifndef SA_RESTORER
#define SA_RESTORER 0x04000000
#endif
using namespace tbox::event;

enum K { ENABLE, DISABLE, DESTROY, RAISE };
struct Op { int k, a; };
static const char *kN[] = {"enable", "disable", "destroy", "raise"};
static const int SIGS[2] = {SIGUSR1, SIGUSR2};
static const int NE = 5;
// event -> (loop, signals bitmask, oneshot); e4 is a one-shot event on a two-signal set
static const int EV_LOOP[NE] = {0, 0, 1, 1, 0}; static const int EV_SIGS[NE] = {1, 3, 1, 2, 3}; static const bool EV_ONESHOT[NE] = {false, false, true, false, true};

static volatile sig_atomic_t g_sentinel_calls = 0;
static void sentinel_plain(int) { g_sentinel_calls++; }
static void sentinel_info(int, siginfo_t *, void *) { g_sentinel_calls++; }

struct Worker {      // one loop on its own thread, executing closures handed over by the controller, one at a time
  Loop *loop = nullptr; std::thread th; std::mutex m; std::condition_variable cv; std::function<void()> job; bool has = false, done = false, quit = false; std::thread::id tid;
  void start(const std::string &eng) { th = std::thread([this, eng] { loop = Loop::New(eng); tid = std::this_thread::get_id();
      for (;;) { std::function<void()> j; { std::unique_lock<std::mutex> lk(m); cv.wait(lk, [this] { return has || quit; }); if (quit && !has) break; j = job; has = false; }
        j(); { std::lock_guard<std::mutex> g(m); done = true; } cv.notify_all(); }
      delete loop; }); }
  void exec(std::function<void()> j) { { std::lock_guard<std::mutex> g(m); job = j; has = true; done = false; } cv.notify_all(); std::unique_lock<std::mutex> lk(m); cv.wait(lk, [this] { return done; }); }
  void stop() { { std::lock_guard<std::mutex> g(m); quit = true; } cv.notify_all(); th.join(); }
};

static bool same_disposition(const struct sigaction &a, const struct sigaction &b) {
  if ((a.sa_flags & ~SA_RESTORER) != (b.sa_flags & ~SA_RESTORER)) return false;
  if (a.sa_flags & SA_SIGINFO) { if (a.sa_sigaction != b.sa_sigaction) return false; } else if (a.sa_handler != b.sa_handler) return false;
  for (int s = 1; s < 65; s++) if (sigismember(&a.sa_mask, s) != sigismember(&b.sa_mask, s)) return false;
  return true;
}

int main(int argc, char **argv) {
  std::string eng = argc > 1 ? argv[1] : "epoll"; size_t depth = argc > 2 ? atoi(argv[2]) : 5; int sentinel = argc > 3 ? atoi(argv[3]) : 1;
  hx::Explorer<Op> ex; ex.name = eng + "-sentinel" + std::to_string(sentinel); ex.deadline_s = hx::deadline_from_env(600);
  ex.fork_workers = (int)hx::env_int("VERIF_WORKERS", 4); ex.check_replay_determinism = true;
  ex.show = [](const Op &o) { char b[32]; if (o.k == RAISE) snprintf(b, 32, "raise(%s)", o.a ? "USR2" : "USR1"); else snprintf(b, 32, "%s(e%d)", kN[o.k], o.a); return std::string(b); };
  ex.menu = [&](const std::vector<Op> &) { std::vector<Op> m; for (int e = 0; e < NE; e++) { m.push_back({ENABLE, e}); m.push_back({DISABLE, e}); m.push_back({DESTROY, e}); } m.push_back({RAISE, 0}); m.push_back({RAISE, 1}); return m; };
  ex.run = [&](const std::vector<Op> &h, std::string &viol) {
    // pre-subscription disposition (the sentinel); mask/flags deliberately non-trivial so a partial restore is visible
    struct sigaction pre[2];
    for (int i = 0; i < 2; i++) { struct sigaction sa; memset(&sa, 0, sizeof sa); sigemptyset(&sa.sa_mask);
      if (sentinel == 0) sa.sa_handler = SIG_IGN; else if (sentinel == 1) { sa.sa_handler = sentinel_plain; sigaddset(&sa.sa_mask, SIGHUP); sa.sa_flags = SA_RESTART; } else { sa.sa_sigaction = sentinel_info; sa.sa_flags = SA_SIGINFO | SA_NODEFER; sigaddset(&sa.sa_mask, SIGTERM); }
      sigaction(SIGS[i], &sa, nullptr); sigaction(SIGS[i], nullptr, &pre[i]); }
    Worker w[2]; w[0].start(eng); w[1].start(eng); w[0].exec([] {}); w[1].exec([] {});
    SignalEvent *ev[NE]; bool alive[NE], en[NE]; int calls[NE]; std::string cbviol; std::mutex cbm;
    for (int e = 0; e < NE; e++) { alive[e] = true; en[e] = false; calls[e] = 0; Worker &wk = w[EV_LOOP[e]];
      wk.exec([&, e] { ev[e] = wk.loop->newSignalEvent("e"); std::set<int> ss; for (int i = 0; i < 2; i++) if (EV_SIGS[e] & (1 << i)) ss.insert(SIGS[i]);
        ev[e]->initialize(ss, EV_ONESHOT[e] ? Event::Mode::kOneshot : Event::Mode::kPersist);
        ev[e]->setCallback([&, e](int signo) { std::lock_guard<std::mutex> g(cbm); calls[e]++;
          if (std::this_thread::get_id() != w[EV_LOOP[e]].tid) cbviol = "callback-on-wrong-thread e" + std::to_string(e);
          if (!alive[e] || !en[e]) cbviol = "callback-on-disabled-or-destroyed-event e" + std::to_string(e);
          int si = signo == SIGUSR1 ? 0 : signo == SIGUSR2 ? 1 : -1; if (si < 0 || !(EV_SIGS[e] & (1 << si))) cbviol = "callback-with-unsubscribed-signal e" + std::to_string(e);
          if (EV_ONESHOT[e]) { en[e] = false; if (ev[e]->isEnabled()) cbviol = "oneshot-still-enabled-in-callback"; } }); }); }
    auto subscribed = [&](int si) { for (int e = 0; e < NE; e++) if (alive[e] && en[e] && (EV_SIGS[e] & (1 << si))) return true; return false; };
    for (auto &o : h) { if (!viol.empty()) break;
      switch (o.k) {
        case ENABLE: if (alive[o.a]) { w[EV_LOOP[o.a]].exec([&] { if (!ev[o.a]->enable()) viol = "enable-returned-false"; }); en[o.a] = true; } break;
        case DISABLE: if (alive[o.a]) { w[EV_LOOP[o.a]].exec([&] { ev[o.a]->disable(); }); en[o.a] = false; } break;
        case DESTROY: if (alive[o.a]) { w[EV_LOOP[o.a]].exec([&] { delete ev[o.a]; ev[o.a] = nullptr; }); alive[o.a] = false; en[o.a] = false; } break;
        case RAISE: {
          int si = o.a; bool expect[NE]; for (int e = 0; e < NE; e++) { expect[e] = alive[e] && en[e] && (EV_SIGS[e] & (1 << si)); calls[e] = 0; }
          bool any = subscribed(si); g_sentinel_calls = 0;
          raise(SIGS[si]);                                   // delivered to this (controller) thread before raise() returns
          for (int l = 0; l < 2; l++) w[l].exec([&, l] { w[l].loop->runNext([] {}); w[l].loop->runLoop(Loop::Mode::kOnce); });
          for (int e = 0; e < NE && viol.empty(); e++) { if (expect[e] && calls[e] != 1) viol = "enabled-subscriber-got-" + std::to_string(calls[e]) + "-callbacks e" + std::to_string(e); if (!expect[e] && calls[e] != 0) viol = "non-subscriber-got-a-callback e" + std::to_string(e); }
          if (viol.empty() && sentinel != 0 && g_sentinel_calls != 1) viol = std::string(any ? "previously-installed-handler-called-" : "restored-handler-called-") + std::to_string((int)g_sentinel_calls) + "-times";
          if (viol.empty() && !cbviol.empty()) viol = cbviol;
        } break; }
      for (int e = 0; e < NE && viol.empty(); e++) if (alive[e]) { bool ie = false; w[EV_LOOP[e]].exec([&] { ie = ev[e]->isEnabled(); }); if (ie != en[e]) viol = "isEnabled-disagrees e" + std::to_string(e); }
      for (int si = 0; si < 2 && viol.empty(); si++) if (!subscribed(si)) { struct sigaction cur; sigaction(SIGS[si], nullptr, &cur); if (!same_disposition(cur, pre[si])) viol = std::string("disposition-not-restored-after-last-unsubscribe ") + (si ? "USR2" : "USR1"); }
    }
    std::string c; for (int e = 0; e < NE; e++) { c += alive[e] ? (en[e] ? 'E' : 'd') : 'x'; }
    for (int l = 0; l < 2; l++) { auto *cl = static_cast<CommonLoop *>(w[l].loop); c += "|L" + std::to_string(l) + ":"; for (auto &kv : cl->all_signals_subscribers_) c += std::to_string(kv.first) + "x" + std::to_string(kv.second.size()) + ","; c += (cl->signal_read_fd_ >= 0 ? "P" : "-"); }
    c += "|ctx:"; for (auto &kv : _signal_ctxs_) c += std::to_string(kv.first) + "x" + std::to_string(kv.second.write_fds.size()) + ",";
    for (int e = 0; e < NE; e++) if (alive[e]) w[EV_LOOP[e]].exec([&] { delete ev[e]; });
    w[0].stop(); w[1].stop();
    return c; };
  ex.explore(depth);
  return 0;
}
