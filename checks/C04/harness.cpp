// C04: SignalEvent over two loops on two threads, driven in lock-step (engine H, fork per evaluation).
// usage: harness <engine> <depth> <cfg 0..2> <lane A|B|C|Ci|D|E>
//   cfg  = pre-subscription dispositions of (SIGUSR1, SIGUSR2): 0 (SIG_IGN, SIG_DFL)  1 (plain handler, SA_SIGINFO handler)  2 (SIG_DFL, plain handler);
//          every signal has its OWN handler function, sa_mask and sa_flags, so a save/restore/invoke through the other signal's slot is visible.
//   lane = A: enable/disable/destroy on e0..e4 + single deliveries raised on the controller thread
//          B: enable/disable on e0..e4 + deliveries raised ON a loop thread, and several deliveries before one pass (2 equal, 2 mixed, 11, 21: more than one read() of 10)
//          C: re-subscription lane: enable/disable on e0,e1,e2 + enable e5 (e5 = {SIGKILL}: sigaction() fails, enable() must report false and subscribe nothing)
//             + single deliveries; the state key additionally holds "loop l dropped its last subscriber before" / "signal s was restored before" (saturating at 1)
//             and "deferred tasks are still queued on loop l", so tear-down -> (pass | no pass) -> subscribe again -> deliveries is explored
//          D: initialise-again lane: e0 {USR1}, e3 {USR2}, e7 (created without initialize()): enable/disable on all three, destroy and addsig (= initialize again, adding the
//             other signal through the accumulating overloads) on e0 and e7, on enabled or disabled events, incl. enable() before any initialize(); + single deliveries
//          E: callback-script lane: e0, e1, e8 (loop 0): enable/disable + cbscript (one event's signal callback disables/enables other subscribers of its loop, see below) + single deliveries
//          Ci: as C, but every enable/disable is issued from a runNext task inside a kOnce pass of its loop (ordinary in-loop callback)
// DESIGN 1.7 reading: subscription changes are made between deliveries, never inside a signal callback (apart from the one-shot's own self-disable) - except in lane E, which
// makes the changes the library explicitly supports from a signal callback (disable / enable of events of the same loop; never destroy).
#include "hist/hist.h"
#include "probe.h"
#include <tbox/event/loop.h>
#include <tbox/event/signal_event.h>
#include <tbox/event/fd_event.h>
#include <tbox/event/common_loop.h>
#include <tbox/event/signal_event_impl.h>
#include <tbox/event/common_loop_signal.cpp>     // as source: gives access to the file-local _signal_ctxs_
#include <condition_variable>
#include <sstream>
#include <mutex>
#include <thread>
#include <signal.h>
#include <sys/syscall.h>
#include <sys/socket.h>
#include <sys/eventfd.h>
// Seam "descriptor table is full": while g_no_fd is set every call that would create a notification channel fails with EMFILE. (Really lowering RLIMIT_NOFILE also starves the
// sanitizer run-time, whose vptr check probes memory through pipe() and then reports a bogus "invalid vptr"; for the same reason plain pipe() is left alone.)
static volatile int g_no_fd = 0;
extern "C" int pipe2(int fds[2], int flags) { if (g_no_fd) { errno = EMFILE; return -1; } return (int)syscall(SYS_pipe2, fds, flags); }
extern "C" int socketpair(int d, int t, int pr, int sv[2]) { if (g_no_fd) { errno = EMFILE; return -1; } return (int)syscall(SYS_socketpair, d, t, pr, sv); }
extern "C" int eventfd(unsigned int cnt, int flags) { if (g_no_fd) { errno = EMFILE; return -1; } return (int)syscall(SYS_eventfd2, cnt, flags); }
#ifndef SA_RESTORER
#define SA_RESTORER 0x04000000
#endif
using namespace tbox::event;

enum K { ENABLE, DISABLE, DESTROY, RAISE, ADDSIG, ENABLE_NOFD, ADDBAD, SETSIG, REARM, SWAP, CBSCRIPT, NK };
struct Op { int k, a; };
static const char *kN[] = {"enable", "disable", "destroy", "raise", "addsig", "enable_nofd", "addbad", "setsig", "rearm", "swap", "cbscript"};
// enable_nofd(e) = enable() while the process cannot get a new descriptor (pipe2/socketpair/eventfd fail with EMFILE around the call, see the seam below): on a loop that has no signal subscription the loop's
//                  notification pipe cannot be created, so enable() must return false and NOTHING may change (dispositions are compared at once); otherwise it is a plain enable()
// addbad(e)      = initialize(SIGSTOP, kPersist): the accumulated set now holds an uncatchable signal, every later enable() must fail as a whole and leave things as they were
//                  (only offered while the event has no pending added signal: what a failing enable() on an ENABLED event does to signals added since is a reading question)
// setsig(e)      = initialize(std::set{USR2}, kPersist) on a disabled event: this overload ASSIGNS
// rearm(e)       = disable(); enable(); as ONE task;  swap(e) = disable(e); enable(partner of e on the same loop: e0<->e1); as ONE task   (lane Ci: one runNext task in one pass)
static const int SWAP_TO[2] = {1, 0};
static int g_gen_cap = 1;      // saturation of the tear-down / restore generation counters in lane C's state key (C04_GEN_CAP, 2 in the thorough tier)
static const int NS = 4; static const int SIGS[NS] = {SIGUSR1, SIGUSR2, SIGKILL, SIGSTOP};
static const int NE = 9;
// event -> (loop, signals bitmask, oneshot); e4 is a one-shot event on a two-signal set; e5 subscribes SIGKILL only (its enable() must fail);
// e6 subscribes {SIGUSR1, SIGSTOP} (the uncatchable one comes second in the set; enable() must fail as a whole) and is only operated when the switch C04_MIXED_UNCATCHABLE_SET=1 is set (default off, see below)
// e7 (loop 1) is created WITHOUT initialize(); lane D initialises it later with addsig(e7), possibly after enable(e7)
// e8 {USR1} loop 0: third persistent USR1 subscriber of loop 0 for lane E (callback scripts)
static const int EV_LOOP[NE] = {0, 0, 1, 1, 0, 0, 0, 1, 0}; static const int EV_SIGS[NE] = {1, 3, 1, 2, 3, 4, 9, 0, 1}; static const bool EV_ONESHOT[NE] = {false, false, true, false, true, false, false, false, false};
// Lane E, callback scripts (cbscript(eX:what), set at most once per history, X in the ring e0 -> e1 -> e8 -> e0, all persistent subscribers of USR1 on loop 0): every time eX's signal
// callback runs it changes subscriptions of the SAME loop: disable the next / the previous event of the ring, disable both others, disable itself, or enable the next one.
// (The subscriber set is ordered by address, so next+previous cover "the one right after me" whatever the allocation order.) The unchanged code copies the subscriber set before
// dispatching for exactly this use; DESTROYING another event inside a signal callback is a documented FIXME of the library and is never generated.
// Model: an event disabled (or enabled) by an earlier callback of the same delivery may or may not be called for THAT delivery (at most once); from the next delivery on everything is exact.
enum CbWhat { CB_DIS_NEXT, CB_DIS_PREV, CB_DIS_OTHERS, CB_DIS_SELF, CB_EN_NEXT, CB_NWHAT };
static const char *cbN[] = {"disable-next", "disable-prev", "disable-others", "disable-self", "enable-next"};
static const int RING[3] = {0, 1, 8};
static int ring_pos(int e) { return e == 0 ? 0 : e == 1 ? 1 : 2; }
// targets of a script: bit mask over ring positions to disable, and the ring position to enable (-1 none)
static void cb_targets(int who, int what, int &dis, int &en) { int p = ring_pos(who), nx = (p + 1) % 3, pv = (p + 2) % 3; dis = 0; en = -1;
  switch (what) { case CB_DIS_NEXT: dis = 1 << nx; break; case CB_DIS_PREV: dis = 1 << pv; break; case CB_DIS_OTHERS: dis = (1 << nx) | (1 << pv); break; case CB_DIS_SELF: dis = 1 << p; break; case CB_EN_NEXT: en = nx; break; } }
static bool set_fails(int mask) { return (mask & 12) != 0; }     // POSIX: sigaction(SIGKILL | SIGSTOP) = EINVAL, so enable() of a set containing one must fail as a whole
// addsig(e) = "initialize again, adding one signal": the (int, Mode) and (initializer_list, Mode) overloads ACCUMULATE (as the library does; the std::set overload assigns and is
// used at construction only). The added signal is the first of USR1, USR2 not yet in the event's set (USR2 again when both are there). Reading used by the model: an added signal
// takes effect at the next enable() that returns true (before that the event keeps the subscriptions of its last enable()); from then on the enabled event must get its callbacks
// for the whole accumulated set and disable()/destroy must leave every disposition as it was before the first subscription.
static int add_bit(int want) { return !(want & 1) ? 1 : 2; }
// which initialize() overload builds the event: 0 (int, Mode)  1 (initializer_list, Mode)  2 (std::set, Mode)
static const int EV_INIT[NE] = {0, 1, 0, 0, 2, 0, 2, -1, 0};     // -1: not initialised at construction
// (was a defect switch; the defect is repaired, so this is on by default; C04_MIXED_UNCATCHABLE_SET=0 turns it off) lane C also offers enable(e6)/destroy(e6).
// Before the repair enable(e6) returned false but left SIGUSR1 subscribed for an event that reports isEnabled()==false; neither disable() nor the
// destructor unsubscribes it, so the disposition of SIGUSR1 is never restored and a delivery after destroy(e6) calls into the freed event.
static bool g_replay_keep_going = false;      // replay mode only (C04_REPLAY_KEEP_GOING=1): report a violation and carry on with the history
// (was a defect switch; repaired in /repo by a5defbb, on by default, C04_ADD_SIGNAL_THEN_DISABLE=0 turns it off) lane D also offers disable(e)/destroy(e) while the event is enabled and holds an
// added signal that no enable() has subscribed yet (enable; addsig; disable). On the current code disable() walks the whole accumulated set and unsubscribeSignal() of the
// never-subscribed signal "restores" a zero-filled old handler, i.e. installs SIG_DFL over the application's disposition of a signal the event never subscribed.
// With the switch off the closed system is: who adds a signal to an enabled event calls enable() again before disabling or destroying it.
static bool add_signal_then_disable() { const char *e = getenv("C04_ADD_SIGNAL_THEN_DISABLE"); return !(e && *e == '0'); }   // on by default since the repair a5defbb in /repo; =0 turns it off
static bool lane_c_destroy() { return hx::env_int("C04_LANE_C_DESTROY", 0) == 1; }      // destroy(e0) in lane C (configs 0 and 2): thorough tier
static bool mixed_uncatchable_set() { const char *e = getenv("C04_MIXED_UNCATCHABLE_SET"); return !(e && *e == '0'); }   // on by default since the repair (fix commit in /repo); =0 switches it off

// delivery scripts: all deliveries of a script happen before the loops get one pass each
struct Script { const char *name; int where; std::vector<int> sigs; };     // where: -1 controller thread, l = thread of loop l
static std::vector<Script> make_scripts() {
  std::vector<Script> v;
  v.push_back({"USR1", -1, {0}}); v.push_back({"USR2", -1, {1}});
  v.push_back({"USR1@L0thread", 0, {0}}); v.push_back({"USR2@L1thread", 1, {1}});
  v.push_back({"USR1,USR1", -1, {0, 0}}); v.push_back({"USR1,USR2", -1, {0, 1}});
  { Script s{"10xUSR1,USR2", -1, {}}; for (int i = 0; i < 10; i++) s.sigs.push_back(0); s.sigs.push_back(1); v.push_back(s); }
  { Script s{"21x(USR2,USR1..)", -1, {}}; for (int i = 0; i < 21; i++) s.sigs.push_back(i % 2 ? 0 : 1); v.push_back(s); }
  return v;
}
static const std::vector<Script> SCRIPTS = make_scripts();

// pre-subscription dispositions
enum Kind { K_IGN, K_DFL, K_PLAIN, K_INFO };
static const Kind CFG[3][2] = {{K_IGN, K_DFL}, {K_PLAIN, K_INFO}, {K_DFL, K_PLAIN}};
static volatile sig_atomic_t g_calls[2] = {0, 0}, g_bad[2] = {0, 0};
template <int I> static void sentinel_plain(int signo) { g_calls[I]++; if (signo != SIGS[I]) g_bad[I] = 1; }
template <int I> static void sentinel_info(int signo, siginfo_t *si, void *uc) { g_calls[I]++; if (signo != SIGS[I] || !si || si->si_signo != signo || !uc) g_bad[I] = 1; }

// reference model: pure function of the history (also used by the menu)
struct Model {
  int cbWho = -1, cbWhat = 0;      // the callback script in force (lane E)
  bool alive[NE], en[NE], os[NE]; int want[NE], act[NE]; int gen[2], cyc[NS];      // os: one-shot (mode of the LAST initialize() wins)
       // want: set accumulated by initialize() calls; act: set in force = want at the last successful enable()
       // gen[l]: loop l has dropped its last subscriber at least once; cyc[s]: signal s has been installed and restored at least once
  Model() { for (int e = 0; e < NE; e++) { alive[e] = true; en[e] = false; want[e] = act[e] = EV_SIGS[e]; os[e] = EV_ONESHOT[e]; } gen[0] = gen[1] = 0; for (int s = 0; s < NS; s++) cyc[s] = 0; }
  bool live(int e) const { return alive[e] && en[e]; }
  bool subS(int s) const { for (int e = 0; e < NE; e++) if (live(e) && (act[e] & (1 << s))) return true; return false; }
  bool pending_add(int e) const { return live(e) && act[e] != want[e]; }
  bool subL(int l) const { for (int e = 0; e < NE; e++) if (live(e) && act[e] != 0 && EV_LOOP[e] == l) return true; return false; }
  bool nofd_fails(int e) const { return !subL(EV_LOOP[e]); }      // the loop's pipe would have to be created
  void apply(const Op &o) {
    if (o.k == REARM) { apply({DISABLE, o.a}); apply({ENABLE, o.a}); return; }
    if (o.k == SWAP) { apply({DISABLE, o.a}); apply({ENABLE, SWAP_TO[o.a]}); return; }
    bool bl[2] = {subL(0), subL(1)}, bs[NS]; for (int s = 0; s < NS; s++) bs[s] = subS(s);
    switch (o.k) {
      case ENABLE: if (alive[o.a] && !set_fails(want[o.a])) { en[o.a] = true; act[o.a] = want[o.a]; } break;
      case ENABLE_NOFD: if (alive[o.a] && !set_fails(want[o.a]) && !nofd_fails(o.a)) { en[o.a] = true; act[o.a] = want[o.a]; } break;
      case ADDSIG: if (alive[o.a]) { if (o.a == 7 && want[o.a] != 0) os[o.a] = true; want[o.a] |= add_bit(want[o.a]); } break;      // e7's second and later addsig go through the list overload with kOneshot
      case ADDBAD: if (alive[o.a]) want[o.a] |= 8; break;
      case SETSIG: if (alive[o.a]) want[o.a] = 2; break;
      case DISABLE: en[o.a] = false; break;
      case DESTROY: alive[o.a] = false; en[o.a] = false; break;
      case CBSCRIPT: cbWho = RING[o.a / CB_NWHAT]; cbWhat = o.a % CB_NWHAT; break;
      case RAISE: { int mask = 0; for (int s : SCRIPTS[o.a].sigs) mask |= 1 << s; const bool fires = cbWho >= 0 && live(cbWho) && (act[cbWho] & mask);
        for (int e = 0; e < NE; e++) if (live(e) && os[e] && (act[e] & mask)) en[e] = false;
        if (fires) { int dis, enp; cb_targets(cbWho, cbWhat, dis, enp); for (int p = 0; p < 3; p++) if (dis & (1 << p)) en[RING[p]] = false;
          if (enp >= 0 && alive[RING[enp]]) { en[RING[enp]] = true; act[RING[enp]] = want[RING[enp]]; } } } break;
    }
    for (int l = 0; l < 2; l++) if (bl[l] && !subL(l) && gen[l] < g_gen_cap) gen[l]++;
    for (int s = 0; s < NS; s++) if (bs[s] && !subS(s) && cyc[s] < g_gen_cap) cyc[s]++;
  }
};

// Private members are read for the STATE KEY only, through probes (engine/probe.h): if a refactoring renames one, the harness still builds, reports "@INFO missing-member"
// and makes the key finer (last three ops). The oracle never looks at them.
VF_PROBE(is_inited_) VF_PROBE(signal_read_fd_) VF_PROBE(sp_signal_read_event_) VF_PROBE(run_next_func_queue_) VF_PROBE(run_in_loop_func_queue_)
template <class T> static auto key_sigset(T &im, int) -> decltype(im.sigset_.begin(), std::string()) { int m = 0; for (int sg : im.sigset_) for (int i = 0; i < NS; i++) if (sg == SIGS[i]) m |= 1 << i; return std::to_string(m); }
template <class T> static std::string key_sigset(T &, long) { vf_note_missing("sigset_"); return "?"; }
template <class T> static auto key_subscribers(T &cl, int) -> decltype(cl.all_signals_subscribers_.begin(), std::string()) { std::string c; for (auto &kv : cl.all_signals_subscribers_) c += std::to_string(kv.first) + "x" + std::to_string(kv.second.size()) + ","; return c; }
template <class T> static std::string key_subscribers(T &, long) { vf_note_missing("all_signals_subscribers_"); return "?"; }

static bool same_mask(const sigset_t &a, const sigset_t &b) { for (int s = 1; s < 65; s++) if (sigismember(&a, s) != sigismember(&b, s)) return false; return true; }

struct Worker {      // one loop on its own thread, executing closures handed over by the controller, one at a time
  Loop *loop = nullptr; std::thread th; std::mutex m; std::condition_variable cv; std::function<void()> job; bool has = false, done = false, quit = false; std::thread::id tid;
  sigset_t mask0; bool mask_changed = false;       // the thread's signal mask must be the same after every operation as when the thread started
  void start(const std::string &eng) { th = std::thread([this, eng] { { sigset_t b; sigemptyset(&b); sigaddset(&b, SIGHUP); sigaddset(&b, SIGWINCH); pthread_sigmask(SIG_BLOCK, &b, nullptr); }      // a non-empty initial mask: "restored" must mean restored to THIS, not to empty
      pthread_sigmask(SIG_SETMASK, nullptr, &mask0); loop = Loop::New(eng); tid = std::this_thread::get_id();
      for (;;) { std::function<void()> j; { std::unique_lock<std::mutex> lk(m); cv.wait(lk, [this] { return has || quit; }); if (quit && !has) break; j = job; has = false; }
        j(); { sigset_t cur; pthread_sigmask(SIG_SETMASK, nullptr, &cur); if (!same_mask(cur, mask0)) mask_changed = true; }
        { std::lock_guard<std::mutex> g(m); done = true; } cv.notify_all(); }
      delete loop; }); }
  void exec(std::function<void()> j) { { std::lock_guard<std::mutex> g(m); job = j; has = true; done = false; } cv.notify_all(); std::unique_lock<std::mutex> lk(m); cv.wait(lk, [this] { return done; }); }
  void stop() { { std::lock_guard<std::mutex> g(m); quit = true; } cv.notify_all(); th.join(); }
};

static bool same_disposition(const struct sigaction &a, const struct sigaction &b) {
  if ((a.sa_flags & ~SA_RESTORER) != (b.sa_flags & ~SA_RESTORER)) return false;
  if (a.sa_flags & SA_SIGINFO) { if (a.sa_sigaction != b.sa_sigaction) return false; } else if (a.sa_handler != b.sa_handler) return false;
  return same_mask(a.sa_mask, b.sa_mask);
}

int main(int argc, char **argv) {
  std::string eng = argc > 1 ? argv[1] : "epoll"; size_t depth = argc > 2 ? atoi(argv[2]) : 5; int cfg = argc > 3 ? atoi(argv[3]) : 1; std::string lane = argc > 4 ? argv[4] : "A";
  if (cfg < 0 || cfg > 2) cfg = 1;
  g_gen_cap = (int)hx::env_int("C04_GEN_CAP", 1);
  const bool laneB = lane[0] == 'B', laneC = lane[0] == 'C', laneD = lane[0] == 'D', laneE = lane[0] == 'E', inloop = lane == "Ci";
  hx::Explorer<Op> ex; ex.name = eng + "-cfg" + std::to_string(cfg) + "-lane" + lane; ex.deadline_s = hx::deadline_from_env(600);
  ex.fork_workers = (int)hx::env_int("VERIF_WORKERS", 4); ex.check_replay_determinism = true;
  ex.show = [](const Op &o) { char b[48]; if (o.k == CBSCRIPT) { snprintf(b, 48, "cbscript(e%d:%s)", RING[o.a / CB_NWHAT], cbN[o.a % CB_NWHAT]); return std::string(b); } if (o.k == RAISE) snprintf(b, 48, "raise(%s)", SCRIPTS[o.a].name); else snprintf(b, 48, "%s(e%d)", kN[o.k], o.a); return std::string(b); };
  ex.menu = [&](const std::vector<Op> &h) { std::vector<Op> m; Model md; for (auto &o : h) md.apply(o);
    if (laneE) { for (int p = 0; p < 3; p++) { m.push_back({ENABLE, RING[p]}); m.push_back({DISABLE, RING[p]}); }
      if (md.cbWho < 0) for (int i = 0; i < 3 * CB_NWHAT; i++) m.push_back({CBSCRIPT, i}); }
    else if (laneD) { const int evs[3] = {0, 3, 7}; for (int e : evs) { m.push_back({ENABLE, e}); if (add_signal_then_disable() || !md.pending_add(e)) { m.push_back({DISABLE, e}); if (e != 3) m.push_back({DESTROY, e}); } if (e != 3 && !(md.want[e] & 8)) m.push_back({ADDSIG, e}); }
      if (md.alive[0] && !(md.want[0] & 8) && !md.pending_add(0)) m.push_back({ADDBAD, 0}); if (md.alive[0] && !md.en[0]) m.push_back({SETSIG, 0}); }
    else if (inloop) { for (int e = 0; e < 3; e++) { m.push_back({ENABLE, e}); m.push_back({DISABLE, e}); if (e != 1) m.push_back({REARM, e}); } m.push_back({ENABLE, 5}); m.push_back({SWAP, 0}); m.push_back({DESTROY, 0}); }
    else if (laneC) { for (int e = 0; e < 3; e++) { m.push_back({ENABLE, e}); m.push_back({DISABLE, e}); } m.push_back({ENABLE, 5}); for (int e = 0; e < 3; e += 2) if (md.alive[e] && md.nofd_fails(e)) m.push_back({ENABLE_NOFD, e});      // only where it differs from a plain enable(): the loop's pipe would have to be created
      if (cfg != 1 && lane_c_destroy()) m.push_back({DESTROY, 0}); if (mixed_uncatchable_set() && cfg == 1 && !inloop) {      // e6 only in the direct lane C of config 1 (it doubles the lane's state space)
      m.push_back({ENABLE, 6}); m.push_back({DESTROY, 6}); } }
    else if (laneB) { for (int e = 0; e < 5; e++) { m.push_back({ENABLE, e}); m.push_back({DISABLE, e}); } }
    else { for (int e = 0; e < 5; e++) { m.push_back({ENABLE, e}); m.push_back({DISABLE, e}); m.push_back({DESTROY, e}); } }
    for (int i = laneB ? 2 : 0; i < (laneB ? (int)SCRIPTS.size() : 2); i++) {
      // a delivery of a signal whose disposition is (restored to) SIG_DFL terminates the process: not part of the closed system
      bool lethal = false; for (int s : SCRIPTS[i].sigs) if (CFG[cfg][s] == K_DFL && !md.subS(s)) lethal = true;
      if (!lethal) m.push_back({RAISE, i}); }
    return m; };
  ex.run = [&](const std::vector<Op> &h, std::string &viol) {
    // pre-subscription dispositions; handler, mask and flags differ per signal so that a partial or cross-signal restore is visible
    struct sigaction pre[2];
    for (int i = 0; i < 2; i++) { struct sigaction sa; memset(&sa, 0, sizeof sa); sigemptyset(&sa.sa_mask); sigaddset(&sa.sa_mask, i == 0 ? SIGHUP : SIGTERM); sa.sa_flags = i == 0 ? SA_RESTART : SA_NODEFER;
      switch (CFG[cfg][i]) { case K_IGN: sa.sa_handler = SIG_IGN; break; case K_DFL: sa.sa_handler = SIG_DFL; break;
        case K_PLAIN: sa.sa_handler = i == 0 ? sentinel_plain<0> : sentinel_plain<1>; break;
        case K_INFO: sa.sa_sigaction = i == 0 ? sentinel_info<0> : sentinel_info<1>; sa.sa_flags |= SA_SIGINFO; break; }
      sigaction(SIGS[i], &sa, nullptr); sigaction(SIGS[i], nullptr, &pre[i]); }
    Worker w[2]; w[0].start(eng); w[1].start(eng); w[0].exec([] {}); w[1].exec([] {});
    SignalEvent *ev[NE]; Model md; bool snap[NE], snapOs[NE], lenient[NE]; int snapAct[NE]; int calls[NE][NS]; std::string cbviol; std::mutex cbm;
    for (int e = 0; e < NE; e++) { snap[e] = false; snapOs[e] = false; lenient[e] = false; snapAct[e] = 0; for (int s = 0; s < NS; s++) calls[e][s] = 0; Worker &wk = w[EV_LOOP[e]];
      wk.exec([&, e] { ev[e] = wk.loop->newSignalEvent("e"); Event::Mode mode = EV_ONESHOT[e] ? Event::Mode::kOneshot : Event::Mode::kPersist;
        if (EV_INIT[e] < 0) { }
        else if (EV_INIT[e] == 0) { int one = -1; for (int i = 0; i < NS; i++) if (EV_SIGS[e] == (1 << i)) one = SIGS[i]; ev[e]->initialize(one, mode); }
        else if (EV_INIT[e] == 1 || (e == 4 && cfg != 1)) ev[e]->initialize({SIGUSR1, SIGUSR2}, mode);      // e4 (one-shot): list overload in configs 0 and 2, std::set overload in config 1
        else { std::set<int> ss; for (int i = 0; i < NS; i++) if (EV_SIGS[e] & (1 << i)) ss.insert(SIGS[i]); ev[e]->initialize(ss, mode); }
        ev[e]->setCallback([&, e](int signo) { std::lock_guard<std::mutex> g(cbm);
          if (std::this_thread::get_id() != w[EV_LOOP[e]].tid) cbviol = "callback-on-wrong-thread e" + std::to_string(e);
          if (!snap[e] && !lenient[e]) cbviol = "callback-on-disabled-or-destroyed-event e" + std::to_string(e);      // snap = alive && enabled when the deliveries were made
          int si = -1; for (int i = 0; i < NS; i++) if (signo == SIGS[i]) si = i;
          if (si < 0 || !((lenient[e] ? md.want[e] : snapAct[e]) & (1 << si))) { cbviol = "callback-with-unsubscribed-signal e" + std::to_string(e); return; }
          calls[e][si]++;
          if (e == md.cbWho) { int dis, enp; cb_targets(e, md.cbWhat, dis, enp);      // the callback script: change subscriptions of this loop from inside the signal callback
            for (int p = 0; p < 3; p++) if ((dis & (1 << p)) && md.alive[RING[p]]) ev[RING[p]]->disable();
            if (enp >= 0 && md.alive[RING[enp]] && !ev[RING[enp]]->enable()) cbviol = "enable-returned-false"; }
          if (snapOs[e] && ev[e]->isEnabled()) cbviol = "oneshot-still-enabled-in-callback"; }); }); }
    auto issue = [&](int e, std::function<void()> f) {      // run a subscription change on the event's loop thread: directly, or from a runNext task inside a kOnce pass
      Worker &wk = w[EV_LOOP[e]];
      if (!inloop) wk.exec(f); else wk.exec([&] { wk.loop->runNext(f); wk.loop->runLoop(Loop::Mode::kOnce); }); };
    for (auto &o : h) { if (!viol.empty()) { if (!g_replay_keep_going) break; printf("@INFO   (replay continues past: %s)\n", viol.c_str()); fflush(stdout); viol.clear(); cbviol.clear(); }
      switch (o.k) {
        case ENABLE: if (md.alive[o.a]) { bool r = true; issue(o.a, [&] { r = ev[o.a]->enable(); });
            const bool f = set_fails(md.want[o.a]); if (!f && !r) viol = "enable-returned-false"; if (f && r) viol = "enable-of-uncatchable-signal-returned-true"; } break;
        case ENABLE_NOFD: if (md.alive[o.a]) { bool r = true; const bool f = md.nofd_fails(o.a);
            issue(o.a, [&] { g_no_fd = 1; r = ev[o.a]->enable(); g_no_fd = 0; });
            if (!f && !r) viol = "enable-returned-false"; if (f && r) viol = "enable-without-a-free-descriptor-returned-true"; } break;
        case ADDBAD: if (md.alive[o.a]) { bool r = true; issue(o.a, [&] { r = ev[o.a]->initialize(SIGSTOP, Event::Mode::kPersist); }); if (!r) viol = "initialize-returned-false"; } break;
        case SETSIG: if (md.alive[o.a]) { bool r = true; issue(o.a, [&] { std::set<int> ss; ss.insert(SIGUSR2); r = ev[o.a]->initialize(ss, Event::Mode::kPersist); }); if (!r) viol = "initialize-returned-false"; } break;
        case REARM: if (md.alive[o.a]) { bool r = true; issue(o.a, [&] { ev[o.a]->disable(); r = ev[o.a]->enable(); }); if (!r) viol = "enable-returned-false"; } break;
        case SWAP: { const int to = SWAP_TO[o.a]; bool r = true; issue(o.a, [&] { if (md.alive[o.a]) ev[o.a]->disable(); if (md.alive[to]) r = ev[to]->enable(); }); if (!r) viol = "enable-returned-false"; } break;
        case ADDSIG: if (md.alive[o.a]) { bool r = true; const int bit = add_bit(md.want[o.a]), signo = SIGS[bit == 1 ? 0 : 1]; const bool list = o.a == 7 && md.want[o.a] != 0;
            issue(o.a, [&] { std::initializer_list<int> il = {signo}; r = list ? ev[o.a]->initialize(il, Event::Mode::kOneshot) : ev[o.a]->initialize(signo, Event::Mode::kPersist); });
            if (!r) viol = "initialize-returned-false"; } break;
        case DISABLE: if (md.alive[o.a]) issue(o.a, [&] { ev[o.a]->disable(); }); break;
        case DESTROY: if (md.alive[o.a]) issue(o.a, [&] { delete ev[o.a]; ev[o.a] = nullptr; }); break;
        case RAISE: {
          const Script &sc = SCRIPTS[o.a]; int nd[NS] = {0, 0, 0, 0}; for (int s : sc.sigs) nd[s]++; const int total = (int)sc.sigs.size();
          bool sub[2] = {md.subS(0), md.subS(1)};
          for (int e = 0; e < NE; e++) { snap[e] = md.live(e); snapOs[e] = md.os[e]; snapAct[e] = md.act[e]; for (int s = 0; s < NS; s++) calls[e][s] = 0; }
          for (int i = 0; i < 2; i++) g_calls[i] = g_bad[i] = 0;
          for (int e = 0; e < NE; e++) lenient[e] = false;
          if (md.cbWho >= 0 && snap[md.cbWho] && total == 1 && (snapAct[md.cbWho] & (1 << sc.sigs[0]))) { int dis, enp; cb_targets(md.cbWho, md.cbWhat, dis, enp);      // the script will run: its targets may or may not be called for this delivery
            for (int p = 0; p < 3; p++) if ((dis & (1 << p)) && RING[p] != md.cbWho) lenient[RING[p]] = true; if (enp >= 0 && !snap[RING[enp]]) lenient[RING[enp]] = true; }
          for (int s : sc.sigs) { if (sc.where < 0) raise(SIGS[s]);            // delivered to this (controller) thread before raise() returns
            else w[sc.where].exec([&] { raise(SIGS[s]); }); }                 // delivered to the loop's own thread (must not be left blocked there)
          for (int l = 0; l < 2; l++) w[l].exec([&, l] { w[l].loop->runNext([] {}); w[l].loop->runLoop(Loop::Mode::kOnce); });
          std::string tail = total == 1 ? "" : "-after-" + std::to_string(total) + "-deliveries-before-one-pass";
          for (int e = 0; e < NE && viol.empty(); e++) {
            if (lenient[e]) { int got = calls[e][0] + calls[e][1] + calls[e][2] + calls[e][3]; if (got > 1) viol = "event-changed-by-a-callback-got-" + std::to_string(got) + "-callbacks-for-one-delivery e" + std::to_string(e); continue; }
            if (!snap[e]) { if (calls[e][0] + calls[e][1] + calls[e][2] + calls[e][3]) viol = "non-subscriber-got-a-callback e" + std::to_string(e); continue; }
            if (snapOs[e]) { int want = 0, got = 0; for (int s = 0; s < NS; s++) if (snapAct[e] & (1 << s)) { if (nd[s]) want = 1; got += calls[e][s]; if (calls[e][s] && !nd[s]) viol = "callback-for-a-signal-that-was-not-delivered e" + std::to_string(e); }
              if (viol.empty() && got != want) viol = (got > 1 ? "oneshot-fired-" + std::to_string(got) + "-times" : "enabled-subscriber-got-" + std::to_string(got) + "-callbacks") + tail + " e" + std::to_string(e); }
            else for (int s = 0; s < NS && viol.empty(); s++) if (snapAct[e] & (1 << s)) { if (calls[e][s] != nd[s]) viol = (nd[s] == 0 ? std::string("callback-for-a-signal-that-was-not-delivered") : "enabled-subscriber-got-" + std::to_string(calls[e][s]) + "-callbacks" + (nd[s] == 1 ? "" : "-for-" + std::to_string(nd[s]) + "-deliveries")) + " e" + std::to_string(e) + " sig" + std::to_string(s); } }
          for (int i = 0; i < 2 && viol.empty(); i++) if (CFG[cfg][i] == K_PLAIN || CFG[cfg][i] == K_INFO) {
            if (g_calls[i] != nd[i]) viol = (nd[i] == 0 ? std::string("handler-of-another-signal-called-") : std::string(sub[i] ? "previously-installed-handler-called-" : "restored-handler-called-")) + std::to_string((int)g_calls[i]) + "-times" + (nd[i] > 1 ? "-for-" + std::to_string(nd[i]) + "-deliveries" : "") + " sig" + std::to_string(i);
            else if (g_bad[i]) viol = "previously-installed-handler-got-wrong-arguments sig" + std::to_string(i); }
          if (viol.empty() && !cbviol.empty()) viol = cbviol;
        } break; }
      md.apply(o);
      for (int l = 0; l < 2 && viol.empty(); l++) { std::string iv; w[l].exec([&] { for (int e = 0; e < NE; e++) if (md.alive[e] && EV_LOOP[e] == l && ev[e]->isEnabled() != md.en[e]) iv = "isEnabled-disagrees e" + std::to_string(e); }); viol = iv;
        if (viol.empty() && w[l].mask_changed) viol = "loop-thread-signal-mask-changed L" + std::to_string(l); }
      for (int si = 0; si < 2 && viol.empty(); si++) if (!md.subS(si)) { struct sigaction cur; sigaction(SIGS[si], nullptr, &cur); if (!same_disposition(cur, pre[si])) viol = std::string("disposition-not-restored-after-last-unsubscribe ") + (si ? "USR2" : "USR1"); }
    }
    // canonical state: model (incl. saturating teardown / restore generation counters, so that re-subscription after a teardown is explored) + the implementation's bookkeeping
    std::string c; for (int e = 0; e < NE; e++) { c += md.alive[e] ? (md.en[e] ? 'E' : 'd') : 'x'; }
    if (md.cbWho >= 0) c += "|cb" + std::to_string(md.cbWho) + ":" + std::to_string(md.cbWhat);
    c += "|w"; for (int e = 0; e < NE; e++) if (md.want[e] != EV_SIGS[e] || md.act[e] != EV_SIGS[e]) c += std::to_string(e) + ":" + std::to_string(md.want[e]) + "/" + std::to_string(md.act[e]) + ",";
    for (int e = 0; e < NE; e++) if (md.os[e] != EV_ONESHOT[e]) c += "o" + std::to_string(e);      // accumulated / in-force sets where they differ from the construction-time set
    c += "|s"; for (int e = 0; e < NE; e++) if (md.alive[e]) { auto *im = static_cast<SignalEventImpl *>(ev[e]); c += key_sigset(*im, 0) + (VF_GET(is_inited_, *im, true) ? "i" : "u"); }
    if (laneC) c += "|g" + std::to_string(md.gen[0]) + std::to_string(md.gen[1]) + "c" + std::to_string(md.cyc[0]) + std::to_string(md.cyc[1]);
    for (int l = 0; l < 2; l++) { auto *cl = static_cast<CommonLoop *>(w[l].loop); c += "|L" + std::to_string(l) + ":"; c += key_subscribers(*cl, 0);
      c += (VF_GET(signal_read_fd_, *cl, -1) >= 0 ? "P" : "-"); FdEvent *rd = VF_GET(sp_signal_read_event_, *cl, (FdEvent *)nullptr); c += rd ? (rd->isEnabled() ? "R" : "r") : "-";
      if (laneC) c += (VF_SIZE(run_next_func_queue_, *cl, (size_t)0) + VF_SIZE(run_in_loop_func_queue_, *cl, (size_t)0)) ? "q+" : "q0"; }      // deferred tasks (the postponed delete of the pipe reader) still queued; saturating, the queue length itself is unbounded
    c += "|ctx:"; for (auto &kv : _signal_ctxs_) c += std::to_string(kv.first) + "x" + std::to_string(kv.second.write_fds.size()) + ",";      // file-local (reached by including the .cpp): a rename breaks the build, probes cannot help
    if (vf_any_missing()) { c += "|h:"; for (size_t i = h.size() > 3 ? h.size() - 3 : 0; i < h.size(); i++) c += std::to_string(h[i].k) + "." + std::to_string(h[i].a) + ","; }      // a key member is gone: keep states apart by the last ops instead of merging them silently
    for (int e = 0; e < NE; e++) if (md.alive[e]) w[EV_LOOP[e]].exec([&] { if (md.pending_add(e) && !add_signal_then_disable()) ev[e]->enable();      // closed system with the switch off: enable() again before the event goes away
        delete ev[e]; });
    // every subscriber is destroyed now: both dispositions must be the pre-subscription ones
    for (int si = 0; si < 2 && viol.empty(); si++) { struct sigaction cur; sigaction(SIGS[si], nullptr, &cur); if (!same_disposition(cur, pre[si])) viol = std::string("disposition-not-restored-after-destroying-every-event ") + (si ? "USR2" : "USR1"); }
    w[0].stop(); w[1].stop();
    return c; };
  if (argc > 5) { g_replay_keep_going = hx::env_int("C04_REPLAY_KEEP_GOING", 0) == 1;
         // replay one history given as text, e.g. "enable(e0) disable(e0) enable(e0) raise(USR1)"; prints the canonical state and the violation (if any)
    std::vector<Op> h; std::string t; std::istringstream is(argv[5]);
    while (is >> t) { bool ok = false; for (int k = 0; k < NK && !ok; k++) if (k != RAISE) for (int e = 0; e < (k == CBSCRIPT ? 3 * CB_NWHAT : NE) && !ok; e++) if (t == ex.show({k, e})) { h.push_back({k, e}); ok = true; }
      for (int i = 0; i < (int)SCRIPTS.size() && !ok; i++) if (t == ex.show({RAISE, i})) { h.push_back({RAISE, i}); ok = true; }
      if (!ok) { printf("@INFO cannot parse op '%s'\n", t.c_str()); return 0; } }
    std::string v, c = ex.run(h, v); printf("@INFO replay %s: %s => %s  viol=[%s]\n", ex.name.c_str(), ex.hist_str(h).c_str(), c.c_str(), v.c_str()); return 0; }
  ex.explore(depth);
  return 0;
}
