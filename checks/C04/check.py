import time, vf
PID = "C04"
def main(tier, args):
    t0 = time.time()
    exe = vf.build("C04/signals", [vf.VERIF + "/checks/C04/harness.cpp"], vf.module_sources("event", exclude=("event/common_loop_signal.cpp",)), mode="asan",
                   plain_srcs=[vf.VERIF + "/engine/sched/log_stub.cpp"])
    depth, dl = (6, 80) if tier == "quick" else (8, 1200)
    res = vf.Result(); log = open(vf.BUILD + "/C04/log.txt", "w")
    jobs = [("%s:sentinel%d" % (e, s), [exe, e, str(depth), str(s)]) for e in ("epoll", "select") for s in (0, 1, 2)]
    if args.only: jobs = [j for j in jobs if j[0] == args.only]
    vf.run_procs(res, jobs, env={"VERIF_DEADLINE_S": str(dl), "VERIF_WORKERS": "3"}, log=log)
    vf.finish(PID, tier, res, t0,
              rule="BFS (depth %d, canonical-state dedup) over all histories of enable/disable/destroy on 5 real SignalEvents (single signal, two-signal set, one-shot on one signal, one-shot on a two-signal set) spread over two loops on two threads driven in lock-step, "
                   "interleaved with raise(SIGUSR1|SIGUSR2) + one pass of every loop; pre-installed disposition in {SIG_IGN, plain handler with mask+flags, SA_SIGINFO handler}; fork per evaluation; "
                   "oracle: exactly one callback per enabled subscriber on its loop's thread, none for others, old handler invoked once, one-shot at most once, sigaction() equals the pre-subscription disposition whenever a signal has no subscriber" % depth,
              assumptions=["signals are raised one at a time while no subscription change is in progress (as stated in the property)", "disposition compared as handler + sa_mask + (sa_flags & ~SA_RESTORER) (glibc always adds SA_RESTORER)"])
