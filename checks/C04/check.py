import time, vf
PID = "C04"
def main(tier, args):
    t0 = time.time()
    exe = vf.build("C04/signals", [vf.VERIF + "/checks/C04/harness.cpp"], vf.module_sources("event", exclude=("event/common_loop_signal.cpp",)), mode="asan",
                   plain_srcs=[vf.VERIF + "/engine/sched/log_stub.cpp"])
    depth, depth_b, depth_c, depth_c1, depth_ci, depth_d, depth_e, gen_cap, dl = (6, 6, 6, 5, 5, 4, 5, 1, 120) if tier == "quick" else (8, 7, 10, 8, 8, 7, 8, 2, 1200)
    cenv = {"VERIF_WORKERS": "2", "C04_GEN_CAP": str(gen_cap), "C04_LANE_C_DESTROY": "0" if tier == "quick" else "1"}
    res = vf.Result(); log = open(vf.BUILD + "/C04/log.txt", "w")
    jobs = [("%s:cfg%d:A" % (e, c), [exe, e, str(depth), str(c), "A"]) for e in ("epoll", "select") for c in (0, 1, 2)]
    jobs += [("%s:cfg1:B" % e, [exe, e, str(depth_b), "1", "B"], {"VERIF_WORKERS": "2"}) for e in ("epoll", "select")]
    jobs += [("%s:cfg%d:C" % (e, c), [exe, e, str(depth_c1 if c == 1 else depth_c), str(c), "C"], cenv) for e in ("epoll", "select") for c in (0, 1, 2)]
    jobs += [("%s:cfg%d:D" % (e, c), [exe, e, str(depth_d), str(c), "D"], {"VERIF_WORKERS": "2"}) for e in ("epoll", "select") for c in (1,)]
    jobs += [("%s:cfg1:Ci" % e, [exe, e, str(depth_ci), "1", "Ci"], cenv) for e in ("epoll", "select")]
    jobs += [("%s:cfg1:E" % e, [exe, e, str(depth_e), "1", "E"], {"VERIF_WORKERS": "2"}) for e in ("epoll", "select")]
    if args.only: jobs = [j for j in jobs if j[0] == args.only]
    vf.run_procs(res, jobs, env={"VERIF_DEADLINE_S": str(dl), "VERIF_WORKERS": "3"}, log=log)
    vf.finish(PID, tier, res, t0,
              rule="BFS with canonical-state dedup over op histories on real SignalEvents spread over two loops on two threads (each with SIGHUP+SIGWINCH blocked from the start) driven in lock-step (fork per evaluation); events: e0 {USR1} L0, e1 {USR1,USR2} L0, e2 one-shot {USR1} L1, e3 {USR2} L1, e4 one-shot {USR1,USR2} L0, "
                   "e5 {SIGKILL} L0, e6 {USR1,SIGSTOP} L0, e7 (created without initialize()) L1; all three initialize() overloads are used (int: e0,e2,e3,e5; initializer_list: e1 and, in configs 0 and 2, the one-shot e4; std::set: e6 and, in config 1, e4). "
                   "Lane A (depth %d, both engines x 3 disposition configs): enable/disable/destroy on e0..e4 + raise(USR1|USR2) on the controller thread followed by one pass of every loop. "
                   "Lane B (depth %d, both engines, config 1): enable/disable on e0..e4 + deliveries raised on a loop's own thread and several deliveries before one pass (USR1 twice; USR1 then USR2; 10xUSR1+USR2 = 11; 21 alternating: three reads of up to 10). "
                   "Lane C (depth %d; %d in config 1; both engines x 3 configs) re-subscription: enable/disable on e0,e1,e2 + enable(e5) (sigaction fails: enable must return false and subscribe nothing) "
                   "+ enable_nofd(e0|e2) = enable() while pipe2/socketpair/eventfd fail with EMFILE, offered when the loop has no subscription (its pipe cannot be created: enable must return false and change nothing, dispositions compared at once) "
                   "+ in config 1 enable(e6)/destroy(e6) (enable must fail as a whole and leave nothing subscribed)%s + single deliveries; the state key is extended by model counters 'loop l dropped its last subscriber' / 'signal s was restored' saturating at %d "
                   "and by 'deferred tasks still queued on loop l', so tear-down -> (pass | no pass) -> subscribe again -> deliveries is explored. "
                   "Lane Ci (depth %d, config 1): every op is ONE runNext task inside one kOnce pass of its loop: enable/disable on e0,e1,e2, enable(e5), rearm(e0|e2) = disable();enable(), swap = disable(e0);enable(e1), destroy(e0). "
                   "Lane D (depth %d, both engines, config 1) initialise-again: e0, e3, e7: enable/disable on all three, destroy on e0,e7; addsig (= initialize() again through the accumulating int / initializer_list overloads, adding the other signal; e7's list calls pass kOneshot: mode of the last initialize wins) on enabled and disabled events incl. enable() before any initialize(); "
                   "addbad(e0) = initialize(SIGSTOP) (every later enable must fail as a whole: on an enabled event it keeps its subscriptions, on a disabled one both USR signals are rolled back); setsig(e0) = initialize(std::set{USR2}) on the disabled event (assigns); + single deliveries; "
                   "model: the accumulated set takes effect at the next enable() that returns true, from then on the enabled event gets its callbacks for the whole set and disable/destroy restores every disposition. "
                   "Lane E (depth %d, both engines, config 1) callback scripts: e0 {USR1}, e1 {USR1,USR2}, e8 {USR1}, all persistent on loop 0: enable/disable + cbscript (set once: one event's signal callback, every time it runs, disables the next / the previous / both other events of the ring e0,e1,e8, disables itself, or enables the next one; never destroys) + single deliveries; "
                   "model: an event disabled or enabled by a callback of the same delivery gets 0 or 1 callback for that delivery, everything else and every later delivery is exact; memory safety is decided by ASan. "
                   "Pre-installed dispositions (USR1,USR2) in {(SIG_IGN,SIG_DFL), (plain handler, SA_SIGINFO handler), (SIG_DFL, plain handler)}, each signal with its own handler function, sa_mask and sa_flags; a delivery that would hit a (restored) SIG_DFL is not offered. "
                   "Oracle (reference model only): per delivery script every enabled persistent subscriber gets exactly as many callbacks per signal as that signal was delivered, with that signal number, on its loop's thread; a one-shot exactly one; nobody else any; "
                   "the pre-installed handler of each signal is invoked once per delivery of its own signal with (signo, siginfo->si_signo, non-null context) and never for the other signal; isEnabled() agrees with the model; enable() returns what the model says; "
                   "each loop thread's signal mask is the same (non-empty) after every operation as at thread start; sigaction() equals the pre-subscription disposition whenever a signal has no subscriber and after every event has been destroyed"
                   % (depth, depth_b, depth_c, depth_c1, "" if tier == "quick" else " + destroy(e0) in configs 0 and 2", gen_cap, depth_ci, depth_d, depth_e),
              assumptions=["deliveries happen only while no subscription change is in progress and subscription changes are never made inside a signal callback apart from the one-shot's own self-disable (DESIGN 1.7), except in lane E (disable/enable of events of the same loop from a persistent event's signal callback; destroying an event there is a documented FIXME of the library and is not generated)",
                           "disposition compared as handler + sa_mask + (sa_flags & ~SA_RESTORER) (glibc always adds SA_RESTORER)",
                           "several deliveries before one pass: the one-shot clause (at most once) takes precedence over one-callback-per-delivery; order of callbacks between signals is not checked",
                           "lanes B, C, Ci and D use reduced event sets / one disposition config (B, Ci, D); lane A's state key does not contain the re-subscription counters (lane C's does)",
                           "'descriptor table full' is produced by failing pipe2/socketpair/eventfd with EMFILE in the harness executable (plain pipe() is left alone: the sanitizer run-time needs it); the model assumes that subscribing on a loop that already has its pipe needs no new descriptor",
                           "between addsig on an enabled event and its next enable() the model expects the subscriptions of the last enable() (reading: additions take effect at enable()); addbad is only offered while no added signal is pending (what a failing enable() on an enabled event does to signals added since is not decided by the property)",
                           "private members are read for the state key only, through engine/probe.h (missing member -> @INFO missing-member and a finer key); the file-local _signal_ctxs_ and the class names SignalEventImpl/CommonLoop are named directly",
                           "switches (all default on since the repairs 4fe5a08 and a5defbb in /repo): C04_MIXED_UNCATCHABLE_SET=0 removes e6, C04_ADD_SIGNAL_THEN_DISABLE=0 removes disable/destroy of an enabled event holding a not yet subscribed added signal"])
