import os, shutil, time, vf
from concurrent.futures import ThreadPoolExecutor
PID = "C13"
D = vf.VERIF + "/checks/C13/"
STUB = D + "log_fmt_stub.cpp"      # C13's own log stub: formats every record (instrumented), see the file
REPO_SRCS = ["terminal", "event",
             "network/buffered_fd.cpp", "network/ip_address.cpp", "network/sockaddr.cpp", "network/socket_fd.cpp",
             "network/stdio_stream.cpp", "network/tcp_acceptor.cpp", "network/tcp_connection.cpp", "network/tcp_server.cpp",
             "util/buffer.cpp", "util/fd.cpp", "util/fs.cpp", "util/string.cpp", "util/split_cmdline.cpp",
             "base/catch_throw.cpp", "base/backtrace.cpp", "base/recorder.cpp"]


def main(tier, args):
    t0 = time.time()
    srcs = vf.module_sources(*REPO_SRCS)
    b = lambda n: vf.build("C13/" + n, [D + n + "_harness.cpp", STUB], srcs, mode="asan")
    editor = b("editor")                       # compiles the repo objects (cached) in parallel with the first harness
    with ThreadPoolExecutor(2) as ex:
        cmd, fe = list(ex.map(b, ["cmd", "fe"]))
    quick = tier == "quick"
    print("C13: build %.1fs" % (time.time() - t0))
    # quick: the full length-4 sweep goes through onTcpReceived directly (exact-capacity buffers), the socket path gets length<=3 + all frames
    ed_depth, cmd_depth, fe_len, fe_len_sock, dl = (6, 4, 4, 3, 60) if quick else (8, 6, 5, 5, 1200)
    dl = int(os.environ.get("VERIF_DEADLINE_S", dl))
    jobs = []
    # single-process searches first, the sharded front-end sweeps fill the remaining slots and time
    hist_parts = 2 if quick else 4       # the long-history lanes are partitioned by the first command
    for L in (21, 20, 1, 0):
        for part in range(hist_parts if L >= 20 else 1):
            jobs.append(("cmd:hist%d:%d" % (L, part), [cmd, str(L), str(cmd_depth), str(part), str(hist_parts if L >= 20 else 1)]))
    # navigation lane (directories, a directory cycle, deleted nodes; cd/ls/tree/pwd/help/paths/!!), partitioned by the first command
    nav_depth, nav_parts, tok_len, tok_shards = (3, 3, 5, 1) if quick else (4, 6, 6, 2)
    for part in range(nav_parts):
        jobs.append(("cmd:nav:%d" % part, [cmd, "nav", str(nav_depth), str(part), str(nav_parts)]))
    # tokenizer lane: every line of length <= tok_len over {p a SPACE ' " ; !}
    for sh in range(tok_shards):
        jobs.append(("cmd:tok:%d" % sh, [cmd, "tok", str(tok_len), str(sh), str(tok_shards)]))
    # the command, navigation and tokenizer lanes once more with echo and with quiet-mode sessions
    for opts in ("echo", "quiet"):
        for part in range(hist_parts):
            jobs.append(("cmd:hist20:%d:%s" % (part, opts), [cmd, "20", str(cmd_depth), str(part), str(hist_parts)], {"C13_OPTS": opts}))
        for part in range(nav_parts):
            jobs.append(("cmd:nav:%d:%s" % (part, opts), [cmd, "nav", str(nav_depth), str(part), str(nav_parts)], {"C13_OPTS": opts}))
        jobs.append(("cmd:tok:0:%s" % opts, [cmd, "tok", str(tok_len if quick else tok_len - 1), "0", "1"], {"C13_OPTS": opts}))
    # lines longer than the small-string buffer: 19 stored lines of 20 characters, recalled and edited
    jobs.append(("editor:echo:prefill19:long-lines", [editor, "echo", str(ed_depth), "19"], {"C13_LONG": "1"}))
    jobs.append(("editor:noecho:prefill19:long-lines:glue-all", [editor, "noecho", str(ed_depth), "19"], {"C13_LONG": "1", "C13_GLUE": "all", "C13_ENTER": "lf"}))
    for mode in ("echo", "noecho", "quiet"):
        for pre in (19, 0):
            jobs.append(("editor:%s:prefill%d" % (mode, pre), [editor, mode, str(ed_depth), str(pre)]))
    # the other three byte encodings of Enter (bare CR, bare LF, CR NUL), one key per segment
    for enter in ("cr", "lf", "crnul"):
        for mode, pre in (("echo", 0), ("noecho", 19)):
            jobs.append(("editor:%s:prefill%d:enter-%s" % (mode, pre, enter), [editor, mode, str(ed_depth), str(pre)], {"C13_ENTER": enter}))
    # several keys per segment: the whole history in ONE onRecvString call / adjacent pairs of keys (both parities); a bare CR
    # is used for an Enter only where it ends its segment
    for glue in ("all", "pairs0", "pairs1"):
        for mode, pre, enter in (("echo", 0, "crlf"), ("noecho", 19, "lf"), ("quiet", 0, "crnul"), ("echo", 19, "cr")):
            jobs.append(("editor:%s:prefill%d:glue-%s:enter-%s" % (mode, pre, glue, enter), [editor, mode, str(ed_depth), str(pre)], {"C13_ENTER": enter, "C13_GLUE": glue}))
    # second alphabet: 0x08 as Backspace and keys the reference editor ignores (TAB, Insert, PgUp/PgDn, F-keys, Alt+x, lone ESC, ...)
    for mode, pre, glue in (("echo", 0, "none"), ("noecho", 19, "none"), ("echo", 0, "all"), ("quiet", 19, "pairs1")):
        jobs.append(("editor:%s:prefill%d:alias-keys:glue-%s" % (mode, pre, glue), [editor, mode, str(ed_depth), str(pre)], {"C13_ALPHA": "alias", "C13_GLUE": glue}))
    # two sessions on one Terminal, keys interleaved: per-session line / cursor / history / scanner state must not leak
    for mode, glue in (("echo", "none"), ("noecho", "pairs0")):
        jobs.append(("editor:%s:prefill0:two-sessions:glue-%s" % (mode, glue), [editor, mode, str(ed_depth), "0"], {"C13_TWIN": "1", "C13_GLUE": glue}))
    for m, flen, nshard in (("direct", fe_len, 6), ("sock", fe_len_sock, 1 if quick else 6)):
        for s in range(nshard):
            for f in ("telnetd", "tcprpc"):
                jobs.append(("fe:%s:%s:%d" % (f, m, s), [fe, f, m, str(flen), str(s), str(nshard)]))
    if args.only:
        jobs = [j for j in jobs if j[0].startswith(args.only)]
    res = vf.Result(); os.makedirs(vf.BUILD + "/C13", exist_ok=True); log = open(vf.BUILD + "/C13/log.txt", "w")
    # sanitizer reports are not symbolized during the sweep (0.1 s each); the first 3 inputs of every signature are
    # re-run by the harness itself (--one) with symbolization to get file:line
    env = {"VERIF_DEADLINE_S": str(dl), "C13_DEADLINE_EPOCH": str(int(time.time()) + dl), "ASAN_OPTIONS": "detect_leaks=0:abort_on_error=0:symbolize=0", "UBSAN_OPTIONS": "print_stacktrace=0:symbolize=0"}
    os.makedirs("/tmp/c13-sock", exist_ok=True)
    try:
        vf.run_procs(res, jobs, env=env, log=log)
    finally:
        shutil.rmtree("/tmp/c13-sock", ignore_errors=True)
    # at most 3 replays per signature over all processes (the counters keep the totals)
    seen, kept = {}, []
    for v in res.viols:
        seen[v[0]] = seen.get(v[0], 0) + 1
        if seen[v[0]] <= 3:
            kept.append(v)
    res.stats["violating_cases_printed"] = len(kept)
    res.viols = kept
    vf.finish(PID, tier, res, t0,
              rule="(1a, engine H, BFS, every history replayed in a crash-contained child) all keystroke histories over {a, b, BS, DEL, LEFT, RIGHT, HOME, END, UP, DOWN, ENTER}, depth<=%d, each key sent as its unsplit "
                   "byte encoding through Terminal::onRecvString on a fresh session behind a fake Connection, with echo / without echo / quiet mode, on an empty and on a 19-entry history; "
                   "the probe node is mounted under every line over {a,b} that fits the bound so argv[0] is the executed line; oracle after every key = reference line editor + 20-entry history "
                   "(executed line, exactly one '# ' prompt per Enter (none in quiet mode), cursor<=length, line/cursor/history/history-index equal to the reference); "
                   "state = (line, cursor, history, history index) of implementation and reference; Enter as CR LF, and in further runs as bare CR, bare LF and CR NUL. "
                   "(1a-glue) the same histories with the keys of a history glued into ONE onRecvString call, and in adjacent pairs (both parities), Enter as CR LF / LF / CR NUL / CR-where-it-ends-the-segment: "
                   "oracle per segment = the sequence of executed lines, one prompt per Enter in the segment, and line/cursor/history after the segment, all from the same reference editor. "
                   "(1a-two-sessions) the same histories while a second session on the same Terminal (own connection, own reference) receives one key of the cycle {b, LEFT, a, ENTER, UP, ENTER} after every segment of "
                   "the first; both sessions judged after each of their segments. "
                   "(1a-long) prefill of 19 stored lines of 20 characters (heap strings, beyond the 15-byte small-string buffer), recalled and edited; nothing mounted, the executed line is read from the shell's "
                   "\"Error: '<line>' not found.\" answer; one key per segment and whole history glued. The two-session key carries the phase of the second session's cycle. "
                   "(1a-alias) a second key alphabet {a, LEFT, UP, ENTER, 0x08 (the reference treats it as Backspace), TAB, Insert, PgUp, PgDn, F1, F5, F12, Alt+a, Ctrl+Alt+a (C2 81), C2 A1, the unknown CSI 'ESC [ 9', a lone ESC "
                   "(one-key-per-segment runs only)}: the reference editor ignores every key it does not know. "
                   "(1b, engine H, BFS, every history replayed in a crash-contained child) command sequences of <=%d commands from {p a, p b c, history, exit, !!, !n for n in "
                   "{0,1,19,20,21,-1,-20,-21,2147483647,-2147483648,99999999999,-99999999999,x}, the plain chain 'p a;p b c' (two calls, stored verbatim, re-run by !!/!n), three ';'-chains with a history reference "
                   "that is not their last command (calls judged, storage adopted; later lines of the same segment then only prompt-judged), a 26-character probe line and a chain around it with '!!' (heap strings), "
                   "'p %%s%%n%%s%%s' and the unknown command '%%n' (the executable's log stub really formats every record, so a client line used as a format string is a crash / ASan report)}; prefill lines are 22+ characters; each either in its own segment followed by a real loop pass or glued to the previous "
                   "command's segment, on prefilled histories of length {0,1,20,21}; oracle = one prompt per command line, probe argv of the addressed entry or an error message when it does not "
                   "exist, listing and stored history equal to the most recent 20 stored lines, exit ends the session on the next loop pass, no crash / sanitizer report / exception / hang. "
                   "(1c, engine H, navigation lane) sequences of <=%d commands from 54 (cd / ls / tree / pwd / help with relative, absolute, '.', '..', above-root, cyclic, deleted and function paths; bare directory names; function "
                   "paths 'd/f x', '/p a', 'e/top/p b', '../p c'; unknown names; paths THROUGH a function or a deleted node ('p/x', 'd/f/q y', 'z/q', 'ls d/x/y', 'cd z/..'); command words and help paths that resolve to the root ('/', '.', '..', 'help /', 'help .'); three function nodes that change the tree while the session may be inside the directory concerned: /drop_d and /drop_e delete the directory node d / d/e without unmounting it, "
                   "/rm_d unmounts and deletes d (the reference tree carries the same changes: a deleted working directory or ancestor makes named paths from it unresolvable, '.', '..' and absolute paths still follow the "
                   "stored names; error texts not judged); !!, !0, history) on a node tree with nested directories, a directory mounted below itself, the root mounted below, a deleted function node and a "
                   "deleted directory node that are still mounted, and two names that were mounted and unmounted again; oracle from a reference path model: a function path runs the probe once with the line's words, a path that does not resolve or addresses a deleted node "
                   "runs nothing and reports an error, cd / bare directory move the current directory (compared after every line, and through pwd's output), built-ins run no probe, one prompt per line, every line stored; "
                   "state adds the current directory. "
                   "(1d, engine I, tokenizer lane) every line of length <=%d over {p, a, SPACE, ', \", ;, !, /} + CR LF on a fresh session with a one-entry history: no crash / exception / hang, exactly one prompt; for lines "
                   "without ';', '!' and '/' the probe's argv equals a reference tokenizer written to the conventions of util/split_cmdline_test.cpp, an unclosed quote or an unknown command name is an error and runs nothing. "
                   "(1b/1c/1d options) cmd:hist20, both navigation partitions and the tokenizer lane are run again on echo sessions (answers cut after the echoed line) and on quiet-mode sessions (no prompt at all, "
                   "one line per segment). The loop is pumped after every segment unconditionally. "
                   "(2, engine I) real Telnetd and TcpRpc listening on a unix stream socket with a real epoll loop, fresh client connection per case: every byte string of length<=%d (mode direct) / <=%d (mode sock) over "
                   "{IAC,SB,SE,WILL,DO,NOP,1,31,ESC,'[','A','3','~',CR,LF,NUL,'a',0xC2,0x80} in every 2-way segmentation, every prefix truncation of well-formed NAWS/TTYPE/TSPEED/negotiation "
                   "frames and NAWS-style frames with 0..5 payload bytes (every 2-way segmentation, and with the last segment filling the receive buffer exactly), exit/quit teardown inputs; "
                   "teardown-eof: 17 inputs (exit, double exit, 'p 1', 'p 1' + exit, empty, partial line, CR, ESC, IAC, IAC DO, unterminated and half-terminated NAWS) whose last segment is followed IN THE SAME STEP by close() or "
                   "shutdown(SHUT_WR) of the client socket - a line sent before the EOF must still have run exactly once; second-client: a first client has typed 'p 7' without Enter while a second client goes through every "
                   "frame (every 2-way segmentation, probe included), every teardown input and every teardown-eof input, then the first client sends CR LF and must be answered by PROBE<7> exactly once; "
                   "every input that ends the session (all teardown, teardown-eof and node-ends-session cases) must leave the front end without a session for that client and the client reading EOF once the loop is idle; "
                   "after the client's close no session may be left (session-left-behind is a violation); node-ends-session: a mounted command whose callback calls Session::endSession(), alone, doubled, followed by "
                   "'p 1' in the same / the next segment, with EOF, with a second client; the probe keeps a copy of its Session the way an application does: it must be valid and sendable while the session lives and "
                   "isValid() must be false after every kind of end; format-directives: 'p %%s%%n%%s%%s', '%%n', '%%s%%s%%s%%s%%s%%s', 'p %%999999d%%n' in every 2-way segmentation; "
                   "session liveness is asked through the public Connection::isValid of the sessions the Spy saw opened; "
                   "delivered through the socket (mode sock) and directly into the service's onTcpReceived with an exact-capacity Buffer (mode direct); oracle = child survives, no ASan/UBSan "
                   "report, no exception, and after 'NUL NUL IAC SE CR LF' the session executes a probe command exactly once and its answer arrives on the socket"
                   % (ed_depth, cmd_depth, nav_depth, tok_len, fe_len, fe_len_sock),
              assumptions=["history navigation conventions and the storage rule of DESIGN 1.7 (Down past the newest entry gives an empty line; stored lines = non-empty executed lines other than "
                           "'history' and failed '!' references, '!' references stored in expanded form); 'history' numbers entries from 0 the way !n addresses them",
                           "an error report is any answer containing 'Error'/'error' with no command executed",
                           "Enter is encoded as CR LF, CR NUL, LF, or a CR that ends its segment; a CR followed in the same segment by another byte is not generated",
                           "keys outside the stated reference editor (TAB, Insert, PgUp/PgDn, F-keys, Alt/Ctrl+Alt combinations, lone ESC, unknown sequences) leave line, cursor and history unchanged; 0x08 is Backspace",
                           "path conventions of the navigation lane follow the shell's own: a leading '/' starts at the root, '.' and empty names stay, '..' at the root does not resolve (the command then changes nothing), "
                           "a name resolves only inside an existing directory, the current directory is the list of names entered (a cycle makes it longer), pwd prints '/' + those names joined by '/'; whether a failing "
                           "cd / ls / tree / help prints an error is not judged, the content of ls / tree / help output is not judged (only: no probe call, one prompt, no '# ' inside)",
                           "tokenizer conventions are those pinned by util/split_cmdline_test.cpp; lines where text follows a closing quote of a quote-started word, or whose command name is empty, are judged for crash / prompt only; "
                           "what a line with an unclosed quote leaves in the history is not judged",
                           "a line whose bytes reach the server together with the client's EOF is executed exactly once (holds for data-then-EOF ordering of a stream socket); what runs after an 'exit' in the same segment is not judged",
                           "quiet-mode sessions: the clause checked is 'no prompt, line executed once' (DESIGN 1.7)",
                           "an unterminated telnet sub-negotiation legitimately swallows the bytes that follow, so the probe is preceded by NUL NUL IAC SE CR LF",
                           "an idle real loop (epoll_wait would block) is the point where the harness client takes its next step (interposed epoll_wait)",
                           "mode direct bypasses BufferedFd for the received bytes only (replies still go through the real connection); mode sock uses the unmodified path",
                           "a node that calls Session::endSession() followed by 'exit' in the same segment is explored (C13_NODE_END_THEN_EXIT=0 turns it off); before the repair in /repo the front ends threw map::at into the loop",
                           "a Terminal-side SessionContext that stays allocated after a node ended the session through the connection is not judged (no crash, not a client-visible effect)",
                           "sessions are de-pooled (ObjectPool keep_number_=0) so that use of a freed session is visible to ASan"])
