import os, shutil, time, vf
from concurrent.futures import ThreadPoolExecutor
PID = "C13"
D = vf.VERIF + "/checks/C13/"
STUB = [vf.VERIF + "/engine/sched/log_stub.cpp"]
REPO_SRCS = ["terminal", "event",
             "network/buffered_fd.cpp", "network/ip_address.cpp", "network/sockaddr.cpp", "network/socket_fd.cpp",
             "network/stdio_stream.cpp", "network/tcp_acceptor.cpp", "network/tcp_connection.cpp", "network/tcp_server.cpp",
             "util/buffer.cpp", "util/fd.cpp", "util/fs.cpp", "util/string.cpp", "util/split_cmdline.cpp",
             "base/catch_throw.cpp", "base/backtrace.cpp", "base/recorder.cpp"]


def main(tier, args):
    t0 = time.time()
    srcs = vf.module_sources(*REPO_SRCS)
    b = lambda n: vf.build("C13/" + n, [D + n + "_harness.cpp"], srcs, mode="asan", plain_srcs=STUB)
    editor = b("editor")                       # compiles the repo objects (cached) in parallel with the first harness
    with ThreadPoolExecutor(2) as ex:
        cmd, fe = list(ex.map(b, ["cmd", "fe"]))
    quick = tier == "quick"
    print("C13: build %.1fs" % (time.time() - t0))
    # quick: the full length-4 sweep goes through onTcpReceived directly (exact-capacity buffers), the socket path gets length<=3 + all frames
    ed_depth, cmd_depth, fe_len, fe_len_sock, dl = (6, 4, 4, 3, 60) if quick else (8, 6, 5, 5, 1200)
    dl = int(os.environ.get("VERIF_DEADLINE_S", dl))
    jobs = []
    # single-process searches first, the sharded front-end sweeps fill the remaining slots and time
    for L in (21, 20, 1, 0):
        jobs.append(("cmd:hist%d" % L, [cmd, str(L), str(cmd_depth)]))
    for mode in ("echo", "noecho", "quiet"):
        for pre in (19, 0):
            jobs.append(("editor:%s:prefill%d" % (mode, pre), [editor, mode, str(ed_depth), str(pre)]))
    # the other three byte encodings of Enter (bare CR, bare LF, CR NUL), one key per segment
    for enter in ("cr", "lf", "crnul"):
        for mode, pre in (("echo", 0), ("noecho", 19)):
            jobs.append(("editor:%s:prefill%d:enter-%s" % (mode, pre, enter), [editor, mode, str(ed_depth), str(pre)], {"C13_ENTER": enter}))
    for m, flen, nshard in (("direct", fe_len, 6), ("sock", fe_len_sock, 1 if quick else 6)):
        for s in range(nshard):
            for f in ("telnetd", "tcprpc"):
                jobs.append(("fe:%s:%s:%d" % (f, m, s), [fe, f, m, str(flen), str(s), str(nshard)]))
    if args.only:
        jobs = [j for j in jobs if j[0].startswith(args.only)]
    res = vf.Result(); os.makedirs(vf.BUILD + "/C13", exist_ok=True); log = open(vf.BUILD + "/C13/log.txt", "w")
    # sanitizer reports are not symbolized during the sweep (0.1 s each); the first 3 inputs of every signature are
    # re-run by the harness itself (--one) with symbolization to get file:line
    env = {"VERIF_DEADLINE_S": str(dl), "C13_DEADLINE_EPOCH": str(int(time.time()) + dl), "ASAN_OPTIONS": "detect_leaks=0:abort_on_error=0:symbolize=0", "UBSAN_OPTIONS": "print_stacktrace=0:symbolize=0"}
    os.makedirs("/tmp/c13-sock", exist_ok=True)
    try:
        vf.run_procs(res, jobs, env=env, log=log)
    finally:
        shutil.rmtree("/tmp/c13-sock", ignore_errors=True)
    # at most 3 replays per signature over all processes (the counters keep the totals)
    seen, kept = {}, []
    for v in res.viols:
        seen[v[0]] = seen.get(v[0], 0) + 1
        if seen[v[0]] <= 3:
            kept.append(v)
    res.stats["violating_cases_printed"] = len(kept)
    res.viols = kept
    vf.finish(PID, tier, res, t0,
              rule="(1a, engine H, BFS, every history replayed in a crash-contained child) all keystroke histories over {a, b, BS, DEL, LEFT, RIGHT, HOME, END, UP, DOWN, ENTER}, depth<=%d, each key sent as its unsplit "
                   "byte encoding through Terminal::onRecvString on a fresh session behind a fake Connection, with echo / without echo / quiet mode, on an empty and on a 19-entry history; "
                   "the probe node is mounted under every line over {a,b} that fits the bound so argv[0] is the executed line; oracle after every key = reference line editor + 20-entry history "
                   "(executed line, exactly one '# ' prompt per Enter (none in quiet mode), cursor<=length, line/cursor/history/history-index equal to the reference); "
                   "state = (line, cursor, history, history index) of implementation and reference. "
                   "(1b, engine H, BFS, every history replayed in a crash-contained child) command sequences of <=%d commands from {p a, p b c, history, exit, !!, !n for n in "
                   "{0,1,19,20,21,-1,-20,-21,2147483647,-2147483648,99999999999,-99999999999,x}}, each either in its own segment followed by a real loop pass or glued to the previous "
                   "command's segment, on prefilled histories of length {0,1,20,21}; oracle = one prompt per command line, probe argv of the addressed entry or an error message when it does not "
                   "exist, listing and stored history equal to the most recent 20 stored lines, exit ends the session on the next loop pass, no crash / sanitizer report / exception / hang. "
                   "(2, engine I) real Telnetd and TcpRpc listening on a unix stream socket with a real epoll loop, fresh client connection per case: every byte string of length<=%d (mode direct) / <=%d (mode sock) over "
                   "{IAC,SB,SE,WILL,DO,NOP,1,31,ESC,'[','A','3','~',CR,LF,NUL,'a',0xC2,0x80} in every 2-way segmentation, every prefix truncation of well-formed NAWS/TTYPE/TSPEED/negotiation "
                   "frames and NAWS-style frames with 0..5 payload bytes (every 2-way segmentation, and with the last segment filling the receive buffer exactly), exit/quit teardown inputs; "
                   "delivered through the socket (mode sock) and directly into the service's onTcpReceived with an exact-capacity Buffer (mode direct); oracle = child survives, no ASan/UBSan "
                   "report, no exception, and after 'NUL NUL IAC SE CR LF' the session executes a probe command exactly once and its answer arrives on the socket"
                   % (ed_depth, cmd_depth, fe_len, fe_len_sock),
              assumptions=["history navigation conventions and the storage rule of DESIGN 1.7 (Down past the newest entry gives an empty line; stored lines = non-empty executed lines other than "
                           "'history' and failed '!' references, '!' references stored in expanded form); 'history' numbers entries from 0 the way !n addresses them",
                           "an error report is any answer containing 'Error'/'error' with no command executed",
                           "quiet-mode sessions: the clause checked is 'no prompt, line executed once' (DESIGN 1.7)",
                           "an unterminated telnet sub-negotiation legitimately swallows the bytes that follow, so the probe is preceded by NUL NUL IAC SE CR LF",
                           "an idle real loop (epoll_wait would block) is the point where the harness client takes its next step (interposed epoll_wait)",
                           "mode direct bypasses BufferedFd for the received bytes only (replies still go through the real connection); mode sock uses the unmodified path",
                           "sessions are de-pooled (ObjectPool keep_number_=0) so that use of a freed session is visible to ASan"])
