// C13 shared pieces: fake Connection, byte escaping, idle-loop seam, persistent crash-contained worker.
#pragma once
#include <tbox/event/loop.h>
#include <tbox/event/common_loop.h>
#include <tbox/terminal/terminal.h>
#include <tbox/terminal/connection.h>
#include <tbox/terminal/session.h>
#include <tbox/terminal/impl/terminal.h>
#include <tbox/terminal/impl/session_context.h>
#include <sys/epoll.h>
#include <sys/syscall.h>
#include <sys/wait.h>
#include <fcntl.h>
#include <unistd.h>
#include <algorithm>
#include <csignal>
#include <ctime>
#include <cstdio>
#include <cstring>
#include <functional>
#include <string>
#include <vector>

namespace c13 {
using namespace tbox; using namespace tbox::terminal;

// ---- idle seam: an epoll loop that would block with nothing ready gets a stop request instead --------------
static event::CommonLoop *g_idle_loop = nullptr;
static long g_idle_stops = 0;
static std::function<bool()> g_idle_step;   // harness step taken when the loop is idle; false = no step left
}  // namespace c13
extern "C" int epoll_wait(int epfd, struct epoll_event *ev, int maxev, int timeout) {
  int n = (int)syscall(SYS_epoll_wait, epfd, ev, maxev, 0);
  if (n != 0 || timeout == 0) return n;
  if (!c13::g_idle_loop) return (int)syscall(SYS_epoll_wait, epfd, ev, maxev, timeout);
  // idle: nothing ready and nothing deferred. Let the harness take its next step (the loop then iterates once more,
  // running whatever the step deferred), or stop the loop when there is no step left.
  c13::g_idle_stops++;
  if (c13::g_idle_step && c13::g_idle_step()) return 0;
  c13::g_idle_loop->stopLoop();
  return 0;
}
namespace c13 {
// run the real loop until it has nothing left to do (fd events, deferred closures and their follow-ups)
inline void pump(event::Loop *loop) {
  g_idle_loop = static_cast<event::CommonLoop *>(loop);
  loop->runNext([] {});                 // first poll with zero timeout
  loop->runLoop(event::Loop::Mode::kForever);
  g_idle_loop = nullptr;
}
// run the loop once; every time it becomes idle the next step is taken; returns when idle after the last step
inline void run_steps(event::Loop *loop, const std::vector<std::function<void()>> &steps) {
  size_t i = 0;
  g_idle_step = [&]() -> bool { if (i >= steps.size()) return false; steps[i++](); return true; };
  struct Reset { ~Reset() { g_idle_step = nullptr; g_idle_loop = nullptr; } } reset;
  g_idle_loop = static_cast<event::CommonLoop *>(loop);
  loop->runNext([] {});
  loop->runLoop(event::Loop::Mode::kForever);
}

// deadline of this process: VERIF_DEADLINE_S from its own start, but never past the check-wide wall-clock deadline
// C13_DEADLINE_EPOCH set by check.py (processes that start late still stop with the others)
inline double deadline(double dflt_s) {
  double d = hx::deadline_from_env(dflt_s); const char *e = getenv("C13_DEADLINE_EPOCH");
  if (e) { double rem = atof(e) - (double)time(nullptr); d = std::min(d, hx::now_s() + std::max(rem, 2.0)); }
  return d;
}

inline std::string esc(const std::string &s) {
  std::string o; char b[8];
  for (unsigned char c : s) {
    if (c == '\\') o += "\\\\"; else if (c == '\r') o += "\\r"; else if (c == '\n') o += "\\n";
    else if (c >= 0x20 && c < 0x7f) o.push_back((char)c); else { snprintf(b, sizeof b, "\\x%02x", c); o += b; }
  }
  return o;
}
inline size_t count_sub(const std::string &s, const std::string &pat) { size_t n = 0, p = 0; while ((p = s.find(pat, p)) != std::string::npos) { n++; p += pat.size(); } return n; }

// ---- fake Connection: records everything the shell sends back ------------------------------------------------
struct FakeConn : Connection {
  std::string out; int end_calls = 0; bool valid = true;
  bool send(const SessionToken &, char c) override { out.push_back(c); return true; }
  bool send(const SessionToken &, const std::string &s) override { out += s; return true; }
  bool endSession(const SessionToken &) override { end_calls++; valid = false; return true; }
  bool isValid(const SessionToken &) const override { return valid; }
};

// ---- persistent worker: jobs are evaluated in-process inside a forked child; a job that kills the child is
// identified exactly (the child handles one job at a time) and the child is respawned. ------------------------
struct Worker {
  std::function<std::string(const std::string &)> fn;   // runs in the child
  int recycle_after = 4000, job_timeout_s = 20;
  std::function<void()> child_cleanup;   // child side: runs before an orderly exit of the child
  bool poisoned = false;        // child side: set by fn when the child must not be reused (reply is still delivered)
  pid_t pid = -1; int to = -1, from = -1, err = -1; int served = 0; long spawned = 0;

  static bool wr(int fd, const void *p, size_t n) { const char *c = (const char *)p; while (n) { ssize_t k = write(fd, c, n); if (k <= 0) { if (errno == EINTR) continue; return false; } c += k; n -= (size_t)k; } return true; }
  static bool rd(int fd, void *p, size_t n) { char *c = (char *)p; while (n) { ssize_t k = read(fd, c, n); if (k <= 0) { if (k < 0 && errno == EINTR) continue; return false; } c += k; n -= (size_t)k; } return true; }

  void start() {
    int a[2], b[2], e[2]; if (pipe(a) || pipe(b) || pipe(e)) { perror("pipe"); exit(3); }
    fflush(stdout);
    pid = fork(); if (pid < 0) { perror("fork"); exit(3); }
    if (pid == 0) {
      close(a[1]); close(b[0]); close(e[0]); dup2(e[1], 2); close(e[1]);
      int dn = open("/dev/null", O_WRONLY); dup2(dn, 1);
      signal(SIGPIPE, SIG_IGN); signal(SIGSEGV, SIG_DFL); signal(SIGABRT, SIG_DFL); signal(SIGBUS, SIG_DFL); signal(SIGFPE, SIG_DFL);
      for (;;) {
        uint32_t n; if (!rd(a[0], &n, 4)) { if (child_cleanup) child_cleanup(); _exit(0); }
        std::string job(n, '\0'); if (n && !rd(a[0], &job[0], n)) _exit(0);
        alarm((unsigned)job_timeout_s);
        std::string r = fn(job);
        alarm(0);
        uint32_t m = (uint32_t)r.size() | (poisoned ? 0x80000000u : 0u); if (!wr(b[1], &m, 4) || !wr(b[1], r.data(), r.size())) _exit(0);
        if (poisoned) { if (child_cleanup) child_cleanup(); _exit(0); }
      }
    }
    close(a[0]); close(b[1]); close(e[1]); to = a[1]; from = b[0]; err = e[0];
    fcntl(err, F_SETFL, fcntl(err, F_GETFL) | O_NONBLOCK);
    served = 0; spawned++;
  }
  void stop() { if (pid > 0) { close(to); close(from); close(err); int st; waitpid(pid, &st, 0); pid = -1; } }
  // returns true with the job's result, or false with `crash` describing how the child died on this job
  bool call(const std::string &job, std::string &result, std::string &crash) {
    if (pid > 0 && served >= recycle_after) stop();
    if (pid <= 0) start();
    served++;
    uint32_t n = (uint32_t)job.size(); bool ok = wr(to, &n, 4) && wr(to, job.data(), n);
    uint32_t m = 0; ok = ok && rd(from, &m, 4);
    bool child_done = (m & 0x80000000u) != 0; m &= 0x7fffffffu;
    if (ok) { result.assign(m, '\0'); ok = (m == 0) || rd(from, &result[0], m); }
    if (ok) { char junk[4096]; while (read(err, junk, sizeof junk) > 0) {} if (child_done) stop(); return true; }
    // the child died: collect status + sanitizer headline
    close(to); close(from);
    int st = 0; waitpid(pid, &st, 0); pid = -1;
    std::string e; char buf[4096]; ssize_t k; fcntl(err, F_SETFL, fcntl(err, F_GETFL) & ~O_NONBLOCK);
    while ((k = read(err, buf, sizeof buf)) > 0) if (e.size() < 200000) e.append(buf, (size_t)k);
    close(err);
    crash = describe(st, e);
    return false;
  }
  static std::string describe(int st, const std::string &e) {
    std::string how = WIFSIGNALED(st) ? "signal" + std::to_string(WTERMSIG(st)) : "exit" + std::to_string(WEXITSTATUS(st));
    if (WIFSIGNALED(st) && WTERMSIG(st) == SIGALRM) how = "hang";
    std::string head; size_t p;
    if ((p = e.find("ERROR: AddressSanitizer: ")) != std::string::npos) {
      size_t q = e.find_first_of(" \n", p + 25); head = "asan-" + e.substr(p + 25, q - (p + 25));
      // first frame inside cpp-tbox (file:line) makes the signature specific to the call site
      size_t f = e.find("/modules/", p);
      if (f != std::string::npos) { size_t s0 = e.rfind('/', e.find(':', f)); size_t q2 = e.find_first_of(" \n", f); std::string loc = e.substr(s0 + 1, q2 - s0 - 1); size_t c2 = loc.find(':', loc.find(':') + 1); if (c2 != std::string::npos) loc.resize(c2); head += "@" + loc; }
    } else if ((p = e.find("runtime error: ")) != std::string::npos) {
      size_t b0 = e.rfind('\n', p); b0 = (b0 == std::string::npos) ? 0 : b0 + 1; std::string loc = e.substr(b0, p - b0); size_t sl = loc.rfind('/'); if (sl != std::string::npos) loc = loc.substr(sl + 1);
      size_t c1 = loc.find(':'); size_t c2 = c1 == std::string::npos ? c1 : loc.find(':', c1 + 1); if (c2 != std::string::npos) loc.resize(c2);
      std::string msg = e.substr(p + 15, 60);
      bool integer = msg.find("negation of") == 0 || msg.find("overflow") != std::string::npos || msg.find("shift") != std::string::npos || msg.find("division") != std::string::npos;
      head = std::string(integer ? "ubsan-integer@" : "ubsan-pointer@") + loc;   // pointer = wild/misaligned/null access (a crash without UBSan)
    } else if ((p = e.find("terminate called")) != std::string::npos) {
      head = "uncaught-exception"; size_t w = e.find("what():", p);
      if (w != std::string::npos) { size_t q = e.find('\n', w); std::string what = e.substr(w + 8, q - (w + 8)); for (auto &c : what) if (c == ' ') c = '_'; head += "(" + what.substr(0, 40) + ")"; }
    }
    return how + (head.empty() ? "" : ":" + head);
  }
};

// ---- detail pass: re-run ONE case in a fresh exec of this harness with symbolization on (the sweep itself runs
// with symbolize=0 because symbolizing every report costs ~0.1 s); returns "message @file:line [freed@file:line]".
inline std::string first_tbox_frame(const std::string &e, size_t from) {
  size_t f = e.find("/modules/", from); if (f == std::string::npos) return "";
  size_t q = e.find_first_of(" \n", f); std::string path = e.substr(f + 9, q - f - 9);
  size_t c1 = path.find(':'); size_t c2 = c1 == std::string::npos ? c1 : path.find(':', c1 + 1); if (c2 != std::string::npos) path.resize(c2);
  return path;
}
inline std::string exec_detail(const std::vector<std::string> &args) {
  int e[2]; if (pipe(e)) return "";
  fflush(stdout);
  pid_t pid = fork(); if (pid < 0) return "";
  if (pid == 0) {
    close(e[0]); dup2(e[1], 2); int dn = open("/dev/null", O_WRONLY); dup2(dn, 1);
    setenv("ASAN_OPTIONS", "detect_leaks=0:abort_on_error=0:symbolize=1", 1); setenv("UBSAN_OPTIONS", "print_stacktrace=1:symbolize=1", 1);
    std::vector<char *> av; av.push_back((char *)"/proc/self/exe"); for (auto &a : args) av.push_back((char *)a.c_str()); av.push_back(nullptr);
    alarm(60); execv("/proc/self/exe", av.data()); _exit(127);
  }
  close(e[1]); std::string err; char buf[4096]; ssize_t k; while ((k = read(e[0], buf, sizeof buf)) > 0) if (err.size() < 400000) err.append(buf, (size_t)k);
  close(e[0]); int st = 0; waitpid(pid, &st, 0);
  std::string out; size_t p;
  if ((p = err.find("ERROR: AddressSanitizer: ")) != std::string::npos) {
    size_t q = err.find_first_of("\n(", p + 25); out = "ASan " + err.substr(p + 25, std::min<size_t>(q - (p + 25), 60));
    size_t rw = err.find(" of size ", p); if (rw != std::string::npos && rw < p + 600) { size_t b0 = err.rfind('\n', rw) + 1; out += " [" + err.substr(b0, err.find(" at ", b0) - b0) + "]"; }
    out += " at " + first_tbox_frame(err, p);
    size_t fr = err.find("freed by thread", p); if (fr != std::string::npos) out += ", freed at " + first_tbox_frame(err, fr);
  } else if ((p = err.find("runtime error: ")) != std::string::npos) {
    size_t b0 = err.rfind('\n', p); b0 = b0 == std::string::npos ? 0 : b0 + 1; size_t q = err.find('\n', p);
    out = "UBSan " + err.substr(p + 15, std::min<size_t>(q - p - 15, 110)); std::string fr = first_tbox_frame(err, b0); out += " at " + fr;
  } else if ((p = err.find("terminate called")) != std::string::npos) {
    size_t q = err.find('\n', err.find("what()", p) == std::string::npos ? p : err.find("what()", p)); out = err.substr(p, std::min<size_t>(q - p, 160)); for (auto &c : out) if (c == '\n') c = ' ';
  } else out = "exit status " + std::to_string(st) + " " + esc(err.substr(0, 120));
  return out;
}

}  // namespace c13
