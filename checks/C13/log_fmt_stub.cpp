// C13: replaces base/log_impl.cpp. Unlike engine/sched/log_stub.cpp it FORMATS every record, as the real sink does
// (vsnprintf into a scratch buffer, result discarded), so a log statement that lets the client's line act as the format
// string ('%n', '%s%s%s' typed by the client) or that hands printf a dangling / unterminated pointer is seen by ASan
// (this file is compiled instrumented; vsnprintf is intercepted) or crashes the child. Nothing is written anywhere.
#include <cstdarg>
#include <cstdio>
#include <cstring>
static char g_scratch[1 << 14];
long g_c13_log_records = 0, g_c13_log_bytes = 0;
extern "C" void LogPrintfFunc(const char *module_id, const char *func_name, const char *file_name, int line, int level, int with_args, const char *fmt, ...) {
  size_t n = 0;
  if (module_id) n += strlen(module_id);
  if (func_name) n += strlen(func_name);
  if (file_name) n += strlen(file_name);
  (void)line; (void)level;
  if (fmt) {
    if (with_args) { va_list ap; va_start(ap, fmt); int r = vsnprintf(g_scratch, sizeof g_scratch, fmt, ap); va_end(ap); if (r > 0) n += (size_t)r; }
    else n += strlen(fmt);
  }
  g_c13_log_records++; g_c13_log_bytes += (long)n;
}
