// C13 (2) hostile bytes against the real front ends (engine I): real Telnetd / TcpRpc, listening on a unix stream
// socket, real epoll loop, a fresh client connection per case; cases run inside a crash-contained persistent child
// (c13::Worker). One job = one byte string in all its segmentations; when a job kills the child its deliveries are
// re-run one by one in fresh children, so the input that kills the process is identified exactly.
// Oracles: the child survives (no signal / ASan / UBSan / uncaught exception / hang), the session answers a probe
// command afterwards, and what the framing layer hands to the shell does not depend on the segmentation.
//   mode sock   : bytes are written to the client socket, the loop delivers them (BufferedFd -> TcpServer -> service)
//   mode direct : each segment is handed to the service's onTcpReceived() in a Buffer whose capacity is exactly
//                 (unconsumed remainder + segment), so any read past the received bytes is an ASan report
// usage: fe_harness <telnetd|tcprpc> <sock|direct> <maxlen> <shard> <nshards>
//        fe_harness --one <telnetd|tcprpc> <sock|direct> <hex-encoded case>
#include "hist/hist.h"
#include "c13_common.h"
#include <tbox/terminal/service/telnetd.h>
#include <tbox/terminal/service/tcp_rpc.h>
#include <tbox/terminal/impl/service/telnetd.h>
#include <tbox/terminal/impl/service/tcp_rpc.h>
#include <tbox/network/tcp_server.h>
#include <sys/socket.h>
#include <sys/stat.h>
#include <sys/un.h>
#include <map>
#include <set>
using namespace c13;

enum : uint8_t { IAC = 255, SB = 250, SE = 240, WILL = 251, DO = 253, NOP = 241 };
static const uint8_t ALPHA[] = {IAC, SB, SE, WILL, DO, NOP, 1, 31, 0x1b, '[', 'A', '3', '~', '\r', '\n', 0, 'a', 0xC2, 0x80};
enum { NALPHA = sizeof ALPHA };

// a case = segments delivered one after the other (each followed by a loop run) + flags
enum { F_PROBE = 1, F_FILL = 2,     // F_FILL: pad the last segment so that it fills the connection's receive buffer exactly
       F_EOF_WITH_LAST = 4,         // the client closes its socket in the same step as it sends the last segment (data and EOF reach the loop together: `echo cmd | nc`)
       F_SHUTWR_WITH_LAST = 8,      // the client shuts down its sending direction in the same step as it sends the last segment
       F_BYSTANDER = 16,            // a second client is connected first and has typed "p 7" without Enter; after the case it sends CR LF and must be answered exactly once
       F_RUNS_P1 = 32,            // the input starts with the line "p 1": the probe must have run [p,1] exactly once, first, by the end of the case
       F_ENDS = 64 };               // the input ends the session (exit / quit / a node that calls endSession / EOF from the client): once the loop is idle the
                                    // front end has no session for this client any more and the client reads EOF (when its socket is still open)
struct Case { std::vector<std::string> segs; int flags = F_PROBE; std::string family; };
static std::string ser(const Case &c) { std::string s; s.push_back((char)c.flags); for (auto &g : c.segs) { s.push_back((char)g.size()); s += g; } return s; }
static Case deser(const std::string &s) { Case c; c.flags = (unsigned char)s[0]; for (size_t p = 1; p < s.size();) { size_t n = (unsigned char)s[p]; c.segs.push_back(s.substr(p + 1, n)); p += 1 + n; } return c; }
static std::string show(const Case &c) { std::string o; for (auto &g : c.segs) o += "[" + esc(g) + "]"; if (c.flags & F_FILL) o += " (last segment left-padded with 'a' to the free space of the receive buffer)";
  if (c.flags & F_EOF_WITH_LAST) o += " (client closes in the same step as the last segment)"; if (c.flags & F_SHUTWR_WITH_LAST) o += " (client shuts down its sending side in the same step as the last segment)";
  if (c.flags & F_BYSTANDER) o += " (a second client connected first, typed 'p 7', and sends CR LF after this client is done)";
  if (c.flags & F_ENDS) o += " (the session must be over and the connection closed once the loop is idle)";
  if (!(c.flags & F_PROBE)) o += " (no probe: session ends)"; return o; }

// what the input looks like (names a crash): the first telnet construct in the concatenated bytes
static std::string shape_core(const std::string &fe, const Case &c);
static std::string shape_of(const std::string &fe, const Case &c) {
  return shape_core(fe, c) + ((c.flags & (F_EOF_WITH_LAST | F_SHUTWR_WITH_LAST)) ? "-then-eof-in-the-same-step" : "") + ((c.flags & F_BYSTANDER) ? "-with-a-second-client" : "");
}
static std::string shape_core(const std::string &fe, const Case &c) {
  std::string b; for (auto &g : c.segs) b += g;
  for (auto &g : c.segs) { size_t p = g.find("exit"); if (p != std::string::npos && (g.find("exit", p + 4) != std::string::npos || g.find("!", p) != std::string::npos)) return "double-exit-in-one-segment"; }
  if (b.compare(0, 3, "q\r\n") == 0) return "node-callback-ends-the-session";
  if (b.find("exit") != std::string::npos || b.find("quit") != std::string::npos) return "exit-command";
  std::string pre = fe == "telnetd" ? "telnet-" : "tcprpc-raw-";
  for (size_t i = 0; i + 1 < b.size(); i++) if ((uint8_t)b[i] == IAC) {
    uint8_t c1 = (uint8_t)b[i + 1];
    if (c1 == SB) { std::string s = pre + ((i + 2 < b.size() && b[i + 2] == 31) ? "naws" : "subnegotiation");
      size_t e = std::string::npos; for (size_t k = i + 4; k < b.size(); k++) if ((uint8_t)b[k] == IAC) { e = k; break; }
      if (e == std::string::npos || e + 1 >= b.size()) return s + "-unterminated";
      return s + (e - (i + 3) < 4 ? "-short-payload" : "-frame"); }
    if (c1 >= WILL) return pre + (c1 == IAC ? "iac-iac" : "negotiation");
    return pre + "command";
  }
  if (!b.empty() && (uint8_t)b.back() == IAC) return pre + "lone-iac";
  if (b.find('\x1b') != std::string::npos) return pre + "escape-sequence";
  return pre + "plain-bytes";
}

// ---- child side -----------------------------------------------------------------------------------------------
static std::string g_fe, g_mode, g_path;
static event::Loop *g_loop = nullptr; static Terminal *g_term = nullptr; static Telnetd *g_telnetd = nullptr; static TcpRpc *g_tcprpc = nullptr;
static std::vector<Args> g_calls; static Worker g_worker; static long g_case_no = 0;
static Session *g_kept = nullptr;      // the way an application keeps the Session of a command to answer later (examples/terminal): copy made by the probe

// What the front end's framing layer hands to the shell (it sits between the service and the real Terminal):
// the text stream, window-size events and option changes. This must not depend on how the bytes were segmented
// ("telnet IAC framing waits for complete commands before consuming").
struct Spy : TerminalInteract {
  Terminal *t; std::vector<std::pair<char, std::string>> ev;
  // every session the front end opened (in order), with the Connection it was opened for: whether the front end still has it is
  // asked through the public Connection::isValid, not read from the service's maps
  struct Sess { Connection *conn; SessionToken st; }; std::vector<Sess> sess;
  bool alive(size_t i) const { return i < sess.size() && sess[i].conn->isValid(sess[i].st); }
  size_t live() const { size_t n = 0; for (size_t i = 0; i < sess.size(); i++) if (alive(i)) n++; return n; }
  void text(const std::string &s) { if (!ev.empty() && ev.back().first == 'S') ev.back().second += s; else ev.push_back({'S', s}); }
  std::string digest() const { std::string d; for (auto &e : ev) { d.push_back(e.first); d += "<" + esc(e.second) + ">"; } return d; }
  SessionToken newSession(Connection *c) override { ev.clear(); SessionToken st = t->newSession(c); sess.push_back({c, st}); return st; }
  bool deleteSession(const SessionToken &st) override { return t->deleteSession(st); }
  uint32_t getOptions(const SessionToken &st) const override { return t->getOptions(st); }
  void setOptions(const SessionToken &st, uint32_t o) override { ev.push_back({'O', std::to_string(o)}); t->setOptions(st, o); }
  bool onBegin(const SessionToken &st) override { return t->onBegin(st); }
  bool onExit(const SessionToken &st) override { return t->onExit(st); }
  bool onRecvString(const SessionToken &st, const std::string &s) override { text(s); return t->onRecvString(st, s); }
  bool onRecvWindowSize(const SessionToken &st, uint16_t w, uint16_t h) override { ev.push_back({'W', std::to_string(w) + "x" + std::to_string(h)}); return t->onRecvWindowSize(st, w, h); }
};
static Spy g_spy;

static void setup() {
  g_loop = event::Loop::New(); g_term = new Terminal(g_loop); g_spy.t = g_term;
  g_term->impl_->session_ctx_pool_.keep_number_ = 0;
  auto probe = g_term->createFuncNode([](const Session &s, const Args &a) { g_calls.push_back(a); delete g_kept; g_kept = new Session(s); std::string r = "PROBE<"; for (size_t i = 1; i < a.size(); i++) r += a[i]; s.send(r + ">\r\n"); }, "probe");
  g_term->mountNode(g_term->rootNode(), probe, "p");
  auto ender = g_term->createFuncNode([](const Session &s, const Args &) { delete g_kept; g_kept = new Session(s); s.endSession(); }, "ends the session from inside the command");
  g_term->mountNode(g_term->rootNode(), ender, "q");
  g_path = "/tmp/c13-sock/" + g_fe + "-" + std::to_string(getpid()) + ".sock"; unlink(g_path.c_str());
  bool ok;
  if (g_fe == "telnetd") { g_telnetd = new Telnetd(g_loop, &g_spy); ok = g_telnetd->initialize(g_path) && g_telnetd->start(); }
  else { g_tcprpc = new TcpRpc(g_loop, &g_spy); ok = g_tcprpc->initialize(g_path) && g_tcprpc->start(); }
  if (!ok) { fprintf(stderr, "C13-HARNESS: cannot listen on %s\n", g_path.c_str()); _exit(0); }
}
static size_t n_sessions() { return g_spy.live(); }
static network::TcpServer *server() { return g_telnetd ? g_telnetd->impl_->sp_tcp_ : g_tcprpc->impl_->sp_tcp_; }
static network::TcpServer::ConnToken conn_token() { return g_telnetd ? g_telnetd->impl_->client_to_session_.begin()->first : g_tcprpc->impl_->client_to_session_.begin()->first; }
static std::string drain(int fd) { std::string o; char b[4096]; ssize_t k; while ((k = read(fd, b, sizeof b)) > 0) o.append(b, (size_t)k); return o; }

static bool saw_eof(int fd) { char b[4096]; for (;;) { ssize_t k = read(fd, b, sizeof b); if (k == 0) return true; if (k < 0) return false; } }
// the connection that is not `a` (two clients connected)
static network::TcpServer::ConnToken other_token(const network::TcpServer::ConnToken &a) {
  if (g_telnetd) { for (auto &kv : g_telnetd->impl_->client_to_session_) if (kv.first != a) return kv.first; }
  else { for (auto &kv : g_tcprpc->impl_->client_to_session_) if (kv.first != a) return kv.first; }
  return network::TcpServer::ConnToken();
}
static int connect_client() {
  int fd = socket(AF_UNIX, SOCK_STREAM | SOCK_NONBLOCK | SOCK_CLOEXEC, 0);
  struct sockaddr_un sa; memset(&sa, 0, sizeof sa); sa.sun_family = AF_UNIX; strncpy(sa.sun_path, g_path.c_str(), sizeof sa.sun_path - 1);
  if (fd < 0 || connect(fd, (struct sockaddr *)&sa, sizeof sa) != 0) { if (fd >= 0) close(fd); return -1; }
  return fd;
}

static const std::string RESYNC = std::string("\0\0", 2) + "\xff\xf0";   // closes any open IAC / IAC SB state (see check.py assumptions)

// returns "" or "<signature> <details>"
static std::string run_case(const Case &c, std::string *digest = nullptr) {
  if (!g_loop) setup();
  g_case_no++;
  std::string shape = shape_of(g_fe, c), viol, reply; bool direct = g_mode == "direct", gone = false, by = (c.flags & F_BYSTANDER) != 0;
  struct Client { int fd = -1; network::TcpServer::ConnToken ct; std::string pending; size_t si = 0; } A, B;   // B: the client of the case; A: the bystander (F_BYSTANDER)
  g_calls.clear(); delete g_kept; g_kept = nullptr;
  if (g_spy.live() == 0) g_spy.sess.clear();
  A.si = g_spy.sess.size(); B.si = A.si + (by ? 1 : 0);       // sessions are opened in the order the clients connect
  auto has_session = [&](const Client &cl) { return g_spy.alive(cl.si); };
  // an application that kept the Session of a command: while the session lives it can answer; after any kind of end isValid() says so
  auto kept_usable = [&](const std::string &when) { if (!viol.empty() || !g_kept) return; bool ok = false; try { ok = g_kept->isValid() && g_kept->send(std::string()); } catch (const std::exception &e) { viol = "kept-session-throws-" + when + " what=" + e.what(); return; }
    if (!ok) viol = "kept-session-not-usable-" + when; };
  auto kept_dead = [&](const std::string &when) { if (!viol.empty() || !g_kept) return; bool v = true; try { v = g_kept->isValid(); if (v) g_kept->send(std::string()); } catch (const std::exception &e) { viol = "kept-session-throws-" + when + " what=" + e.what(); return; }
    if (v) viol = "kept-session-still-valid-" + when; delete g_kept; g_kept = nullptr; };
  int first = connect_client();
  if (first < 0) { g_worker.poisoned = true; return "harness-cannot-connect errno=" + std::to_string(errno); }
  (by ? A : B).fd = first;
  // bytes to one client's connection; false = the peer has closed
  auto send_to = [&](Client &cl, std::string seg, bool fill) -> bool {
    if (!direct) {
      if (fill) { util::Buffer *rb = server()->getClientReceiveBuffer(cl.ct); size_t room = rb ? rb->writableSize() : 0; if (room >= seg.size() && room <= 4096) seg = std::string(room - seg.size(), 'a') + seg; }
      return seg.empty() || write(cl.fd, seg.data(), seg.size()) == (ssize_t)seg.size();
    }
    std::string data = cl.pending + seg; if (data.empty()) return true;
    util::Buffer b(data.size()); b.append(data.data(), data.size());      // capacity == content
    if (g_telnetd) g_telnetd->impl_->onTcpReceived(cl.ct, b); else g_tcprpc->impl_->onTcpReceived(cl.ct, b);
    cl.pending.assign((const char *)b.readableBegin(), b.readableSize());
    return true;
  };
  auto deliver = [&](const std::string &seg, bool fill) {
    if (gone || !viol.empty()) return;
    if (!has_session(B)) { gone = true; return; }             // the service ended the session: nothing more can be received
    if (!send_to(B, seg, fill)) gone = true;
  };
  auto eof_with_last = [&] {
    if (B.fd < 0 || !viol.empty()) return;
    if (c.flags & F_EOF_WITH_LAST) { close(B.fd); B.fd = -1; } else if (c.flags & F_SHUTWR_WITH_LAST) shutdown(B.fd, SHUT_WR);
  };
  // one step per idle point of the loop: the loop has fully digested the previous step (incl. deferred closures)
  std::vector<std::function<void()>> steps;
  if (by) {
    steps.push_back([&] {                             // bystander accepted: it types a command without Enter
      if (n_sessions() != 1) { viol = "harness-no-session-after-connect sessions=" + std::to_string(n_sessions()); g_worker.poisoned = true; return; }
      drain(A.fd); A.ct = conn_token(); if (!send_to(A, "p 7", false)) { viol = "harness-bystander-cannot-send"; g_worker.poisoned = true; } });
    steps.push_back([&] { if (!viol.empty()) return; B.fd = connect_client(); if (B.fd < 0) { viol = "harness-cannot-connect errno=" + std::to_string(errno); g_worker.poisoned = true; } });
  }
  steps.push_back([&] {                               // accepted: session created, greeting sent
    if (!viol.empty()) return;
    if (n_sessions() != (by ? 2u : 1u)) { viol = "harness-no-session-after-connect sessions=" + std::to_string(n_sessions()); g_worker.poisoned = true; return; }
    drain(B.fd); B.ct = by ? other_token(A.ct) : conn_token(); deliver(c.segs[0], (c.flags & F_FILL) && c.segs.size() == 1); if (c.segs.size() == 1) eof_with_last(); });
  for (size_t i = 1; i < c.segs.size(); i++) steps.push_back([&, i] { deliver(c.segs[i], (c.flags & F_FILL) && i + 1 == c.segs.size()); if (i + 1 == c.segs.size()) eof_with_last(); });
  if (c.flags & F_PROBE) {
    steps.push_back([&] { deliver(RESYNC + "\r\n", false); });
    steps.push_back([&] { drain(B.fd); g_calls.clear(); deliver("p 7\r\n", false); });
    steps.push_back([&] {
      if (!viol.empty()) return;
      reply = drain(B.fd);
      bool called = g_calls.size() == 1 && g_calls[0].size() == 2 && g_calls[0][0] == "p" && g_calls[0][1] == "7";
      if (!called || reply.find("PROBE<7>") == std::string::npos)
        viol = "session-does-not-answer-probe-after-" + shape + " probe_calls=" + std::to_string(g_calls.size()) + " reply='" + esc(reply.substr(0, 60)) + "' sessions=" + std::to_string(n_sessions());
      kept_usable("while-the-session-is-alive-after-" + shape); });
  }
  if (c.flags & F_ENDS)
    steps.push_back([&] {                             // the loop is idle: the end asked for by the input has happened
      if (!viol.empty()) return;
      if (has_session(B)) { viol = "session-not-ended-by-" + shape + " sessions=" + std::to_string(n_sessions()); return; }
      if (B.fd >= 0 && !saw_eof(B.fd)) { viol = "connection-not-closed-after-" + shape; return; }
      kept_dead("after-" + shape); });
  steps.push_back([&] { if (B.fd >= 0) { close(B.fd); B.fd = -1; } });       // EOF -> session released, connection deleted on a later pass
  steps.push_back([&] { if (!viol.empty()) return; if (has_session(B)) { viol = "session-left-behind-after-" + shape + "-and-client-close"; return; } kept_dead("after-client-close-after-" + shape); });
  if (c.flags & F_RUNS_P1)
    steps.push_back([&] {                             // the line that arrived together with the EOF was executed, once
      if (!viol.empty()) return;
      size_t n = 0; for (auto &a : g_calls) if (a.size() == 2 && a[0] == "p" && a[1] == "1") n++;
      if (n != 1 || g_calls[0].size() != 2 || g_calls[0][1] != "1") viol = "line-sent-before-eof-not-executed-exactly-once-" + shape + " p1_calls=" + std::to_string(n) + " all_calls=" + std::to_string(g_calls.size()); });
  if (by) {
    steps.push_back([&] {                             // the other client is done (and gone): the bystander presses Enter
      if (!viol.empty()) return;
      if (!has_session(A)) { viol = "second-clients-session-ended-by-" + shape + " sessions=" + std::to_string(n_sessions()); return; }
      drain(A.fd); g_calls.clear(); if (!send_to(A, "\r\n", false)) viol = "second-clients-connection-closed-by-" + shape; });
    steps.push_back([&] {
      if (!viol.empty()) return;
      std::string r = drain(A.fd);
      bool called = g_calls.size() == 1 && g_calls[0].size() == 2 && g_calls[0][0] == "p" && g_calls[0][1] == "7";
      if (!called || count_sub(r, "PROBE<7>") != 1)
        viol = "second-client-not-answered-exactly-once-after-" + shape + " probe_calls=" + std::to_string(g_calls.size()) + " reply='" + esc(r.substr(0, 60)) + "' sessions=" + std::to_string(n_sessions()); });
    steps.push_back([&] { if (A.fd >= 0) { close(A.fd); A.fd = -1; } });
    steps.push_back([&] { kept_dead("after-second-client-close-after-" + shape); });
  }
  try {
    run_steps(g_loop, steps);
    if (n_sessions() != 0) { g_worker.poisoned = true; if (viol.empty()) viol = "session-left-behind-after-" + shape + " sessions=" + std::to_string(n_sessions()); }  // and do not carry it into the next case
  } catch (const std::exception &e) {
    viol = shape + "-uncaught-exception what=" + e.what(); g_worker.poisoned = true;
  }
  if (A.fd >= 0) close(A.fd);
  if (B.fd >= 0) close(B.fd);
  if (digest) *digest = g_spy.digest();
  return viol;
}

// all deliveries of one byte string: unsplit first (the reference), then every 2-way split; the framing layer's output
// must be the same. Job: 'G' flags from_cut want_ref bytes...   Reply: "<cuts completed>\n" + "cut\tviolation\n"...
static Case split_case(const std::string &b, size_t cut, int flags) { Case c; c.flags = flags; if (cut == 0) c.segs = {b}; else c.segs = {b.substr(0, cut), b.substr(cut)}; return c; }
static std::string run_group(int flags, size_t from_cut, size_t upto_cut, bool want_ref, const std::string &b) {
  std::string ref, out; bool have_ref = false; size_t done = 0;
  auto one = [&](size_t cut, bool report) {
    std::string d, v = run_case(split_case(b, cut, flags), &d);
    if (v.empty() && cut == 0) { ref = d; have_ref = true; }
    if (v.empty() && cut > 0 && have_ref && d != ref)
      v = shape_of(g_fe, split_case(b, cut, flags)) + "-framing-depends-on-segmentation unsplit=" + ref.substr(0, 150) + " split=" + d.substr(0, 150);
    if (report && !v.empty()) out += std::to_string(cut) + "\t" + v + "\n";
  };
  if (want_ref && from_cut > 0) one(0, false);
  for (size_t cut = from_cut; cut < upto_cut && !g_worker.poisoned; cut++) { one(cut, true); done++; }
  return std::to_string(done) + "\n" + out;
}

// ---- parent side: enumeration -----------------------------------------------------------------------------------
struct Sweep {
  std::string fe, mode; long shard = 0, nshards = 1, index = 0, evaluated = 0, inputs = 0, viols = 0, samples = 0, fallbacks = 0; double deadline;
  std::map<std::string, int> sig_seen; std::map<std::string, long> outcomes; bool capped = false; size_t cur_len = 0;
  bool mine() { return (index++ % nshards) == shard; }
  bool past_deadline(const std::string &family) {
    if (capped) return true;
    if (hx::now_s() > deadline) { capped = true; printf("@CAP fe:%s:%s shard %ld: deadline reached in family %s (byte strings of length %zu), %ld cases evaluated\n", fe.c_str(), mode.c_str(), shard, family.c_str(), cur_len, evaluated); }
    return capped;
  }
  std::string crash_viol(const Case &c, const std::string &crash) {
    std::string kind = crash.find("heap-use-after-free") != std::string::npos ? "use-after-free" : crash.find("buffer-overflow") != std::string::npos ? "overread" :
                       crash.find("uncaught-exception") != std::string::npos ? "uncaught-exception" : crash.find("hang") == 0 ? "hang" : crash.find("ubsan-integer") != std::string::npos ? "undefined-behaviour" : "crash";
    std::string sig = shape_of(fe, c) + "-" + kind, viol = sig + " " + crash;
    if (sig_seen[sig] < 3) { std::string hex; char b[4]; for (unsigned char ch : ser(c)) { snprintf(b, sizeof b, "%02x", ch); hex += b; } viol += " :: " + exec_detail({"--one", fe, mode, hex}); }
    return viol;
  }
  void report(const Case &c, const std::string &viol) {
    viols++; std::string sig = viol.substr(0, viol.find(' '));
    if (sig_seen[sig]++ < 3) printf("@VIOL sig=%s :: fe=%s mode=%s family=%s segs=%s  [%s]\n", sig.c_str(), fe.c_str(), mode.c_str(), c.family.c_str(), show(c).c_str(), viol.c_str());
  }
  void harmless(const Case &c) {
    outcomes[c.family + ": " + shape_of(fe, c) + ((c.flags & F_PROBE) ? " -> harmless, probe answered" : " -> harmless, session ended")]++;
    if (samples < 3 && c.segs.size() > 1) { samples++; printf("@SAMPLE fe:%s:%s %s %s => probe answered\n", fe.c_str(), mode.c_str(), c.family.c_str(), show(c).c_str()); }
  }
  // one explicit case
  void eval(const Case &c) {
    if (past_deadline(c.family)) return;
    evaluated++;
    std::string res, crash, viol;
    if (g_worker.call("C" + ser(c), res, crash)) viol = res; else viol = crash_viol(c, crash);
    if (viol.empty()) harmless(c); else report(c, viol);
  }
  // one byte string: unsplit + every 2-way segmentation, evaluated as one job; if the child dies the cuts are re-run one by one
  void splits(const std::string &b, const std::string &family, int flags = F_PROBE) {
    inputs++;
    if (!mine() || past_deadline(family)) return;
    size_t n = b.size(), cut = 0; bool ref_ok = true, single = false;
    auto mk = [&](size_t k) { Case c = split_case(b, k, flags); c.family = family; return c; };
    while (cut < n) {
      size_t upto = single ? cut + 1 : n;
      std::string job = "G"; job.push_back((char)flags); job.push_back((char)cut); job.push_back((char)upto); job.push_back((char)((cut > 0 && ref_ok) ? 1 : 0)); job += b;
      std::string res, crash;
      if (g_worker.call(job, res, crash)) {
        size_t nl = res.find('\n'); size_t done = (size_t)atol(res.c_str()); std::vector<bool> bad(n, false);
        for (size_t p = nl + 1; p < res.size();) { size_t e = res.find('\n', p); std::string ln = res.substr(p, e - p); p = e + 1; size_t t = ln.find('\t'); size_t k = (size_t)atol(ln.c_str()); if (k < n) bad[k] = true; report(mk(k), ln.substr(t + 1)); }
        for (size_t k = cut; k < cut + done && k < n; k++) if (!bad[k]) harmless(mk(k));
        evaluated += (long)done; cut += done ? done : 1;
      } else if (!single) { single = true; fallbacks++; }                       // some cut of this string kills the child: find out which
      else { evaluated++; report(mk(cut), crash_viol(mk(cut), crash)); if (cut == 0) ref_ok = false; cut++; }
    }
  }
};

static std::string B(std::initializer_list<int> l) { std::string s; for (int v : l) s.push_back((char)v); return s; }

int main(int argc, char **argv) {
  signal(SIGPIPE, SIG_IGN);
  mkdir("/tmp/c13-sock", 0700);
  if (argc > 4 && std::string(argv[1]) == "--one") {
    g_fe = argv[2]; g_mode = argv[3]; std::string raw; for (const char *p = argv[4]; p[0] && p[1]; p += 2) { unsigned v; sscanf(p, "%2x", &v); raw.push_back((char)v); }
    std::string v = run_case(deser(raw)); fprintf(stderr, "viol=%s\n", v.c_str()); unlink(g_path.c_str()); return 0;
  }
  Sweep sw; sw.fe = g_fe = argc > 1 ? argv[1] : "telnetd"; sw.mode = g_mode = argc > 2 ? argv[2] : "sock"; size_t maxlen = argc > 3 ? atoi(argv[3]) : 3;
  sw.shard = argc > 4 ? atol(argv[4]) : 0; sw.nshards = argc > 5 ? atol(argv[5]) : 1; sw.deadline = deadline(600);
  g_worker.recycle_after = 800;
  g_worker.child_cleanup = [] { if (!g_path.empty()) unlink(g_path.c_str()); };
  g_worker.fn = [](const std::string &job) {
    if (job[0] == 'C') return run_case(deser(job.substr(1)));
    return run_group((unsigned char)job[1], (unsigned char)job[2], (unsigned char)job[3], job[4] != 0, job.substr(5)); };

  // family "frames": well-formed frames, each prefix truncation, NAWS with a truncated payload, each in every 2-way split;
  // in sock mode additionally with the last segment filling the receive buffer exactly.
  std::vector<std::string> frames = {
    B({IAC, SB, 31, 0, 80, 0, 24, IAC, SE}), B({IAC, SB, 31, 0, 255, 255, 0, 24, IAC, SE}), B({IAC, SB, 24, 0, 'x', 't', 'e', 'r', 'm', IAC, SE}), B({IAC, SB, 32, 0, '9', ',', '9', IAC, SE}),
    B({IAC, WILL, 31}), B({IAC, DO, 1}), B({IAC, 254, 1}), B({IAC, 252, 31}), B({IAC, DO, 3}), B({IAC, NOP}), B({IAC, IAC}), B({IAC, SE}), B({IAC, 246}),
    B({IAC, WILL, 31, IAC, SB, 31, 0, 80, 0, 24, IAC, SE}), B({IAC, DO, 1, 'a', '\r', '\n'}) };
  std::set<std::string> fr;
  for (auto &f : frames) for (size_t n = 1; n <= f.size(); n++) fr.insert(f.substr(0, n));
  for (int opt : {31, 24, 1}) for (size_t n = 0; n <= 5; n++) { std::string pl = std::string("\x01\x02\x03\x04\x05").substr(0, n); fr.insert(B({IAC, SB, opt}) + pl + B({IAC, SE})); fr.insert(B({IAC, SB, opt}) + pl + B({IAC, SE}) + "a"); }
  sw.cur_len = 0;
  for (auto &f : fr) { sw.splits(f, "frames"); if (sw.mode == "sock" && sw.mine()) { Case c; c.family = "frames-fill"; c.flags = F_PROBE | F_FILL; c.segs = {"aaaaaa", f}; sw.eval(c); } }
  // family "teardown": exit through the front end (session teardown is deferred to the next loop pass)
  for (auto &segs : std::vector<std::vector<std::string>>{{"exit\r\n"}, {"quit\r\n"}, {"exit\r\nexit\r\n"}, {"exit\r\n", "exit\r\n"}, {"p 1\r\nexit\r\np 2\r\n"}, {"exit;exit\r\n"}, {"exit\r\n!!\r\n"}})
    if (sw.mine()) { Case c; c.family = "teardown"; c.flags = F_ENDS; c.segs = segs; sw.eval(c); }
  // a command whose callback ends the session itself (Session::endSession), alone / followed by another command in the same segment / by a second segment / by EOF
  for (int by : {0, (int)F_BYSTANDER}) {
    for (auto &segs : std::vector<std::vector<std::string>>{{"q\r\n"}, {"q\r\np 1\r\n"}, {"q\r\n", "p 1\r\n"}, {"q\r\nq\r\n"}, {"q\r\nexit\r\n"}, {"q;exit\r\n"}, {"q;q\r\n"}})
      // (was a defect candidate; repaired in /repo, so ON by default; C13_NODE_END_THEN_EXIT=0 disables): a command that ends the session followed by 'exit' in the same segment makes the
      // deferred exit closure call Connection::endSession on a session the front end has already dropped -> Telnetd/TcpRpc::Impl::endSession throws map::at in the loop
      if (segs[0].find("exit") != std::string::npos && (getenv("C13_NODE_END_THEN_EXIT") && !atoi(getenv("C13_NODE_END_THEN_EXIT")))) continue; else
      if (sw.mine()) { Case c; c.family = by ? "node-ends-session-second-client" : "node-ends-session"; c.flags = F_ENDS | by; c.segs = segs; sw.eval(c); }
    if (sw.mine()) { Case c; c.family = by ? "node-ends-session-second-client" : "node-ends-session"; c.flags = F_ENDS | F_EOF_WITH_LAST | by; c.segs = {"q\r\n"}; sw.eval(c); }
  }
  // '%' directives typed by the client reach the logger (this executable's log stub formats): every 2-way segmentation, probe afterwards
  for (auto &b : std::vector<std::string>{"p %s%n%s%s\r\n", "%n\r\n", "%s%s%s%s%s%s\r\n", "p %999999d%n\r\n"}) sw.splits(b, "format-directives");
  // family "teardown-eof": the last bytes and the end of the connection reach the loop together (`echo cmd | nc`, a client that dies mid-frame)
  { struct T { std::vector<std::string> segs; int flags; };
    std::vector<T> ts = { {{"exit\r\n"}, F_EOF_WITH_LAST}, {{"exit\r\n"}, F_SHUTWR_WITH_LAST}, {{"exit\r\nexit\r\n"}, F_EOF_WITH_LAST}, {{"exit\r\n", "exit\r\n"}, F_EOF_WITH_LAST},
      {{"p 1\r\n"}, F_EOF_WITH_LAST | F_RUNS_P1}, {{"p 1\r\n"}, F_SHUTWR_WITH_LAST | F_RUNS_P1}, {{"p 1", "\r\n"}, F_EOF_WITH_LAST | F_RUNS_P1}, {{"p 1\r\nexit\r\n"}, F_EOF_WITH_LAST | F_RUNS_P1},
      {{"p 1\r\nexit\r\n"}, F_SHUTWR_WITH_LAST | F_RUNS_P1}, {{""}, F_EOF_WITH_LAST}, {{"a"}, F_EOF_WITH_LAST}, {{"\r"}, F_EOF_WITH_LAST}, {{"\033"}, F_EOF_WITH_LAST},
      {{B({IAC})}, F_EOF_WITH_LAST}, {{B({IAC, SB, 31, 0})}, F_EOF_WITH_LAST}, {{B({IAC, SB, 31, 0, 80, 0, 24, IAC})}, F_SHUTWR_WITH_LAST}, {{B({IAC, DO})}, F_EOF_WITH_LAST} };
    for (auto &t : ts) for (int by : {0, (int)F_BYSTANDER}) if (sw.mine()) { Case c; c.family = by ? "teardown-eof-second-client" : "teardown-eof"; c.flags = t.flags | by | F_ENDS; c.segs = t.segs; sw.eval(c); }
  }
  // family "second-client": another client is connected and has typed "p 7" without Enter while this client sends every frame (every
  // 2-way segmentation) and every teardown input; afterwards the other client presses Enter and must be answered exactly once
  for (auto &f : fr) sw.splits(f, "frames-second-client", F_PROBE | F_BYSTANDER);
  for (auto &segs : std::vector<std::vector<std::string>>{{"exit\r\n"}, {"quit\r\n"}, {"exit\r\nexit\r\n"}, {"exit\r\n", "exit\r\n"}, {"p 1\r\nexit\r\np 2\r\n"}, {"exit;exit\r\n"}, {"exit\r\n!!\r\n"}})
    if (sw.mine()) { Case c; c.family = "teardown-second-client"; c.flags = F_BYSTANDER | F_ENDS; c.segs = segs; sw.eval(c); }
  // family "sweep": every byte string over the alphabet, shortest first, every 2-way segmentation
  for (size_t len = 1; len <= maxlen && !sw.capped; len++) {
    sw.cur_len = len; std::vector<int> ix(len, 0);
    for (;;) {
      std::string b; for (int i : ix) b.push_back((char)ALPHA[i]);
      sw.splits(b, "sweep"); if (sw.capped) break;
      size_t k = len; while (k > 0) { if (++ix[k - 1] < NALPHA) break; ix[k - 1] = 0; k--; } if (k == 0) break;
    }
    if (!sw.capped) printf("@INFO fe:%s:%s shard %ld/%ld: all byte strings of length %zu done\n", sw.fe.c_str(), sw.mode.c_str(), sw.shard, sw.nshards, len);
  }
  g_worker.stop();
  for (auto &o : sw.outcomes) printf("@OUTCOME %s %s\n", sw.fe.c_str(), o.first.c_str());
  printf("@STAT states=%ld transitions=%ld executions=%ld violations=%ld worker_children=%ld one_by_one_reruns=%ld\n", sw.shard == 0 ? sw.inputs : 0, sw.evaluated, sw.evaluated, sw.viols, g_worker.spawned, sw.fallbacks);
  return 0;
}
