// C13 (1a) editor / history conformance: BFS over keystroke histories on a real Terminal session driven
// through a fake Connection; every key is delivered as its unsplit byte encoding via onRecvString.
// Histories are replayed inside a crash-contained persistent child (c13::Worker), so a crashing key does not end the search.
// usage: editor_harness <echo|noecho|quiet> <depth> <prefill 0|19>
#include "hist/hist.h"
#include "c13_common.h"
#include <deque>
#include <map>
using namespace c13;

enum Key { KA, KB, BS, DEL, LEFT, RIGHT, HOME, END, UP, DOWN, ENTER, NKEY };
static const char *ENC[] = {"a", "b", "\x7f", "\033[3~", "\033[D", "\033[C", "\033[1~", "\033[4~", "\033[A", "\033[B", "\r\n"};
static const char *KN[] = {"a", "b", "BS", "DEL", "LEFT", "RIGHT", "HOME", "END", "UP", "DOWN", "ENTER"};

// Reference line editor + history (conventions of DESIGN 1.7: Down past the newest entry gives an empty line,
// a half-typed line is not kept while browsing; every non-empty executed line is stored, 20 kept).
struct Ref {
  std::string line; size_t cur = 0; std::deque<std::string> hist; size_t hidx = 0;
  std::string where() const { return line.empty() ? "on-empty-line" : cur == 0 ? "at-line-start" : cur == line.size() ? "at-line-end" : "mid-line"; }
  // returns true + the executed line on Enter
  bool key(int k, std::string &executed) {
    switch (k) {
      case KA: case KB: line.insert(cur, 1, k == KA ? 'a' : 'b'); cur++; break;
      case BS: if (cur > 0) { line.erase(cur - 1, 1); cur--; } break;
      case DEL: if (cur < line.size()) line.erase(cur, 1); break;
      case LEFT: if (cur > 0) cur--; break;
      case RIGHT: if (cur < line.size()) cur++; break;
      case HOME: cur = 0; break;
      case END: cur = line.size(); break;
      case UP: if (hidx < hist.size()) { hidx++; line = hist[hist.size() - hidx]; cur = line.size(); } break;
      case DOWN: if (hidx > 0) { hidx--; if (hidx > 0) { line = hist[hist.size() - hidx]; cur = line.size(); } else { line.clear(); cur = 0; } } break;
      case ENTER: executed = line; if (!line.empty()) { hist.push_back(line); if (hist.size() > 20) hist.pop_front(); } line.clear(); cur = 0; hidx = 0; return true;
    }
    return false;
  }
};

static std::vector<std::vector<std::string>> g_calls;   // argv of every probe invocation

static std::string g_enter = "\r\n";     // byte encoding of the Enter key in this run: CR LF, bare CR, bare LF or CR NUL (all four are accepted by the scanner)
static std::string g_mode; static int g_prefill = 0; static size_t g_depth = 6; static uint32_t g_options = 0; static bool g_quiet = false;
static Terminal *g_term = nullptr; static Worker g_worker;

// child side: one Terminal per child (the node tree is constant configuration); a FRESH session per replayed history
static void setup() {
  event::Loop *loop = event::Loop::New();
  g_term = new Terminal(loop);
  g_term->impl_->session_ctx_pool_.keep_number_ = 0;      // de-pool: a freed session is really freed (ASan sees stale use)
  auto probe = g_term->createFuncNode([](const Session &s, const Args &a) { g_calls.push_back(a); s.send("ok\r\n"); }, "probe");
  // the probe is mounted under every line over {a,b} that can be typed within the bound, so argv[0] IS the executed line
  size_t maxlen = (g_prefill ? 5 : 0) + g_depth;
  for (size_t len = 1; len <= maxlen; len++) for (size_t v = 0; v < ((size_t)1 << len); v++) { std::string n; for (size_t i = 0; i < len; i++) n.push_back(((v >> i) & 1) ? 'b' : 'a'); g_term->mountNode(g_term->rootNode(), probe, n); }
}

static std::string replay(const std::vector<int> &h, std::string &viol) {
  if (!g_term) setup();
  Terminal &term = *g_term; uint32_t options = g_options; bool quiet = g_quiet; int prefill = g_prefill;
  {
    FakeConn c; SessionToken st = term.newSession(&c); term.setOptions(st, options); term.onBegin(st);
    SessionContext *s = term.impl_->sessions_.at(st);
    Ref ref; std::string executed;
    auto step = [&](int k) -> bool {
      c.out.clear(); g_calls.clear();
      bool r;
      try { r = term.onRecvString(st, k == ENTER ? g_enter : std::string(ENC[k])); } catch (const std::exception &e) { viol = std::string("editor-key-") + KN[k] + "-" + ref.where() + "-uncaught-exception what=" + e.what(); g_worker.poisoned = true; return false; }
      bool is_enter = ref.key(k, executed);
      if (!r) { viol = "key-rejected-by-live-session"; return false; }
      if (is_enter) {
        if (executed.empty()) { if (!g_calls.empty()) { viol = "enter-on-empty-line-executed-a-command got='" + esc(g_calls[0][0]) + "'"; return false; } }
        else if (g_calls.size() != 1 || g_calls[0].size() != 1 || g_calls[0][0] != executed) {
          viol = "enter-executed-line-differs-from-reference ref='" + esc(executed) + "' impl=" + (g_calls.empty() ? std::string("<nothing reached the probe>") : "'" + esc(g_calls[0][0]) + "' x" + std::to_string(g_calls.size())) + " sent='" + esc(c.out.substr(0, 80)) + "'"; return false; }
        size_t prompts = count_sub(c.out, "# ");
        if (!quiet && prompts != 1) { viol = "enter-answered-by-" + std::to_string(prompts) + "-prompts"; return false; }
        if (quiet && prompts != 0) { viol = "quiet-session-printed-a-prompt"; return false; }
      } else if (!g_calls.empty()) { viol = std::string("editing-key-executed-a-command key=") + KN[k]; return false; }
      // anchored mechanism: cursor <= line length, history bounded
      if (s->cursor > s->curr_input.size()) { viol = "editor-cursor-beyond-line-end cursor=" + std::to_string(s->cursor) + " len=" + std::to_string(s->curr_input.size()); return false; }
      if (s->history.size() > 20) { viol = "history-longer-than-20"; return false; }
      if (s->history_index > s->history.size()) { viol = "history-index-beyond-history"; return false; }
      // state conformance with the reference (earliest point a divergence is visible)
      if (s->curr_input != ref.line) { viol = "editor-line-differs-from-reference impl='" + esc(s->curr_input) + "' ref='" + esc(ref.line) + "'"; return false; }
      if (s->cursor != ref.cur) { viol = "editor-cursor-differs-from-reference impl=" + std::to_string(s->cursor) + " ref=" + std::to_string(ref.cur); return false; }
      if (s->history.size() != ref.hist.size() || !std::equal(ref.hist.begin(), ref.hist.end(), s->history.begin())) { viol = "history-content-differs-from-reference"; return false; }
      if (s->history_index != ref.hidx) { viol = "history-index-differs-from-reference"; return false; }
      return true;
    };
    bool ok = true;
    for (int i = 0; ok && i < prefill; i++) {   // 19 distinct stored lines typed through the same path
      for (int b = 0; ok && b < 5; b++) ok = step(((i >> b) & 1) ? KB : KA);
      ok = ok && step(ENTER);
    }
    if (!ok) viol = "prefill:" + viol;
    for (size_t i = 0; ok && i < h.size(); i++) ok = step(h[i]);
    std::string canon = s->curr_input + "|" + std::to_string(s->cursor) + "|" + std::to_string(s->history_index) + "|";
    for (auto &x : s->history) canon += x + ",";
    canon += "|" + ref.line + "|" + std::to_string(ref.cur) + "|" + std::to_string(ref.hidx) + "|" + std::to_string(ref.hist.size());
    term.deleteSession(st);
    return canon;
  }
}

// the reference alone: where the last key of the history is pressed (names a crash)
static std::string shape_of(const std::vector<int> &h) {
  Ref ref; std::string ex;
  for (int i = 0; i < g_prefill; i++) { for (int b = 0; b < 5; b++) ref.key(((i >> b) & 1) ? KB : KA, ex); ref.key(ENTER, ex); }
  for (size_t i = 0; i + 1 < h.size(); i++) ref.key(h[i], ex);
  return h.empty() ? std::string("editor-session-setup") : std::string("editor-key-") + KN[h.back()] + "-" + ref.where();
}

int main(int argc, char **argv) {
  signal(SIGPIPE, SIG_IGN);
  bool one = argc > 5 && std::string(argv[1]) == "--one"; int o = one ? 1 : 0;
  g_mode = argc > 1 + o ? argv[1 + o] : "echo"; g_depth = argc > 2 + o ? atoi(argv[2 + o]) : 6; g_prefill = argc > 3 + o ? atoi(argv[3 + o]) : 0;
  { std::string e = getenv("C13_ENTER") ? getenv("C13_ENTER") : "crlf"; g_enter = e == "cr" ? std::string("\r") : e == "lf" ? std::string("\n") : e == "crnul" ? std::string("\r\0", 2) : std::string("\r\n"); }
  g_options = g_mode == "echo" ? TerminalInteract::kEnableEcho : g_mode == "quiet" ? TerminalInteract::kQuietMode : 0; g_quiet = g_mode == "quiet";
  if (one) { std::vector<int> h; for (const char *p = argv[5]; *p; p++) h.push_back(*p - 'A'); std::string v; replay(h, v); fprintf(stderr, "viol=%s\n", v.c_str()); return 0; }
  size_t depth = g_depth;
  g_worker.recycle_after = 50000;
  g_worker.fn = [](const std::string &job) { std::vector<int> h; for (char ch : job) h.push_back(ch); std::string v, c = replay(h, v); c.push_back('\0'); return c + v; };
  printf("@INFO editor %s: probe mounted under every line over {a,b} up to length %zu\n", g_mode.c_str(), (g_prefill ? 5 : 0) + g_depth);
  std::map<std::string, int> crash_seen;
  hx::Explorer<int> ex; ex.name = "editor:" + g_mode + ":prefill" + std::to_string(g_prefill); ex.deadline_s = deadline(600);
  ex.show = [](const int &k) { return std::string(KN[k]); };
  ex.menu = [&](const std::vector<int> &) { std::vector<int> m; for (int k = 0; k < NKEY; k++) m.push_back(k); return m; };
  ex.run = [&](const std::vector<int> &h, std::string &viol) {
    std::string job; for (int k : h) job.push_back((char)k);
    std::string res, crash;
    if (g_worker.call(job, res, crash)) { size_t z = res.find('\0'); viol = res.substr(z + 1); return res.substr(0, z); }
    std::string kind = crash.find("heap-use-after-free") != std::string::npos ? "use-after-free" : crash.find("uncaught-exception") != std::string::npos ? "uncaught-exception" :
                       crash.find("hang") == 0 ? "hang" : crash.find("ubsan-integer") != std::string::npos ? "undefined-behaviour" : "crash";
    std::string sig = shape_of(h) + "-" + kind; viol = sig + " " + crash;
    if (crash_seen[sig]++ < 3) { std::string ops; for (int k : h) ops.push_back((char)('A' + k)); viol += " :: " + exec_detail({"--one", g_mode, std::to_string(g_depth), std::to_string(g_prefill), ops}); }
    return std::string("crashed");
  };
  ex.explore(depth);
  g_worker.stop();
  printf("@STAT worker_children=%ld\n", g_worker.spawned);
  return 0;
}
