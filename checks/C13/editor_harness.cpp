// C13 (1a) editor / history conformance: BFS over keystroke histories on a real Terminal session driven
// through a fake Connection; keys are delivered as their unsplit byte encodings via onRecvString, one key per
// segment (default) or several keys glued into one segment (C13_GLUE).
// Histories are replayed inside a crash-contained persistent child (c13::Worker), so a crashing key does not end the search.
// usage: editor_harness <echo|noecho|quiet> <depth> <prefill 0|19>
// environment:
//   C13_ENTER = crlf (default) | cr | lf | crnul   byte encoding of the Enter key. A bare CR is an Enter only when it ends
//               a segment (Enter is CR LF, CR NUL, LF, or a CR that ends a segment), so in glued runs 'cr' means:
//               CR for an Enter that ends its segment, CR LF for an Enter inside a segment.
//   C13_GLUE  = none (default) | all | pairs0 | pairs1   the keys of a history are sent one per onRecvString call / all in
//               ONE call / in adjacent pairs starting at key 0 / in adjacent pairs starting at key 1 (key 0 alone)
//   C13_TWIN  = 1   a second session on the SAME Terminal (own connection, own reference) receives one key of the fixed cycle
//               {b, LEFT, a, ENTER, UP, ENTER} after every segment of the first; both sessions are judged after each of their segments
//   C13_LONG  = 1   the prefill lines are 20 characters long (15 x 'a' + 5 varying), i.e. longer than the 15-byte small-string
//               buffer, so the line, the recalled line and the history entries are heap strings (a stale pointer into one is a
//               use-after-free ASan can see). No {a,b} names are mounted in this run: the executed line is read from the shell's
//               own "Error: '<line>' not found." answer instead of the probe's argv.
//   C13_ALPHA = base (default) | alias   alias = {a, LEFT, UP, ENTER} + 0x08 as Backspace + keys the reference editor does
//               not know (TAB, Insert, PgUp, PgDn, F1, F5, F12, Alt+a, Ctrl+Alt+a, 0xC2 0xA1, an unknown CSI, a lone ESC),
//               which it therefore ignores
#include "hist/hist.h"
#include "c13_common.h"
#include <deque>
#include <map>
using namespace c13;

enum Key { KA, KB, BS, DEL, LEFT, RIGHT, HOME, END, UP, DOWN, ENTER, NKEY,
           // alias alphabet: a second encoding of Backspace, and keys outside the reference editor (ignored by it)
           BS08 = NKEY, TAB, INS, PGUP, PGDN, F1, F5, F12, ALTA, CTRLALTA, C2A1, CSI9, ESC, NKEY_ALL };
static const char *ENC[] = {"a", "b", "\x7f", "\033[3~", "\033[D", "\033[C", "\033[1~", "\033[4~", "\033[A", "\033[B", "\r\n",
                            "\x08", "\t", "\033[2~", "\033[5~", "\033[6~", "\033OP", "\033[15~", "\033[24~", "\033" "a", "\xc2\x81", "\xc2\xa1", "\033[9", "\033"};
static const char *KN[] = {"a", "b", "BS", "DEL", "LEFT", "RIGHT", "HOME", "END", "UP", "DOWN", "ENTER",
                           "BS08", "TAB", "INS", "PGUP", "PGDN", "F1", "F5", "F12", "ALT-a", "CTRL-ALT-a", "C2A1", "CSI9", "ESC"};

// Reference line editor + history (conventions of DESIGN 1.7: Down past the newest entry gives an empty line,
// a half-typed line is not kept while browsing; every non-empty executed line is stored, 20 kept).
struct Ref {
  std::string line; size_t cur = 0; std::deque<std::string> hist; size_t hidx = 0;
  std::string where() const { return line.empty() ? "on-empty-line" : cur == 0 ? "at-line-start" : cur == line.size() ? "at-line-end" : "mid-line"; }
  // returns true + the executed line on Enter
  bool key(int k, std::string &executed) {
    switch (k) {
      case KA: case KB: line.insert(cur, 1, k == KA ? 'a' : 'b'); cur++; break;
      case BS: case BS08: if (cur > 0) { line.erase(cur - 1, 1); cur--; } break;
      case DEL: if (cur < line.size()) line.erase(cur, 1); break;
      case LEFT: if (cur > 0) cur--; break;
      case RIGHT: if (cur < line.size()) cur++; break;
      case HOME: cur = 0; break;
      case END: cur = line.size(); break;
      case UP: if (hidx < hist.size()) { hidx++; line = hist[hist.size() - hidx]; cur = line.size(); } break;
      case DOWN: if (hidx > 0) { hidx--; if (hidx > 0) { line = hist[hist.size() - hidx]; cur = line.size(); } else { line.clear(); cur = 0; } } break;
      case ENTER: executed = line; if (!line.empty()) { hist.push_back(line); if (hist.size() > 20) hist.pop_front(); } line.clear(); cur = 0; hidx = 0; return true;
      default: break;   // a key the reference editor does not know: ignored
    }
    return false;
  }
};

static std::vector<std::vector<std::string>> g_calls;   // argv of every probe invocation

static std::string g_enter = "\r\n";     // byte encoding of the Enter key in this run: CR LF, bare CR, bare LF or CR NUL (all four are accepted by the scanner)
static bool g_enter_cr = false;          // C13_ENTER=cr: bare CR, which is an Enter only at the end of a segment
static std::string g_glue = "none", g_alpha = "base"; static bool g_twin = false, g_long = false;
static std::vector<int> prefill_keys(int i) { std::vector<int> k; if (g_long) k.assign(15, KA); for (int b = 0; b < 5; b++) k.push_back(((i >> b) & 1) ? KB : KA); return k; }
static std::string g_mode; static int g_prefill = 0; static size_t g_depth = 6; static uint32_t g_options = 0; static bool g_quiet = false;
static Terminal *g_term = nullptr; static Worker g_worker;

static std::string enc(int k, bool ends_segment) {
  if (k == ENTER) return (g_enter_cr && !ends_segment) ? std::string("\r\n") : g_enter;
  return ENC[k];
}
static std::vector<int> alphabet() {
  std::vector<int> m;
  if (g_alpha == "alias") { m = {KA, LEFT, UP, ENTER, BS08, TAB, INS, PGUP, PGDN, F1, F5, F12, ALTA, CTRLALTA, C2A1, CSI9};
    if (g_glue == "none") m.push_back(ESC); }   // a lone ESC is a key of its own only when nothing follows it in the segment
  else for (int k = 0; k < NKEY; k++) m.push_back(k);
  return m;
}
// how the keys of a history are cut into segments (one onRecvString call each)
static std::vector<std::vector<int>> segments_of(const std::vector<int> &h) {
  std::vector<std::vector<int>> segs;
  if (g_glue == "all") { if (!h.empty()) segs.push_back(h); }
  else if (g_glue == "pairs0" || g_glue == "pairs1") {
    size_t i = 0; if (g_glue == "pairs1" && !h.empty()) { segs.push_back({h[0]}); i = 1; }
    for (; i < h.size(); i += 2) { segs.push_back({h[i]}); if (i + 1 < h.size()) segs.back().push_back(h[i + 1]); }
  } else for (int k : h) segs.push_back({k});
  return segs;
}

// child side: one Terminal per child (the node tree is constant configuration); a FRESH session per replayed history
static void setup() {
  event::Loop *loop = event::Loop::New();
  g_term = new Terminal(loop);
  g_term->impl_->session_ctx_pool_.keep_number_ = 0;      // de-pool: a freed session is really freed (ASan sees stale use)
  auto probe = g_term->createFuncNode([](const Session &s, const Args &a) { g_calls.push_back(a); s.send("ok\r\n"); }, "probe");
  // the probe is mounted under every line over {a,b} that can be typed within the bound, so argv[0] IS the executed line
  size_t maxlen = g_long ? 0 : (g_prefill ? 5 : 0) + g_depth;
  for (size_t len = 1; len <= maxlen; len++) for (size_t v = 0; v < ((size_t)1 << len); v++) { std::string n; for (size_t i = 0; i < len; i++) n.push_back(((v >> i) & 1) ? 'b' : 'a'); g_term->mountNode(g_term->rootNode(), probe, n); }
}

static std::string replay(const std::vector<int> &h, std::string &viol) {
  if (!g_term) setup();
  Terminal &term = *g_term; uint32_t options = g_options; bool quiet = g_quiet; int prefill = g_prefill;
  {
    struct Side { FakeConn c; SessionToken st; SessionContext *s = nullptr; Ref ref; };
    Side first, second;
    for (Side *sd : {&first, &second}) { if (sd == &second && !g_twin) break; sd->st = term.newSession(&sd->c); term.setOptions(sd->st, options); term.onBegin(sd->st); sd->s = term.impl_->sessions_.at(sd->st); }
    // one segment = the byte encodings of its keys in ONE onRecvString call; judged against the reference after the call
    auto step_on = [&](Side &sd, const std::vector<int> &keys) -> bool {
      FakeConn &c = sd.c; SessionToken &st = sd.st; SessionContext *s = sd.s; Ref &ref = sd.ref;
      c.out.clear(); g_calls.clear();
      std::string bytes; for (size_t i = 0; i < keys.size(); i++) bytes += enc(keys[i], i + 1 == keys.size());
      int k = keys.back(); bool glued = keys.size() > 1;
      std::vector<std::string> want; size_t enters = 0; std::string where;      // reference: the non-empty lines executed by this segment, in order
      for (size_t i = 0; i < keys.size(); i++) { if (i + 1 == keys.size()) where = ref.where(); std::string executed; if (ref.key(keys[i], executed)) { enters++; if (!executed.empty()) want.push_back(executed); } }
      bool r;
      try { r = term.onRecvString(st, bytes); } catch (const std::exception &e) { viol = std::string("editor-key-") + KN[k] + "-" + where + "-uncaught-exception what=" + e.what(); g_worker.poisoned = true; return false; }
      if (!r) { viol = "key-rejected-by-live-session"; return false; }
      std::string seg = glued ? " segment='" + esc(bytes) + "'" : "";
      if (g_long) {   // nothing is mounted: every executed line is answered by "Error: '<line>' not found."
        if (!g_calls.empty()) { viol = "harness-probe-called-in-long-line-run"; return false; }
        for (size_t p0 = 0; (p0 = c.out.find("Error: '", p0)) != std::string::npos;) { size_t e0 = c.out.find("' not found.", p0); if (e0 == std::string::npos) break; g_calls.push_back({c.out.substr(p0 + 8, e0 - p0 - 8)}); p0 = e0; }
      }
      if (enters) {
        bool same = g_calls.size() == want.size(); for (size_t i = 0; same && i < want.size(); i++) same = g_calls[i].size() == 1 && g_calls[i][0] == want[i];
        if (!same && want.empty()) { viol = "enter-on-empty-line-executed-a-command got='" + esc(g_calls[0][0]) + "'" + seg; return false; }
        if (!same) { std::string w, g; for (auto &x : want) w += "'" + esc(x) + "' "; for (auto &x : g_calls) g += "'" + esc(x[0]) + "' ";
          viol = "enter-executed-line-differs-from-reference ref=" + w + "impl=" + (g_calls.empty() ? std::string("<nothing reached the probe> ") : g) + "sent='" + esc(c.out.substr(0, 80)) + "'" + seg; return false; }
        size_t prompts = count_sub(c.out, "# ");
        if (!quiet && prompts != enters) { viol = (glued ? "enters-" + std::to_string(enters) + "-answered-by-" : std::string("enter-answered-by-")) + std::to_string(prompts) + "-prompts" + seg; return false; }
        if (quiet && prompts != 0) { viol = "quiet-session-printed-a-prompt"; return false; }
      } else if (!g_calls.empty()) { viol = std::string("editing-key-executed-a-command key=") + KN[k] + seg; return false; }
      // anchored mechanism: cursor <= line length, history bounded
      if (s->cursor > s->curr_input.size()) { viol = "editor-cursor-beyond-line-end cursor=" + std::to_string(s->cursor) + " len=" + std::to_string(s->curr_input.size()); return false; }
      if (s->history.size() > 20) { viol = "history-longer-than-20"; return false; }
      if (s->history_index > s->history.size()) { viol = "history-index-beyond-history"; return false; }
      // state conformance with the reference (earliest point a divergence is visible)
      if (s->curr_input != ref.line) { viol = "editor-line-differs-from-reference impl='" + esc(s->curr_input) + "' ref='" + esc(ref.line) + "'" + seg; return false; }
      if (s->cursor != ref.cur) { viol = "editor-cursor-differs-from-reference impl=" + std::to_string(s->cursor) + " ref=" + std::to_string(ref.cur) + seg; return false; }
      if (s->history.size() != ref.hist.size() || !std::equal(ref.hist.begin(), ref.hist.end(), s->history.begin())) { viol = "history-content-differs-from-reference" + seg; return false; }
      if (s->history_index != ref.hidx) { viol = "history-index-differs-from-reference" + seg; return false; }
      return true;
    };
    static const int TWIN_KEYS[] = {KB, LEFT, KA, ENTER, UP, ENTER}; size_t twin_i = 0;   // types "ab", runs it, recalls it, runs it again
    auto step = [&](const std::vector<int> &keys) -> bool {
      if (!step_on(first, keys)) return false;
      if (g_twin && !step_on(second, {TWIN_KEYS[twin_i++ % 6]})) { viol = "second-session:" + viol; return false; }
      return true;
    };
    SessionContext *s = first.s; Ref &ref = first.ref;
    bool ok = true;
    for (int i = 0; ok && i < prefill; i++) {   // 19 distinct stored lines typed through the same path, one key per segment
      for (int k : prefill_keys(i)) { ok = step({k}); if (!ok) break; }
      ok = ok && step({ENTER});
    }
    if (!ok) viol = "prefill:" + viol;
    if (ok) for (auto &seg : segments_of(h)) { if (!step(seg)) break; }
    std::string canon = s->curr_input + "|" + std::to_string(s->cursor) + "|" + std::to_string(s->history_index) + "|";
    for (auto &x : s->history) canon += x + ",";
    canon += "|" + ref.line + "|" + std::to_string(ref.cur) + "|" + std::to_string(ref.hidx) + "|" + std::to_string(ref.hist.size());
    if (g_twin) { canon += "||phase" + std::to_string(twin_i % 6) + "|" + second.s->curr_input + "|" + std::to_string(second.s->cursor) + "|" + std::to_string(second.s->history_index) + "|"; for (auto &x : second.s->history) canon += x + ","; term.deleteSession(second.st); }
    term.deleteSession(first.st);
    return canon;
  }
}

// the reference alone: where the last key of the history is pressed (names a crash)
static std::string shape_of(const std::vector<int> &h) {
  Ref ref; std::string ex;
  for (int i = 0; i < g_prefill; i++) { for (int k : prefill_keys(i)) ref.key(k, ex); ref.key(ENTER, ex); }
  for (size_t i = 0; i + 1 < h.size(); i++) ref.key(h[i], ex);
  return h.empty() ? std::string("editor-session-setup") : std::string("editor-key-") + KN[h.back()] + "-" + ref.where();
}

int main(int argc, char **argv) {
  signal(SIGPIPE, SIG_IGN);
  bool one = argc > 5 && std::string(argv[1]) == "--one"; int o = one ? 1 : 0;
  g_mode = argc > 1 + o ? argv[1 + o] : "echo"; g_depth = argc > 2 + o ? atoi(argv[2 + o]) : 6; g_prefill = argc > 3 + o ? atoi(argv[3 + o]) : 0;
  std::string enter_name = getenv("C13_ENTER") ? getenv("C13_ENTER") : "crlf";
  { const std::string &e = enter_name; g_enter_cr = e == "cr"; g_enter = e == "cr" ? std::string("\r") : e == "lf" ? std::string("\n") : e == "crnul" ? std::string("\r\0", 2) : std::string("\r\n"); }
  if (getenv("C13_GLUE")) g_glue = getenv("C13_GLUE");
  if (getenv("C13_ALPHA")) g_alpha = getenv("C13_ALPHA");
  g_twin = getenv("C13_TWIN") && atoi(getenv("C13_TWIN")) != 0;
  g_long = getenv("C13_LONG") && atoi(getenv("C13_LONG")) != 0;
  g_options = g_mode == "echo" ? TerminalInteract::kEnableEcho : g_mode == "quiet" ? TerminalInteract::kQuietMode : 0; g_quiet = g_mode == "quiet";
  if (one) { std::vector<int> h; for (const char *p = argv[5]; *p; p++) h.push_back(*p - 'A'); std::string v; replay(h, v); fprintf(stderr, "viol=%s\n", v.c_str()); return 0; }
  size_t depth = g_depth;
  g_worker.recycle_after = 50000;
  g_worker.fn = [](const std::string &job) { std::vector<int> h; for (char ch : job) h.push_back(ch); std::string v, c = replay(h, v); c.push_back('\0'); return c + v; };
  printf("@INFO editor %s: probe mounted under every line over {a,b} up to length %zu; enter=%s glue=%s alphabet=%s\n", g_mode.c_str(), (g_prefill ? 5 : 0) + g_depth, enter_name.c_str(), g_glue.c_str(), g_alpha.c_str());
  std::map<std::string, int> crash_seen;
  hx::Explorer<int> ex; ex.name = "editor:" + g_mode + ":prefill" + std::to_string(g_prefill) + (g_alpha != "base" ? ":alpha-" + g_alpha : "") + (g_glue != "none" ? ":glue-" + g_glue + ":enter-" + enter_name : "") + (g_twin ? ":two-sessions" : "") + (g_long ? ":long-lines" : ""); ex.deadline_s = deadline(600);
  ex.show = [](const int &k) { return std::string(KN[k]); };
  ex.menu = [&](const std::vector<int> &) { return alphabet(); };
  ex.run = [&](const std::vector<int> &h, std::string &viol) {
    std::string job; for (int k : h) job.push_back((char)k);
    std::string res, crash;
    if (g_worker.call(job, res, crash)) { size_t z = res.find('\0'); viol = res.substr(z + 1); return res.substr(0, z); }
    std::string kind = crash.find("heap-use-after-free") != std::string::npos ? "use-after-free" : crash.find("uncaught-exception") != std::string::npos ? "uncaught-exception" :
                       crash.find("hang") == 0 ? "hang" : crash.find("ubsan-integer") != std::string::npos ? "undefined-behaviour" : "crash";
    std::string sig = shape_of(h) + "-" + kind; viol = sig + " " + crash;
    if (crash_seen[sig]++ < 3) { std::string ops; for (int k : h) ops.push_back((char)('A' + k)); viol += " :: " + exec_detail({"--one", g_mode, std::to_string(g_depth), std::to_string(g_prefill), ops}); }
    return std::string("crashed");
  };
  ex.explore(depth);
  g_worker.stop();
  printf("@STAT worker_children=%ld\n", g_worker.spawned);
  return 0;
}
