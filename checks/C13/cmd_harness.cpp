// C13 (1b) command layer: BFS over command sequences (probe, history, !!, !n, !-n, exit) on a real Terminal
// session with a prefilled history, driven through a fake Connection and a real loop (deferred teardown).
// Every history is replayed inside a crash-contained persistent child (c13::Worker): crashes, sanitizer reports,
// hangs and uncaught exceptions become violations of the history that was being evaluated.
// usage: cmd_harness <initial history length> <depth>
#include "hist/hist.h"
#include "c13_common.h"
#include <deque>
using namespace c13;

struct Op { int c, glue; };   // glue=1: same segment as the previous command (no loop pass in between)
static const char *CMD[] = {"p a", "p b c", "history", "exit", "!!", "!0", "!1", "!19", "!20", "!21", "!-1", "!-20", "!-21",
                            "!2147483647", "!-2147483648", "!99999999999", "!-99999999999", "!x",
                            "p a;!!;p b", "p a;!0;p b c", "!-1;p c"};      // ';'-chains with a history reference that is not the last command
enum { NCMD = 21 };

static Args split_sp(const std::string &l) { Args a; size_t p = 0; while (p < l.size()) { size_t q = l.find(' ', p); if (q == std::string::npos) q = l.size(); if (q > p) a.push_back(l.substr(p, q - p)); p = q + 1; } return a; }

// ---- reference: history of the most recent 20 stored lines + history references (DESIGN 1.7) -----------------
struct Expect { bool error = false, listing = false, has_call = false, exit = false; Args call; std::deque<std::string> listed; std::string shape;
                bool chain = false, judged = true; std::vector<Args> calls; };   // chain: the probe calls of the whole line, in order (judged only when every referenced entry is a plain probe line)
struct CRef {
  std::deque<std::string> hist;
  void store(const std::string &l) { hist.push_back(l); if (hist.size() > 20) hist.pop_front(); }
  void run_entry(const std::string e, Expect &x) { if (e == "exit") x.exit = true; else { x.has_call = true; x.call = split_sp(e); } store(e); }   // stored in expanded form
  Expect exec(const std::string &line) {
    Expect x;
    if (line.find(';') != std::string::npos) {      // chain: every piece runs in order; what the line leaves in the history is not judged (the reference adopts it)
      x.chain = true; x.shape = "chain-with-history-reference"; size_t p = 0;
      while (p <= line.size()) { size_t q = line.find(';', p); if (q == std::string::npos) q = line.size(); std::string pc = line.substr(p, q - p); p = q + 1;
        std::string e;
        if (pc == "!!") { if (hist.empty()) { x.judged = false; break; } e = hist.back(); }
        else if (pc[0] == '!') { long long v = std::stoll(pc.substr(1)), n = (long long)hist.size(); if (v >= 0 && v < n) e = hist[(size_t)v]; else if (v < 0 && -v <= n) e = hist[(size_t)(n + v)]; else { x.judged = false; break; } }
        else e = pc;
        if (e.compare(0, 2, "p ") != 0 || e.find(';') != std::string::npos) { x.judged = false; break; }
        x.calls.push_back(split_sp(e)); }
      return x; }
    if (line == "history") { x.listing = true; x.listed = hist; x.shape = "history-command"; }          // not stored
    else if (line == "exit") { x.exit = true; store(line); x.shape = "exit-command"; }
    else if (line == "!!") { if (hist.empty()) { x.error = true; x.shape = "history-bang-bang-on-empty-history"; } else { x.shape = "history-bang-bang"; run_entry(hist.back(), x); } }
    else if (line[0] == '!') {
      std::string t = line.substr(1); bool neg = !t.empty() && t[0] == '-'; std::string d = neg ? t.substr(1) : t;
      bool num = !d.empty() && d.find_first_not_of("0123456789") == std::string::npos;
      if (!num) { x.error = true; x.shape = "history-ref-not-a-number"; }
      else if (d.size() > 10 || std::stoll(d) > (neg ? 2147483648LL : 2147483647LL)) { x.error = true; x.shape = "history-ref-out-of-range"; }   // no such entry
      else {
        long long v = std::stoll(d), n = (long long)hist.size();
        if (neg && v == 2147483648LL) x.shape = "history-ref-int-min";
        if (!neg && v < n) { x.shape = "history-ref-existing-entry"; run_entry(hist[(size_t)v], x); }
        else if (neg && v >= 1 && v <= n) { x.shape = "history-ref-existing-entry"; run_entry(hist[(size_t)(n - v)], x); }
        else { x.error = true; if (x.shape.empty()) x.shape = "history-ref-missing-entry"; }
      }
    } else { x.has_call = true; x.call = split_sp(line); store(line); x.shape = "probe-command"; }
    return x;
  }
};

static std::vector<std::pair<Args, size_t>> g_calls;   // probe argv + number of bytes sent back before the call
static FakeConn *g_conn = nullptr;
static event::Loop *g_loop = nullptr;
static Worker g_worker;
static int g_L = 0;

static bool loop_has_deferred() { auto cl = static_cast<event::CommonLoop *>(g_loop); return !cl->run_next_func_queue_.empty() || !cl->run_in_loop_func_queue_.empty(); }

struct World {
  Terminal term; FakeConn c; SessionToken st; CRef ref; bool alive = true; std::string shape = "setup", viol;
  World() : term(g_loop) {
    term.impl_->session_ctx_pool_.keep_number_ = 0;    // de-pool so that a stale session pointer is a real use-after-free
    auto probe = term.createFuncNode([](const Session &s, const Args &a) { g_calls.push_back({a, g_conn->out.size()}); s.send("ok\r\n"); }, "probe");
    term.mountNode(term.rootNode(), probe, "p");
    g_conn = &c; st = term.newSession(&c); term.onBegin(st);
  }
  // deliver one segment (complete command lines), check every line's answer, then let the loop run deferred work
  bool segment(const std::vector<std::string> &lines) {
    std::string text; for (auto &l : lines) text += l + "\r\n";
    c.out.clear(); g_calls.clear();
    std::vector<Expect> exp; int exits = 0;
    if (alive) for (auto &l : lines) { exp.push_back(ref.exec(l)); if (exp.back().exit) exits++; shape = exp.back().shape; }
    if (exits >= 2) shape = "double-exit-in-one-segment";
    bool r = false;
    try { r = term.onRecvString(st, text); }
    catch (const std::exception &e) { viol = shape + "-uncaught-exception what=" + e.what(); return false; }   // would reach the event loop and terminate the process
    if (alive) { if (!r) { viol = "live-session-rejected-input"; return false; } if (!check_answers(lines, exp)) return false; }
    else if (!g_calls.empty()) { viol = "command-executed-on-ended-session"; return false; }
    // the loop runs whatever was deferred (session teardown)
    if (loop_has_deferred()) {
      try { pump(g_loop); } catch (const std::exception &e) { viol = shape + "-uncaught-exception-in-deferred-work what=" + e.what(); g_worker.poisoned = true; return false; }
    }
    if (alive && exits > 0) {
      alive = false;
      if (term.impl_->sessions_.at(st) != nullptr || c.end_calls < 1) { viol = "exit-did-not-end-the-session-on-the-next-loop-pass end_calls=" + std::to_string(c.end_calls); return false; }
    }
    if (alive) {   // stored lines: most recent 20, in order
      SessionContext *s = term.impl_->sessions_.at(st);
      if (s == nullptr) { viol = "session-vanished-without-exit"; return false; }
      if (s->history.size() > 20) { viol = "history-longer-than-20"; return false; }
      bool had_chain = false; for (auto &x : exp) if (x.chain) had_chain = true;
      if (had_chain) ref.hist.assign(s->history.begin(), s->history.end());     // storage rule of chain lines is not judged: adopt
      if (s->history.size() != ref.hist.size() || !std::equal(ref.hist.begin(), ref.hist.end(), s->history.begin())) {
        std::string a, b; for (auto &x : s->history) a += x + "|"; for (auto &x : ref.hist) b += x + "|";
        viol = "history-differs-from-the-most-recent-20-stored-lines after=" + shape + " impl=" + a + " ref=" + b; return false; }
    }
    return true;
  }
  bool check_answers(const std::vector<std::string> &lines, const std::vector<Expect> &exp) {
    // each Enter is answered by exactly one prompt: cut what came back at the prompts
    std::vector<std::string> piece; size_t p = 0, q;
    while ((q = c.out.find("# ", p)) != std::string::npos) { piece.push_back(c.out.substr(p, q - p)); p = q + 2; }
    if (piece.size() != lines.size() || p != c.out.size()) { viol = "command-lines-" + std::to_string(lines.size()) + "-answered-by-" + std::to_string(piece.size()) + "-prompts after=" + shape + " sent='" + esc(c.out.substr(0, 120)) + "'"; return false; }
    size_t start = 0;
    for (size_t i = 0; i < lines.size(); i++) {
      const Expect &x = exp[i]; const std::string &pc = piece[i]; size_t end = start + pc.size() + 2;
      std::vector<Args> calls; for (auto &cl : g_calls) if (cl.second >= start && cl.second < end) calls.push_back(cl.first);
      start = end;
      std::string what = " cmd='" + lines[i] + "' out='" + esc(pc.substr(0, 100)) + "'";
      if (x.chain) {
        if (x.judged && calls != x.calls) { std::string got; for (auto &cl : calls) { got += "["; for (auto &a : cl) got += a + ","; got += "]"; } viol = x.shape + "-ran-the-wrong-command-list got=" + (got.empty() ? "<none>" : got) + what; return false; }
      } else if (x.error) {
        if (!calls.empty()) { viol = x.shape + "-ran-a-command-instead-of-reporting-an-error" + what; return false; }
        if (pc.find("Error") == std::string::npos && pc.find("error") == std::string::npos) { viol = x.shape + "-no-error-reported" + what; return false; }
      } else if (x.has_call) {
        if (calls.size() != 1 || calls[0] != x.call) { std::string got; for (auto &cl : calls) { got += "["; for (auto &a : cl) got += a + ","; got += "]"; } viol = x.shape + "-ran-the-wrong-command got=" + (got.empty() ? "<none>" : got) + what; return false; }
      } else if (!calls.empty()) { viol = x.shape + "-ran-a-probe-unexpectedly" + what; return false; }
      if (x.listing) {   // "NN  <line>\r\n" per stored line, numbered the way !n addresses them
        std::vector<std::string> got; size_t a0 = 0; bool bad = false;
        while (a0 < pc.size()) { size_t e = pc.find("\r\n", a0); if (e == std::string::npos) { bad = true; break; } std::string ln = pc.substr(a0, e - a0); a0 = e + 2;
          size_t a = ln.find_first_not_of(' '); size_t b = a == std::string::npos ? a : ln.find(' ', a); if (b == std::string::npos || ln.compare(b, 2, "  ") != 0 || ln.find_first_not_of("0123456789", a) != b) { bad = true; break; }
          if (std::stoul(ln.substr(a, b - a)) != got.size()) { bad = true; break; } got.push_back(ln.substr(b + 2)); }
        if (bad || got.size() != x.listed.size() || !std::equal(x.listed.begin(), x.listed.end(), got.begin())) { viol = "history-listing-differs-from-the-most-recent-20-stored-lines" + what; return false; }
      }
    }
    return true;
  }
};

// replay one history on a fresh Terminal + session; returns canon, sets viol
static std::string replay(const std::vector<Op> &h, std::string &viol) {
  World w; bool ok = true;
  for (int i = 0; ok && i < g_L; i++) ok = w.segment({"p h" + std::to_string(i)});
  if (!ok) w.viol = "prefill:" + w.viol;
  for (size_t i = 0; ok && i < h.size();) {
    std::vector<std::string> lines; lines.push_back(CMD[h[i].c]); size_t j = i + 1;
    while (j < h.size() && h[j].glue) { lines.push_back(CMD[h[j].c]); j++; }
    ok = w.segment(lines); i = j;
  }
  viol = w.viol;
  // deferred work of a failed replay must not leak into the next one: let the loop run it while the Terminal is still alive
  if (!ok && !g_worker.poisoned && loop_has_deferred()) { try { pump(g_loop); } catch (...) { g_worker.poisoned = true; } }
  std::string canon;
  if (!w.alive) canon = "ended";
  else if (w.term.impl_->sessions_.at(w.st) == nullptr) canon = "ended-after-violation";
  else { SessionContext *s = w.term.impl_->sessions_.at(w.st); canon = s->curr_input + "|" + std::to_string(s->cursor) + "|" + std::to_string(s->history_index) + "|"; for (auto &x : s->history) canon += x + ","; canon += "|" + std::to_string(w.ref.hist.size()); }
  if (ok && loop_has_deferred()) pump(g_loop);   // nothing may stay queued into the next replay
  return canon;
}

// the reference alone (no real code): what shape of command ends this history (used to name a crash)
static std::string shape_of(const std::vector<Op> &h) {
  CRef ref; for (int i = 0; i < g_L; i++) ref.exec("p h" + std::to_string(i));
  std::string shape = "setup";
  for (size_t i = 0; i < h.size();) {
    int exits = 0; size_t j = i;
    do { Expect x = ref.exec(CMD[h[j].c]); shape = x.shape; if (x.exit) exits++; j++; } while (j < h.size() && h[j].glue);
    if (exits >= 2) shape = "double-exit-in-one-segment";
    if (exits) break;
    i = j;
  }
  return shape;
}

int main(int argc, char **argv) {
  signal(SIGPIPE, SIG_IGN);
  if (argc > 3 && std::string(argv[1]) == "--one") {   // detail pass: one history, in-process, let it die loudly
    g_L = atoi(argv[2]); std::vector<Op> h; for (const char *p = argv[3]; *p;) { int c = atoi(p); p = strchr(p, '.') + 1; int g = atoi(p); h.push_back({c, g}); p = strchr(p, ','); if (!p) break; p++; }
    g_loop = event::Loop::New(); std::string v; replay(h, v); fprintf(stderr, "viol=%s\n", v.c_str()); return 0;
  }
  g_L = argc > 1 ? atoi(argv[1]) : 0; size_t depth = argc > 2 ? atoi(argv[2]) : 3;
  std::map<std::string, int> crash_seen;
  g_worker.recycle_after = 20000;
  g_worker.fn = [](const std::string &job) {
    if (!g_loop) g_loop = event::Loop::New();
    std::vector<Op> h; for (size_t i = 0; i + 1 < job.size(); i += 2) h.push_back({job[i], job[i + 1]});
    std::string v, c = replay(h, v); std::string r = c; r.push_back('\0'); r += v; return r; };
  hx::Explorer<Op> ex; ex.name = "cmd:hist" + std::to_string(g_L); ex.deadline_s = deadline(600);
  ex.show = [](const Op &o) { return std::string(o.glue ? "+" : "") + "'" + CMD[o.c] + "'"; };
  ex.menu = [&](const std::vector<Op> &h) { std::vector<Op> m; for (int g = 0; g < (h.empty() ? 1 : 2); g++) for (int c = 0; c < NCMD; c++) m.push_back({c, g}); return m; };
  ex.run = [&](const std::vector<Op> &h, std::string &viol) {
    std::string job; for (auto &o : h) { job.push_back((char)o.c); job.push_back((char)o.glue); }
    std::string res, crash;
    if (g_worker.call(job, res, crash)) { size_t z = res.find('\0'); viol = res.substr(z + 1); return res.substr(0, z); }
    // the child died while evaluating exactly this history
    std::string kind = crash.find("heap-use-after-free") != std::string::npos ? "use-after-free" : crash.find("uncaught-exception") != std::string::npos ? "uncaught-exception" :
                       crash.find("hang") == 0 ? "hang" : crash.find("ubsan-integer") != std::string::npos ? "undefined-behaviour" : "crash";
    std::string sig = shape_of(h) + "-" + kind; viol = sig + " " + crash;
    if (crash_seen[sig]++ < 3) { std::string ops; for (auto &o : h) ops += (ops.empty() ? "" : ",") + std::to_string(o.c) + "." + std::to_string(o.glue); viol += " :: " + exec_detail({"--one", std::to_string(g_L), ops}); }
    return std::string("crashed");
  };
  ex.explore(depth);
  g_worker.stop();
  printf("@STAT worker_children=%ld\n", g_worker.spawned);
  return 0;
}
