// C13 (1b) command layer: BFS over command sequences (probe, history, !!, !n, !-n, exit) on a real Terminal
// session with a prefilled history, driven through a fake Connection and a real loop (deferred teardown).
// Every history is replayed inside a crash-contained persistent child (c13::Worker): crashes, sanitizer reports,
// hangs and uncaught exceptions become violations of the history that was being evaluated.
// usage: cmd_harness <initial history length> <depth> [part nparts]   history lane (probe, history, !!, !n, exit, ';'-chains)
//        cmd_harness nav <depth> [part nparts]                   navigation lane: a node tree with directories, a directory cycle and
//                                                                deleted nodes; cd / ls / tree / pwd / help / paths / !! on it
//        cmd_harness tok <maxlen> [shard nshards]                tokenizer lane (engine I): every line of length <= maxlen over
//                                                                {p a SPACE ' " ; !} + CR LF on a one-entry history
#include "hist/hist.h"
#include "c13_common.h"
#include "probe.h"
#include <deque>
// members that only feed the state key / a state-conformance comparison go through probe.h (missing member -> default + @INFO)
VF_PROBE(curr_input) VF_PROBE(cursor) VF_PROBE(history_index)
template <class T> static auto path_names(T &s, int) -> decltype(s.path.size(), std::string()) { std::string t = "/"; for (size_t i = 0; i < s.path.size(); i++) t += (i ? "/" : "") + s.path[i].first; return t; }
template <class T> static std::string path_names(T &, long) { vf_note_missing("path"); return "?"; }
using namespace c13;

struct Op { int c, glue; };   // glue=1: same segment as the previous command (no loop pass in between)
static const char *CMD[] = {"p a", "p b c", "history", "exit", "!!", "!0", "!1", "!19", "!20", "!21", "!-1", "!-20", "!-21",
                            "!2147483647", "!-2147483648", "!99999999999", "!-99999999999", "!x",
                            "p a;!!;p b", "p a;!0;p b c", "!-1;p c",       // ';'-chains with a history reference that is not the last command
                            "p a;p b c",                                   // plain ';'-chain: two calls, stored verbatim (judged, nothing adopted)
                            "p aaaaaaaaaaaaaaaaaaaaaaaa",                  // longer than the 15-byte small-string buffer: line, history entry and argv live on the heap
                            "p aaaaaaaaaaaaaaaaaaaaaaaa;!!;p b",           // ... inside a chain whose history reference replaces the line being walked
                            "p %s%n%s%s", "%n"};                           // '%' directives reach the logger (C13's log stub formats): must be data, never a format string
enum { NCMD = 26 };
// navigation lane. Tree (built in World): /p (func)  /d/ (dir)  /d/f (func)  /d/e/ (dir)  /d/e/g (func)  /d/e/up -> d (a directory
// mounted below itself)  /d/e/top -> root  /d/x (func node deleted after mounting)  /z (dir node deleted after mounting)
// /d/gone and /d/e/gone (mounted, then unmounted again)
static const char *NAV[] = {"cd d", "cd ..", "cd /", "cd", "cd d/../..", "cd e/up", "cd d/e", "cd e/top", "cd z", "cd ./e/../e/g", "d", "e",
                            "ls", "ls d", "ls d/f", "ls z", "ls ..", "tree", "tree d", "tree /", "tree d/x", "tree f", "pwd", "help", "help d/f", "help z", "help nope",
                            "d/f x", "/p a", "f y", "x", "e/top/p b", "g", "../p c", "nope", "gone q", "!!", "!0", "history",
                            // paths THROUGH a function / deleted node, command words and help paths that resolve to the root
                            "p/x", "d/f/q y", "z/q", "ls d/x/y", "cd z/..", "/", ".", "..", "help /", "help .",
                            // a directory node disappears while the session may be inside it (or below it)
                            "/drop_d", "/drop_e", "/rm_d", "cd .", "tree .."};
enum { NNAV = sizeof NAV / sizeof NAV[0] };
static bool g_nav = false;
static uint32_t g_opts = 0; static bool g_quiet = false, g_echo = false;   // C13_OPTS=echo|quiet: session options of this run
static std::string prefill_line(int i) { return "p h" + std::to_string(i) + "-xxxxxxxxxxxxxxxx"; }   // > 15 bytes: heap strings in the history
static const char *cmd_text(int c) { return g_nav ? NAV[c] : CMD[c]; }

static Args split_sp(const std::string &l) { Args a; size_t p = 0; while (p < l.size()) { size_t q = l.find(' ', p); if (q == std::string::npos) q = l.size(); if (q > p) a.push_back(l.substr(p, q - p)); p = q + 1; } return a; }

// ---- reference node tree of the navigation lane: what a path addresses is decided here, by name --------------------
enum NodeId { N_ROOT, N_P, N_D, N_F, N_E, N_G, N_X, N_Z, N_DROP_D, N_DROP_E, N_RM_D, N_NONE };
enum NodeKind { K_DIR, K_FUNC, K_DELETED };
// what changes while a session is running: /drop_d and /drop_e delete the directory node d / e WITHOUT unmounting it, /rm_d unmounts d from
// the root and deletes it - possibly while the session's working directory is that directory or below it
struct TreeState { bool d_deleted = false, e_deleted = false, d_unmounted = false;
                   std::string key() const { return std::string(d_deleted ? "D" : "-") + (e_deleted ? "E" : "-") + (d_unmounted ? "U" : "-"); } };
static TreeState *g_tree = nullptr;    // the tree state of the reference that is being asked (set by CRef)
static NodeKind kind_of(int n) {
  if (n == N_X || n == N_Z || (n == N_D && g_tree && g_tree->d_deleted) || (n == N_E && g_tree && g_tree->e_deleted)) return K_DELETED;
  return (n == N_ROOT || n == N_D || n == N_E) ? K_DIR : K_FUNC; }
static int child_of(int n, const std::string &name) {
  if (n == N_ROOT && name == "d" && g_tree && g_tree->d_unmounted) return N_NONE;
  if (n == N_ROOT && (name == "drop_d" || name == "drop_e" || name == "rm_d")) return name == "drop_d" ? N_DROP_D : name == "drop_e" ? N_DROP_E : N_RM_D;
  if (n == N_ROOT) return name == "p" ? N_P : name == "d" ? N_D : name == "z" ? N_Z : N_NONE;
  if (n == N_D) return name == "f" ? N_F : name == "e" ? N_E : name == "x" ? N_X : N_NONE;
  if (n == N_E) return name == "g" ? N_G : name == "up" ? N_D : name == "top" ? N_ROOT : N_NONE;
  return N_NONE;
}
typedef std::vector<std::pair<std::string, int>> RPath;      // the names entered from the root, with the node each one addresses
static int top_of(const RPath &p) { return p.empty() ? (int)N_ROOT : p.back().second; }
static std::string path_text(const RPath &p) { std::string t = "/"; for (size_t i = 0; i < p.size(); i++) t += (i ? "/" : "") + p[i].first; return t; }
// conventions of the shell (check.py assumptions): a leading '/' starts at the root, '.' and empty names stay, '..' leaves the
// directory and does not resolve at the root, a name resolves only inside an existing directory
static bool resolve(const std::string &str, RPath &path) {
  std::vector<std::string> parts; size_t p = 0;
  for (;;) { size_t q = str.find('/', p); parts.push_back(str.substr(p, q == std::string::npos ? q : q - p)); if (q == std::string::npos) break; p = q + 1; }
  size_t i = 0; if (parts[0].empty()) { path.clear(); i = 1; }
  for (; i < parts.size(); i++) {
    const std::string &name = parts[i];
    if (name.empty() || name == ".") continue;
    if (name == "..") { if (path.empty()) return false; path.pop_back(); continue; }
    if (kind_of(top_of(path)) != K_DIR) return false;
    int c = child_of(top_of(path), name); if (c == N_NONE) return false;
    path.push_back({name, c});
  }
  return true;
}

// ---- reference: history of the most recent 20 stored lines + history references (DESIGN 1.7) -----------------
struct Expect { bool error = false, listing = false, has_call = false, exit = false; Args call; std::deque<std::string> listed; std::string shape;
                bool chain = false, judged = true, adopt = false; std::vector<Args> calls;    // chain: the probe calls of the whole line, in order (judged only when every referenced entry is a plain probe line)
                bool pwd = false; std::string pwd_text;                                      // navigation lane: pwd prints the reference's current directory
                bool unjudged = false; };                                                    // only the prompt is judged (line follows an adopted chain in the same segment)
struct CRef {
  std::deque<std::string> hist; RPath path; TreeState tree;
  void store(const std::string &l) { hist.push_back(l); if (hist.size() > 20) hist.pop_front(); }
  // what running one plain command (no '!', no ';', not 'history') does
  void effects(const std::string &e, Expect &x) {
    Args t = split_sp(e); std::string shape; g_tree = &tree;
    if (!g_nav) { if (e == "exit") x.exit = true; else if (t[0] == "p") { x.has_call = true; x.call = t; } else { x.error = true; shape = "unknown-command"; } }
    else if (t[0] == "cd") { RPath np = path; if (resolve(t.size() > 1 ? t[1] : "/", np) && kind_of(top_of(np)) == K_DIR) path = np; shape = "cd-command"; }
    else if (t[0] == "ls" || t[0] == "tree" || t[0] == "help") shape = t[0] + "-command";
    else if (t[0] == "pwd") { x.pwd = true; x.pwd_text = path_text(path); shape = "pwd-command"; }
    else {
      RPath np = path; bool found = resolve(t[0], np);
      if (!found) { x.error = true; shape = "path-that-does-not-resolve"; }
      else if (kind_of(top_of(np)) == K_DELETED) { x.error = true; shape = "path-to-a-deleted-node"; }
      else if (kind_of(top_of(np)) == K_FUNC) { x.has_call = true; x.call = t; shape = "function-path";
        int fn = top_of(np);   // the functions that change the tree (after their call has been recorded)
        if (fn == N_DROP_D || fn == N_RM_D) { tree.d_deleted = true; shape = "function-that-deletes-a-directory-node"; } if (fn == N_RM_D) tree.d_unmounted = true;
        if (fn == N_DROP_E) { tree.e_deleted = true; shape = "function-that-deletes-a-directory-node"; } }
      else { path = np; shape = "bare-directory-path"; }
    }
    if (x.shape.empty()) x.shape = shape;
  }
  void run_entry(const std::string e, Expect &x) {                               // stored in expanded form
    if (e.find(';') != std::string::npos) { x.chain = true; size_t p = 0;        // a stored plain chain runs all its pieces again
      while (p <= e.size()) { size_t q = e.find(';', p); if (q == std::string::npos) q = e.size(); x.calls.push_back(split_sp(e.substr(p, q - p))); p = q + 1; } }
    else effects(e, x);
    store(e); }
  Expect exec(const std::string &line) {
    Expect x;
    if (line.find(';') != std::string::npos) {      // chain: every piece runs in order
      x.chain = true; size_t p = 0;
      x.adopt = line.find('!') != std::string::npos;  // with a history reference: what the line leaves in the history is not judged (the reference adopts it)
      x.shape = x.adopt ? "chain-with-history-reference" : "plain-chain";
      while (p <= line.size()) { size_t q = line.find(';', p); if (q == std::string::npos) q = line.size(); std::string pc = line.substr(p, q - p); p = q + 1;
        std::string e;
        if (pc == "!!") { if (hist.empty()) { x.judged = false; break; } e = hist.back(); }
        else if (pc[0] == '!') { long long v = std::stoll(pc.substr(1)), n = (long long)hist.size(); if (v >= 0 && v < n) e = hist[(size_t)v]; else if (v < 0 && -v <= n) e = hist[(size_t)(n + v)]; else { x.judged = false; break; } }
        else e = pc;
        if (e.compare(0, 2, "p ") != 0 || e.find(';') != std::string::npos) { x.judged = false; break; }
        x.calls.push_back(split_sp(e)); }
      if (!x.adopt) store(line);                      // a chain of plain commands is stored verbatim
      return x; }
    if (line == "history") { x.listing = true; x.listed = hist; x.shape = "history-command"; }          // not stored
    else if (line == "exit") { x.exit = true; store(line); x.shape = "exit-command"; }
    else if (line == "!!") { if (hist.empty()) { x.error = true; x.shape = "history-bang-bang-on-empty-history"; } else { x.shape = "history-bang-bang"; run_entry(hist.back(), x); } }
    else if (line[0] == '!') {
      std::string t = line.substr(1); bool neg = !t.empty() && t[0] == '-'; std::string d = neg ? t.substr(1) : t;
      bool num = !d.empty() && d.find_first_not_of("0123456789") == std::string::npos;
      if (!num) { x.error = true; x.shape = "history-ref-not-a-number"; }
      else if (d.size() > 10 || std::stoll(d) > (neg ? 2147483648LL : 2147483647LL)) { x.error = true; x.shape = "history-ref-out-of-range"; }   // no such entry
      else {
        long long v = std::stoll(d), n = (long long)hist.size();
        if (neg && v == 2147483648LL) x.shape = "history-ref-int-min";
        if (!neg && v < n) { x.shape = "history-ref-existing-entry"; run_entry(hist[(size_t)v], x); }
        else if (neg && v >= 1 && v <= n) { x.shape = "history-ref-existing-entry"; run_entry(hist[(size_t)(n - v)], x); }
        else { x.error = true; if (x.shape.empty()) x.shape = "history-ref-missing-entry"; }
      }
    } else { effects(line, x); store(line); if (x.shape.empty()) x.shape = "probe-command"; }
    return x;
  }
};

static std::vector<std::pair<Args, size_t>> g_calls;   // probe argv + number of bytes sent back before the call
static FakeConn *g_conn = nullptr;
static event::Loop *g_loop = nullptr;
static Worker g_worker;
static int g_L = 0;


struct World {
  Terminal term; FakeConn c; SessionToken st; CRef ref; bool alive = true; std::string shape = "setup", viol;
  World() : term(g_loop) {
    term.impl_->session_ctx_pool_.keep_number_ = 0;    // de-pool so that a stale session pointer is a real use-after-free
    auto probe = term.createFuncNode([](const Session &s, const Args &a) { g_calls.push_back({a, g_conn->out.size()}); s.send("ok\r\n"); }, "probe");
    term.mountNode(term.rootNode(), probe, "p");
    if (g_nav) {   // the tree of the reference (child_of): directories, a directory mounted below itself, the root mounted below, deleted nodes
      auto d = term.createDirNode("dir d"), e = term.createDirNode("dir e"), z = term.createDirNode("dir z");
      auto x = term.createFuncNode([](const Session &, const Args &) {}, "func x");
      term.mountNode(term.rootNode(), d, "d"); term.mountNode(term.rootNode(), z, "z");
      term.mountNode(d, probe, "f"); term.mountNode(d, e, "e"); term.mountNode(d, x, "x");
      term.mountNode(e, probe, "g"); term.mountNode(e, d, "up"); term.mountNode(e, term.rootNode(), "top");
      term.mountNode(d, probe, "gone"); term.mountNode(e, d, "gone"); term.umountNode(d, "gone"); term.umountNode(e, "gone");   // unmounted again: the name must not resolve
      term.deleteNode(x); term.deleteNode(z);
      Terminal *t = &term; NodeToken root = term.rootNode();
      auto mk = [&](const char *name, std::function<void()> act) {
        auto n = term.createFuncNode([act](const Session &s, const Args &a) { g_calls.push_back({a, g_conn->out.size()}); s.send("ok\r\n"); act(); }, name); term.mountNode(root, n, name); };
      mk("drop_d", [t, d] { t->deleteNode(d); });                               // deleted, still mounted as /d and as /d/e/up
      mk("drop_e", [t, e] { t->deleteNode(e); });
      mk("rm_d", [t, d, root] { t->umountNode(root, "d"); t->deleteNode(d); });    // unmounted from the root and deleted (still mounted as e/up)
    }
    g_conn = &c; st = term.newSession(&c); if (g_opts) term.setOptions(st, g_opts); term.onBegin(st);
  }
  // deliver one segment (complete command lines), check every line's answer, then let the loop run deferred work
  bool segment(const std::vector<std::string> &lines) {
    std::string text; for (auto &l : lines) text += l + "\r\n";
    c.out.clear(); g_calls.clear();
    std::vector<Expect> exp; int exits = 0; bool stale = false;   // stale: a chain whose storage is adopted came earlier in this segment, so the reference's history lags until the segment is over
    if (alive) for (auto &l : lines) {
      if (stale) { Expect x; x.unjudged = true; x.shape = "line-after-adopted-chain"; exp.push_back(x); continue; }
      exp.push_back(ref.exec(l)); if (exp.back().exit) exits++; shape = exp.back().shape; if (exp.back().adopt) stale = true; }
    if (exits >= 2) shape = "double-exit-in-one-segment";
    bool r = false;
    try { r = term.onRecvString(st, text); }
    catch (const std::exception &e) { viol = shape + "-uncaught-exception what=" + e.what(); return false; }   // would reach the event loop and terminate the process
    if (getenv("C13_DEBUG")) fprintf(stderr, "segment in='%s'\n        out='%s' calls=%zu\n", esc(text).c_str(), esc(c.out).c_str(), g_calls.size());
    if (alive) { if (!r) { viol = "live-session-rejected-input"; return false; } if (!check_answers(lines, exp)) return false; }
    else if (!g_calls.empty()) { viol = "command-executed-on-ended-session"; return false; }
    // the loop runs whatever was deferred (session teardown)
    {
      try { pump(g_loop); } catch (const std::exception &e) { viol = shape + "-uncaught-exception-in-deferred-work what=" + e.what(); g_worker.poisoned = true; return false; }
    }
    if (alive && exits > 0) {
      alive = false;
      if (term.impl_->sessions_.at(st) != nullptr || c.end_calls < 1) { viol = "exit-did-not-end-the-session-on-the-next-loop-pass end_calls=" + std::to_string(c.end_calls); return false; }
    }
    if (alive) {   // stored lines: most recent 20, in order
      SessionContext *s = term.impl_->sessions_.at(st);
      if (s == nullptr && stale) { alive = false; return true; }     // an unjudged line (after an adopted chain) may have re-run an exit
      if (s == nullptr) { viol = "session-vanished-without-exit"; return false; }
      if (s->history.size() > 20) { viol = "history-longer-than-20"; return false; }
      if (stale) ref.hist.assign(s->history.begin(), s->history.end());     // storage rule of a chain with a history reference is not judged: adopt
      if (s->history.size() != ref.hist.size() || !std::equal(ref.hist.begin(), ref.hist.end(), s->history.begin())) {
        std::string a, b; for (auto &x : s->history) a += x + "|"; for (auto &x : ref.hist) b += x + "|";
        viol = "history-differs-from-the-most-recent-20-stored-lines after=" + shape + " impl=" + a + " ref=" + b; return false; }
      // navigation lane, state conformance: the directory the session is in (names entered from the root)
      std::string ip = path_names(*s, 0);
      if (ip != "?" && ip != path_text(ref.path)) { viol = "current-directory-differs-from-reference after=" + shape + " impl=" + ip + " ref=" + path_text(ref.path); return false; }
    }
    return true;
  }
  bool check_answers(const std::vector<std::string> &lines, const std::vector<Expect> &exp) {
    // each Enter is answered by exactly one prompt: cut what came back at the prompts
    std::vector<std::string> piece; size_t p = 0, q;
    if (g_quiet) {   // quiet mode: no prompt at all; one line per segment (menu), so the whole answer belongs to it
      if (count_sub(c.out, "# ") != 0) { viol = "quiet-session-printed-a-prompt after=" + shape + " sent='" + esc(c.out.substr(0, 120)) + "'"; return false; }
      if (lines.size() != 1) { viol = "harness-glued-lines-in-quiet-mode"; return false; }
      piece.push_back(c.out); p = c.out.size();
    } else
    while ((q = c.out.find("# ", p)) != std::string::npos) { piece.push_back(c.out.substr(p, q - p)); p = q + 2; }
    if (piece.size() != lines.size() || p != c.out.size()) { viol = "command-lines-" + std::to_string(lines.size()) + "-answered-by-" + std::to_string(piece.size()) + "-prompts after=" + shape + " sent='" + esc(c.out.substr(0, 120)) + "'"; return false; }
    size_t start = 0;
    for (size_t i = 0; i < lines.size(); i++) {
      const Expect &x = exp[i]; size_t end = start + piece[i].size() + 2;
      std::string pc = piece[i]; if (g_echo && pc.compare(0, lines[i].size() + 2, lines[i] + "\r\n") == 0) pc.erase(0, lines[i].size() + 2);   // echo of the typed line and of Enter
      std::vector<Args> calls; for (auto &cl : g_calls) if (cl.second >= start && cl.second < end) calls.push_back(cl.first);
      start = end;
      std::string what = " cmd='" + lines[i] + "' out='" + esc(pc.substr(0, 100)) + "'";
      if (x.unjudged) continue;
      if (x.pwd) {   // the last line printed is the current directory
        size_t e2 = pc.size() >= 2 ? pc.rfind("\r\n", pc.size() - 3) : std::string::npos; std::string last = pc.substr(e2 == std::string::npos ? 0 : e2 + 2);
        if (last != x.pwd_text + "\r\n") { viol = "pwd-prints-a-directory-other-than-the-reference's ref=" + x.pwd_text + what; return false; }
      }
      if (x.chain) {
        if (x.judged && calls != x.calls) { std::string got; for (auto &cl : calls) { got += "["; for (auto &a : cl) got += a + ","; got += "]"; } viol = x.shape + "-ran-the-wrong-command-list got=" + (got.empty() ? "<none>" : got) + what; return false; }
      } else if (x.error) {
        if (!calls.empty()) { viol = x.shape + "-ran-a-command-instead-of-reporting-an-error" + what; return false; }
        if (pc.find("Error") == std::string::npos && pc.find("error") == std::string::npos) { viol = x.shape + "-no-error-reported" + what; return false; }
      } else if (x.has_call) {
        if (calls.size() != 1 || calls[0] != x.call) { std::string got; for (auto &cl : calls) { got += "["; for (auto &a : cl) got += a + ","; got += "]"; } viol = x.shape + "-ran-the-wrong-command got=" + (got.empty() ? "<none>" : got) + what; return false; }
      } else if (!calls.empty()) { viol = x.shape + "-ran-a-probe-unexpectedly" + what; return false; }
      if (x.listing) {   // "NN  <line>\r\n" per stored line, numbered the way !n addresses them
        std::vector<std::string> got; size_t a0 = 0; bool bad = false;
        while (a0 < pc.size()) { size_t e = pc.find("\r\n", a0); if (e == std::string::npos) { bad = true; break; } std::string ln = pc.substr(a0, e - a0); a0 = e + 2;
          size_t a = ln.find_first_not_of(' '); size_t b = a == std::string::npos ? a : ln.find(' ', a); if (b == std::string::npos || ln.compare(b, 2, "  ") != 0 || ln.find_first_not_of("0123456789", a) != b) { bad = true; break; }
          if (std::stoul(ln.substr(a, b - a)) != got.size()) { bad = true; break; } got.push_back(ln.substr(b + 2)); }
        if (bad || got.size() != x.listed.size() || !std::equal(x.listed.begin(), x.listed.end(), got.begin())) { viol = "history-listing-differs-from-the-most-recent-20-stored-lines" + what; return false; }
      }
    }
    return true;
  }
};

// replay one history on a fresh Terminal + session; returns canon, sets viol
static std::string replay(const std::vector<Op> &h, std::string &viol) {
  World w; bool ok = true;
  for (int i = 0; ok && i < g_L; i++) ok = w.segment({prefill_line(i)});
  if (!ok) w.viol = "prefill:" + w.viol;
  for (size_t i = 0; ok && i < h.size();) {
    std::vector<std::string> lines; lines.push_back(cmd_text(h[i].c)); size_t j = i + 1;
    while (j < h.size() && h[j].glue) { lines.push_back(cmd_text(h[j].c)); j++; }
    ok = w.segment(lines); i = j;
  }
  viol = w.viol;
  // deferred work of a failed replay must not leak into the next one: let the loop run it while the Terminal is still alive
  if (!ok && !g_worker.poisoned) { try { pump(g_loop); } catch (...) { g_worker.poisoned = true; } }
  std::string canon;
  if (!w.alive) canon = "ended";
  else if (w.term.impl_->sessions_.at(w.st) == nullptr) canon = "ended-after-violation";
  else { SessionContext *s = w.term.impl_->sessions_.at(w.st); canon = VF_GET(curr_input, *s, std::string()) + "|" + std::to_string(VF_GET(cursor, *s, (size_t)0)) + "|" + std::to_string(VF_GET(history_index, *s, (size_t)0)) + "|"; for (auto &x : s->history) canon += x + ","; canon += "|" + std::to_string(w.ref.hist.size());
         canon += "|" + path_names(*s, 0) + "|" + path_text(w.ref.path) + "|" + w.ref.tree.key(); }
  if (ok) pump(g_loop);   // nothing may stay queued into the next replay
  return canon;
}

// the reference alone (no real code): what shape of command ends this history (used to name a crash)
static std::string shape_of(const std::vector<Op> &h) {
  CRef ref; for (int i = 0; i < g_L; i++) ref.exec(prefill_line(i));
  std::string shape = "setup";
  for (size_t i = 0; i < h.size();) {
    int exits = 0; size_t j = i;
    do { Expect x = ref.exec(cmd_text(h[j].c)); shape = x.shape; if (x.exit) exits++; j++; } while (j < h.size() && h[j].glue);
    if (exits >= 2) shape = "double-exit-in-one-segment";
    if (exits) break;
    i = j;
  }
  return shape;
}

// ---- tokenizer lane (engine I): every short line over {p a SPACE ' " ; !} ------------------------------------------------
static const char TOK_ALPHA[] = {'p', 'a', ' ', '\'', '"', ';', '!', '/'};   // lines with ';', '!' or '/' are judged for crash / exception / hang / prompt only
// Reference tokenizer, written to the conventions pinned by util/split_cmdline_test.cpp: words are separated by blanks; a word
// that starts with a quote is the text up to the matching quote, without the quotes; inside a word that starts with another
// character a quoted stretch belongs to the word, quotes included; a quote that is never closed is a parse error.
// pinned=false: the line contains something those conventions do not decide (text directly after a closing quote of a
// quote-started word, an empty command name).
static bool ref_tokenize(const std::string &l, Args &args, bool &pinned) {
  size_t i = 0, n = l.size(); args.clear(); pinned = true;
  for (;;) {
    while (i < n && l[i] == ' ') i++;
    if (i >= n) break;
    if (l[i] == '\'' || l[i] == '"') {
      size_t j = l.find(l[i], i + 1); if (j == std::string::npos) return false;
      args.push_back(l.substr(i + 1, j - i - 1)); i = j + 1;
      if (i < n && l[i] != ' ') pinned = false;
    } else {
      size_t st = i;
      while (i < n && l[i] != ' ') { if (l[i] == '\'' || l[i] == '"') { size_t j = l.find(l[i], i + 1); if (j == std::string::npos) return false; i = j + 1; } else i++; }
      args.push_back(l.substr(st, i - st));
    }
  }
  if (!args.empty() && args[0].empty()) pinned = false;
  return true;
}
static std::string tok_shape(const std::string &line) {
  Args a; bool pinned; bool ok = ref_tokenize(line, a, pinned);
  bool special = line.find_first_of(";!/") != std::string::npos, quoted = line.find_first_of("'\"") != std::string::npos;
  return std::string("tokenizer-") + (!ok ? "unclosed-quote" : quoted ? "quoted-words" : a.empty() ? "blank-line" : "plain-words") + (special ? (line.find('/') != std::string::npos && line.find_first_of(";!") == std::string::npos ? "-with-path" : "-in-chain-or-history-reference") : "");
}
static std::string show_args(const std::vector<Args> &calls) { std::string g; for (auto &cl : calls) { g += "["; for (auto &x : cl) g += "<" + esc(x) + ">"; g += "]"; } return g.empty() ? "<none>" : g; }
// one line + CR LF on a fresh session whose history holds one entry; returns "" or "<signature> <details>"
static std::string tok_case(const std::string &line) {
  World w; if (!w.segment({"p h0"})) return "prefill:" + w.viol;
  std::string shape = tok_shape(line);
  w.c.out.clear(); g_calls.clear();
  bool r = false;
  try { r = w.term.onRecvString(w.st, line + "\r\n"); pump(g_loop); }
  catch (const std::exception &e) { g_worker.poisoned = true; return shape + "-uncaught-exception what=" + e.what(); }
  if (!r) return "live-session-rejected-input";
  std::string what = " line='" + esc(line) + "' out='" + esc(w.c.out.substr(0, 100)) + "'";
  size_t prompts = count_sub(w.c.out, "# ");
  if (g_quiet ? prompts != 0 : (prompts != 1 || w.c.out.size() < 2 || w.c.out.compare(w.c.out.size() - 2, 2, "# ") != 0)) return shape + "-answered-by-" + std::to_string(prompts) + "-prompts" + what;
  if (line.find_first_of(";!/") != std::string::npos) return "";         // chains, history references, paths: crash / exception / hang / prompt only
  Args want; bool pinned; bool ok = ref_tokenize(line, want, pinned);
  if (!pinned) return "";
  std::vector<Args> calls; for (auto &cl : g_calls) calls.push_back(cl.first);
  bool err = w.c.out.find("Error") != std::string::npos || w.c.out.find("error") != std::string::npos;
  if (ok && !want.empty() && want[0] == "p") { if (calls.size() != 1 || calls[0] != want) return shape + "-argv-differs-from-reference got=" + show_args(calls) + " ref=" + show_args({want}) + what; return ""; }
  if (!calls.empty()) return shape + "-ran-a-command-unexpectedly got=" + show_args(calls) + what;
  if (!ok && !err) return shape + "-no-error-reported" + what;
  if (ok && !want.empty() && !err) return shape + "-unknown-command-no-error-reported" + what;
  return "";
}
static std::string hex_of(const std::string &b) { std::string h; char t[4]; for (unsigned char ch : b) { snprintf(t, sizeof t, "%02x", ch); h += t; } return h; }
static std::string unhex(const char *p) { std::string raw; for (; p[0] && p[1]; p += 2) { unsigned v; sscanf(p, "%2x", &v); raw.push_back((char)v); } return raw; }

static int tok_main(size_t maxlen, long shard, long nshards) {
  g_worker.recycle_after = 20000; g_worker.job_timeout_s = 5;     // one short line: a job that takes 5 s hangs
  g_worker.fn = [](const std::string &job) { if (!g_loop) g_loop = event::Loop::New(); return tok_case(job); };
  double dl = deadline(600); long index = 0, evaluated = 0, inputs = 0, viols = 0, samples = 0, hangs = 0; bool capped = false;
  std::map<std::string, int> sig_seen; std::map<std::string, long> outcomes;
  for (size_t len = 0; len <= maxlen && !capped; len++) {
    std::vector<int> ix(len, 0);
    for (;;) {
      std::string line; for (int i : ix) line.push_back(TOK_ALPHA[i]);
      inputs++;
      if ((index++ % nshards) == shard) {
        if (hx::now_s() > dl) { capped = true; printf("@CAP cmd:tok shard %ld: deadline reached at lines of length %zu, %ld lines evaluated\n", shard, len, evaluated); break; }
        evaluated++;
        std::string res, crash, viol;
        if (g_worker.call(line, res, crash)) viol = res;
        else {
          std::string kind = crash.find("heap-use-after-free") != std::string::npos ? "use-after-free" : crash.find("uncaught-exception") != std::string::npos ? "uncaught-exception" :
                             crash.find("hang") == 0 ? "hang" : crash.find("ubsan-integer") != std::string::npos ? "undefined-behaviour" : "crash";
          std::string sig = tok_shape(line) + "-" + kind; viol = sig + " " + crash;
          if (sig_seen[sig] < 3 && kind != "hang") viol += " :: " + exec_detail({"--one", "tok", hex_of(line)});
          if (kind == "hang" && ++hangs >= 4) { capped = true; printf("@CAP cmd:tok shard %ld: stopped after %ld hanging lines (5 s each), %ld lines evaluated\n", shard, hangs, evaluated); }
        }
        if (viol.empty()) { outcomes[tok_shape(line)]++; if (samples < 3 && len >= 4 && line.find('\'') != std::string::npos) { samples++; printf("@SAMPLE cmd:tok line '%s' => as the reference tokenizer\n", esc(line).c_str()); } }
        else { viols++; std::string sig = viol.substr(0, viol.find(' ')); if (sig_seen[sig]++ < 3) printf("@VIOL sig=%s :: cmd:tok line='%s' + CR LF on a one-entry history  [%s]\n", sig.c_str(), esc(line).c_str(), viol.c_str()); }
      }
      if (capped) break;
      size_t k = len; while (k > 0) { if (++ix[k - 1] < (int)sizeof TOK_ALPHA) break; ix[k - 1] = 0; k--; } if (k == 0) break;
    }
    if (!capped) printf("@INFO cmd:tok shard %ld/%ld: all lines of length %zu done\n", shard, nshards, len);
  }
  g_worker.stop();
  for (auto &o : outcomes) printf("@OUTCOME cmd:tok %s -> one prompt, argv / error as the reference tokenizer says\n", o.first.c_str());
  printf("@STAT states=%ld transitions=%ld executions=%ld violations=%ld worker_children=%ld\n", shard == 0 ? inputs : 0, evaluated, evaluated, viols, g_worker.spawned);
  return 0;
}

int main(int argc, char **argv) {
  signal(SIGPIPE, SIG_IGN);
  std::string opts = getenv("C13_OPTS") ? getenv("C13_OPTS") : "";
  g_echo = opts == "echo"; g_quiet = opts == "quiet"; g_opts = g_echo ? (uint32_t)TerminalInteract::kEnableEcho : g_quiet ? (uint32_t)TerminalInteract::kQuietMode : 0u;
  if (argc > 3 && std::string(argv[1]) == "--one" && std::string(argv[2]) == "tok") {   // detail pass: one line
    g_loop = event::Loop::New(); std::string v = tok_case(unhex(argv[3])); fprintf(stderr, "viol=%s\n", v.c_str()); return 0;
  }
  if (argc > 3 && std::string(argv[1]) == "--one") {   // detail pass: one history, in-process, let it die loudly
    g_nav = std::string(argv[2]) == "nav"; g_L = g_nav ? 0 : atoi(argv[2]); std::vector<Op> h; for (const char *p = argv[3]; *p;) { int c = atoi(p); p = strchr(p, '.') + 1; int g = atoi(p); h.push_back({c, g}); p = strchr(p, ','); if (!p) break; p++; }
    g_loop = event::Loop::New(); std::string v; replay(h, v); fprintf(stderr, "viol=%s\n", v.c_str()); return 0;
  }
  if (argc > 1 && std::string(argv[1]) == "tok") return tok_main(argc > 2 ? atoi(argv[2]) : 4, argc > 3 ? atol(argv[3]) : 0, argc > 4 ? atol(argv[4]) : 1);
  g_nav = argc > 1 && std::string(argv[1]) == "nav";
  g_L = (argc > 1 && !g_nav) ? atoi(argv[1]) : 0; size_t depth = argc > 2 ? atoi(argv[2]) : 3;
  std::map<std::string, int> crash_seen;
  g_worker.recycle_after = 20000;
  g_worker.fn = [](const std::string &job) {
    if (!g_loop) g_loop = event::Loop::New();
    std::vector<Op> h; for (size_t i = 0; i + 1 < job.size(); i += 2) h.push_back({job[i], job[i + 1]});
    std::string v, c = replay(h, v); std::string r = c; r.push_back('\0'); r += v; return r; };
  hx::Explorer<Op> ex; ex.name = g_nav ? std::string("cmd:nav") : "cmd:hist" + std::to_string(g_L); ex.deadline_s = deadline(600);
  if (argc > 4) { ex.part = atoi(argv[3]); ex.nparts = atoi(argv[4]); if (ex.nparts > 1) ex.name += ":part" + std::to_string(ex.part); }   // partition by the first command
  if (!opts.empty()) ex.name += ":" + opts;
  ex.show = [](const Op &o) { return std::string(o.glue ? "+" : "") + "'" + cmd_text(o.c) + "'"; };
  ex.menu = [&](const std::vector<Op> &h) { std::vector<Op> m; for (int g = 0; g < ((h.empty() || g_nav || g_quiet) ? 1 : 2); g++) for (int c = 0; c < (g_nav ? (int)NNAV : (int)NCMD); c++) m.push_back({c, g}); return m; };
  ex.run = [&](const std::vector<Op> &h, std::string &viol) {
    std::string job; for (auto &o : h) { job.push_back((char)o.c); job.push_back((char)o.glue); }
    std::string res, crash;
    if (g_worker.call(job, res, crash)) { size_t z = res.find('\0'); viol = res.substr(z + 1); return res.substr(0, z); }
    // the child died while evaluating exactly this history
    std::string kind = crash.find("heap-use-after-free") != std::string::npos ? "use-after-free" : crash.find("uncaught-exception") != std::string::npos ? "uncaught-exception" :
                       crash.find("hang") == 0 ? "hang" : crash.find("ubsan-integer") != std::string::npos ? "undefined-behaviour" : "crash";
    std::string sig = shape_of(h) + "-" + kind; viol = sig + " " + crash;
    if (crash_seen[sig]++ < 3) { std::string ops; for (auto &o : h) ops += (ops.empty() ? "" : ",") + std::to_string(o.c) + "." + std::to_string(o.glue); viol += " :: " + exec_detail({"--one", g_nav ? std::string("nav") : std::to_string(g_L), ops}); }
    return std::string("crashed");
  };
  ex.explore(depth);
  g_worker.stop();
  printf("@STAT worker_children=%ld\n", g_worker.spawned);
  return 0;
}
