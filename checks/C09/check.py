import os, shutil, time, vf
PID = "C09"
HS = vf.VERIF + "/checks/C09/sched_harness.cpp"
HI = vf.VERIF + "/checks/C09/input_harness.cpp"
SCHED = [vf.VERIF + "/engine/sched/sched.cpp"]
def main(tier, args):
    t0 = time.time()
    srcs = vf.module_sources("base/log_impl.cpp", "log/sink.cpp", "log/async_sink.cpp", "util/async_pipe.cpp", "util/buffer.cpp")
    plain = vf.build("C09/sched_plain", [HS], srcs, mode="plain", plain_srcs=SCHED)
    asan = vf.build("C09/sched_asan", [HS], srcs, mode="asan", plain_srcs=SCHED)
    tsan = vf.build("C09/sched_tsan", [HS], srcs, mode="tsan", plain_srcs=SCHED)
    inp = vf.build("C09/inputs", [HI], srcs + vf.module_sources("log/async_file_sink.cpp", "log/sync_stdout_sink.cpp", "log/async_stdout_sink.cpp", "util/fs.cpp", "util/string.cpp"), mode="asan")
    work = vf.BUILD + "/C09/work"; shutil.rmtree(work, ignore_errors=True); os.makedirs(work)
    res = vf.Result(); log = open(vf.BUILD + "/C09/log.txt", "w")
    # scenarios: 0 = one logger x2 records, 1 = two loggers x2 records, 2 = two loggers x1 record, 3 = async sink only, two loggers,
    #            4 = one logger x2 records while main disables both sinks, 5 = one logger x3 records while main disables and re-enables the async sink
    if tier == "quick":
        dl = 90
        S = [("plain", plain, 0, 48, 1), ("plain", plain, 0, 200, 2), ("plain", plain, 1, 200, 1), ("plain", plain, 1, 48, 0), ("plain", plain, 2, 48, 1), ("plain", plain, 3, 200, 1),
             ("plain", plain, 4, 48, 2), ("plain", plain, 4, 200, 1), ("plain", plain, 5, 48, 1), ("plain", plain, 5, 200, 1),
             ("asan", asan, 0, 48, 1), ("asan", asan, 2, 200, 0), ("asan", asan, 4, 48, 1), ("asan", asan, 5, 200, 1), ("tsan", tsan, 0, 48, 1), ("tsan", tsan, 2, 200, 0), ("tsan", tsan, 1, 200, 0), ("tsan", tsan, 4, 48, 1), ("tsan", tsan, 5, 200, 1)]
    else:
        dl = 1200
        S = [("plain", plain, 0, 48, 3), ("plain", plain, 1, 200, 2), ("plain", plain, 1, 48, 1), ("plain", plain, 2, 48, 2), ("plain", plain, 3, 200, 2), ("plain", plain, 3, 48, 1),
             ("plain", plain, 4, 48, 3), ("plain", plain, 4, 200, 2), ("plain", plain, 5, 48, 2), ("plain", plain, 5, 200, 2),
             ("asan", asan, 0, 48, 2), ("asan", asan, 1, 200, 1), ("asan", asan, 2, 48, 1), ("asan", asan, 4, 48, 2), ("asan", asan, 5, 48, 1), ("tsan", tsan, 0, 48, 2), ("tsan", tsan, 1, 200, 1), ("tsan", tsan, 2, 48, 1), ("tsan", tsan, 4, 48, 2), ("tsan", tsan, 5, 48, 1)]
    jobs = [("%s:s%d_b%d" % (m, s, b), [exe, str(s), str(b), str(bd)]) for (m, exe, s, b, bd) in S]
    # spurious condition-variable wake-ups (engine option SCHED_SPURIOUS=1: one per execution, one deviation each) through the real AsyncPipe under the log path
    spur_bd = 1 if tier == "quick" else 2
    jobs += [("spur:s%d_b%d" % (s, b), [plain, str(s), str(b), str(spur_bd)], {"SCHED_SPURIOUS": "1"}) for (s, b) in ((0, 48), (3, 200), (4, 48))]
    jobs += [("inputs:len", [inp, "len"]), ("inputs:filter", [inp, "filter"]), ("inputs:file", [inp, "file", work]), ("inputs:stdout", [inp, "stdout", work]), ("inputs:filterseq", [inp, "filterseq", "4" if tier == "quick" else "6"])]
    LP = 6        # the life-cycle BFS is partitioned by its first op over LP processes
    jobs += [("inputs:lifecycle_p%d" % p, [inp, "lifecycle", "5" if tier == "quick" else "7", str(p), str(LP)]) for p in range(LP)]
    if args.only: jobs = [j for j in jobs if j[0] == args.only]
    vf.run_procs(res, jobs, env={"VERIF_DEADLINE_S": str(dl), "VERIF_WORKERS": "3", "VERIF_TIER": tier, "TSAN_OPTIONS": "report_signal_unsafe=0:exitcode=0"}, log=log, jobs=7)
    shutil.rmtree(work, ignore_errors=True)
    vf.finish(PID, tier, res, t0,
              rule="(S) stateless DFS over all interleavings (preemption+timed-flush deviations bounded per scenario: " + ", ".join("%s s%d buf%d <=%d" % (m, s, b, bd) for (m, e, s, b, bd) in S) + "; scenarios s0/buf48, s3/buf200, s4/buf48 again with one spurious condition-variable wake-up per execution as a further deviation kind, bound %d" % spur_bd + ") of 1-2 logging threads calling the real LogPrintfFunc into a synchronous recording Sink and an AsyncSink on the real AsyncPipe (buffers smaller than one record), then disable(); every line must equal an expected record, each once, per-thread order kept. "
                   "Scenarios s4/s5: main calls disable() on both sinks (s4), or disable() then enable() then disable() on the async sink (s5), WHILE one thread is logging 2-3 records; oracle: delivered lines are whole, at most once and in order, a record whose call started and returned inside one enabled period is present, one whose call lay entirely inside the disabled period is absent, nothing is added after disable() returned. "
                   "(I) exhaustive sweeps: text length {0..8, 2046..2050, max-1, max, max+1, max+7} x max in {1,10,2047,2048,2049,4096} x {puts, %s, %c%s} x text alphabet {letters, printf conversions such as %s%d%%%n} with the async line compared WHOLE (head with level code, time, usec, thread id, module); degenerate calls {fmt NULL, module NULL, function NULL, file NULL, file without directory / ending in '/', level -1, -1000, 8, 1000} x {puts, printf}; "
                   "all 8 levels x 8 default thresholds (set by setLevel(l), and by setLevel(\"\", l) over an earlier different default) x {unset,0..7} per-module threshold (+unset) x 2 modules on both sink kinds; "
                   "BFS over histories (depth 4, thorough 6) of setLevel(default|module)/unsetLevel(module)/log(module,level) on one long-lived sink of each kind, whole async lines; "
                   "BFS over life-cycle histories (depth 5, thorough 7; state key = model + registration state of each sink + last two ops) of enable(k)/disable(k)/setLevel(k,{2,6})/log({1,4,7})/clock+1s on TWO long-lived sinks k in {synchronous recorder, AsyncSink with 64-byte pipe buffers} with independent thresholds: every call is judged per sink by the model (enabled and passes that sink's threshold <=> exactly one whole record with the time of the call), the async output is compared byte for byte whenever its disable() returns and at the end (covers re-enable of the same object, double enable/disable, removal of the right channel, dispatch past a rejecting sink, records logged while disabled never turning up); "
                   "both stdout sinks (fd 1 captured): colour x 8 levels x max {4,100} x lengths {0,1,4,5,9} x with/without function name against the documented record format, plus one long-lived sink of each kind x colour over the sequence log@T,T,T+1,T+1,T+1h,T(clock stepped back),disable,log,enable,log@T+2,T+3,disable,log,enable,log@T+4,disable (time field of every record = second of ITS call); "
                   "file sink with size limit in {1, record-1, record, record+1, 3 records, 1 MiB} x 1..6 records x 3 pacings under a virtual wall clock (same-second roll-over), and on the burst pacing additionally x life-cycle {log,disable | log,disable(check disk),log-while-disabled,enable,log,disable on the same object | log, sink destroyed while enabled} x pipe buffers {10 KiB default, 64 B: roll-over while the back-end holds a partial frame} x O_DSYNC {off,on} x directory spelling {dir, dir/, ' dir '}: files concatenated in creation order == the WHOLE expected lines (level code, time of the call, usec, tid, module, function, text, file:line) of the records logged while enabled, none split",
              assumptions=["module/function/file strings have static storage as __func__/__FILE__ do (the async back-end dereferences them later)", "maximum text length 0 is not in the enumerated domain", "pacing in the file-sink sweep uses real 150 ms sleeps only to let the 100 ms timed flush happen; correctness does not depend on it",
                           "a log call that overlaps disable()/enable() of a sink in time may or may not be delivered to it (the statement speaks of calls made while the sink is enabled); only calls entirely inside one period are demanded present/absent",
                           "degenerate arguments: an absent module only has to be rendered as some non-empty name; a level below 0 must yield exactly one record, a level above 7 at most one (the statement does not say how out-of-range levels compare with thresholds); in both cases the record must be whole",
                           "destroying an AsyncFileSink that is still enabled is read as an implicit disable (its destructor flushes); the same for AsyncStdoutSink / a bare AsyncSink is NOT exercised by default (candidate defect, switch C09_DTOR_ASYNC_STDOUT=1): AsyncSink has no destructor, so pending records are flushed from ~AsyncPipe into already destroyed members",
                           "sinks do not log from inside their own callbacks (the dispatch lock is not recursive); enable/disable/setLevel of one sink are issued from one thread at a time"])
