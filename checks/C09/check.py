import os, shutil, time, vf
PID = "C09"
HS = vf.VERIF + "/checks/C09/sched_harness.cpp"
HI = vf.VERIF + "/checks/C09/input_harness.cpp"
SCHED = [vf.VERIF + "/engine/sched/sched.cpp"]
def main(tier, args):
    t0 = time.time()
    srcs = vf.module_sources("base/log_impl.cpp", "log/sink.cpp", "log/async_sink.cpp", "util/async_pipe.cpp", "util/buffer.cpp")
    plain = vf.build("C09/sched_plain", [HS], srcs, mode="plain", plain_srcs=SCHED)
    asan = vf.build("C09/sched_asan", [HS], srcs, mode="asan", plain_srcs=SCHED)
    tsan = vf.build("C09/sched_tsan", [HS], srcs, mode="tsan", plain_srcs=SCHED)
    inp = vf.build("C09/inputs", [HI], srcs + vf.module_sources("log/async_file_sink.cpp", "log/sync_stdout_sink.cpp", "log/async_stdout_sink.cpp", "util/fs.cpp", "util/string.cpp"), mode="asan")
    work = vf.BUILD + "/C09/work"; shutil.rmtree(work, ignore_errors=True); os.makedirs(work)
    res = vf.Result(); log = open(vf.BUILD + "/C09/log.txt", "w")
    # scenarios: 0 = one logger x2 records, 1 = two loggers x2 records, 2 = two loggers x1 record, 3 = async sink only, two loggers
    if tier == "quick":
        dl = 90
        S = [("plain", plain, 0, 48, 1), ("plain", plain, 0, 200, 2), ("plain", plain, 1, 200, 1), ("plain", plain, 1, 48, 0), ("plain", plain, 2, 48, 1), ("plain", plain, 3, 200, 1),
             ("asan", asan, 0, 48, 1), ("asan", asan, 2, 200, 0), ("tsan", tsan, 0, 48, 1), ("tsan", tsan, 2, 200, 0), ("tsan", tsan, 1, 200, 0)]
    else:
        dl = 1200
        S = [("plain", plain, 0, 48, 3), ("plain", plain, 1, 200, 2), ("plain", plain, 1, 48, 1), ("plain", plain, 2, 48, 2), ("plain", plain, 3, 200, 2), ("plain", plain, 3, 48, 1),
             ("asan", asan, 0, 48, 2), ("asan", asan, 1, 200, 1), ("asan", asan, 2, 48, 1), ("tsan", tsan, 0, 48, 2), ("tsan", tsan, 1, 200, 1), ("tsan", tsan, 2, 48, 1)]
    jobs = [("%s:s%d_b%d" % (m, s, b), [exe, str(s), str(b), str(bd)]) for (m, exe, s, b, bd) in S]
    jobs += [("inputs:len", [inp, "len"]), ("inputs:filter", [inp, "filter"]), ("inputs:file", [inp, "file", work]), ("inputs:stdout", [inp, "stdout", work]), ("inputs:filterseq", [inp, "filterseq", "4" if tier == "quick" else "6"])]
    if args.only: jobs = [j for j in jobs if j[0] == args.only]
    vf.run_procs(res, jobs, env={"VERIF_DEADLINE_S": str(dl), "VERIF_WORKERS": "3", "VERIF_TIER": tier, "TSAN_OPTIONS": "report_signal_unsafe=0:exitcode=0"}, log=log, jobs=7)
    shutil.rmtree(work, ignore_errors=True)
    vf.finish(PID, tier, res, t0,
              rule="(S) stateless DFS over all interleavings (preemption+timed-flush deviations bounded per scenario: " + ", ".join("%s s%d buf%d <=%d" % (m, s, b, bd) for (m, e, s, b, bd) in S) + ") of 1-2 logging threads calling the real LogPrintfFunc into a synchronous recording Sink and an AsyncSink on the real AsyncPipe (buffers smaller than one record), then disable(); every line must equal an expected record, each once, per-thread order kept. "
                   "(I) exhaustive sweeps: text length {0..8, 2046..2050, max-1, max, max+1, max+7} x max in {1,10,2047,2048,2049,4096} x {puts, %s, %c%s}; all 8 levels x 8 default thresholds x {unset,0..7} per-module threshold (+unset) x 2 modules on both sink kinds; "
                   "BFS over histories (depth 4, thorough 6) of setLevel(default|module)/unsetLevel(module)/log(module,level) on one long-lived sink of each kind; both stdout sinks (fd 1 captured): colour x 8 levels x max {4,100} x lengths {0,1,4,5,9} x with/without function name against the documented record format; file sink with size limit in {1, record-1, record, record+1, 3 records, 1 MiB} x 1..6 records x 3 pacings under a virtual wall clock (same-second roll-over): files concatenated in creation order == records, none split",
              assumptions=["module/function/file strings have static storage as __func__/__FILE__ do (the async back-end dereferences them later)", "maximum text length 0 is not in the enumerated domain", "pacing in the file-sink sweep uses real 150 ms sleeps only to let the 100 ms timed flush happen; correctness does not depend on it"])
