// C09 (inputs / configurations / life-cycle histories, single logging thread): text lengths and alphabets around the limits,
// degenerate arguments, level/module filters, enable/disable/re-enable histories on two sinks with different thresholds,
// file sink roll-over / re-enable / destruction / options under a virtual wall clock, stdout sinks across changes of second.
// usage: input_harness <len|filter|file|stdout> [workdir] | filterseq <depth> [part nparts] | lifecycle <depth> [part nparts [alphabet]]
#include "hist/hist.h"
#include "probe.h"
#include <tbox/base/log_output.h>
#include <tbox/base/log.h>
#include <tbox/base/log_impl.h>
#include <tbox/log/sink.h>
#include <tbox/log/async_sink.h>
#include <tbox/log/async_file_sink.h>
#include <dirent.h>
#include <fcntl.h>
#include <unistd.h>
#include <sys/stat.h>
#include <sys/time.h>
#include <sys/syscall.h>
#include <algorithm>
#include <fstream>
#include <memory>
#include <sstream>
static long long vsec = 1700000000;
extern "C" int gettimeofday(struct timeval *tv, void *) { if (tv) { tv->tv_sec = vsec; tv->tv_usec = 42; } return 0; }
extern "C" time_t time(time_t *t) { if (t) *t = vsec; return vsec; }
using namespace tbox::log;

struct Rec { int level; std::string module, func, file, text; int line; bool trunc; uint32_t len; uint32_t sec, usec; long tid; };
struct SyncRec : Sink { std::vector<Rec> recs; void onLogFrontEnd(const LogContent *c) override { recs.push_back(Rec{c->level, c->module_id ? c->module_id : "<null>", c->func_name ? c->func_name : "<null>", c->file_name ? c->file_name : "<null>", std::string(c->text_ptr ? c->text_ptr : "", c->text_len), c->line, c->text_trunc, c->text_len, c->timestamp.sec, c->timestamp.usec, c->thread_id}); } };
struct AsyncRec : AsyncSink { std::string out; void endline() override { cache_.push_back('\n'); } void flush() override { out.append(cache_.data(), cache_.size()); cache_.clear(); } };
static size_t N = 0, D = 0;
static const long long BASE_SEC = 1700000000;
static long my_tid() { return syscall(SYS_gettid); }
// The process runs in the artificial zone "VFT-05:30" (set first thing in main; POSIX form, no tzdata needed) and the expected local time is
// computed WITHOUT localtime_r, as UTC + 5 h 30 min, so an implementation that formats UTC (gmtime_r) no longer agrees with the oracle by accident.
static const long TZ_OFFSET_S = 19800;
static std::string ts_str(long long sec) { time_t t = sec + TZ_OFFSET_S; struct tm tm; gmtime_r(&t, &tm); char b[32]; strftime(b, sizeof b, "%F %H:%M:%S", &tm); return b; }
// level codes and colours as documented (log_impl.cpp tables), spelled out here so that a shifted table entry changes the code's output but not the oracle
static const char LEVEL_CODE[] = "FEWNIIDT";
static const char *COLOR_CODE[8] = {"7;91", "31", "7;93", "93", "7;92", "32", "36", "35"};
// private members that only feed canonical state keys (never the oracle): read through probes so that a rename does not break the build
VF_PROBE(default_level_) VF_PROBE(modules_level_) VF_PROBE(output_id_) VF_PROBE(is_pipe_inited_)
// the documented record head of the asynchronous / stdout sinks: "<level code> <date time>.<usec> <tid> <module> " for a call made at virtual second `sec`
static std::string line_head(int level, long long sec, const char *module) { char b[192]; snprintf(b, sizeof b, "%c %s.%06u %ld ", LEVEL_CODE[level], ts_str(sec).c_str(), 42u, my_tid()); return std::string(b) + module + " "; }
static std::string first_diff(const std::string &got, const std::string &want) {      // classify got vs want at line granularity
  size_t a = 0, b = 0; int ln = 0;
  while (a < got.size() || b < want.size()) { ln++;
    size_t ea = got.find('\n', a), eb = want.find('\n', b);
    std::string la = a < got.size() ? got.substr(a, ea == std::string::npos ? std::string::npos : ea - a + 1) : "", lb = b < want.size() ? want.substr(b, eb == std::string::npos ? std::string::npos : eb - b + 1) : "";
    if (la != lb) { std::string kind = la.empty() ? "record-missing" : lb.empty() ? "unexpected-extra-record" : (got.find(lb, a) != std::string::npos && want.find(la, b) == std::string::npos) ? "unexpected-extra-record" : (want.find(la, b) != std::string::npos) ? "record-missing" : "record-altered";
      return kind + " line" + std::to_string(ln) + " got=[" + la.substr(0, 90) + "] want=[" + lb.substr(0, 90) + "]"; }
    a += la.size(); b += lb.size(); }
  return "";
}

static int sweep_len() {
  // alphabet 0 = letters; 1 = text made of printf conversions ("%s%d%%%n..."): whether it is the literal message (puts path)
  // or the %s argument, the record must carry exactly these bytes - nothing may be interpreted a second time
  auto one_case = [&](size_t max, size_t L, int alpha, int with_args) {
      static const char PCT[] = "%s%d%%%n%5c%ld";
      std::string text(L, 'x'); for (size_t i = 0; i < L; i++) text[i] = alpha ? PCT[i % (sizeof PCT - 1)] : (char)('a' + i % 26);
      if (with_args == 2 && L < 2) return;
      SyncRec s; AsyncRec a; AsyncSink::Config cfg; cfg.buff_size = 64; cfg.buff_min_num = 1; cfg.buff_max_num = 3; cfg.interval = 100; a.setConfig(cfg);
      s.setLevel(LOG_LEVEL_TRACE); a.setLevel(LOG_LEVEL_TRACE); s.enable(); a.enable();
      char desc[128]; snprintf(desc, sizeof desc, "max=%zu len=%zu alphabet=%s mode=%s", max, L, alpha ? "percent-conversions" : "letters", with_args == 0 ? "puts" : with_args == 1 ? "printf-%s" : "printf-prefix+%s");
      hx::set_current(desc);
      std::string want = text;
      if (with_args == 0) LogPrintfFunc("mod", "fn", "dir/f.cpp", 7, LOG_LEVEL_INFO, 0, text.c_str());
      else if (with_args == 1) LogPrintfFunc("mod", "fn", "dir/f.cpp", 7, LOG_LEVEL_INFO, 1, "%s", text.c_str());
      else LogPrintfFunc("mod", "fn", "dir/f.cpp", 7, LOG_LEVEL_INFO, 1, "%c%s", text[0], text.c_str() + 1);
      s.disable(); a.disable(); N++;
      size_t el = std::min(L, max); bool et = L > max;
      if (s.recs.size() != 1) { printf("@VIOL sig=len-sweep-record-count-%zu :: %s\n", s.recs.size(), desc); return; }
      const Rec &r = s.recs[0];
      if (r.len != el || r.text != want.substr(0, el)) printf("@VIOL sig=text-not-cut-to-exactly-the-maximum%s :: %s got_len=%u want_len=%zu\n", alpha ? "-or-bytes-changed(percent-text)" : "", desc, r.len, el);
      else if (r.trunc != et) printf("@VIOL sig=truncation-flag-wrong :: %s flag=%d\n", desc, (int)r.trunc);
      else if (r.module != "mod" || r.func != "fn" || r.file != "f.cpp" || r.line != 7 || r.level != LOG_LEVEL_INFO || r.sec != (uint32_t)vsec || r.usec != 42 || r.tid != my_tid()) printf("@VIOL sig=record-field-corrupted :: %s\n", desc);
      // async sink: exactly one WHOLE line: head (level code, time, thread id, module), function, the cut text, the marker iff truncated, file:line
      std::string exp = line_head(LOG_LEVEL_INFO, vsec, "mod") + "fn() " + (el ? want.substr(0, el) + " " : std::string()) + (et && el ? "(TRUNCATED) " : "") + "-- f.cpp:7\n";
      if (a.out != exp) printf("@VIOL sig=async-sink-line-wrong(len-sweep) :: %s %s\n", desc, first_diff(a.out, exp).c_str());
      if (N <= 2) printf("@SAMPLE %s => text_len=%u trunc=%d\n", desc, r.len, (int)r.trunc);
  };
  for (size_t max : {1ul, 10ul, 2047ul, 2048ul, 2049ul, 4096ul}) {
    size_t old = LogSetMaxLength(max); (void)old;
    std::vector<size_t> lens; for (size_t l = 0; l <= 8; l++) lens.push_back(l); for (size_t l = 2046; l <= 2050; l++) lens.push_back(l);
    for (size_t l : {max - 1, max, max + 1, max + 7}) lens.push_back(l);
    std::sort(lens.begin(), lens.end()); lens.erase(std::unique(lens.begin(), lens.end()), lens.end());
    for (size_t L : lens) for (int alpha = 0; alpha < 2; alpha++) for (int with_args = 0; with_args < 3; with_args++) one_case(max, L, alpha, with_args);
  }
  // the DEFAULT maximum (100 KiB, never changed by most programs) with texts around the 8 KiB, 64 KiB (16-bit length) and 100 KiB marks
  { const size_t dflt = 100 << 10; LogSetMaxLength(dflt);
    for (size_t L : {8191ul, 8192ul, 65535ul, 65536ul, dflt - 1, dflt, dflt + 1}) for (int with_args = 0; with_args < 3; with_args++) one_case(dflt, L, 0, with_args); }
  LogSetMaxLength(100 << 10);
  // ALIGNMENT sweep (wave 8): where a record's bytes end relative to the pipe's buffer boundaries. One record of EVERY length 0..2B+8 and
  // two records of every pair of lengths 0..B+8 through a pipe with B-byte buffers (B = 64 and the non-power-of-two 100), so that whatever
  // the size of the record header, every residue of "bytes handed to the pipe" modulo B occurs - in particular streams that end exactly on a
  // buffer boundary (the last chunk the back-end sees is a FULL buffer and nothing follows it). Everything logged must be written when disable() returns.
  for (size_t B : {64ul, 100ul}) {
    auto align_case = [&](const std::vector<size_t> &ls) {
      SyncRec s; AsyncRec a; AsyncSink::Config cfg; cfg.buff_size = B; cfg.buff_min_num = 1; cfg.buff_max_num = 3; cfg.interval = 100; a.setConfig(cfg);
      s.setLevel(LOG_LEVEL_TRACE); a.setLevel(LOG_LEVEL_TRACE); s.enable(); a.enable();
      std::string desc = "align buff_size=" + std::to_string(B) + " lens="; for (size_t l : ls) desc += std::to_string(l) + ",";
      hx::set_current(desc); std::string exp;
      for (size_t k = 0; k < ls.size(); k++) { std::string text(ls[k], 'x'); for (size_t i = 0; i < ls[k]; i++) text[i] = (char)('a' + (i + k) % 26);
        LogPrintfFunc("mod", "fn", "dir/f.cpp", 7, LOG_LEVEL_INFO, 0, text.c_str());
        exp += line_head(LOG_LEVEL_INFO, vsec, "mod") + "fn() " + (ls[k] ? text + " " : std::string()) + "-- f.cpp:7\n"; }
      s.disable(); a.disable(); N++;
      if (s.recs.size() != ls.size()) printf("@VIOL sig=align-sweep-record-count-%zu-of-%zu :: %s\n", s.recs.size(), ls.size(), desc.c_str());
      else if (a.out != exp) printf("@VIOL sig=async-sink-output-wrong-after-disable(record-end-vs-buffer-boundary) :: %s %s\n", desc.c_str(), first_diff(a.out, exp).c_str());
    };
    for (size_t L = 0; L <= 2 * B + 8; L++) align_case({L});
    for (size_t L1 = 0; L1 <= B + 8; L1++) for (size_t L2 = 0; L2 <= B + 8; L2++) align_case({L1, L2});
  }
  // degenerate and extreme arguments: no message at all (fmt == NULL), no module name, no function name, no file name, level outside 0..7,
  // and LONG names (template / lambda __func__ of 63..300 characters, a 64-character module, a 200-character file behind a 1500-character directory).
  // Reading: such a call is still ONE log call; the record it produces must be whole (every field a sink prints is readable and the
  // fields that were given are intact). What an absent module is spelled as is not stated, so only "non-empty" is demanded; a level
  // below 0 passes every threshold under any reading (exactly one record), a level above 7 may or may not pass threshold 7 (at most one).
  struct Deg { std::string what; const char *mod, *fn, *file, *fmt; int level; int min_recs, max_recs; };
  static std::string long_fn[5], long_mod(64, 'M'), long_file = std::string(1500, 'd') + "/sub/" + std::string(196, 'F') + ".cpp";
  std::vector<Deg> DEG = {
    {"fmt=NULL", "mod", "fn", "dir/f.cpp", nullptr, LOG_LEVEL_INFO, 1, 1}, {"module=NULL", nullptr, "fn", "dir/f.cpp", "t", LOG_LEVEL_INFO, 1, 1},
    {"func=NULL", "mod", nullptr, "dir/f.cpp", "t", LOG_LEVEL_INFO, 1, 1}, {"file=NULL", "mod", "fn", nullptr, "t", LOG_LEVEL_INFO, 1, 1},
    {"file-without-directory", "mod", "fn", "f.cpp", "t", LOG_LEVEL_INFO, 1, 1}, {"file-ends-with-slash", "mod", "fn", "dir/", "t", LOG_LEVEL_INFO, 1, 1},
    {"level=-1", "mod", "fn", "dir/f.cpp", "t", -1, 1, 1}, {"level=-1000", "mod", "fn", "dir/f.cpp", "t", -1000, 1, 1},
    {"level=8", "mod", "fn", "dir/f.cpp", "t", 8, 0, 1}, {"level=1000", "mod", "fn", "dir/f.cpp", "t", 1000, 0, 1},
    {"module-name-of-64-chars", long_mod.c_str(), "fn", "dir/f.cpp", "t", LOG_LEVEL_INFO, 1, 1}, {"file-name-of-200-chars-behind-a-1500-char-directory", "mod", "fn", long_file.c_str(), "t", LOG_LEVEL_INFO, 1, 1} };
  { int i = 0; for (size_t n : {63ul, 64ul, 65ul, 255ul, 300ul}) { long_fn[i] = std::string(n, 'x'); for (size_t j = 0; j < n; j++) long_fn[i][j] = "Tmpl<ab>::op_"[j % 13]; DEG.push_back({"function-name-of-" + std::to_string(n) + "-chars", "mod", long_fn[i].c_str(), "dir/f.cpp", "t", LOG_LEVEL_INFO, 1, 1}); i++; } }
  for (const Deg &d : DEG) for (int with_args = 0; with_args < 2; with_args++) {
    SyncRec s; AsyncRec a; AsyncSink::Config cfg; cfg.buff_size = 64; cfg.buff_min_num = 1; cfg.buff_max_num = 3; cfg.interval = 100; a.setConfig(cfg);
    s.setLevel(LOG_LEVEL_TRACE); a.setLevel(LOG_LEVEL_TRACE); s.enable(); a.enable();
    char desc[160]; snprintf(desc, sizeof desc, "degenerate %s with_args=%d", d.what.c_str(), with_args); hx::set_current(desc);
    LogPrintfFunc(d.mod, d.fn, d.file, 7, d.level, with_args, d.fmt);
    s.disable(); a.disable(); N++;
    size_t nl = std::count(a.out.begin(), a.out.end(), '\n');
    if (s.recs.size() < (size_t)d.min_recs || s.recs.size() > (size_t)d.max_recs || nl != s.recs.size()) { printf("@VIOL sig=degenerate-argument-call-record-count-wrong(%s) :: %s sync=%zu async=%zu\n", d.what.c_str(), desc, s.recs.size(), nl); continue; }
    if (s.recs.empty()) continue;
    const Rec &r = s.recs[0]; std::string text = d.fmt ? d.fmt : "", file = "<null>"; if (d.file) { file = d.file; size_t p = file.rfind('/'); if (p != std::string::npos) file = file.substr(p + 1); }
    bool ok = r.level >= 0 && r.level < LOG_LEVEL_MAX && (d.level < 0 || d.level >= LOG_LEVEL_MAX || r.level == d.level) && (d.mod ? r.module == d.mod : (!r.module.empty() && r.module != "<null>")) && r.func == (d.fn ? d.fn : "<null>") && r.file == file && r.line == 7 && r.text == text && !r.trunc && r.sec == (uint32_t)vsec && r.usec == 42 && r.tid == my_tid();
    if (!ok) { printf("@VIOL sig=degenerate-argument-call-record-field-corrupted(%s) :: %s\n", d.what.c_str(), desc); continue; }
    std::string exp = line_head(r.level, vsec, r.module.c_str()) + (d.fn ? std::string(d.fn) + "() " : "") + (text.empty() ? "" : text + " ") + (d.file ? "-- " + file + ":7" : std::string()) + "\n";
    if (a.out != exp) printf("@VIOL sig=async-sink-line-wrong(degenerate-%s) :: %s %s\n", d.what.c_str(), desc, first_diff(a.out, exp).c_str());
  }
  D = N; return 0;
}

static int sweep_filter() {
  // default threshold g in 0..7 (set with setLevel(g), or with setLevel("", g) in the variant `via_empty`), per-module threshold for "A" in
  // {unset,0..7}, set-then-unset variant, log from module A, from B and from AB (a name that only EXTENDS the configured one: thresholds match whole names) at every level
  static const char *SRC[3] = {"A", "B", "AB"};
  for (int g = 0; g < LOG_LEVEL_MAX; g++) for (int pm = -1; pm < LOG_LEVEL_MAX; pm++) for (int unset = 0; unset < 2; unset++) for (int via_empty = 0; via_empty < 2; via_empty++) for (int m = 0; m < 3; m++) for (int lv = 0; lv < LOG_LEVEL_MAX; lv++) {
    if (unset && pm < 0) continue;
    if (via_empty && !(pm < 0 || pm == 3)) continue;
    SyncRec s; AsyncRec a; AsyncSink::Config cfg; cfg.buff_size = 128; cfg.buff_min_num = 1; cfg.buff_max_num = 2; cfg.interval = 100; a.setConfig(cfg);
    for (Sink *k : {(Sink *)&s, (Sink *)&a}) { if (via_empty) { k->setLevel(7 - g); if (pm >= 0) k->setLevel("A", pm); k->setLevel("", g); } else { k->setLevel(g); if (pm >= 0) k->setLevel("A", pm); } if (unset) k->unsetLevel("A"); k->enable(); }
    char desc[128]; snprintf(desc, sizeof desc, "default=%d%s module-A=%d%s from=%s level=%d", g, via_empty ? "(set through the empty module name)" : "", pm, unset ? "(then unset)" : "", SRC[m], lv); hx::set_current(desc);
    LogPrintfFunc(SRC[m], "fn", "f.cpp", 1, lv, 0, "t");
    s.disable(); a.disable(); N++;
    int thr = (m == 0 && pm >= 0 && !unset) ? pm : g; size_t want = lv <= thr ? 1 : 0;
    std::string exp = want ? line_head(lv, vsec, SRC[m]) + "fn() t -- f.cpp:1\n" : std::string();
    if (s.recs.size() != want) printf("@VIOL sig=filter-sync-sink-delivered-%zu-expected-%zu :: %s\n", s.recs.size(), want, desc);
    else if (want && (s.recs[0].level != lv || s.recs[0].module != (SRC[m]) || s.recs[0].text != "t")) printf("@VIOL sig=filter-sync-sink-record-field-corrupted :: %s\n", desc);
    if (a.out != exp) printf("@VIOL sig=filter-async-sink-delivered-%zu-expected-%zu :: %s %s\n", (size_t)std::count(a.out.begin(), a.out.end(), '\n'), want, desc, first_diff(a.out, exp).c_str());
    if (N % 400 == 1) printf("@SAMPLE %s => delivered=%zu\n", desc, s.recs.size());
  }
  D = N; return 0;
}

static std::vector<std::string> list_files(const std::string &dir) {     // in creation order: name, then numeric postfix
  std::vector<std::string> v; DIR *d = opendir(dir.c_str()); if (!d) return v; while (auto *e = readdir(d)) { std::string n = e->d_name; if (n == "." || n == ".." || n.find("latest") != std::string::npos) continue; v.push_back(n); } closedir(d);
  auto key = [](const std::string &n) { size_t p = n.rfind(".log"); std::string base = n.substr(0, p); int post = 0; if (p + 4 < n.size()) post = atoi(n.c_str() + p + 5); return std::make_pair(base, post); };
  std::sort(v.begin(), v.end(), [&](const std::string &a, const std::string &b) { return key(a) < key(b); }); return v;
}
static std::string read_files(const std::string &dir, bool &split, size_t &files) {
  std::string all; split = false; files = 0;
  for (auto &f : list_files(dir)) { std::ifstream in(dir + "/" + f); std::stringstream ss; ss << in.rdbuf(); std::string c = ss.str(); files++; if (!c.empty() && c.back() != '\n') split = true; all += c; }
  return all;
}
static void rm_tree(const std::string &dir) { DIR *d = opendir(dir.c_str()); if (d) { while (auto *e = readdir(d)) { std::string n = e->d_name; if (n == "." || n == "..") continue; std::string p = dir + "/" + n; struct stat sb; if (lstat(p.c_str(), &sb) == 0 && S_ISDIR(sb.st_mode)) rm_tree(p); else unlink(p.c_str()); } closedir(d); } rmdir(dir.c_str()); }
static int sweep_file(const std::string &work) {
  // one record is "I 2023-.. .000042 <tid> mod fn() rec-<k>-pad -- f.cpp:<k>\n"; measure its size first.
  // Dimensions: size limit x record count (1..6, and 12 with limit 1: numeric postfixes .1 .. .11 in one second) x pacing x life-cycle {log,disable |
  // log,disable,(log while disabled),enable,log,disable on the SAME object | log, then the sink is destroyed while still enabled | as the second, with
  // setFilePath(other directory) and setFileSyncEnable(flipped) called while disabled: period-1 records in the first directory, period-2 records in the
  // second} x pipe buffers {default 10 KiB | 64 bytes: a record spans several hand-overs, so a roll-over happens while the back-end holds a partial frame}
  // x O_DSYNC {off,on}; rotated over the cases (not crossed): spelling of the directory {dir, dir/, " dir "} and state of the directory at enable()
  // {exists, absent, absent two levels deep}.
  // Oracle: every WHOLE line (level code, time of the call under the virtual clock, usec, thread id, module, function, text, file:line), files
  // concatenated in creation order == the records logged while enabled, in order; no file ends inside a record.
  size_t recsz = 0;
  for (int pass = 0; pass < 2; pass++) {
    std::vector<size_t> limits = pass == 0 ? std::vector<size_t>{1u << 20} : std::vector<size_t>{1, recsz - 1, recsz, recsz + 1, 3 * recsz};
    bool quick = getenv("VERIF_TIER") && !strcmp(getenv("VERIF_TIER"), "quick");
    for (size_t limit : limits) for (int nrec : {1, 2, 3, 4, 5, 6, 12}) for (int pace = 0; pace < 3; pace++) for (int v = 0; v < 16; v++) {
      if (nrec == 12 && (limit != 1 || pace != 0)) continue;
      if (quick && pace > 0 && nrec > (pace == 1 ? 3 : 2)) continue;      // the paced (sleeping) cases are the slow ones      // pace: 0 = all in one burst, 1 = wait for the flush after each record, 2 = same + clock moves 1 s per record
      const int life = v % 4, small = (v / 4) % 2, sync = v / 8;
      if (pace > 0 && (small || sync || (life && (quick || nrec > 3)))) continue;        // the option cross runs on the burst shape; paced runs keep default options
      const int sp = (int)(N % 3), dx = (int)((N / 3) % 3);
      std::string base = work + "/f" + std::to_string(N), dir = dx == 2 ? base + "/a/b" : base, dir2 = base + "_second/x"; rm_tree(base); rm_tree(base + "_second"); if (dx == 0) mkdir(dir.c_str(), 0700);
      vsec = BASE_SEC; std::string want, want1;
      char desc[256]; snprintf(desc, sizeof desc, "limit=%zu records=%d pace=%d life=%s buffers=%s dsync=%d path-spelling=%s directory=%s", limit, nrec, pace, life == 0 ? "log,disable" : life == 1 ? "log,disable,enable,log,disable" : life == 2 ? "log,destroyed-while-enabled" : "log,disable,setFilePath(other),setFileSyncEnable(flipped),enable,log,disable", small ? "64B" : "default", sync, sp == 0 ? "dir" : sp == 1 ? "dir/" : "' dir '", dx == 0 ? "exists" : dx == 1 ? "absent" : "absent-two-levels-deep"); hx::set_current(desc);
      std::unique_ptr<AsyncFileSink> fs(new AsyncFileSink);
      fs->setFilePath(sp == 0 ? dir : sp == 1 ? dir + "/" : "  " + dir + " "); fs->setFilePrefix(sp == 2 ? " log " : "log"); fs->setFileMaxSize(limit); fs->setLevel(LOG_LEVEL_TRACE);
      if (small) { AsyncSink::Config cfg; cfg.buff_size = 64; cfg.buff_min_num = 1; cfg.buff_max_num = 3; cfg.interval = 100; fs->setConfig(cfg); }
      if (sync) fs->setFileSyncEnable(true);
      fs->enable();
      bool split = false; size_t files = 0; std::string all; const char *stage = ""; bool bad = false;
      auto log_one = [&](int k, bool expected) { char t[32]; snprintf(t, sizeof t, "rec-%d-pad", k);
        LogPrintfFunc("mod", "fn", "f.cpp", k, LOG_LEVEL_INFO, 0, t);
        if (expected) want += line_head(LOG_LEVEL_INFO, vsec, "mod") + "fn() " + t + " -- f.cpp:" + std::to_string(k) + "\n";
        if (pace) { usleep(150000); if (pace == 2) vsec++; } };
      const bool cyc = life == 1 || life == 3; const int first = cyc ? (nrec + 1) / 2 : nrec;
      for (int k = 0; k < first; k++) log_one(k, true);
      if (cyc) {
        fs->disable();                   // everything logged before must be on disk now
        all = read_files(dir, split, files);
        if (split || all != want) { bad = true; stage = "(first-enabled-period-of-a-sink-that-is-re-enabled-later)"; }
        else { { int p = pace; pace = 0; log_one(99, false); pace = p; }          // while disabled: must never reach the disk, not even after the re-enable
          if (pace == 2) vsec++;
          if (life == 3) { want1 = want; want.clear(); fs->setFilePath(dir2); fs->setFileSyncEnable(!sync); }
          fs->enable(); for (int k = first; k < nrec; k++) log_one(k, true); fs->disable(); stage = life == 3 ? "(after-disable,setFilePath,enable-of-the-same-sink)" : "(after-disable,enable-of-the-same-sink)"; }
      } else if (life == 0) fs->disable();                      // everything logged before must be on disk now
      else { fs.reset(); stage = "(sink-destroyed-while-enabled)"; }
      if (!bad) { all = read_files(life == 3 ? dir2 : dir, split, files);
        if (life == 3 && !split && all == want) { bool sp1; size_t f1; std::string a1 = read_files(dir, sp1, f1); if (sp1 || a1 != want1) { all = a1; want = want1; split = sp1; stage = "(first-directory-changed-after-setFilePath-to-another-one)"; } } }
      N++;
      if (pass == 0 && nrec == 1 && pace == 0 && v == 0) recsz = all.size();
      if (split) printf("@VIOL sig=file-sink-record-split-across-files%s :: %s\n", stage, desc);
      else if (all != want) printf("@VIOL sig=file-sink-records-lost-duplicated-or-reordered-on-disk-after-disable%s :: %s files=%zu %s\n", stage, desc, files, first_diff(all, want).c_str());
      if (N % 60 == 1) printf("@SAMPLE %s => %zu files, %zu bytes\n", desc, files, all.size());
      fs.reset(); rm_tree(base); rm_tree(base + "_second");
    }
  }
  // BIG records (texts of 70000 and 100000 bytes: legal below the default maximum of 102400) mixed with short ones, with size limits smaller than one big
  // record and limits that the running size crosses INSIDE a big record: a back-end that writes a record in several pieces must not roll over between them.
  // shapes x limit {1, 64, one 70000-record + half a head, 150000, 1 MiB} x O_DSYNC {off,on} x pipe buffers {default, 64 B} on the burst pacing, and the
  // flush-after-each-record pacing with default options; same oracle as above (every file ends on a record boundary; concatenation == expected sequence).
  { bool quick = getenv("VERIF_TIER") && !strcmp(getenv("VERIF_TIER"), "quick");
    static const std::vector<std::vector<size_t>> SHAPES = {{70000}, {9, 70000, 9}, {70000, 100000}, {9, 9, 100000, 9, 70000}};
    static std::string big[2]; if (big[0].empty()) { big[0].resize(70000); big[1].resize(100000); for (auto &b : big) for (size_t i = 0; i < b.size(); i++) b[i] = (char)('a' + (i * 7 + i / 26) % 26); }
    LogSetMaxLength(100 << 10);
    for (size_t si = 0; si < SHAPES.size(); si++) for (size_t limit : {(size_t)1, (size_t)64, (size_t)(70000 + 60), (size_t)150000, (size_t)(1u << 20)}) for (int pace = 0; pace < 2; pace++) for (int v = 0; v < 4; v++) {
      const int small = v % 2, sync = v / 2; if (pace && (v || (quick && si != 1))) continue;
      std::string dir = work + "/fbig" + std::to_string(N); rm_tree(dir); vsec = BASE_SEC; std::string want;
      char desc[200]; std::string shp; for (size_t n : SHAPES[si]) shp += (shp.empty() ? "" : ",") + std::to_string(n);
      snprintf(desc, sizeof desc, "big records: text sizes {%s} limit=%zu pace=%d buffers=%s dsync=%d", shp.c_str(), limit, pace, small ? "64B" : "default", sync); hx::set_current(desc);
      { AsyncFileSink fs; fs.setFilePath(dir); fs.setFilePrefix("log"); fs.setFileMaxSize(limit); fs.setLevel(LOG_LEVEL_TRACE);
        if (small) { AsyncSink::Config cfg; cfg.buff_size = 64; cfg.buff_min_num = 1; cfg.buff_max_num = 3; cfg.interval = 100; fs.setConfig(cfg); }
        if (sync) fs.setFileSyncEnable(true);
        fs.enable(); int k = 0;
        for (size_t n : SHAPES[si]) { std::string t = n == 70000 ? big[0] : n == 100000 ? big[1] : "short-" + std::to_string(k) + "-x"; t.resize(n, 'x');
          if (k % 2) LogPrintfFunc("mod", "fn", "f.cpp", k, LOG_LEVEL_INFO, 1, "%s", t.c_str()); else LogPrintfFunc("mod", "fn", "f.cpp", k, LOG_LEVEL_INFO, 0, t.c_str());
          want += line_head(LOG_LEVEL_INFO, vsec, "mod") + "fn() " + t + " -- f.cpp:" + std::to_string(k) + "\n"; k++;
          if (pace) usleep(150000); }
        fs.disable(); }
      bool split; size_t files; std::string all = read_files(dir, split, files); N++;
      if (split) printf("@VIOL sig=file-sink-record-split-across-files(big-record) :: %s files=%zu\n", desc, files);
      else if (all != want) printf("@VIOL sig=file-sink-records-lost-duplicated-or-reordered-on-disk-after-disable(big-record) :: %s files=%zu %s\n", desc, files, first_diff(all, want).c_str());
      if (si == 1 && limit == 64 && v == 0) printf("@SAMPLE %s => %zu files, %zu bytes\n", desc, files, all.size());
      rm_tree(dir); } }
  // long names through the file sink: module of 64, function of 255, file name of 200 characters (behind a 1500-character directory part), 3 records, roll-over after each
  { static std::string lmod(64, 'M'), lfn(255, 'f'), lfile = std::string(1500, 'd') + "/" + std::string(196, 'F') + ".cpp";
    std::string dir = work + "/flong"; rm_tree(dir); vsec = BASE_SEC; std::string want; hx::set_current("file sink, long module/function/file names");
    { AsyncFileSink fs; fs.setFilePath(dir); fs.setFilePrefix("log"); fs.setFileMaxSize(1); fs.setLevel(LOG_LEVEL_TRACE); fs.enable();
      for (int k = 0; k < 3; k++) { LogPrintfFunc(lmod.c_str(), lfn.c_str(), lfile.c_str(), k, LOG_LEVEL_WARN, 0, "t"); want += line_head(LOG_LEVEL_WARN, vsec, lmod.c_str()) + lfn + "() t -- " + lfile.substr(1501) + ":" + std::to_string(k) + "\n"; }
      fs.disable(); }
    bool split; size_t files; std::string all = read_files(dir, split, files); N++;
    if (split || all != want) printf("@VIOL sig=file-sink-record-with-long-names-altered :: module 64, function 255, file 200 chars files=%zu %s\n", files, first_diff(all, want).c_str());
    rm_tree(dir); }
  D = N; return 0;
}

// filter histories (engine H): BFS over setLevel(default) / setLevel(module) / unsetLevel(module) / log(module, level) on ONE sink
// of each kind that lives through the whole history; every log call is judged against the threshold in force at that moment.
enum FK { F_SETDEF, F_SETMOD, F_UNSET, F_LOG };
struct FOp { int k, a, b; };
static int sweep_filterseq(size_t depth, int part, int nparts, size_t async_max) {
  static const int LV[3] = {1, 4, 6}; static const int LOGLV[4] = {0, 2, 5, 7}; static const char *MOD[2] = {"A", "AB"};     // one name is a proper prefix of the other: thresholds match whole names only
  hx::Explorer<FOp> ex; ex.name = "filter-histories"; ex.deadline_s = hx::deadline_from_env(300); ex.part = part; ex.nparts = nparts;
  ex.show = [](const FOp &o) { char b[48]; switch (o.k) { case F_SETDEF: snprintf(b, 48, "setLevel(%d)", o.a); break; case F_SETMOD: snprintf(b, 48, "setLevel(%s,%d)", MOD[o.b], o.a); break; case F_UNSET: snprintf(b, 48, "unsetLevel(%s)", MOD[o.b]); break; default: snprintf(b, 48, "log(%s,level%d)", MOD[o.b], o.a); } return std::string(b); };
  ex.menu = [&](const std::vector<FOp> &) { std::vector<FOp> m; for (int l : LV) m.push_back({F_SETDEF, l, 0}); for (int mo = 0; mo < 2; mo++) { for (int l : LV) m.push_back({F_SETMOD, l, mo}); m.push_back({F_UNSET, 0, mo}); for (int l : LOGLV) m.push_back({F_LOG, l, mo}); } return m; };
  ex.run = [&](const std::vector<FOp> &h, std::string &viol) {
    SyncRec s; AsyncRec a; AsyncSink::Config cfg; cfg.buff_size = 256; cfg.buff_min_num = 1; cfg.buff_max_num = 2; cfg.interval = 100; a.setConfig(cfg);
    const bool with_async = !h.empty() && h.back().k == F_LOG && h.size() <= async_max;     // the async sink (a thread per evaluation) runs on every history of up to async_max ops that ENDS with a log call: a history ending with another op shows the async sink nothing its prefix did not
    s.enable(); if (with_async) a.enable(); int def = LOG_LEVEL_MAX, mod[2] = {-1, -1}; size_t want_total = 0; std::string want_async;
    for (auto &o : h) { if (!viol.empty()) break;
      switch (o.k) {
        case F_SETDEF: s.setLevel(o.a); a.setLevel(o.a); def = o.a; break;
        case F_SETMOD: s.setLevel(MOD[o.b], o.a); a.setLevel(MOD[o.b], o.a); mod[o.b] = o.a; break;
        case F_UNSET: s.unsetLevel(MOD[o.b]); a.unsetLevel(MOD[o.b]); mod[o.b] = -1; break;
        case F_LOG: { size_t before = s.recs.size(); char t[16]; snprintf(t, sizeof t, "r%zu", want_total); LogPrintfFunc(MOD[o.b], "fn", "f.cpp", 1, o.a, 0, t);
          int thr = mod[o.b] >= 0 ? mod[o.b] : def; bool want = o.a <= thr;
          if (s.recs.size() - before != (want ? 1u : 0u)) viol = std::string(want ? "record-that-passes-the-threshold-not-delivered" : "record-below-the-threshold-delivered") + " (sync sink) threshold=" + std::to_string(thr) + " level=" + std::to_string(o.a);
          if (want) { if (viol.empty()) { const Rec &r = s.recs.back(); if (r.level != o.a || r.module != MOD[o.b] || r.text != t || r.func != "fn" || r.file != "f.cpp" || r.line != 1) viol = "record-field-corrupted (sync sink, filter histories)"; }
            want_async += line_head(o.a, vsec, MOD[o.b]) + "fn() " + t + " -- f.cpp:1\n"; want_total++; } } break; } }
    s.disable(); if (with_async) a.disable();
    if (viol.empty() && with_async && a.out != want_async) viol = "async-sink-delivered-a-different-record-sequence-than-the-thresholds-allow " + first_diff(a.out, want_async);   // whole lines, head included
    // the most recent log call is part of the state: an implementation may remember it (e.g. a per-module threshold cache)
    // Hidden implementation state (e.g. a threshold cache) may depend on recent calls, so the last three ops are part of the
    // state key: two histories are merged only if they agree on the thresholds in force AND on their last three operations.
    std::string tail; for (size_t i = h.size() > 3 ? h.size() - 3 : 0; i < h.size(); i++) { char t[24]; snprintf(t, sizeof t, "%d.%d.%d,", h[i].k, h[i].a, h[i].b); tail += t; }
    char c[160]; snprintf(c, sizeof c, "def%d A%d B%d|impl def%d n%zu|tail %s", def, mod[0], mod[1], VF_GET(default_level_, s, -99), VF_SIZE(modules_level_, s, (size_t)0), tail.c_str()); return std::string(c); };
  ex.check_replay_determinism = false; ex.explore(depth); return 0;
}

// life-cycle histories (engine H): BFS over operation histories on long-lived sinks that are registered, removed and registered again in every
// order: a synchronous recorder and an AsyncSink on the real pipe with 64-byte buffers (Sink::enable/disable), a RAW channel registered directly
// through the public C interface LogAddPrintfFunc / LogRemovePrintfFunc, and the built-in stdout output LogOutput_Enable / LogOutput_Disable.
//   alphabet 0 (thresholds and clock): enable(k) / disable(k) / setLevel(k, {2,6}) / log({1,4,7}) / clock+1s on the two Sink objects, which carry DIFFERENT thresholds;
//   alphabet 1 (registration): enable(k) / disable(k) / log(4) / add-raw / remove-raw(live id | stale or never issued id | id 0) / LogOutput_Enable / LogOutput_Disable -
//     i.e. also UNMATCHED and DUPLICATE removals (disable of a sink that is not enabled, removal of an id that is not registered, LogOutput_Disable without or
//     after Enable), each followed by logging with any number of sinks enabled.
// Reference model per sink: enabled bit, threshold, number of enabled periods so far. Oracle (decided by the model only): a log call adds exactly one whole
// record to a synchronous sink / raw channel iff it is registered and the level passes ITS threshold (checked at once, every field incl. the time of the call);
// the asynchronous sink's output must equal, byte for byte, the whole lines of the records that passed while IT was enabled - compared whenever disable() of
// that sink returns and at the end; the built-in output's captured stdout must equal the lines of the records logged while it was enabled.
// Every history is followed by a fixed epilogue: everything is disabled, one call is logged (nobody may receive it), then a fresh raw channel is the ONLY
// registered one and one call is logged (it must receive exactly that record) - the registry must be consistent again whatever the history did.
enum LK { LC_EN, LC_DIS, LC_SET, LC_LOG, LC_TICK, LC_RAWADD, LC_RAWREM, LC_OUTEN, LC_OUTDIS };
struct LOp { int k, s, a; };
static void raw_channel(const LogContent *c, void *ptr) { SyncRec *r = static_cast<SyncRec *>(ptr); r->onLogFrontEnd(c); }      // a bare LogPrintfFuncType: no threshold of its own
static int sweep_lifecycle(size_t depth, int part, int nparts, int alphabet) {
  static const char *SN[2] = {"sync", "async"};
  hx::Explorer<LOp> ex; ex.name = alphabet ? "registration-histories" : "life-cycle-histories"; ex.deadline_s = hx::deadline_from_env(300); ex.part = part; ex.nparts = nparts;
  ex.show = [](const LOp &o) { char b[64]; switch (o.k) { case LC_EN: snprintf(b, 64, "enable(%s)", SN[o.s]); break; case LC_DIS: snprintf(b, 64, "disable(%s)", SN[o.s]); break; case LC_SET: snprintf(b, 64, o.s ? "setLevel(%s,\"\",%d)" : "setLevel(%s,%d)", SN[o.s], o.a); break; case LC_LOG: snprintf(b, 64, "log(level%d)", o.a); break; case LC_TICK: snprintf(b, 64, "clock+1s"); break;
      case LC_RAWADD: snprintf(b, 64, "raw=LogAddPrintfFunc()"); break; case LC_RAWREM: snprintf(b, 64, "LogRemovePrintfFunc(%s)", o.a == 0 ? "raw-if-registered-else-stale-id" : o.a == 1 ? "stale-or-never-issued-id" : "0"); break; case LC_OUTEN: snprintf(b, 64, "LogOutput_Enable()"); break; default: snprintf(b, 64, "LogOutput_Disable()"); } return std::string(b); };
  ex.menu = [&](const std::vector<LOp> &) { std::vector<LOp> m; for (int k = 0; k < 2; k++) m.push_back({LC_EN, k, 0});
    if (alphabet == 0) { for (int l : {1, 4, 7}) m.push_back({LC_LOG, 0, l}); for (int k = 0; k < 2; k++) m.push_back({LC_DIS, k, 0}); for (int k = 0; k < 2; k++) for (int l : {2, 6}) m.push_back({LC_SET, k, l}); m.push_back({LC_TICK, 0, 0}); }
    else { m.push_back({LC_LOG, 0, 4}); for (int k = 0; k < 2; k++) m.push_back({LC_DIS, k, 0}); m.push_back({LC_RAWADD, 0, 0}); for (int w = 0; w < 3; w++) m.push_back({LC_RAWREM, 0, w}); m.push_back({LC_OUTEN, 0, 0}); m.push_back({LC_OUTDIS, 0, 0}); }
    return m; };
  static bool poisoned = false; static int cap_fd = -1;
  ex.run = [&](const std::vector<LOp> &h, std::string &viol) {
    if (poisoned) return std::string("<not evaluated: the process-global channel registry was left inconsistent by an earlier history>");
    vsec = BASE_SEC;
    SyncRec s, raw; AsyncRec a; AsyncSink::Config cfg; cfg.buff_size = 64; cfg.buff_min_num = 1; cfg.buff_max_num = 3; cfg.interval = 100; a.setConfig(cfg);
    Sink *K[2] = {&s, &a}; bool en[2] = {false, false}; int thr[2] = {LOG_LEVEL_MAX, LOG_LEVEL_MAX}, cyc[2] = {0, 0}, pend_a = 0; std::vector<int> order; std::string want_a, want_out; size_t nlog = 0;
    bool raw_live = false, out_en = false; uint32_t raw_id = 0, stale_id = 0x7ffffff0u; int raw_cyc = 0, out_cyc = 0, stray = 0;
    bool capture = false; for (auto &o : h) if (o.k == LC_OUTEN) capture = true;
    int saved = -1; if (capture) { if (cap_fd < 0) cap_fd = (int)syscall(SYS_memfd_create, "c09-stdout", 0); fflush(stdout); saved = dup(1); if (ftruncate(cap_fd, 0)) {} lseek(cap_fd, 0, SEEK_SET); dup2(cap_fd, 1); }
    auto period = [&](int k) { return std::string("(enabled-period-") + (cyc[k] >= 2 ? "2-or-later" : "1") + ")"; };
    auto after_stray = [&]() { return std::string(stray ? "(after-a-removal-of-something-not-registered)" : ""); };
    auto check_async = [&](const char *when) { if (a.out == want_a) return; std::string d = first_diff(a.out, want_a); viol = "lifecycle-async-sink-" + d.substr(0, d.find(' ')) + "-" + when + period(1) + after_stray() + " " + d; };
    static char texts[32][16];
    auto rec_ok = [&](const Rec &r, int level, const char *t, int line) { return r.level == level && r.module == "mod" && r.func == "fn" && r.file == "f.cpp" && r.line == line && r.text == t && !r.trunc && r.sec == (uint32_t)vsec && r.usec == 42 && r.tid == my_tid(); };
    for (auto &o : h) { if (!viol.empty()) break;
      switch (o.k) {
        case LC_EN: K[o.s]->enable(); if (!en[o.s]) { en[o.s] = true; cyc[o.s]++; order.push_back(o.s); if (o.s == 1) pend_a = 0; } break;
        case LC_DIS: K[o.s]->disable(); if (en[o.s]) { en[o.s] = false; order.erase(std::find(order.begin(), order.end(), o.s)); if (o.s == 1) check_async("when-disable-returned"); } else stray++; break;
        case LC_SET: if (o.s == 0) s.setLevel(o.a); else a.setLevel("", o.a); thr[o.s] = o.a; break;
        case LC_TICK: vsec++; break;
        case LC_RAWADD: if (!raw_live) { raw_id = LogAddPrintfFunc(raw_channel, &raw); raw_live = true; raw_cyc++; order.push_back(2); } break;
        case LC_RAWREM: if (o.a == 0 && raw_live) { LogRemovePrintfFunc(raw_id); stale_id = raw_id; raw_live = false; order.erase(std::find(order.begin(), order.end(), 2)); }
                        else { LogRemovePrintfFunc(o.a == 2 ? 0u : stale_id); stray++; } break;
        case LC_OUTEN: LogOutput_Enable(); if (!out_en) { out_en = true; out_cyc++; order.push_back(3); } break;
        case LC_OUTDIS: LogOutput_Disable(); if (out_en) { out_en = false; order.erase(std::find(order.begin(), order.end(), 3)); } else stray++; break;
        default: { char *t = texts[nlog % 32]; snprintf(t, 16, "r%zu", nlog); int line = 10 + (int)nlog; size_t before = s.recs.size(), rbefore = raw.recs.size();
          if (nlog % 2) LogPrintfFunc("mod", "fn", "dir/f.cpp", line, o.a, 1, "r%d", (int)nlog); else LogPrintfFunc("mod", "fn", "dir/f.cpp", line, o.a, 0, t);
          bool ws = en[0] && o.a <= thr[0], wa = en[1] && o.a <= thr[1]; size_t got = s.recs.size() - before, rgot = raw.recs.size() - rbefore;
          if (got != (ws ? 1u : 0u)) viol = (ws ? (got ? "lifecycle-sync-sink-record-duplicated" : "lifecycle-sync-sink-record-missing") + period(0) + after_stray() : std::string("lifecycle-sync-sink-got-a-record-") + (en[0] ? "below-its-own-threshold" : "while-disabled")) + " level=" + std::to_string(o.a);
          else if (ws && !rec_ok(s.recs.back(), o.a, t, line)) viol = "lifecycle-sync-sink-record-field-corrupted" + period(0);
          else if (rgot != (raw_live ? 1u : 0u)) viol = (raw_live ? std::string(rgot ? "raw-channel-record-duplicated" : "raw-channel-record-missing") + after_stray() : std::string("raw-channel-got-a-record-after-LogRemovePrintfFunc")) + " level=" + std::to_string(o.a);
          else if (raw_live && !rec_ok(raw.recs.back(), o.a, t, line)) viol = "raw-channel-record-field-corrupted";
          if (wa) { want_a += line_head(o.a, vsec, "mod") + "fn() " + t + " -- f.cpp:" + std::to_string(line) + "\n"; pend_a++; }
          if (out_en) want_out += std::string("\033[") + COLOR_CODE[o.a] + "m" + line_head(o.a, vsec, "mod") + "fn() " + t + " -- f.cpp:" + std::to_string(line) + "\033[0m\n";
          nlog++; } break; } }
    // canonical state: model (enabled, threshold, life-cycle phase per sink / channel, registration order, clock, records pending in the async period, whether a stray
    // removal happened) + the implementation's main-thread-owned fields (read through probes BEFORE the final disable; back-end-owned fields would race) + the last
    // two ops (three if a probed member no longer exists): hidden state such as a callback lost by cleanup or a cache filled by the latest call must not be merged away.
    const size_t ntail = vf_any_missing() ? 3 : 2; std::string tail; for (size_t i = h.size() > ntail ? h.size() - ntail : 0; i < h.size(); i++) { char t[24]; snprintf(t, sizeof t, "%d.%d.%d,", h[i].k, h[i].s, h[i].a); tail += t; }
    std::string ord; for (int k : order) ord += (char)('0' + k);
    const uint32_t sid = VF_GET(output_id_, s, 0u), aid = VF_GET(output_id_, a, 0u);
    char c[400]; snprintf(c, sizeof c, "S e%d t%d c%d|impl id%d def%d n%zu||A e%d t%d c%d pend%d|impl id%d def%d n%zu inited%d||raw e%d c%d|out e%d c%d|stray%d|order %s idlt%d|tick%lld|tail %s", (int)en[0], thr[0], std::min(cyc[0], 2), (int)(sid != 0), VF_GET(default_level_, s, -99), VF_SIZE(modules_level_, s, (size_t)0),
             (int)en[1], thr[1], std::min(cyc[1], 2), std::min(pend_a, 2), (int)(aid != 0), VF_GET(default_level_, a, -99), VF_SIZE(modules_level_, a, (size_t)0), VF_GET(is_pipe_inited_, a, -1), (int)raw_live, std::min(raw_cyc, 2), (int)out_en, std::min(out_cyc, 2), std::min(stray, 2), ord.c_str(), (int)(sid < aid), vsec - BASE_SEC, tail.c_str());
    s.disable(); a.disable(); if (raw_live) LogRemovePrintfFunc(raw_id); if (out_en) LogOutput_Disable();      // only matched removals here: unmatched ones are ops of the history, never hidden in the harness
    if (viol.empty()) check_async(en[1] ? "when-the-final-disable-returned" : "at-the-end-of-the-history");
    // epilogue (see above): nobody registered -> nobody receives; then a fresh raw channel is the only one -> it receives exactly one whole record
    std::string epi; { size_t b0 = s.recs.size(), r0 = raw.recs.size(); std::string a0 = a.out;
      LogPrintfFunc("mod", "fn", "dir/f.cpp", 98, LOG_LEVEL_INFO, 0, "epilogue-nobody");
      if (s.recs.size() != b0 || raw.recs.size() != r0 || a.out != a0) epi = "a-sink-still-receives-records-after-everything-was-disabled";
      SyncRec fresh; uint32_t id = LogAddPrintfFunc(raw_channel, &fresh); LogPrintfFunc("mod", "fn", "dir/f.cpp", 99, LOG_LEVEL_INFO, 0, "epilogue-only-one"); LogRemovePrintfFunc(id);
      if (epi.empty() && fresh.recs.size() != 1) epi = fresh.recs.empty() ? "channel-registry-inconsistent-after-the-history:the-only-registered-channel-gets-no-record" : "channel-registry-inconsistent-after-the-history:the-only-registered-channel-gets-the-record-more-than-once";
      else if (epi.empty() && !rec_ok(fresh.recs[0], LOG_LEVEL_INFO, "epilogue-only-one", 99)) epi = "channel-registry-inconsistent-after-the-history:record-field-corrupted";
      if (epi.empty() && (s.recs.size() != b0 || raw.recs.size() != r0 || a.out != a0)) epi = "a-sink-still-receives-records-after-everything-was-disabled"; }
    if (capture) { fflush(stdout); dup2(saved, 1); close(saved); std::string got; char buf[4096]; off_t off = 0; ssize_t n; while ((n = pread(cap_fd, buf, sizeof buf, off)) > 0) { got.append(buf, (size_t)n); off += n; }
      if (viol.empty() && got != want_out) { std::string d = first_diff(got, want_out); viol = "builtin-stdout-output-" + d.substr(0, d.find(' ')) + after_stray() + " " + d; } }
    if (!epi.empty()) { poisoned = true; printf("@CAP %s: the process-global channel registry is inconsistent after a history; the remaining histories of this process are not evaluated\n", ex.name.c_str()); if (viol.empty()) viol = epi + (stray ? " (the history removed something that was not registered)" : ""); }
    return std::string(c); };
  ex.check_replay_determinism = false; ex.explore(depth); return 0;
}

// stdout sinks (sync: printf, async: write(1)): fd 1 is redirected into a file for the duration of one record; the line must
// carry every field intact: level code [+colour], time, thread id, module, function, text (+ truncation mark), file:line
#include <tbox/log/sync_stdout_sink.h>
#include <tbox/log/async_stdout_sink.h>
static int sweep_stdout(const std::string &work) {
  std::string cap = work + "/stdout_capture.txt"; long tid = syscall(SYS_gettid);
  std::string ts_s = ts_str(vsec); const char *ts = ts_s.c_str();
  for (int kind = 0; kind < 2; kind++) for (int color = 0; color < 2; color++) for (int lv = 0; lv < LOG_LEVEL_MAX; lv++) for (size_t max : {4ul, 100ul}) for (size_t L : {0ul, 1ul, 4ul, 5ul, 9ul}) for (int with_func = 0; with_func < 2; with_func++) {
    LogSetMaxLength(max); std::string text(L, 'x'); for (size_t i = 0; i < L; i++) text[i] = (char)('a' + i);
    char desc[128]; snprintf(desc, sizeof desc, "%s-stdout-sink color=%d level=%d max=%zu len=%zu func=%d", kind ? "async" : "sync", color, lv, max, L, with_func); hx::set_current(desc);
    fflush(stdout); int saved = dup(1); int fd = open(cap.c_str(), O_CREAT | O_TRUNC | O_WRONLY, 0600); dup2(fd, 1); close(fd);
    { SyncStdoutSink ss; AsyncStdoutSink as; Sink *k = kind ? (Sink *)&as : (Sink *)&ss; k->setLevel(LOG_LEVEL_TRACE); k->enableColor(color); k->enable();
      LogPrintfFunc("modQ", with_func ? "fnQ" : nullptr, "dir/fileQ.cpp", 77, lv, 0, text.c_str());
      k->disable(); fflush(stdout); }
    dup2(saved, 1); close(saved);
    std::ifstream in(cap); std::stringstream buf; buf << in.rdbuf(); std::string got = buf.str(); N++;
    size_t el = std::min(L, max); bool tr = L > max;
    char head[160]; snprintf(head, sizeof head, "%c %s.%06u %ld modQ ", LEVEL_CODE[lv], ts, 42u, tid);
    std::string want = (color ? std::string("\033[") + COLOR_CODE[lv] + "m" : std::string()) + head + (with_func ? "fnQ() " : "") + (el ? text.substr(0, el) + " " : std::string()) + (tr && (el || !kind) ? "(TRUNCATED) " : "") + "-- fileQ.cpp:77" + (color ? "\033[0m\n" : "\n");
    if (got != want) printf("@VIOL sig=%s-stdout-sink-line-differs-from-the-documented-record-format :: %s got=[%s] want=[%s]\n", kind ? "async" : "sync", desc, got.substr(0, 120).c_str(), want.substr(0, 120).c_str());
    if (N % 150 == 1) printf("@SAMPLE %s => %zu bytes on stdout\n", desc, got.size());
  }
  LogSetMaxLength(100 << 10);
  // long names (a 64-character module, a 255-character function name as template/lambda __func__ can be, a 200-character file name behind a 1500-character directory)
  for (int kind = 0; kind < 2; kind++) { static std::string lmod(64, 'M'), lfn(255, 'f'), lfile = std::string(1500, 'd') + "/" + std::string(196, 'F') + ".cpp";
    hx::set_current(kind ? "async-stdout-sink long names" : "sync-stdout-sink long names");
    fflush(stdout); int saved = dup(1); int fd = open(cap.c_str(), O_CREAT | O_TRUNC | O_WRONLY, 0600); dup2(fd, 1); close(fd);
    { SyncStdoutSink ss; AsyncStdoutSink as; Sink *k = kind ? (Sink *)&as : (Sink *)&ss; k->setLevel(LOG_LEVEL_TRACE); k->enable();
      LogPrintfFunc(lmod.c_str(), lfn.c_str(), lfile.c_str(), 77, LOG_LEVEL_NOTICE, 0, "t"); k->disable(); fflush(stdout); }
    dup2(saved, 1); close(saved);
    std::ifstream in(cap); std::stringstream buf; buf << in.rdbuf(); std::string got = buf.str(); N++;
    std::string want = line_head(LOG_LEVEL_NOTICE, vsec, lmod.c_str()) + lfn + "() t -- " + lfile.substr(1501) + ":77\n";
    if (got != want) printf("@VIOL sig=%s-stdout-sink-record-with-long-names-altered :: module 64, function 255, file 200 chars %s\n", kind ? "async" : "sync", first_diff(got, want).c_str()); }
  // ONE long-lived sink of each kind across changes of second (same second twice, +1 s, +1 h, clock stepped back) and a
  // disable / enable cycle on the same object; the whole captured stream must equal the records logged while enabled, each with the
  // time of ITS call. fd 1 is captured for the whole sequence.
  struct Step { int act; long long dsec; };      // act: 0 = log, 1 = disable, 2 = enable
  static const Step STEPS[] = {{0, 0}, {0, 0}, {0, 1}, {0, 1}, {0, 3600}, {0, 0}, {1, 0}, {0, 2}, {2, 2}, {0, 2}, {0, 3}, {1, 3}, {0, 3}, {2, 4}, {0, 4}, {1, 4}};
  for (int kind = 0; kind < 2; kind++) for (int color = 0; color < 2; color++) {
    char desc[128]; snprintf(desc, sizeof desc, "%s-stdout-sink color=%d sequence log@T,T,T+1,T+1,T+1h,T,disable,log,enable,log@T+2,T+3,disable,log,enable,log@T+4,disable", kind ? "async" : "sync", color); hx::set_current(desc);
    fflush(stdout); int saved = dup(1); int fd = open(cap.c_str(), O_CREAT | O_TRUNC | O_WRONLY, 0600); dup2(fd, 1); close(fd);
    std::string want; bool on = true; int i = 0;
    { SyncStdoutSink ss; AsyncStdoutSink as; Sink *k = kind ? (Sink *)&as : (Sink *)&ss; k->setLevel(LOG_LEVEL_TRACE); k->enableColor(color); k->enable();
      for (const Step &st : STEPS) { vsec = BASE_SEC + st.dsec; i++;
        if (st.act == 1) { k->disable(); on = false; } else if (st.act == 2) { k->enable(); on = true; }
        else { static char tx[32][8]; snprintf(tx[i], 8, "s%d", i); int lv = i % LOG_LEVEL_MAX; LogPrintfFunc("modQ", "fnQ", "dir/fileQ.cpp", i, lv, 0, tx[i]);
          if (on) want += (color ? std::string("\033[") + COLOR_CODE[lv] + "m" : std::string()) + line_head(lv, vsec, "modQ") + "fnQ() " + tx[i] + " -- fileQ.cpp:" + std::to_string(i) + (color ? "\033[0m\n" : "\n"); } }
      fflush(stdout); }
    dup2(saved, 1); close(saved); vsec = BASE_SEC;
    std::ifstream in(cap); std::stringstream buf; buf << in.rdbuf(); std::string got = buf.str(); N++;
    if (got != want) printf("@VIOL sig=%s-stdout-sink-stream-differs-over-a-sequence-with-clock-changes-and-re-enable :: %s %s\n", kind ? "async" : "sync", desc, first_diff(got, want).c_str());
  }
  // CANDIDATE DEFECT, kept behind a switch (default off so the tree stays quiet): an AsyncStdoutSink that is destroyed while still enabled with a
  // record pending. AsyncSink has no destructor of its own (AsyncFileSink has one), so the pipe is flushed from ~AsyncPipe after the members of the
  // sink are gone. Enable with C09_DTOR_ASYNC_STDOUT=1.
  if (getenv("C09_DTOR_ASYNC_STDOUT") && atoi(getenv("C09_DTOR_ASYNC_STDOUT"))) {
    hx::set_current("async-stdout-sink destroyed while enabled with one pending record");
    fflush(stdout); int saved = dup(1); int fd = open(cap.c_str(), O_CREAT | O_TRUNC | O_WRONLY, 0600); dup2(fd, 1); close(fd);
    { AsyncStdoutSink as; as.setLevel(LOG_LEVEL_TRACE); as.enable(); LogPrintfFunc("modQ", "fnQ", "dir/fileQ.cpp", 1, LOG_LEVEL_INFO, 0, "pending"); }
    dup2(saved, 1); close(saved);
    std::ifstream in(cap); std::stringstream buf; buf << in.rdbuf(); std::string got = buf.str(); N++;
    std::string want = line_head(LOG_LEVEL_INFO, vsec, "modQ") + "fnQ() pending -- fileQ.cpp:1\n";
    if (got != want) printf("@VIOL sig=async-stdout-sink-destroyed-while-enabled-loses-the-pending-record :: %s\n", first_diff(got, want).c_str());
  }
  unlink(cap.c_str()); D = N; return 0;
}

int main(int argc, char **argv) {
  setenv("TZ", "VFT-05:30", 1); tzset();       // see ts_str(): local time = UTC + 5 h 30 min, computed by the oracle without localtime_r
  std::string what = argc > 1 ? argv[1] : "len"; hx::install_crash_reporter("C09-crash");
  if (what == "filterseq") return sweep_filterseq(argc > 2 ? atoi(argv[2]) : 4, argc > 4 ? atoi(argv[3]) : 0, argc > 4 ? atoi(argv[4]) : 1, argc > 5 ? atoi(argv[5]) : 4);
  if (what == "lifecycle") return sweep_lifecycle(argc > 2 ? atoi(argv[2]) : 4, argc > 4 ? atoi(argv[3]) : 0, argc > 4 ? atoi(argv[4]) : 1, argc > 5 ? atoi(argv[5]) : 0);
  if (what == "stdout") { int rc = sweep_stdout(argc > 2 ? argv[2] : "/tmp"); printf("@STAT states=%zu transitions=%zu executions=%zu\n", D, N, N); return rc; }
  int rc = what == "len" ? sweep_len() : what == "filter" ? sweep_filter() : sweep_file(argc > 2 ? argv[2] : "/tmp");
  printf("@STAT states=%zu transitions=%zu executions=%zu\n", D, N, N); return rc;
}
