// C09 (inputs / configurations, single thread): text lengths around the limits, level/module filters,
// file sink roll-over under a virtual wall clock.   usage: input_harness <len|filter|file> [workdir]
#include "hist/hist.h"
#include <tbox/base/log.h>
#include <tbox/base/log_impl.h>
#include <tbox/log/sink.h>
#include <tbox/log/async_sink.h>
#include <tbox/log/async_file_sink.h>
#include <dirent.h>
#include <fcntl.h>
#include <unistd.h>
#include <sys/stat.h>
#include <sys/time.h>
#include <algorithm>
#include <fstream>
#include <sstream>
static long long vsec = 1700000000;
extern "C" int gettimeofday(struct timeval *tv, void *) { if (tv) { tv->tv_sec = vsec; tv->tv_usec = 42; } return 0; }
extern "C" time_t time(time_t *t) { if (t) *t = vsec; return vsec; }
using namespace tbox::log;

struct Rec { int level; std::string module, func, file, text; int line; bool trunc; uint32_t len; };
struct SyncRec : Sink { std::vector<Rec> recs; void onLogFrontEnd(const LogContent *c) override { recs.push_back(Rec{c->level, c->module_id, c->func_name ? c->func_name : "", c->file_name ? c->file_name : "", std::string(c->text_ptr ? c->text_ptr : "", c->text_len), c->line, c->text_trunc, c->text_len}); } };
struct AsyncRec : AsyncSink { std::string out; void endline() override { cache_.push_back('\n'); } void flush() override { out.append(cache_.data(), cache_.size()); cache_.clear(); } };
static size_t N = 0, D = 0;

static int sweep_len() {
  for (size_t max : {1ul, 10ul, 2047ul, 2048ul, 2049ul, 4096ul}) {
    size_t old = LogSetMaxLength(max); (void)old;
    std::vector<size_t> lens; for (size_t l = 0; l <= 8; l++) lens.push_back(l); for (size_t l = 2046; l <= 2050; l++) lens.push_back(l);
    for (size_t l : {max - 1, max, max + 1, max + 7}) lens.push_back(l);
    std::sort(lens.begin(), lens.end()); lens.erase(std::unique(lens.begin(), lens.end()), lens.end());
    for (size_t L : lens) for (int with_args = 0; with_args < 3; with_args++) {
      std::string text(L, 'x'); for (size_t i = 0; i < L; i++) text[i] = (char)('a' + i % 26);
      SyncRec s; AsyncRec a; AsyncSink::Config cfg; cfg.buff_size = 64; cfg.buff_min_num = 1; cfg.buff_max_num = 3; cfg.interval = 100; a.setConfig(cfg);
      s.setLevel(LOG_LEVEL_TRACE); a.setLevel(LOG_LEVEL_TRACE); s.enable(); a.enable();
      char desc[96]; snprintf(desc, sizeof desc, "max=%zu len=%zu mode=%s", max, L, with_args == 0 ? "puts" : with_args == 1 ? "printf-%s" : "printf-prefix+%s");
      hx::set_current(desc);
      std::string want = text;
      if (with_args == 0) LogPrintfFunc("mod", "fn", "dir/f.cpp", 7, LOG_LEVEL_INFO, 0, text.c_str());
      else if (with_args == 1) LogPrintfFunc("mod", "fn", "dir/f.cpp", 7, LOG_LEVEL_INFO, 1, "%s", text.c_str());
      else { if (L < 2) { s.disable(); a.disable(); continue; } LogPrintfFunc("mod", "fn", "dir/f.cpp", 7, LOG_LEVEL_INFO, 1, "%c%s", text[0], text.c_str() + 1); }
      s.disable(); a.disable(); N++;
      size_t el = std::min(L, max); bool et = L > max;
      if (s.recs.size() != 1) { printf("@VIOL sig=len-sweep-record-count-%zu :: %s\n", s.recs.size(), desc); continue; }
      const Rec &r = s.recs[0];
      if (r.len != el || r.text != want.substr(0, el)) printf("@VIOL sig=text-not-cut-to-exactly-the-maximum :: %s got_len=%u want_len=%zu\n", desc, r.len, el);
      else if (r.trunc != et) printf("@VIOL sig=truncation-flag-wrong :: %s flag=%d\n", desc, (int)r.trunc);
      else if (r.module != "mod" || r.func != "fn" || r.file != "f.cpp" || r.line != 7 || r.level != LOG_LEVEL_INFO) printf("@VIOL sig=record-field-corrupted :: %s\n", desc);
      // async sink: exactly one line, containing the cut text followed by the marker iff truncated
      std::string exp_mid = " mod fn() " + (el ? want.substr(0, el) + " " : std::string()) + (et && el ? "(TRUNCATED) " : "") + "-- f.cpp:7\n";
      size_t nl = std::count(a.out.begin(), a.out.end(), '\n');
      if (nl != 1 || a.out.size() < exp_mid.size() || a.out.compare(a.out.size() - exp_mid.size(), exp_mid.size(), exp_mid) != 0) printf("@VIOL sig=async-sink-line-wrong(len-sweep) :: %s out=[%s]\n", desc, a.out.substr(0, 80).c_str());
      if (N <= 2) printf("@SAMPLE %s => text_len=%u trunc=%d\n", desc, r.len, (int)r.trunc);
    }
  }
  LogSetMaxLength(100 << 10);
  D = N; return 0;
}

static int sweep_filter() {
  // default threshold g in 0..7, per-module threshold for "A" in {unset,0..7}, set-then-unset variant, log from module A and B at every level
  for (int g = 0; g < LOG_LEVEL_MAX; g++) for (int pm = -1; pm < LOG_LEVEL_MAX; pm++) for (int unset = 0; unset < 2; unset++) for (int m = 0; m < 2; m++) for (int lv = 0; lv < LOG_LEVEL_MAX; lv++) {
    if (unset && pm < 0) continue;
    SyncRec s; AsyncRec a; AsyncSink::Config cfg; cfg.buff_size = 128; cfg.buff_min_num = 1; cfg.buff_max_num = 2; cfg.interval = 100; a.setConfig(cfg);
    for (Sink *k : {(Sink *)&s, (Sink *)&a}) { k->setLevel(g); if (pm >= 0) k->setLevel("A", pm); if (unset) k->unsetLevel("A"); k->enable(); }
    char desc[96]; snprintf(desc, sizeof desc, "default=%d module-A=%d%s from=%s level=%d", g, pm, unset ? "(then unset)" : "", m ? "B" : "A", lv); hx::set_current(desc);
    LogPrintfFunc(m ? "B" : "A", "fn", "f.cpp", 1, lv, 0, "t");
    s.disable(); a.disable(); N++;
    int thr = (m == 0 && pm >= 0 && !unset) ? pm : g; size_t want = lv <= thr ? 1 : 0;
    size_t got_a = std::count(a.out.begin(), a.out.end(), '\n');
    if (s.recs.size() != want) printf("@VIOL sig=filter-sync-sink-delivered-%zu-expected-%zu :: %s\n", s.recs.size(), want, desc);
    if (got_a != want) printf("@VIOL sig=filter-async-sink-delivered-%zu-expected-%zu :: %s\n", got_a, want, desc);
    if (N % 400 == 1) printf("@SAMPLE %s => delivered=%zu\n", desc, s.recs.size());
  }
  D = N; return 0;
}

static std::vector<std::string> list_files(const std::string &dir) {     // in creation order: name, then numeric postfix
  std::vector<std::string> v; DIR *d = opendir(dir.c_str()); if (!d) return v; while (auto *e = readdir(d)) { std::string n = e->d_name; if (n == "." || n == ".." || n.find("latest") != std::string::npos) continue; v.push_back(n); } closedir(d);
  auto key = [](const std::string &n) { size_t p = n.rfind(".log"); std::string base = n.substr(0, p); int post = 0; if (p + 4 < n.size()) post = atoi(n.c_str() + p + 5); return std::make_pair(base, post); };
  std::sort(v.begin(), v.end(), [&](const std::string &a, const std::string &b) { return key(a) < key(b); }); return v;
}
static int sweep_file(const std::string &work) {
  // one record is "I 2023-.. .000042 <tid> mod fn() rec-<k>-pad -- f.cpp:<k>\n"; measure its size first
  size_t recsz = 0;
  for (int pass = 0; pass < 2; pass++) {
    std::vector<size_t> limits = pass == 0 ? std::vector<size_t>{1u << 20} : std::vector<size_t>{1, recsz - 1, recsz, recsz + 1, 3 * recsz};
    bool quick = getenv("VERIF_TIER") && !strcmp(getenv("VERIF_TIER"), "quick");
    for (size_t limit : limits) for (int nrec = 1; nrec <= 6; nrec++) for (int pace = 0; pace < 3; pace++) {
      if (quick && pace > 0 && nrec > (pace == 1 ? 3 : 2)) continue;      // the paced (sleeping) cases are the slow ones      // pace: 0 = all in one burst, 1 = wait for the flush after each record, 2 = same + clock moves 1 s per record
      std::string dir = work + "/f" + std::to_string(N); std::string cmd = "rm -rf " + dir; int rc = system(cmd.c_str()); (void)rc; mkdir(dir.c_str(), 0700);
      vsec = 1700000000; std::string want;
      { AsyncFileSink fs; fs.setFilePath(dir); fs.setFilePrefix("log"); fs.setFileMaxSize(limit); fs.setLevel(LOG_LEVEL_TRACE); fs.enable();
        char desc[96]; snprintf(desc, sizeof desc, "limit=%zu records=%d pace=%d", limit, nrec, pace); hx::set_current(desc);
        for (int k = 0; k < nrec; k++) { char t[32]; snprintf(t, sizeof t, "rec-%d-pad", k); LogPrintfFunc("mod", "fn", "f.cpp", k, LOG_LEVEL_INFO, 0, t); char ln[96]; snprintf(ln, sizeof ln, " mod fn() rec-%d-pad -- f.cpp:%d\n", k, k); want += ln;
          if (pace) { usleep(pace == 1 ? 150000 : 150000); if (pace == 2) vsec++; } }
        fs.disable();                      // everything logged before must be on disk now
        std::string all; bool split = false; size_t files = 0;
        for (auto &f : list_files(dir)) { std::ifstream in(dir + "/" + f); std::stringstream ss; ss << in.rdbuf(); std::string c = ss.str(); files++; if (!c.empty() && c.back() != '\n') split = true; all += c; }
        // compare the record tails (the head has time/tid)
        std::string tails; { size_t a = 0; while (a < all.size()) { size_t b = all.find('\n', a); if (b == std::string::npos) b = all.size() - 1; std::string l = all.substr(a, b - a + 1); size_t p = l.find(" mod fn() "); tails += p == std::string::npos ? "?" + l : l.substr(p); a = b + 1; } }
        N++;
        if (pass == 0 && nrec == 1 && pace == 0) recsz = all.size();
        if (split) printf("@VIOL sig=file-sink-record-split-across-files :: %s\n", desc);
        else if (tails != want) printf("@VIOL sig=file-sink-records-lost-duplicated-or-reordered-on-disk-after-disable :: %s files=%zu got=[%s]\n", desc, files, tails.substr(0, 120).c_str());
        if (N % 25 == 1) printf("@SAMPLE %s => %zu files, %zu bytes\n", desc, files, all.size());
      }
      cmd = "rm -rf " + dir; rc = system(cmd.c_str());
    }
  }
  D = N; return 0;
}

// filter histories (engine H): BFS over setLevel(default) / setLevel(module) / unsetLevel(module) / log(module, level) on ONE sink
// of each kind that lives through the whole history; every log call is judged against the threshold in force at that moment.
enum FK { F_SETDEF, F_SETMOD, F_UNSET, F_LOG };
struct FOp { int k, a, b; };
static int sweep_filterseq(size_t depth) {
  static const int LV[3] = {1, 4, 6}; static const int LOGLV[4] = {0, 2, 5, 7}; static const char *MOD[2] = {"A", "B"};
  hx::Explorer<FOp> ex; ex.name = "filter-histories"; ex.deadline_s = hx::deadline_from_env(300);
  ex.show = [](const FOp &o) { char b[48]; switch (o.k) { case F_SETDEF: snprintf(b, 48, "setLevel(%d)", o.a); break; case F_SETMOD: snprintf(b, 48, "setLevel(%s,%d)", MOD[o.b], o.a); break; case F_UNSET: snprintf(b, 48, "unsetLevel(%s)", MOD[o.b]); break; default: snprintf(b, 48, "log(%s,level%d)", MOD[o.b], o.a); } return std::string(b); };
  ex.menu = [&](const std::vector<FOp> &) { std::vector<FOp> m; for (int l : LV) m.push_back({F_SETDEF, l, 0}); for (int mo = 0; mo < 2; mo++) { for (int l : LV) m.push_back({F_SETMOD, l, mo}); m.push_back({F_UNSET, 0, mo}); for (int l : LOGLV) m.push_back({F_LOG, l, mo}); } return m; };
  ex.run = [&](const std::vector<FOp> &h, std::string &viol) {
    SyncRec s; AsyncRec a; AsyncSink::Config cfg; cfg.buff_size = 256; cfg.buff_min_num = 1; cfg.buff_max_num = 2; cfg.interval = 100; a.setConfig(cfg);
    const bool with_async = h.size() <= 3;     // the async sink (a thread per evaluation) only on short histories; filtering is base-class code shared by both kinds
    s.enable(); if (with_async) a.enable(); int def = LOG_LEVEL_MAX, mod[2] = {-1, -1}; size_t want_total = 0; std::string want_async;
    for (auto &o : h) { if (!viol.empty()) break;
      switch (o.k) {
        case F_SETDEF: s.setLevel(o.a); a.setLevel(o.a); def = o.a; break;
        case F_SETMOD: s.setLevel(MOD[o.b], o.a); a.setLevel(MOD[o.b], o.a); mod[o.b] = o.a; break;
        case F_UNSET: s.unsetLevel(MOD[o.b]); a.unsetLevel(MOD[o.b]); mod[o.b] = -1; break;
        case F_LOG: { size_t before = s.recs.size(); char t[16]; snprintf(t, sizeof t, "r%zu", want_total); LogPrintfFunc(MOD[o.b], "fn", "f.cpp", 1, o.a, 0, t);
          int thr = mod[o.b] >= 0 ? mod[o.b] : def; bool want = o.a <= thr;
          if (s.recs.size() - before != (want ? 1u : 0u)) viol = std::string(want ? "record-that-passes-the-threshold-not-delivered" : "record-below-the-threshold-delivered") + " (sync sink) threshold=" + std::to_string(thr) + " level=" + std::to_string(o.a);
          if (want) { want_async += std::string(" ") + MOD[o.b] + " fn() " + t + " -- f.cpp:1\n"; want_total++; } } break; } }
    s.disable(); if (with_async) a.disable();
    if (viol.empty() && with_async) { std::string tails; size_t p0 = 0; while (p0 < a.out.size()) { size_t e = a.out.find('\n', p0); if (e == std::string::npos) e = a.out.size() - 1; std::string l = a.out.substr(p0, e - p0 + 1); size_t q = l.find(" fn() "); tails += q == std::string::npos ? "?" + l : l.substr(q >= 2 ? q - 2 : 0); p0 = e + 1; }
      if (tails != want_async) viol = "async-sink-delivered-a-different-record-sequence-than-the-thresholds-allow got=[" + tails.substr(0, 80) + "] want=[" + want_async.substr(0, 80) + "]"; }
    // the most recent log call is part of the state: an implementation may remember it (e.g. a per-module threshold cache)
    // Hidden implementation state (e.g. a threshold cache) may depend on recent calls, so the last three ops are part of the
    // state key: two histories are merged only if they agree on the thresholds in force AND on their last three operations.
    std::string tail; for (size_t i = h.size() > 3 ? h.size() - 3 : 0; i < h.size(); i++) { char t[24]; snprintf(t, sizeof t, "%d.%d.%d,", h[i].k, h[i].a, h[i].b); tail += t; }
    char c[160]; snprintf(c, sizeof c, "def%d A%d B%d|impl def%d n%zu|tail %s", def, mod[0], mod[1], s.default_level_, s.modules_level_.size(), tail.c_str()); return std::string(c); };
  ex.check_replay_determinism = false; ex.explore(depth); return 0;
}

// stdout sinks (sync: printf, async: write(1)): fd 1 is redirected into a file for the duration of one record; the line must
// carry every field intact: level code [+colour], time, thread id, module, function, text (+ truncation mark), file:line
#include <tbox/log/sync_stdout_sink.h>
#include <tbox/log/async_stdout_sink.h>
#include <sys/syscall.h>
static int sweep_stdout(const std::string &work) {
  std::string cap = work + "/stdout_capture.txt"; long tid = syscall(SYS_gettid);
  char ts[32]; { time_t t = vsec; struct tm tm; localtime_r(&t, &tm); strftime(ts, sizeof ts, "%F %H:%M:%S", &tm); }
  for (int kind = 0; kind < 2; kind++) for (int color = 0; color < 2; color++) for (int lv = 0; lv < LOG_LEVEL_MAX; lv++) for (size_t max : {4ul, 100ul}) for (size_t L : {0ul, 1ul, 4ul, 5ul, 9ul}) for (int with_func = 0; with_func < 2; with_func++) {
    LogSetMaxLength(max); std::string text(L, 'x'); for (size_t i = 0; i < L; i++) text[i] = (char)('a' + i);
    char desc[128]; snprintf(desc, sizeof desc, "%s-stdout-sink color=%d level=%d max=%zu len=%zu func=%d", kind ? "async" : "sync", color, lv, max, L, with_func); hx::set_current(desc);
    fflush(stdout); int saved = dup(1); int fd = open(cap.c_str(), O_CREAT | O_TRUNC | O_WRONLY, 0600); dup2(fd, 1); close(fd);
    { SyncStdoutSink ss; AsyncStdoutSink as; Sink *k = kind ? (Sink *)&as : (Sink *)&ss; k->setLevel(LOG_LEVEL_TRACE); k->enableColor(color); k->enable();
      LogPrintfFunc("modQ", with_func ? "fnQ" : nullptr, "dir/fileQ.cpp", 77, lv, 0, text.c_str());
      k->disable(); fflush(stdout); }
    dup2(saved, 1); close(saved);
    std::ifstream in(cap); std::stringstream buf; buf << in.rdbuf(); std::string got = buf.str(); N++;
    size_t el = std::min(L, max); bool tr = L > max;
    char head[160]; snprintf(head, sizeof head, "%c %s.%06u %ld modQ ", LOG_LEVEL_LEVEL_CODE[lv], ts, 42u, tid);
    std::string want = (color ? std::string("\033[") + LOG_LEVEL_COLOR_CODE[lv] + "m" : std::string()) + head + (with_func ? "fnQ() " : "") + (el ? text.substr(0, el) + " " : std::string()) + (tr && (el || !kind) ? "(TRUNCATED) " : "") + "-- fileQ.cpp:77" + (color ? "\033[0m\n" : "\n");
    if (got != want) printf("@VIOL sig=%s-stdout-sink-line-differs-from-the-documented-record-format :: %s got=[%s] want=[%s]\n", kind ? "async" : "sync", desc, got.substr(0, 120).c_str(), want.substr(0, 120).c_str());
    if (N % 150 == 1) printf("@SAMPLE %s => %zu bytes on stdout\n", desc, got.size());
  }
  LogSetMaxLength(100 << 10); unlink(cap.c_str()); D = N; return 0;
}

int main(int argc, char **argv) {
  std::string what = argc > 1 ? argv[1] : "len"; hx::install_crash_reporter("C09-crash");
  if (what == "filterseq") return sweep_filterseq(argc > 2 ? atoi(argv[2]) : 4);
  if (what == "stdout") { int rc = sweep_stdout(argc > 2 ? argv[2] : "/tmp"); printf("@STAT states=%zu transitions=%zu executions=%zu\n", D, N, N); return rc; }
  int rc = what == "len" ? sweep_len() : what == "filter" ? sweep_filter() : sweep_file(argc > 2 ? argv[2] : "/tmp");
  printf("@STAT states=%zu transitions=%zu executions=%zu\n", D, N, N); return rc;
}
