// C09 (inputs / configurations / life-cycle histories, single logging thread): text lengths and alphabets around the limits,
// degenerate arguments, level/module filters, enable/disable/re-enable histories on two sinks with different thresholds,
// file sink roll-over / re-enable / destruction / options under a virtual wall clock, stdout sinks across changes of second.
// usage: input_harness <len|filter|file|stdout|filterseq|lifecycle> [workdir|depth [part nparts]]
#include "hist/hist.h"
#include <tbox/base/log.h>
#include <tbox/base/log_impl.h>
#include <tbox/log/sink.h>
#include <tbox/log/async_sink.h>
#include <tbox/log/async_file_sink.h>
#include <dirent.h>
#include <fcntl.h>
#include <unistd.h>
#include <sys/stat.h>
#include <sys/time.h>
#include <sys/syscall.h>
#include <algorithm>
#include <fstream>
#include <memory>
#include <sstream>
static long long vsec = 1700000000;
extern "C" int gettimeofday(struct timeval *tv, void *) { if (tv) { tv->tv_sec = vsec; tv->tv_usec = 42; } return 0; }
extern "C" time_t time(time_t *t) { if (t) *t = vsec; return vsec; }
using namespace tbox::log;

struct Rec { int level; std::string module, func, file, text; int line; bool trunc; uint32_t len; uint32_t sec, usec; long tid; };
struct SyncRec : Sink { std::vector<Rec> recs; void onLogFrontEnd(const LogContent *c) override { recs.push_back(Rec{c->level, c->module_id ? c->module_id : "<null>", c->func_name ? c->func_name : "<null>", c->file_name ? c->file_name : "<null>", std::string(c->text_ptr ? c->text_ptr : "", c->text_len), c->line, c->text_trunc, c->text_len, c->timestamp.sec, c->timestamp.usec, c->thread_id}); } };
struct AsyncRec : AsyncSink { std::string out; void endline() override { cache_.push_back('\n'); } void flush() override { out.append(cache_.data(), cache_.size()); cache_.clear(); } };
static size_t N = 0, D = 0;
static const long long BASE_SEC = 1700000000;
static long my_tid() { return syscall(SYS_gettid); }
static std::string ts_str(long long sec) { time_t t = sec; struct tm tm; localtime_r(&t, &tm); char b[32]; strftime(b, sizeof b, "%F %H:%M:%S", &tm); return b; }
// the documented record head of the asynchronous / stdout sinks: "<level code> <date time>.<usec> <tid> <module> " for a call made at virtual second `sec`
static std::string line_head(int level, long long sec, const char *module) { char b[192]; snprintf(b, sizeof b, "%c %s.%06u %ld %s ", LOG_LEVEL_LEVEL_CODE[level], ts_str(sec).c_str(), 42u, my_tid(), module); return b; }
static std::string first_diff(const std::string &got, const std::string &want) {      // classify got vs want at line granularity
  size_t a = 0, b = 0; int ln = 0;
  while (a < got.size() || b < want.size()) { ln++;
    size_t ea = got.find('\n', a), eb = want.find('\n', b);
    std::string la = a < got.size() ? got.substr(a, ea == std::string::npos ? std::string::npos : ea - a + 1) : "", lb = b < want.size() ? want.substr(b, eb == std::string::npos ? std::string::npos : eb - b + 1) : "";
    if (la != lb) { std::string kind = la.empty() ? "record-missing" : lb.empty() ? "unexpected-extra-record" : (got.find(lb, a) != std::string::npos && want.find(la, b) == std::string::npos) ? "unexpected-extra-record" : (want.find(la, b) != std::string::npos) ? "record-missing" : "record-altered";
      return kind + " line" + std::to_string(ln) + " got=[" + la.substr(0, 90) + "] want=[" + lb.substr(0, 90) + "]"; }
    a += la.size(); b += lb.size(); }
  return "";
}

static int sweep_len() {
  for (size_t max : {1ul, 10ul, 2047ul, 2048ul, 2049ul, 4096ul}) {
    size_t old = LogSetMaxLength(max); (void)old;
    std::vector<size_t> lens; for (size_t l = 0; l <= 8; l++) lens.push_back(l); for (size_t l = 2046; l <= 2050; l++) lens.push_back(l);
    for (size_t l : {max - 1, max, max + 1, max + 7}) lens.push_back(l);
    std::sort(lens.begin(), lens.end()); lens.erase(std::unique(lens.begin(), lens.end()), lens.end());
    // alphabet 0 = letters; 1 = text made of printf conversions ("%s%d%%%n..."): whether it is the literal message (puts path)
    // or the %s argument, the record must carry exactly these bytes - nothing may be interpreted a second time
    for (size_t L : lens) for (int alpha = 0; alpha < 2; alpha++) for (int with_args = 0; with_args < 3; with_args++) {
      static const char PCT[] = "%s%d%%%n%5c%ld";
      std::string text(L, 'x'); for (size_t i = 0; i < L; i++) text[i] = alpha ? PCT[i % (sizeof PCT - 1)] : (char)('a' + i % 26);
      if (with_args == 2 && L < 2) continue;
      SyncRec s; AsyncRec a; AsyncSink::Config cfg; cfg.buff_size = 64; cfg.buff_min_num = 1; cfg.buff_max_num = 3; cfg.interval = 100; a.setConfig(cfg);
      s.setLevel(LOG_LEVEL_TRACE); a.setLevel(LOG_LEVEL_TRACE); s.enable(); a.enable();
      char desc[128]; snprintf(desc, sizeof desc, "max=%zu len=%zu alphabet=%s mode=%s", max, L, alpha ? "percent-conversions" : "letters", with_args == 0 ? "puts" : with_args == 1 ? "printf-%s" : "printf-prefix+%s");
      hx::set_current(desc);
      std::string want = text;
      if (with_args == 0) LogPrintfFunc("mod", "fn", "dir/f.cpp", 7, LOG_LEVEL_INFO, 0, text.c_str());
      else if (with_args == 1) LogPrintfFunc("mod", "fn", "dir/f.cpp", 7, LOG_LEVEL_INFO, 1, "%s", text.c_str());
      else LogPrintfFunc("mod", "fn", "dir/f.cpp", 7, LOG_LEVEL_INFO, 1, "%c%s", text[0], text.c_str() + 1);
      s.disable(); a.disable(); N++;
      size_t el = std::min(L, max); bool et = L > max;
      if (s.recs.size() != 1) { printf("@VIOL sig=len-sweep-record-count-%zu :: %s\n", s.recs.size(), desc); continue; }
      const Rec &r = s.recs[0];
      if (r.len != el || r.text != want.substr(0, el)) printf("@VIOL sig=text-not-cut-to-exactly-the-maximum%s :: %s got_len=%u want_len=%zu\n", alpha ? "-or-bytes-changed(percent-text)" : "", desc, r.len, el);
      else if (r.trunc != et) printf("@VIOL sig=truncation-flag-wrong :: %s flag=%d\n", desc, (int)r.trunc);
      else if (r.module != "mod" || r.func != "fn" || r.file != "f.cpp" || r.line != 7 || r.level != LOG_LEVEL_INFO || r.sec != (uint32_t)vsec || r.usec != 42 || r.tid != my_tid()) printf("@VIOL sig=record-field-corrupted :: %s\n", desc);
      // async sink: exactly one WHOLE line: head (level code, time, thread id, module), function, the cut text, the marker iff truncated, file:line
      std::string exp = line_head(LOG_LEVEL_INFO, vsec, "mod") + "fn() " + (el ? want.substr(0, el) + " " : std::string()) + (et && el ? "(TRUNCATED) " : "") + "-- f.cpp:7\n";
      if (a.out != exp) printf("@VIOL sig=async-sink-line-wrong(len-sweep) :: %s %s\n", desc, first_diff(a.out, exp).c_str());
      if (N <= 2) printf("@SAMPLE %s => text_len=%u trunc=%d\n", desc, r.len, (int)r.trunc);
    }
  }
  LogSetMaxLength(100 << 10);
  // degenerate arguments: no message at all (fmt == NULL), no module name, no function name, no file name, level outside 0..7.
  // Reading: such a call is still ONE log call; the record it produces must be whole (every field a sink prints is readable and the
  // fields that were given are intact). What an absent module is spelled as is not stated, so only "non-empty" is demanded; a level
  // below 0 passes every threshold under any reading (exactly one record), a level above 7 may or may not pass threshold 7 (at most one).
  struct Deg { const char *what, *mod, *fn, *file, *fmt; int level; int min_recs, max_recs; };
  static const Deg DEG[] = {
    {"fmt=NULL", "mod", "fn", "dir/f.cpp", nullptr, LOG_LEVEL_INFO, 1, 1}, {"module=NULL", nullptr, "fn", "dir/f.cpp", "t", LOG_LEVEL_INFO, 1, 1},
    {"func=NULL", "mod", nullptr, "dir/f.cpp", "t", LOG_LEVEL_INFO, 1, 1}, {"file=NULL", "mod", "fn", nullptr, "t", LOG_LEVEL_INFO, 1, 1},
    {"file-without-directory", "mod", "fn", "f.cpp", "t", LOG_LEVEL_INFO, 1, 1}, {"file-ends-with-slash", "mod", "fn", "dir/", "t", LOG_LEVEL_INFO, 1, 1},
    {"level=-1", "mod", "fn", "dir/f.cpp", "t", -1, 1, 1}, {"level=-1000", "mod", "fn", "dir/f.cpp", "t", -1000, 1, 1},
    {"level=8", "mod", "fn", "dir/f.cpp", "t", 8, 0, 1}, {"level=1000", "mod", "fn", "dir/f.cpp", "t", 1000, 0, 1} };
  for (const Deg &d : DEG) for (int with_args = 0; with_args < 2; with_args++) {
    SyncRec s; AsyncRec a; AsyncSink::Config cfg; cfg.buff_size = 64; cfg.buff_min_num = 1; cfg.buff_max_num = 3; cfg.interval = 100; a.setConfig(cfg);
    s.setLevel(LOG_LEVEL_TRACE); a.setLevel(LOG_LEVEL_TRACE); s.enable(); a.enable();
    char desc[128]; snprintf(desc, sizeof desc, "degenerate %s with_args=%d", d.what, with_args); hx::set_current(desc);
    LogPrintfFunc(d.mod, d.fn, d.file, 7, d.level, with_args, d.fmt);
    s.disable(); a.disable(); N++;
    size_t nl = std::count(a.out.begin(), a.out.end(), '\n');
    if (s.recs.size() < (size_t)d.min_recs || s.recs.size() > (size_t)d.max_recs || nl != s.recs.size()) { printf("@VIOL sig=degenerate-argument-call-record-count-wrong(%s) :: %s sync=%zu async=%zu\n", d.what, desc, s.recs.size(), nl); continue; }
    if (s.recs.empty()) continue;
    const Rec &r = s.recs[0]; std::string text = d.fmt ? d.fmt : "", file = !d.file ? "<null>" : !strcmp(d.file, "dir/") ? "" : "f.cpp";
    bool ok = r.level >= 0 && r.level < LOG_LEVEL_MAX && (d.level < 0 || d.level >= LOG_LEVEL_MAX || r.level == d.level) && (d.mod ? r.module == d.mod : (!r.module.empty() && r.module != "<null>")) && r.func == (d.fn ? d.fn : "<null>") && r.file == file && r.line == 7 && r.text == text && !r.trunc && r.sec == (uint32_t)vsec && r.usec == 42 && r.tid == my_tid();
    if (!ok) { printf("@VIOL sig=degenerate-argument-call-record-field-corrupted(%s) :: %s\n", d.what, desc); continue; }
    std::string exp = line_head(r.level, vsec, r.module.c_str()) + (d.fn ? "fn() " : "") + (text.empty() ? "" : text + " ") + (d.file ? "-- " + file + ":7" : std::string()) + "\n";
    if (a.out != exp) printf("@VIOL sig=async-sink-line-wrong(degenerate-%s) :: %s %s\n", d.what, desc, first_diff(a.out, exp).c_str());
  }
  D = N; return 0;
}

static int sweep_filter() {
  // default threshold g in 0..7 (set with setLevel(g), or with setLevel("", g) in the variant `via_empty`), per-module threshold for "A" in
  // {unset,0..7}, set-then-unset variant, log from module A and B at every level
  for (int g = 0; g < LOG_LEVEL_MAX; g++) for (int pm = -1; pm < LOG_LEVEL_MAX; pm++) for (int unset = 0; unset < 2; unset++) for (int via_empty = 0; via_empty < 2; via_empty++) for (int m = 0; m < 2; m++) for (int lv = 0; lv < LOG_LEVEL_MAX; lv++) {
    if (unset && pm < 0) continue;
    if (via_empty && !(pm < 0 || pm == 3)) continue;
    SyncRec s; AsyncRec a; AsyncSink::Config cfg; cfg.buff_size = 128; cfg.buff_min_num = 1; cfg.buff_max_num = 2; cfg.interval = 100; a.setConfig(cfg);
    for (Sink *k : {(Sink *)&s, (Sink *)&a}) { if (via_empty) { k->setLevel(7 - g); if (pm >= 0) k->setLevel("A", pm); k->setLevel("", g); } else { k->setLevel(g); if (pm >= 0) k->setLevel("A", pm); } if (unset) k->unsetLevel("A"); k->enable(); }
    char desc[128]; snprintf(desc, sizeof desc, "default=%d%s module-A=%d%s from=%s level=%d", g, via_empty ? "(set through the empty module name)" : "", pm, unset ? "(then unset)" : "", m ? "B" : "A", lv); hx::set_current(desc);
    LogPrintfFunc(m ? "B" : "A", "fn", "f.cpp", 1, lv, 0, "t");
    s.disable(); a.disable(); N++;
    int thr = (m == 0 && pm >= 0 && !unset) ? pm : g; size_t want = lv <= thr ? 1 : 0;
    std::string exp = want ? line_head(lv, vsec, m ? "B" : "A") + "fn() t -- f.cpp:1\n" : std::string();
    if (s.recs.size() != want) printf("@VIOL sig=filter-sync-sink-delivered-%zu-expected-%zu :: %s\n", s.recs.size(), want, desc);
    else if (want && (s.recs[0].level != lv || s.recs[0].module != (m ? "B" : "A") || s.recs[0].text != "t")) printf("@VIOL sig=filter-sync-sink-record-field-corrupted :: %s\n", desc);
    if (a.out != exp) printf("@VIOL sig=filter-async-sink-delivered-%zu-expected-%zu :: %s %s\n", (size_t)std::count(a.out.begin(), a.out.end(), '\n'), want, desc, first_diff(a.out, exp).c_str());
    if (N % 400 == 1) printf("@SAMPLE %s => delivered=%zu\n", desc, s.recs.size());
  }
  D = N; return 0;
}

static std::vector<std::string> list_files(const std::string &dir) {     // in creation order: name, then numeric postfix
  std::vector<std::string> v; DIR *d = opendir(dir.c_str()); if (!d) return v; while (auto *e = readdir(d)) { std::string n = e->d_name; if (n == "." || n == ".." || n.find("latest") != std::string::npos) continue; v.push_back(n); } closedir(d);
  auto key = [](const std::string &n) { size_t p = n.rfind(".log"); std::string base = n.substr(0, p); int post = 0; if (p + 4 < n.size()) post = atoi(n.c_str() + p + 5); return std::make_pair(base, post); };
  std::sort(v.begin(), v.end(), [&](const std::string &a, const std::string &b) { return key(a) < key(b); }); return v;
}
static void rm_dir(const std::string &dir) { DIR *d = opendir(dir.c_str()); if (d) { while (auto *e = readdir(d)) { std::string n = e->d_name; if (n != "." && n != "..") unlink((dir + "/" + n).c_str()); } closedir(d); } rmdir(dir.c_str()); }
static std::string read_files(const std::string &dir, bool &split, size_t &files) {
  std::string all; split = false; files = 0;
  for (auto &f : list_files(dir)) { std::ifstream in(dir + "/" + f); std::stringstream ss; ss << in.rdbuf(); std::string c = ss.str(); files++; if (!c.empty() && c.back() != '\n') split = true; all += c; }
  return all;
}
static int sweep_file(const std::string &work) {
  // one record is "I 2023-.. .000042 <tid> mod fn() rec-<k>-pad -- f.cpp:<k>\n"; measure its size first.
  // Dimensions: size limit x record count x pacing x life-cycle {log,disable | log,disable,(log while disabled),enable,log,disable on the SAME object |
  // log, then the sink is destroyed while still enabled} x pipe buffers {default 10 KiB | 64 bytes: a record spans several hand-overs, so a roll-over
  // happens while the back-end holds a partial frame} x O_DSYNC {off,on} x spelling of the directory {dir, dir/, " dir "}.
  // Oracle: every WHOLE line (level code, time of the call under the virtual clock, usec, thread id, module, function, text, file:line), files
  // concatenated in creation order == the records logged while enabled, in order; no file ends inside a record.
  size_t recsz = 0;
  for (int pass = 0; pass < 2; pass++) {
    std::vector<size_t> limits = pass == 0 ? std::vector<size_t>{1u << 20} : std::vector<size_t>{1, recsz - 1, recsz, recsz + 1, 3 * recsz};
    bool quick = getenv("VERIF_TIER") && !strcmp(getenv("VERIF_TIER"), "quick");
    for (size_t limit : limits) for (int nrec = 1; nrec <= 6; nrec++) for (int pace = 0; pace < 3; pace++) for (int v = 0; v < 12; v++) {
      if (quick && pace > 0 && nrec > (pace == 1 ? 3 : 2)) continue;      // the paced (sleeping) cases are the slow ones      // pace: 0 = all in one burst, 1 = wait for the flush after each record, 2 = same + clock moves 1 s per record
      const int life = v % 3, small = (v / 3) % 2, sync = v / 6;
      if (pace > 0 && (small || sync || (life && (quick || nrec > 3)))) continue;        // the option cross runs on the burst shape; paced runs keep default options
      if (pass == 0 && recsz == 0 && v > 0) continue;
      const int sp = (int)(N % 3);
      std::string dir = work + "/f" + std::to_string(N); rm_dir(dir); mkdir(dir.c_str(), 0700);
      vsec = BASE_SEC; std::string want;
      char desc[192]; snprintf(desc, sizeof desc, "limit=%zu records=%d pace=%d life=%s buffers=%s dsync=%d path-spelling=%s", limit, nrec, pace, life == 0 ? "log,disable" : life == 1 ? "log,disable,enable,log,disable" : "log,destroyed-while-enabled", small ? "64B" : "default", sync, sp == 0 ? "dir" : sp == 1 ? "dir/" : "' dir '"); hx::set_current(desc);
      std::unique_ptr<AsyncFileSink> fs(new AsyncFileSink);
      fs->setFilePath(sp == 0 ? dir : sp == 1 ? dir + "/" : "  " + dir + " "); fs->setFilePrefix(sp == 2 ? " log " : "log"); fs->setFileMaxSize(limit); fs->setLevel(LOG_LEVEL_TRACE);
      if (small) { AsyncSink::Config cfg; cfg.buff_size = 64; cfg.buff_min_num = 1; cfg.buff_max_num = 3; cfg.interval = 100; fs->setConfig(cfg); }
      if (sync) fs->setFileSyncEnable(true);
      fs->enable();
      bool split = false; size_t files = 0; std::string all; const char *stage = ""; bool bad = false;
      auto log_one = [&](int k, bool expected) { char t[32]; snprintf(t, sizeof t, "rec-%d-pad", k); static char tb[8][32]; char *st = tb[k & 7]; strcpy(st, t);
        LogPrintfFunc("mod", "fn", "f.cpp", k, LOG_LEVEL_INFO, 0, st);
        if (expected) want += line_head(LOG_LEVEL_INFO, vsec, "mod") + "fn() " + t + " -- f.cpp:" + std::to_string(k) + "\n";
        if (pace) { usleep(150000); if (pace == 2) vsec++; } };
      const int first = life == 1 ? (nrec + 1) / 2 : nrec;
      for (int k = 0; k < first; k++) log_one(k, true);
      if (life == 1) {
        fs->disable();                   // everything logged before must be on disk now
        all = read_files(dir, split, files);
        if (split || all != want) { bad = true; stage = "(first-enabled-period-of-a-sink-that-is-re-enabled-later)"; }
        else { { int p = pace; pace = 0; log_one(7, false); pace = p; }          // while disabled: must never reach the disk, not even after the re-enable
          if (pace == 2) vsec++;
          fs->enable(); for (int k = first; k < nrec; k++) log_one(k, true); fs->disable(); stage = "(after-disable,enable-of-the-same-sink)"; }
      } else if (life == 0) fs->disable();                      // everything logged before must be on disk now
      else { fs.reset(); stage = "(sink-destroyed-while-enabled)"; }
      if (!bad) all = read_files(dir, split, files);
      N++;
      if (pass == 0 && nrec == 1 && pace == 0 && v == 0) recsz = all.size();
      if (split) printf("@VIOL sig=file-sink-record-split-across-files%s :: %s\n", stage, desc);
      else if (all != want) printf("@VIOL sig=file-sink-records-lost-duplicated-or-reordered-on-disk-after-disable%s :: %s files=%zu %s\n", stage, desc, files, first_diff(all, want).c_str());
      if (N % 60 == 1) printf("@SAMPLE %s => %zu files, %zu bytes\n", desc, files, all.size());
      fs.reset(); rm_dir(dir);
    }
  }
  D = N; return 0;
}

// filter histories (engine H): BFS over setLevel(default) / setLevel(module) / unsetLevel(module) / log(module, level) on ONE sink
// of each kind that lives through the whole history; every log call is judged against the threshold in force at that moment.
enum FK { F_SETDEF, F_SETMOD, F_UNSET, F_LOG };
struct FOp { int k, a, b; };
static int sweep_filterseq(size_t depth) {
  static const int LV[3] = {1, 4, 6}; static const int LOGLV[4] = {0, 2, 5, 7}; static const char *MOD[2] = {"A", "B"};
  hx::Explorer<FOp> ex; ex.name = "filter-histories"; ex.deadline_s = hx::deadline_from_env(300);
  ex.show = [](const FOp &o) { char b[48]; switch (o.k) { case F_SETDEF: snprintf(b, 48, "setLevel(%d)", o.a); break; case F_SETMOD: snprintf(b, 48, "setLevel(%s,%d)", MOD[o.b], o.a); break; case F_UNSET: snprintf(b, 48, "unsetLevel(%s)", MOD[o.b]); break; default: snprintf(b, 48, "log(%s,level%d)", MOD[o.b], o.a); } return std::string(b); };
  ex.menu = [&](const std::vector<FOp> &) { std::vector<FOp> m; for (int l : LV) m.push_back({F_SETDEF, l, 0}); for (int mo = 0; mo < 2; mo++) { for (int l : LV) m.push_back({F_SETMOD, l, mo}); m.push_back({F_UNSET, 0, mo}); for (int l : LOGLV) m.push_back({F_LOG, l, mo}); } return m; };
  ex.run = [&](const std::vector<FOp> &h, std::string &viol) {
    SyncRec s; AsyncRec a; AsyncSink::Config cfg; cfg.buff_size = 256; cfg.buff_min_num = 1; cfg.buff_max_num = 2; cfg.interval = 100; a.setConfig(cfg);
    const bool with_async = h.size() <= 3;     // the async sink (a thread per evaluation) only on short histories; filtering is base-class code shared by both kinds
    s.enable(); if (with_async) a.enable(); int def = LOG_LEVEL_MAX, mod[2] = {-1, -1}; size_t want_total = 0; std::string want_async;
    for (auto &o : h) { if (!viol.empty()) break;
      switch (o.k) {
        case F_SETDEF: s.setLevel(o.a); a.setLevel(o.a); def = o.a; break;
        case F_SETMOD: s.setLevel(MOD[o.b], o.a); a.setLevel(MOD[o.b], o.a); mod[o.b] = o.a; break;
        case F_UNSET: s.unsetLevel(MOD[o.b]); a.unsetLevel(MOD[o.b]); mod[o.b] = -1; break;
        case F_LOG: { size_t before = s.recs.size(); char t[16]; snprintf(t, sizeof t, "r%zu", want_total); LogPrintfFunc(MOD[o.b], "fn", "f.cpp", 1, o.a, 0, t);
          int thr = mod[o.b] >= 0 ? mod[o.b] : def; bool want = o.a <= thr;
          if (s.recs.size() - before != (want ? 1u : 0u)) viol = std::string(want ? "record-that-passes-the-threshold-not-delivered" : "record-below-the-threshold-delivered") + " (sync sink) threshold=" + std::to_string(thr) + " level=" + std::to_string(o.a);
          if (want) { if (viol.empty()) { const Rec &r = s.recs.back(); if (r.level != o.a || r.module != MOD[o.b] || r.text != t || r.func != "fn" || r.file != "f.cpp" || r.line != 1) viol = "record-field-corrupted (sync sink, filter histories)"; }
            want_async += line_head(o.a, vsec, MOD[o.b]) + "fn() " + t + " -- f.cpp:1\n"; want_total++; } } break; } }
    s.disable(); if (with_async) a.disable();
    if (viol.empty() && with_async && a.out != want_async) viol = "async-sink-delivered-a-different-record-sequence-than-the-thresholds-allow " + first_diff(a.out, want_async);   // whole lines, head included
    // the most recent log call is part of the state: an implementation may remember it (e.g. a per-module threshold cache)
    // Hidden implementation state (e.g. a threshold cache) may depend on recent calls, so the last three ops are part of the
    // state key: two histories are merged only if they agree on the thresholds in force AND on their last three operations.
    std::string tail; for (size_t i = h.size() > 3 ? h.size() - 3 : 0; i < h.size(); i++) { char t[24]; snprintf(t, sizeof t, "%d.%d.%d,", h[i].k, h[i].a, h[i].b); tail += t; }
    char c[160]; snprintf(c, sizeof c, "def%d A%d B%d|impl def%d n%zu|tail %s", def, mod[0], mod[1], s.default_level_, s.modules_level_.size(), tail.c_str()); return std::string(c); };
  ex.check_replay_determinism = false; ex.explore(depth); return 0;
}

// life-cycle histories (engine H): BFS over enable(k) / disable(k) / setLevel(k, l) / log(level) / clock tick on TWO long-lived sinks
// (k = a synchronous recorder and an AsyncSink on the real pipe with 64-byte buffers) that are registered, removed and registered again in
// every order and carry DIFFERENT thresholds. Reference model per sink: enabled bit, threshold, number of enabled periods so far.
// Oracle (decided by the model only): a log call adds exactly one whole record to the synchronous sink iff that sink is enabled and the
// level passes ITS threshold (checked at once, with every field incl. the time of the call); the asynchronous sink's output must equal,
// byte for byte, the whole lines of the records that passed while IT was enabled - compared whenever disable() of that sink returns
// ("everything logged before disable is delivered when disable returns") and at the end (nothing logged while disabled may turn up later).
enum LK { LC_EN, LC_DIS, LC_SET, LC_LOG, LC_TICK };
struct LOp { int k, s, a; };
static int sweep_lifecycle(size_t depth, int part, int nparts) {
  static const char *SN[2] = {"sync", "async"};
  hx::Explorer<LOp> ex; ex.name = "life-cycle-histories"; ex.deadline_s = hx::deadline_from_env(300); ex.part = part; ex.nparts = nparts;
  ex.show = [](const LOp &o) { char b[48]; switch (o.k) { case LC_EN: snprintf(b, 48, "enable(%s)", SN[o.s]); break; case LC_DIS: snprintf(b, 48, "disable(%s)", SN[o.s]); break; case LC_SET: snprintf(b, 48, o.s ? "setLevel(%s,\"\",%d)" : "setLevel(%s,%d)", SN[o.s], o.a); break; case LC_LOG: snprintf(b, 48, "log(level%d)", o.a); break; default: snprintf(b, 48, "clock+1s"); } return std::string(b); };
  ex.menu = [&](const std::vector<LOp> &) { std::vector<LOp> m; for (int k = 0; k < 2; k++) m.push_back({LC_EN, k, 0}); for (int l : {1, 4, 7}) m.push_back({LC_LOG, 0, l}); for (int k = 0; k < 2; k++) m.push_back({LC_DIS, k, 0});
    for (int k = 0; k < 2; k++) for (int l : {2, 6}) m.push_back({LC_SET, k, l}); m.push_back({LC_TICK, 0, 0}); return m; };
  ex.run = [&](const std::vector<LOp> &h, std::string &viol) {
    vsec = BASE_SEC;
    SyncRec s; AsyncRec a; AsyncSink::Config cfg; cfg.buff_size = 64; cfg.buff_min_num = 1; cfg.buff_max_num = 3; cfg.interval = 100; a.setConfig(cfg);
    Sink *K[2] = {&s, &a}; bool en[2] = {false, false}; int thr[2] = {LOG_LEVEL_MAX, LOG_LEVEL_MAX}, cyc[2] = {0, 0}, pend_a = 0; std::vector<int> order; std::string want_a; size_t nlog = 0;
    auto period = [&](int k) { return std::string("(enabled-period-") + (cyc[k] >= 2 ? "2-or-later" : "1") + ")"; };
    auto check_async = [&](const char *when) { if (a.out == want_a) return; std::string d = first_diff(a.out, want_a); viol = "lifecycle-async-sink-" + d.substr(0, d.find(' ')) + "-" + when + period(1) + " " + d; };
    for (auto &o : h) { if (!viol.empty()) break;
      switch (o.k) {
        case LC_EN: K[o.s]->enable(); if (!en[o.s]) { en[o.s] = true; cyc[o.s]++; order.push_back(o.s); if (o.s == 1) pend_a = 0; } break;
        case LC_DIS: K[o.s]->disable(); if (en[o.s]) { en[o.s] = false; order.erase(std::find(order.begin(), order.end(), o.s)); if (o.s == 1) check_async("when-disable-returned"); } break;
        case LC_SET: if (o.s == 0) s.setLevel(o.a); else a.setLevel("", o.a); thr[o.s] = o.a; break;
        case LC_TICK: vsec++; break;
        default: { static char texts[32][16]; char *t = texts[nlog % 32]; snprintf(t, 16, "r%zu", nlog); int line = 10 + (int)nlog; size_t before = s.recs.size();
          if (nlog % 2) LogPrintfFunc("mod", "fn", "dir/f.cpp", line, o.a, 1, "r%d", (int)nlog); else LogPrintfFunc("mod", "fn", "dir/f.cpp", line, o.a, 0, t);
          bool ws = en[0] && o.a <= thr[0], wa = en[1] && o.a <= thr[1]; size_t got = s.recs.size() - before;
          if (got != (ws ? 1u : 0u)) viol = (ws ? (got ? "lifecycle-sync-sink-record-duplicated" : "lifecycle-sync-sink-record-missing") + period(0) : std::string("lifecycle-sync-sink-got-a-record-") + (en[0] ? "below-its-own-threshold" : "while-disabled")) + " level=" + std::to_string(o.a);
          else if (ws) { const Rec &r = s.recs.back(); if (r.level != o.a || r.module != "mod" || r.func != "fn" || r.file != "f.cpp" || r.line != line || r.text != t || r.trunc || r.sec != (uint32_t)vsec || r.usec != 42 || r.tid != my_tid()) viol = "lifecycle-sync-sink-record-field-corrupted" + period(0); }
          if (wa) { want_a += line_head(o.a, vsec, "mod") + "fn() " + t + " -- f.cpp:" + std::to_string(line) + "\n"; pend_a++; }
          nlog++; } break; } }
    // canonical state: model (enabled, threshold, life-cycle phase per sink, registration order, clock, records pending in the async period) +
    // the implementation's main-thread-owned fields (read BEFORE the final disable; back-end-owned fields would race) + the last two ops
    // (hidden state such as a callback lost by cleanup or a cache filled by the latest call must not be merged away).
    std::string tail; for (size_t i = h.size() > 2 ? h.size() - 2 : 0; i < h.size(); i++) { char t[24]; snprintf(t, sizeof t, "%d.%d.%d,", h[i].k, h[i].s, h[i].a); tail += t; }
    std::string ord; for (int k : order) ord += (char)('0' + k);
    char c[320]; snprintf(c, sizeof c, "S e%d t%d c%d|impl id%d def%d n%zu||A e%d t%d c%d pend%d|impl id%d def%d n%zu inited%d||order %s idlt%d|tick%lld|tail %s", (int)en[0], thr[0], std::min(cyc[0], 2), (int)(s.output_id_ != 0), s.default_level_, s.modules_level_.size(),
             (int)en[1], thr[1], std::min(cyc[1], 2), std::min(pend_a, 2), (int)(a.output_id_ != 0), a.default_level_, a.modules_level_.size(), (int)a.is_pipe_inited_, ord.c_str(), (int)(s.output_id_ < a.output_id_), vsec - BASE_SEC, tail.c_str());
    s.disable(); a.disable();
    if (viol.empty()) check_async(en[1] ? "when-the-final-disable-returned" : "at-the-end-of-the-history");
    if (viol.empty() && (s.output_id_ != 0 || a.output_id_ != 0)) viol = "lifecycle-harness-internal: sink still registered after disable";
    return std::string(c); };
  ex.check_replay_determinism = false; ex.explore(depth); return 0;
}

// stdout sinks (sync: printf, async: write(1)): fd 1 is redirected into a file for the duration of one record; the line must
// carry every field intact: level code [+colour], time, thread id, module, function, text (+ truncation mark), file:line
#include <tbox/log/sync_stdout_sink.h>
#include <tbox/log/async_stdout_sink.h>
static int sweep_stdout(const std::string &work) {
  std::string cap = work + "/stdout_capture.txt"; long tid = syscall(SYS_gettid);
  char ts[32]; { time_t t = vsec; struct tm tm; localtime_r(&t, &tm); strftime(ts, sizeof ts, "%F %H:%M:%S", &tm); }
  for (int kind = 0; kind < 2; kind++) for (int color = 0; color < 2; color++) for (int lv = 0; lv < LOG_LEVEL_MAX; lv++) for (size_t max : {4ul, 100ul}) for (size_t L : {0ul, 1ul, 4ul, 5ul, 9ul}) for (int with_func = 0; with_func < 2; with_func++) {
    LogSetMaxLength(max); std::string text(L, 'x'); for (size_t i = 0; i < L; i++) text[i] = (char)('a' + i);
    char desc[128]; snprintf(desc, sizeof desc, "%s-stdout-sink color=%d level=%d max=%zu len=%zu func=%d", kind ? "async" : "sync", color, lv, max, L, with_func); hx::set_current(desc);
    fflush(stdout); int saved = dup(1); int fd = open(cap.c_str(), O_CREAT | O_TRUNC | O_WRONLY, 0600); dup2(fd, 1); close(fd);
    { SyncStdoutSink ss; AsyncStdoutSink as; Sink *k = kind ? (Sink *)&as : (Sink *)&ss; k->setLevel(LOG_LEVEL_TRACE); k->enableColor(color); k->enable();
      LogPrintfFunc("modQ", with_func ? "fnQ" : nullptr, "dir/fileQ.cpp", 77, lv, 0, text.c_str());
      k->disable(); fflush(stdout); }
    dup2(saved, 1); close(saved);
    std::ifstream in(cap); std::stringstream buf; buf << in.rdbuf(); std::string got = buf.str(); N++;
    size_t el = std::min(L, max); bool tr = L > max;
    char head[160]; snprintf(head, sizeof head, "%c %s.%06u %ld modQ ", LOG_LEVEL_LEVEL_CODE[lv], ts, 42u, tid);
    std::string want = (color ? std::string("\033[") + LOG_LEVEL_COLOR_CODE[lv] + "m" : std::string()) + head + (with_func ? "fnQ() " : "") + (el ? text.substr(0, el) + " " : std::string()) + (tr && (el || !kind) ? "(TRUNCATED) " : "") + "-- fileQ.cpp:77" + (color ? "\033[0m\n" : "\n");
    if (got != want) printf("@VIOL sig=%s-stdout-sink-line-differs-from-the-documented-record-format :: %s got=[%s] want=[%s]\n", kind ? "async" : "sync", desc, got.substr(0, 120).c_str(), want.substr(0, 120).c_str());
    if (N % 150 == 1) printf("@SAMPLE %s => %zu bytes on stdout\n", desc, got.size());
  }
  LogSetMaxLength(100 << 10);
  // ONE long-lived sink of each kind across changes of second (same second twice, +1 s, +1 h, clock stepped back) and a
  // disable / enable cycle on the same object; the whole captured stream must equal the records logged while enabled, each with the
  // time of ITS call. fd 1 is captured for the whole sequence.
  struct Step { int act; long long dsec; };      // act: 0 = log, 1 = disable, 2 = enable
  static const Step STEPS[] = {{0, 0}, {0, 0}, {0, 1}, {0, 1}, {0, 3600}, {0, 0}, {1, 0}, {0, 2}, {2, 2}, {0, 2}, {0, 3}, {1, 3}, {0, 3}, {2, 4}, {0, 4}, {1, 4}};
  for (int kind = 0; kind < 2; kind++) for (int color = 0; color < 2; color++) {
    char desc[128]; snprintf(desc, sizeof desc, "%s-stdout-sink color=%d sequence log@T,T,T+1,T+1,T+1h,T,disable,log,enable,log@T+2,T+3,disable,log,enable,log@T+4,disable", kind ? "async" : "sync", color); hx::set_current(desc);
    fflush(stdout); int saved = dup(1); int fd = open(cap.c_str(), O_CREAT | O_TRUNC | O_WRONLY, 0600); dup2(fd, 1); close(fd);
    std::string want; bool on = true; int i = 0;
    { SyncStdoutSink ss; AsyncStdoutSink as; Sink *k = kind ? (Sink *)&as : (Sink *)&ss; k->setLevel(LOG_LEVEL_TRACE); k->enableColor(color); k->enable();
      for (const Step &st : STEPS) { vsec = BASE_SEC + st.dsec; i++;
        if (st.act == 1) { k->disable(); on = false; } else if (st.act == 2) { k->enable(); on = true; }
        else { static char tx[32][8]; snprintf(tx[i], 8, "s%d", i); int lv = i % LOG_LEVEL_MAX; LogPrintfFunc("modQ", "fnQ", "dir/fileQ.cpp", i, lv, 0, tx[i]);
          if (on) want += (color ? std::string("\033[") + LOG_LEVEL_COLOR_CODE[lv] + "m" : std::string()) + line_head(lv, vsec, "modQ") + "fnQ() " + tx[i] + " -- fileQ.cpp:" + std::to_string(i) + (color ? "\033[0m\n" : "\n"); } }
      fflush(stdout); }
    dup2(saved, 1); close(saved); vsec = BASE_SEC;
    std::ifstream in(cap); std::stringstream buf; buf << in.rdbuf(); std::string got = buf.str(); N++;
    if (got != want) printf("@VIOL sig=%s-stdout-sink-stream-differs-over-a-sequence-with-clock-changes-and-re-enable :: %s %s\n", kind ? "async" : "sync", desc, first_diff(got, want).c_str());
  }
  // CANDIDATE DEFECT, kept behind a switch (default off so the tree stays quiet): an AsyncStdoutSink that is destroyed while still enabled with a
  // record pending. AsyncSink has no destructor of its own (AsyncFileSink has one), so the pipe is flushed from ~AsyncPipe after the members of the
  // sink are gone. Enable with C09_DTOR_ASYNC_STDOUT=1.
  if (getenv("C09_DTOR_ASYNC_STDOUT") && atoi(getenv("C09_DTOR_ASYNC_STDOUT"))) {
    hx::set_current("async-stdout-sink destroyed while enabled with one pending record");
    fflush(stdout); int saved = dup(1); int fd = open(cap.c_str(), O_CREAT | O_TRUNC | O_WRONLY, 0600); dup2(fd, 1); close(fd);
    { AsyncStdoutSink as; as.setLevel(LOG_LEVEL_TRACE); as.enable(); LogPrintfFunc("modQ", "fnQ", "dir/fileQ.cpp", 1, LOG_LEVEL_INFO, 0, "pending"); }
    dup2(saved, 1); close(saved);
    std::ifstream in(cap); std::stringstream buf; buf << in.rdbuf(); std::string got = buf.str(); N++;
    std::string want = line_head(LOG_LEVEL_INFO, vsec, "modQ") + "fnQ() pending -- fileQ.cpp:1\n";
    if (got != want) printf("@VIOL sig=async-stdout-sink-destroyed-while-enabled-loses-the-pending-record :: %s\n", first_diff(got, want).c_str());
  }
  unlink(cap.c_str()); D = N; return 0;
}

int main(int argc, char **argv) {
  std::string what = argc > 1 ? argv[1] : "len"; hx::install_crash_reporter("C09-crash");
  if (what == "filterseq") return sweep_filterseq(argc > 2 ? atoi(argv[2]) : 4);
  if (what == "lifecycle") return sweep_lifecycle(argc > 2 ? atoi(argv[2]) : 4, argc > 4 ? atoi(argv[3]) : 0, argc > 4 ? atoi(argv[4]) : 1);
  if (what == "stdout") { int rc = sweep_stdout(argc > 2 ? argv[2] : "/tmp"); printf("@STAT states=%zu transitions=%zu executions=%zu\n", D, N, N); return rc; }
  int rc = what == "len" ? sweep_len() : what == "filter" ? sweep_filter() : sweep_file(argc > 2 ? argv[2] : "/tmp");
  printf("@STAT states=%zu transitions=%zu executions=%zu\n", D, N, N); return rc;
}
