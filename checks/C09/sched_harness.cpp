// C09 (schedules): real LogPrintfFunc -> real Sink / AsyncSink (real AsyncPipe) under engine S.
// usage: sched_harness <scenario> <buff_size> <bound> [--replay picks]
// scenarios: 0 one logger x2 | 1 two loggers x2 | 2 two loggers x1 | 3 async sink only, two loggers x2 (all: join, then disable)
//            4 one logger x2 while main disables both sinks | 5 one logger x3 while main disables, re-enables and finally disables the async sink
#include "sched/sched.h"
#include "sched/explore.h"
#include <tbox/base/log.h>
#include <tbox/base/log_impl.h>
#include <tbox/log/sink.h>
#include <tbox/log/async_sink.h>
#include <sys/syscall.h>
#include <sys/time.h>
#include <thread>
#include <string>
#include <vector>
extern "C" int gettimeofday(struct timeval *tv, void *) { if (tv) { tv->tv_sec = 1700000000; tv->tv_usec = 123456; } return 0; }
using namespace tbox::log;
static const char LEVEL_CODE[] = "FEWNIIDT";     // the documented level codes, spelled out (not read from the implementation's table)

namespace {
struct SyncRec : Sink {            // synchronous recorder: formats like the in-tree sync sink
  std::vector<std::string> lines;
  void onLogFrontEnd(const LogContent *c) override {
    char b[512]; int n = snprintf(b, sizeof b, "%c %u.%06u %ld %s %s() %.*s%s-- %s:%d", LEVEL_CODE[c->level], c->timestamp.sec, c->timestamp.usec, c->thread_id, c->module_id, c->func_name, (int)c->text_len, c->text_ptr, c->text_len ? " " : "", c->file_name, c->line);
    lines.emplace_back(b, (size_t)n); }
};
struct AsyncRec : AsyncSink {      // asynchronous recorder on the real pipe + real back-end formatter
  std::string out;
  void endline() override { cache_.push_back('\n'); }
  void flush() override { out.append(cache_.data(), cache_.size()); cache_.clear(); }
};
struct Expect { std::string sync_line, async_line; };
std::vector<Expect> g_exp[3]; long g_tid[3];

void do_log(int thr, int idx, int seq = -1) {
  if (seq < 0) seq = idx;
  char payload[40]; snprintf(payload, sizeof payload, "payload-t%d-n%d-%s", thr, seq, idx ? "zz" : "a");
  static const char *FN[3][2] = {{"fn00", "fn01"}, {"fn10", "fn11"}, {"fn20", "fn21"}};   // like __func__: static storage (the async back-end reads the pointer later)
  const char *fn = FN[thr][idx]; int line = 100 + thr * 10 + seq; int level = (thr + idx) % 2 ? LOG_LEVEL_INFO : LOG_LEVEL_WARN;
  g_tid[thr] = syscall(SYS_gettid);
  char ts[32]; { time_t t = 1700000000 + 19800; struct tm tm; gmtime_r(&t, &tm); strftime(ts, sizeof ts, "%F %H:%M:%S", &tm); }    // zone VFT-05:30 (set in main): local = UTC + 5 h 30 min, computed without localtime_r
  char b[512]; Expect e;
  snprintf(b, sizeof b, "%c %u.%06u %ld %s %s() %s -- %s:%d", LEVEL_CODE[level], 1700000000u, 123456u, g_tid[thr], "modX", fn, payload, "file.cpp", line); e.sync_line = b;
  snprintf(b, sizeof b, "%c %s.%06u %ld %s %s() %s -- %s:%d\n", LEVEL_CODE[level], ts, 123456u, g_tid[thr], "modX", fn, payload, "file.cpp", line); e.async_line = b;
  g_exp[thr].push_back(e);
  if (idx % 2) LogPrintfFunc("modX", fn, "/some/dir/file.cpp", line, level, 0, payload);          // LogPuts path
  else LogPrintfFunc("modX", fn, "/some/dir/file.cpp", line, level, 1, "payload-t%d-n%d-%s", thr, seq, idx ? "zz" : "a");   // formatted path
}

// every recorded line must be one of the expected lines, each exactly once, per-thread order kept
std::string check_lines(const std::vector<std::string> &got, bool async, int nthr) {
  size_t next[3] = {0, 0, 0};
  for (auto &l : got) { bool hit = false;
    for (int t = 0; t < nthr && !hit; t++) if (next[t] < g_exp[t].size() && l == (async ? g_exp[t][next[t]].async_line : g_exp[t][next[t]].sync_line)) { next[t]++; hit = true; }
    if (!hit) return std::string(async ? "async" : "sync") + "-sink-record-corrupted-duplicated-or-out-of-order: [" + l.substr(0, 100) + "]"; }
  for (int t = 0; t < nthr; t++) if (next[t] != g_exp[t].size()) return std::string(async ? "async" : "sync") + "-sink-lost-a-record";
  return "";
}

// scenarios 4 and 5: disable() (and a re-enable) CONCURRENT with a logging thread. The property promises a record for every call made
// while the sink is enabled and none otherwise; a call that overlaps disable()/enable() may go either way, but whatever is delivered must be
// whole, at most once and in order. Phases of a sink as seen by the harness (written by main, read by the logger around each call):
//   0 enabled | 1 disable() in progress | 2 disabled | 3 enable() in progress | 4 enabled again | 5 final disable() in progress or done
// A call that started and returned in the same phase p must be present if p is 0 or 4 and absent if p is 2.
int g_phase[2];                    // [0] synchronous sink, [1] asynchronous sink
struct CallObs { int p0[2], p1[2]; }; std::vector<CallObs> g_obs;
inline int ph(int k) { return __atomic_load_n(&g_phase[k], __ATOMIC_SEQ_CST); }
inline void set_ph(int k, int v) { __atomic_store_n(&g_phase[k], v, __ATOMIC_SEQ_CST); }
std::string check_overlap(const std::vector<std::string> &got, bool async) {
  const int k = async ? 1 : 0; size_t gi = 0; const char *nm = async ? "async" : "sync";
  for (size_t i = 0; i < g_exp[0].size(); i++) {
    const std::string &want = async ? g_exp[0][i].async_line : g_exp[0][i].sync_line; const CallObs &o = g_obs[i];
    bool present = gi < got.size() && got[gi] == want; if (present) gi++;
    bool same = o.p0[k] == o.p1[k];
    if (same && (o.p0[k] == 0 || o.p0[k] == 4) && !present) return std::string(nm) + "-sink-lost-a-record-whose-call-returned-before-disable-was-entered(phase" + std::to_string(o.p0[k]) + ",record" + std::to_string(i) + ")" + (gi < got.size() ? ": next line [" + got[gi].substr(0, 80) + "]" : "");
    if (same && o.p0[k] == 2 && present) return std::string(nm) + "-sink-got-a-record-logged-while-it-was-disabled(record" + std::to_string(i) + ")";
  }
  if (gi != got.size()) return std::string(nm) + "-sink-record-corrupted-duplicated-or-out-of-order(concurrent-disable): [" + got[gi].substr(0, 100) + "]";
  return "";
}
std::vector<std::string> split_lines(const std::string &out) { std::vector<std::string> v; size_t a = 0; while (a < out.size()) { size_t b = out.find('\n', a); if (b == std::string::npos) { v.push_back(out.substr(a)); break; } v.push_back(out.substr(a, b - a + 1)); a = b + 1; } return v; }

void scenario_overlap(int scen, int buff) {
  SyncRec srec; AsyncRec arec; AsyncSink::Config cfg; cfg.buff_size = buff; cfg.buff_min_num = 1; cfg.buff_max_num = 2; cfg.interval = 100; arec.setConfig(cfg);
  srec.setLevel(LOG_LEVEL_TRACE); arec.setLevel(LOG_LEVEL_TRACE);
  const bool with_sync = scen == 4, reenable = scen == 5; const int per = reenable ? 3 : 2;
  set_ph(0, with_sync ? 0 : 2); set_ph(1, 0); g_obs.reserve(8); g_exp[0].reserve(8);
  if (with_sync) srec.enable(); arec.enable();
  std::thread lg([per] { for (int i = 0; i < per; i++) { CallObs o; o.p0[0] = ph(0); o.p0[1] = ph(1); g_obs.push_back(o); do_log(0, i % 2, i); CallObs &r = g_obs.back(); r.p1[0] = ph(0); r.p1[1] = ph(1); } });
  set_ph(1, 1); arec.disable(); set_ph(1, 2);
  std::string early = arec.out;      // what disable() left behind: nothing may be added to it while the sink stays disabled
  if (with_sync) { set_ph(0, 1); srec.disable(); set_ph(0, 2); }
  if (reenable) { set_ph(1, 3); arec.enable(); set_ph(1, 4); }
  lg.join();
  if (!reenable && arec.out != early) sched_fail("async-sink-output-grew-after-disable-returned");
  set_ph(1, 5); arec.disable();
  std::string v = check_overlap(split_lines(arec.out), true); if (v.empty() && with_sync) v = check_overlap(srec.lines, false);
  std::string pres; { auto al = split_lines(arec.out); for (auto &l : al) { size_t p = l.find("payload-t"); if (p != std::string::npos) pres += l.substr(p + 11, 2) + ","; } }
  sched_note("O %s", pres.c_str());
  if (!v.empty()) { for (auto &c : v) if (c == ' ') c = '_'; sched_fail("%s", v.c_str()); }
}

void scenario(int scen, int buff) {
  if (scen >= 4) { scenario_overlap(scen, buff); return; }
  SyncRec srec; AsyncRec arec; AsyncSink::Config cfg; cfg.buff_size = buff; cfg.buff_min_num = 1; cfg.buff_max_num = 2; cfg.interval = 100; arec.setConfig(cfg);
  srec.setLevel(LOG_LEVEL_TRACE); arec.setLevel(LOG_LEVEL_TRACE);
  int nthr = scen == 0 ? 1 : 2; int per = scen == 2 ? 1 : 2;
  if (scen != 3) srec.enable(); arec.enable();
  std::vector<std::thread> th;
  for (int t = 0; t < nthr; t++) th.emplace_back([t, per] { for (int i = 0; i < per; i++) do_log(t, i); });
  for (auto &x : th) x.join();
  arec.disable();                    // everything logged before must have been delivered when disable() returns
  if (scen != 3) srec.disable();
  std::vector<std::string> alines = split_lines(arec.out);
  std::string v = check_lines(alines, true, nthr); if (v.empty() && scen != 3) v = check_lines(srec.lines, false, nthr);
  std::string order; for (auto &l : alines) { size_t p = l.find("payload-t"); if (p != std::string::npos) order += l.substr(p + 9, 4) + ","; }
  sched_note("O %s", order.c_str());
  if (!v.empty()) { for (auto &c : v) if (c == ' ') c = '_'; sched_fail("%s", v.c_str()); }
}
}  // namespace

int main(int argc, char **argv) {
  setenv("TZ", "VFT-05:30", 1); tzset();       // a zone that is not UTC, so that a back-end formatting gmtime instead of local time disagrees with the oracle
  int scen = argc > 1 ? atoi(argv[1]) : 0, buff = argc > 2 ? atoi(argv[2]) : 48, bound = argc > 3 ? atoi(argv[3]) : 1;
  sx::Explorer ex; char nm[64]; snprintf(nm, sizeof nm, "log-scen%d-buf%d", scen, buff); ex.name = nm;
  ex.body = [=] { scenario(scen, buff); };
  ex.workers = getenv("VERIF_WORKERS") ? atoi(getenv("VERIF_WORKERS")) : 4;
  ex.deadline_s = sx::now_s() + (getenv("VERIF_DEADLINE_S") ? atof(getenv("VERIF_DEADLINE_S")) : 600);
  if (argc > 5 && !strcmp(argv[4], "--replay")) { ex.replay(sx::parse_picks(argv[5])); return 0; }
  ex.explore(bound);
  return 0;
}
