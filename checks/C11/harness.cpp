// C11: main::Module tree lifecycle hooks are nested, ordered and balanced (engine H, in-process).
//
// PROGRAMS  every ordered tree with <= nmax nodes (node ids = pre-order index = registration order),
//           x required/optional flag per child x named("m<i>")/unnamed("") per node x a hook-result mode per node:
//             ok | initx (init hook fails on every call) | startx (start hook fails on every call)
//             | initx1 / startx1 (the hook fails on its FIRST call only: a rolled-back attempt is followed by a successful retry)
//             | initx2 / startx2 (the hook fails on its SECOND call only: a failure after a success; at most one such module per
//               tree, the other modules then ok / initx / startx / nocfg; in trees with exactly nmax nodes attach variant 0 only)
//             | nocfg (named nodes only: the node's own section is missing from the config, initialize() fails without a hook)
//           x attach variant: 0 add(child,required) top-down (child added to an already attached parent)
//                             1 addAs(child,name[,false]) with the one-argument-less overload for required children, probes constructed
//                               under a temporary name, sub-trees built completely and attached bottom-up
//                             2 add(child[,false]) (default argument for required children), bottom-up      (trees < nmax nodes only)
//                             3 addAs as in 1, top-down                                                   (trees < nmax nodes only)
//                             4 as 0, but the last child of every module is added by that module from its first onInit()
//                               (the module is not initialised yet, so the add must be accepted)            (trees < nmax nodes only)
//           An addAs probe is constructed under the final name of the sibling registered before it (first children: "tmp"); bottom-up variants allocate in reverse id order.
//           Whether add()/addAs() accepts a child is predicted from the program (refused iff a sibling attached earlier has the
//           same final name = second unnamed child); the real build must agree (a refused legitimate child / an accepted
//           duplicate is a finding); correctly refused programs are counted and skipped.
//           Modes of the descendants of a module that can never initialise (initx / nocfg) cannot matter and are fixed to ok.
//           After every build two add() calls that must be refused are made (re-add of an attached child, a second module with
//           the name of an existing sibling), and after every root call that leaves the root initialised (by the reference) an
//           add() on the root that must be refused as well; a module whose add() was refused must never see a hook.
// HISTORIES every sequence of root calls over {initialize,start,stop,cleanup} up to `depth`, explored
//           breadth-first per program with canonical-state dedup (state = state() of every node + the per-node oracle
//           automaton + the reference model's state + the call counters that decide future hook results + capped
//           history counters: failed initialize() passes, failed start() passes, completed cleanup passes, stop passes, so that a
//           rolled-back failure or a finished life cycle is NOT merged with the initial state); every explored
//           history is finished twice on a fresh tree: "cleanup(); delete root" and "delete root" only.
//           Plus the conditional call order of run_in_frontend.cpp:158-169 / run_in_backend.cpp
//           (initialize; if ok {start; if ok {stop}; cleanup}; destroy) for every program, run with the config that the REAL
//           fillDefaultConfig() writes for the tree (check.py compares the apps call order of those two files with a transcript).
// ORACLE    (hook log of the probe modules only; DESIGN.md 1.7: not more than the statement)
//   O1 within one root call ("pass") init hooks and start hooks appear in strictly increasing pre-order id
//      (parent before children, children in registration order, nested); stop / cleanup hooks are LIFO w.r.t.
//      the start / init hooks they undo (exact reverse): if X's hook ran before Y's, Y is stopped/cleaned first.
//   O2 per module: start hook only while a successful init hook is outstanding; stop hook only while a
//      successful start hook is outstanding; cleanup hook only when no start is outstanding (after stop)
//      and an init is outstanding; no second init/start hook while the previous one is outstanding.
//   O3 balance: no module has an outstanding successful init hook or start hook once the tree is gone. Judged for every
//      module when the history ends with cleanup() then destruction (1.7) and in the frontend script (also on its
//      "initialize() failed -> no cleanup() call" path, which is what Main really does); judged for every module but the
//      root when the tree is destroyed without cleanup() (~Module can dispatch the hooks of the children it owns, not its own).
//   O4 no crash / sanitizer report on any history (incl. destroy without cleanup).
//   O6 no cleanup hook of a module while an ancestor still has a successful start hook outstanding (stop phase of the
//      tree completes before its cleanup phase begins: the exact reverse of "init all, start all").
//   O7 reference model: a small recursive model of the statement (state per module, hook results by the program, required /
//      optional, in-call roll-back in reverse order) predicts the complete hook log and the return value of every root call;
//      the real log and return values must be equal to it (this is the rule that notices hooks that do NOT happen).
//   O5 an OPTIONAL child whose subtree contains a failing module never changes the hooks of any module
//      outside that subtree: the real hook log projected on the outside modules equals the reference log of the program
//      with that subtree removed.
//   O8 add() calls that must be refused are refused; a refused module never gets a hook.
// argv: bfs <nmax> <depth> <k> <K> [xcheck_nmax [xcheck_depth [cap_fail [cap_cycle [maxdev_at_nmax [cap_stop [n_lo [n_hi]]]]]]]]   |   replay <P-spec> <Q-spec>
//       maxdev_at_nmax > 0: trees with exactly nmax nodes get at most that many modules with a mode other than ok
#include "hist/hist.h"
#include <tbox/base/json.hpp>
#include <tbox/main/module.h>
#include <cstdint>
#include <map>
#include <set>
#include <string>
#include <unordered_set>
#include <vector>
using namespace tbox;
using namespace tbox::main;

// ------------------------------------------------------------------------------------------------
// smallest possible Context: Module only stores the reference (module.cpp:30-32) and never uses it.
struct FakeCtx : Context {
  event::Loop *loop() const override { return nullptr; }
  eventx::ThreadPool *thread_pool() const override { return nullptr; }
  eventx::TimerPool *timer_pool() const override { return nullptr; }
  eventx::Async *async() const override { return nullptr; }
  terminal::TerminalNodes *terminal() const override { return nullptr; }
  coroutine::Scheduler *coroutine() const override { return nullptr; }
  std::chrono::milliseconds running_time() const override { return std::chrono::milliseconds(0); }
  std::chrono::system_clock::time_point start_time_point() const override { return std::chrono::system_clock::time_point(); }
};
static FakeCtx g_ctx;

enum { MAXN = 6, MAXSEQ = 14, MAXLOG = 512 };
enum { HI, HS, HT, HC };                       // hook kinds: init, start, stop, cleanup
enum { OP_INIT, OP_START, OP_STOP, OP_CLEANUP, OP_FINAL_CLEANUP, OP_DESTROY };
enum { FIN_CLEANUP_DESTROY, FIN_DESTROY };
enum { M_OK, M_INITX, M_STARTX, M_INITX1, M_STARTX1, M_INITX2, M_STARTX2, M_NOCFG, NFAIL };
enum { V_ADD_TOPDOWN, V_ADDAS_BOTTOMUP, V_ADDDEF_BOTTOMUP, V_ADDAS_TOPDOWN, V_ADD_FROM_ONINIT, NVAR };
enum { A_READD = 1, A_DUP = 2, A_LATE = 4, A_EXTRAHOOK = 8, A_HOOKADD = 16 };
enum { JUDGE_NONE, JUDGE_ALL, JUDGE_NONROOT };
static const char *kOpName[] = {"initialize", "start", "stop", "cleanup", "final-cleanup", "destroy"};
static const char kHookCh[] = "ISTC";
static const char *kHookName[] = {"init", "start", "stop", "cleanup"};
static const char *kFailName[] = {"ok", "initx", "startx", "initx1", "startx1", "initx2", "startx2", "nocfg"};
static const char *kVarName[] = {"add(child,required)/top-down", "addAs+default-arg/bottom-up", "add+default-arg/bottom-up", "addAs+default-arg/top-down", "last-child-of-every-module-added-from-its-onInit"};

// the program's definition of a hook result: mode x hook kind x number of earlier calls of that hook on that module
static inline bool hookOk(int mode, int kind, int earlier_calls) {
  if (kind == HI) return !(mode == M_INITX || (mode == M_INITX1 && earlier_calls == 0) || (mode == M_INITX2 && earlier_calls == 1));
  if (kind == HS) return !(mode == M_STARTX || (mode == M_STARTX1 && earlier_calls == 0) || (mode == M_STARTX2 && earlier_calls == 1));
  return true;
}

// what of a hook's call counter can still influence a future hook result
static inline int cntKey(int mode, int kind, int calls) {
  int one = kind == HI ? M_INITX1 : M_STARTX1, two = kind == HI ? M_INITX2 : M_STARTX2;
  return mode == one ? (calls > 0) : mode == two ? (calls > 2 ? 2 : calls) : 0;
}

struct Ev { uint8_t pass, kind, node, ok; };
static Ev g_log[MAXLOG];
static int g_nlog;
static uint8_t g_pass;
static int g_anom;
static long c_refused_adds;   // add() calls that had to be refused (O8)
static inline void logev(int kind, int node, bool ok) {
  if (g_nlog < MAXLOG) { g_log[g_nlog].pass = g_pass; g_log[g_nlog].kind = (uint8_t)kind; g_log[g_nlog].node = (uint8_t)node; g_log[g_nlog].ok = ok; }
  g_nlog++;
}

static bool *g_attached;      // per node of the tree being executed: is it owned by a parent
struct Probe : Module {
  int id, fail, ni, ns;   // id < 0: a module whose add() must have been refused
  Probe *deferred; bool deferred_req;   // attach variant 4: this module's last child, added from its first onInit()
  Probe(int i, int f, const std::string &n) : Module(n, g_ctx), id(i), fail(f), ni(0), ns(0), deferred(nullptr), deferred_req(true) {}
  bool onInit(const Json &) override {
    if (id < 0) { g_anom |= A_EXTRAHOOK; return true; }
    if (deferred) { Probe *d = deferred; deferred = nullptr; if (add(d, deferred_req)) g_attached[d->id] = true; else g_anom |= A_HOOKADD; }   // the module is not initialised yet
    bool ok = hookOk(fail, HI, ni++); logev(HI, id, ok); return ok;
  }
  bool onStart() override { if (id < 0) { g_anom |= A_EXTRAHOOK; return true; } bool ok = hookOk(fail, HS, ns++); logev(HS, id, ok); return ok; }
  void onStop() override { if (id < 0) { g_anom |= A_EXTRAHOOK; return; } logev(HT, id, true); }
  void onCleanup() override { if (id < 0) { g_anom |= A_EXTRAHOOK; return; } logev(HC, id, true); }
};

struct Prog {
  int n; int par[MAXN]; bool req[MAXN]; bool named[MAXN]; int fail[MAXN]; int var;
  bool inSub(int x, int top) const { while (x > top) x = par[x]; return x == top; }   // x in subtree(top)
};

static std::string progStr(const Prog &p, int skip = -1) {
  std::function<std::string(int)> rec = [&](int i) {
    std::string s = std::to_string(i) + "{";
    if (i) s += p.req[i] ? "R," : "O,";
    s += p.named[i] ? "n," : "u,"; s += kFailName[p.fail[i]]; s += "}";
    std::string c;
    for (int j = i + 1; j < p.n; j++) if (p.par[j] == i && !(skip >= 0 && p.inSub(j, skip))) { if (!c.empty()) c += ' '; c += rec(j); }
    if (!c.empty()) s += "(" + c + ")";
    return s; };
  return rec(0) + " attach=" + kVarName[p.var];
}
static std::string progSpec(const Prog &p) {   // machine form for `replay`
  std::string s = std::to_string(p.n) + ":";
  for (int i = 0; i < p.n; i++) s += char('0' + (i ? p.par[i] : 0)); s += ":";
  for (int i = 0; i < p.n; i++) s += char('0' + (i ? p.req[i] : 0)); s += ":";
  for (int i = 0; i < p.n; i++) s += char('0' + p.named[i]); s += ":";
  for (int i = 0; i < p.n; i++) s += char('0' + p.fail[i]); s += ":";
  s += char('0' + p.var);
  return s;
}
static bool parseSpec(const char *t, Prog &p) {
  int n = atoi(t); if (n < 1 || n >= MAXN) return false; p.n = n;
  const char *c = strchr(t, ':'); if (!c) return false; c++;
  auto rd = [&](int *dst) { for (int i = 0; i < n; i++) { if (*c < '0' || *c > '9') return false; dst[i] = *c++ - '0'; } if (*c == ':') c++; return true; };
  int a[MAXN], b[MAXN], d[MAXN], e[MAXN];
  if (!rd(a) || !rd(b) || !rd(d) || !rd(e)) return false;
  for (int i = 0; i < n; i++) { p.par[i] = i ? a[i] : -1; p.req[i] = b[i]; p.named[i] = d[i]; p.fail[i] = e[i]; if (e[i] >= NFAIL) return false; }
  p.var = (*c >= '0' && *c < '0' + NVAR) ? *c - '0' : 0; return true;
}

static const std::string kNames[MAXN] = {"m0", "m1", "m2", "m3", "m4", "m5"}, kTmpName = "tmp", kNoName;
static const std::string &finalName(const Prog &p, int i) { return p.named[i] ? kNames[i] : kNoName; }

// the config the framework would hand to the root: one (nested) section per named module, written from the program
// (not read back from the implementation); sections of nocfg nodes are removed (deepest first)
static Json buildConfig(const Prog &p) {
  Json cfg;
  std::function<void(int, Json &)> fill = [&](int i, Json &js_parent) {
    Json &js_this = p.named[i] ? js_parent[finalName(p, i)] : js_parent;
    for (int j = i + 1; j < p.n; j++) if (p.par[j] == i) fill(j, js_this);
  };
  fill(0, cfg);
  return cfg;
}
static void eraseSections(const Prog &p, Json &cfg) {
  for (int k = p.n - 1; k >= 0; k--) if (p.fail[k] == M_NOCFG) {
    int path[MAXN], m = 0; for (int a = p.par[k]; a >= 0; a = p.par[a]) path[m++] = a;
    Json *j = &cfg; bool ok = true;
    while (m > 0 && ok) { int a = path[--m]; if (p.named[a]) { if (j->is_object() && j->contains(finalName(p, a))) j = &(*j)[finalName(p, a)]; else ok = false; } }
    if (ok && j->is_object()) j->erase(finalName(p, k));
  }
}

static bool attach(const Prog &p, Probe **nodes, int i) {
  Probe *par = nodes[p.par[i]], *c = nodes[i];
  switch (p.var) {
    case V_ADD_TOPDOWN: case V_ADD_FROM_ONINIT: return par->add(c, p.req[i]);
    case V_ADDDEF_BOTTOMUP: return p.req[i] ? par->add(c) : par->add(c, false);
    default: return p.req[i] ? par->addAs(c, finalName(p, i)) : par->addAs(c, finalName(p, i), false);
  }
}

// attach variant 4: is node i the last child of its parent (then it is added from the parent's first onInit())
static bool isDeferred(const Prog &p, int i) {
  if (p.var != V_ADD_FROM_ONINIT || i == 0) return false;
  for (int j = i + 1; j < p.n; j++) if (p.par[j] == p.par[i]) return false;
  return true;
}
// the order in which the build attaches the children (deferred ones are not attached by the build)
static int attachOrder(const Prog &p, int *ord) {
  bool bottomup = p.var == V_ADDAS_BOTTOMUP || p.var == V_ADDDEF_BOTTOMUP; int m = 0;
  if (!bottomup) { for (int i = 1; i < p.n; i++) if (!isDeferred(p, i)) ord[m++] = i; }
  else { for (int par = p.n - 1; par >= 0; par--) for (int i = par + 1; i < p.n; i++) if (p.par[i] == par) ord[m++] = i; }
  return m;
}
// REFERENCE for add()/addAs(): a child is refused iff a sibling attached before it has the same (final) name,
// i.e. a second unnamed child of one parent. Returns the first child the build must see refused, -1 = none.
static int predictRefused(const Prog &p) {
  int ord[MAXN], m = attachOrder(p, ord);
  for (int k = 0; k < m; k++) for (int e = 0; e < k; e++) if (p.par[ord[e]] == p.par[ord[k]] && p.named[ord[e]] == p.named[ord[k]] && !p.named[ord[k]]) return ord[k];
  return -1;
}
static bool treeValid(const Prog &p) {   // no two children of one parent with equal names
  for (int i = 1; i < p.n; i++) for (int j = i + 1; j < p.n; j++) if (p.par[i] == p.par[j] && !p.named[i] && !p.named[j]) return false;
  return true;
}

// the name an addAs probe is constructed under: the FINAL name of the sibling registered just before it (so a rename that comes
// after the duplicate check, or is lost, collides), "tmp" for a first child (all first children share it)
static const std::string &tmpName(const Prog &p, int i) {
  for (int j = i - 1; j > p.par[i]; j--) if (p.par[j] == p.par[i]) return finalName(p, j);
  return kTmpName;
}
// build the real tree; attached[i] says who is owned by a parent afterwards. Returns the first child whose add()/addAs()
// was refused (the build stops there), -1 when every add() of the build was accepted.
static int buildTree(const Prog &p, Probe **nodes, bool *attached) {
  bool as = p.var == V_ADDAS_BOTTOMUP || p.var == V_ADDAS_TOPDOWN;
  bool bottomup = p.var == V_ADDAS_BOTTOMUP || p.var == V_ADDDEF_BOTTOMUP;
  // (bottom-up variants allocate in reverse id order: addresses do not grow with the registration order)
  for (int k = 0; k < p.n; k++) { int i = bottomup ? p.n - 1 - k : k; attached[i] = false; nodes[i] = new Probe(i, p.fail[i], (as && i > 0) ? tmpName(p, i) : finalName(p, i)); }
  int ord[MAXN], m = attachOrder(p, ord);
  for (int k = 0; k < m; k++) { if (!(attached[ord[k]] = attach(p, nodes, ord[k]))) return ord[k]; }
  for (int i = 1; i < p.n; i++) if (isDeferred(p, i)) { nodes[p.par[i]]->deferred = nodes[i]; nodes[p.par[i]]->deferred_req = p.req[i]; }
  // O8: adds that must be refused (not in variant 4, where the last node / the root's only child may still be unattached)
  if (p.n >= 2 && p.var != V_ADD_FROM_ONINIT) {
    c_refused_adds += 2;
    if (nodes[0]->add(nodes[p.n - 1], false)) g_anom |= A_READD;                       // already has a parent
    Probe *x = new Probe(-1, M_OK, finalName(p, 1));                                    // node 1 is the root's first child
    if (nodes[0]->add(x, false)) g_anom |= A_DUP; else delete x;
  }
  return -1;
}
static void destroyTree(const Prog &p, Probe **nodes, const bool *attached) {   // the root and whatever no parent owns
  delete nodes[0];
  for (int i = 1; i < p.n; i++) if (!attached[i]) delete nodes[i];
}

// one driver for the real tree and for the reference model: the same call sequence, the same pass numbering
template <class T> static int drive(T &t, const uint8_t *seq, int len, bool frontend, uint8_t *ret) {
  if (!frontend) {
    for (int i = 0; i < len; i++) {
      t.setPass(i, seq[i]);
      switch (seq[i]) {
        case OP_INIT: ret[i] = t.initialize(); break;
        case OP_START: ret[i] = t.start(); break;
        case OP_STOP: t.stop(); ret[i] = 2; break;
        case OP_CLEANUP: t.cleanup(); ret[i] = 2; break;
      }
      t.afterOp(i);
    }
    return len;
  }
  // run_in_frontend.cpp:158-169 (ctx calls left out): the stop() comes from the signal callback (line 72)
  int k = 1;
  t.setPass(0, OP_INIT); bool i_ok = t.initialize(); ret[0] = i_ok; t.afterOp(0);
  if (i_ok) {
    t.setPass(1, OP_START); bool s_ok = t.start(); ret[1] = s_ok; t.afterOp(1); k = 2;
    if (s_ok) { t.setPass(2, OP_STOP); t.stop(); ret[2] = 2; t.afterOp(2); k = 3; }
    t.setPass(k, OP_CLEANUP); t.cleanup(); ret[k] = 2; t.afterOp(k); k++;
  }
  return k;
}

// ------------------------------------------------------------------------------------------------
// O7 reference model of the statement
struct Model {
  const Prog *p; int skip;
  uint8_t st[MAXN]; int ni[MAXN], ns[MAXN];       // 0 none, 1 inited, 2 running; hook call counters
  Ev log[MAXLOG]; int nlog, nlog_snap, npass, nops; uint8_t curpass;
  uint8_t ret[MAXSEQ + 4], rootst[MAXSEQ + 4], st_snap[MAXN], ni_snap[MAXN], ns_snap[MAXN], passop[MAXSEQ + 6];
  bool present(int i) const { return !(skip >= 0 && p->inSub(i, skip)); }
  void emit(int kind, int x, bool ok) { if (nlog < MAXLOG) { log[nlog].pass = curpass; log[nlog].kind = (uint8_t)kind; log[nlog].node = (uint8_t)x; log[nlog].ok = ok; } nlog++; }
  bool child(int j, int x) const { return p->par[j] == x && present(j); }
  bool init_(int x) {
    if (st[x] != 0) return false;
    if (p->fail[x] == M_NOCFG) return false;
    bool ok = hookOk(p->fail[x], HI, ni[x]++); emit(HI, x, ok); if (!ok) return false;
    for (int c = x + 1; c < p->n; c++) if (child(c, x)) {
      if (!init_(c) && p->req[c]) {
        for (int d = c - 1; d > x; d--) if (child(d, x)) cleanup_(d, true);
        emit(HC, x, true); return false;
      }
    }
    st[x] = 1; return true;
  }
  bool start_(int x) {
    if (st[x] != 1) return false;
    bool ok = hookOk(p->fail[x], HS, ns[x]++); emit(HS, x, ok); if (!ok) return false;
    for (int c = x + 1; c < p->n; c++) if (child(c, x)) {
      if (!start_(c) && p->req[c]) {
        for (int d = c - 1; d > x; d--) if (child(d, x)) stop_(d, true);
        emit(HT, x, true); return false;
      }
    }
    st[x] = 2; return true;
  }
  void stop_(int x, bool own) {
    if (st[x] != 2) return;
    for (int c = p->n - 1; c > x; c--) if (child(c, x)) stop_(c, true);
    if (own) emit(HT, x, true);
    st[x] = 1;
  }
  void cleanup_(int x, bool own) {
    if (st[x] == 0) return;
    stop_(x, own);
    for (int c = p->n - 1; c > x; c--) if (child(c, x)) cleanup_(c, true);
    if (own) emit(HC, x, true);
    st[x] = 0;
  }
  // C++: while ~Module runs, the hooks of the module being destroyed are no longer those of the user's class
  void destroy_(int x) { cleanup_(x, false); for (int c = x + 1; c < p->n; c++) if (child(c, x)) destroy_(c); }
  // driver interface
  void setPass(int i, int op) { curpass = (uint8_t)i; passop[i] = (uint8_t)op; }
  bool initialize() { return init_(0); }
  bool start() { return start_(0); }
  void stop() { stop_(0, true); }
  void cleanup() { cleanup_(0, true); }
  void afterOp(int i) { rootst[i] = st[0]; }
  void run(const Prog &pp, int sk, const uint8_t *seq, int len, bool frontend, int fin) {
    p = &pp; skip = sk; nlog = 0; memset(st, 0, sizeof st); memset(ni, 0, sizeof ni); memset(ns, 0, sizeof ns);
    int k = drive(*this, seq, len, frontend, ret); nops = k;
    nlog_snap = nlog; memcpy(st_snap, st, sizeof st);
    for (int i = 0; i < pp.n; i++) { ni_snap[i] = (uint8_t)cntKey(pp.fail[i], HI, ni[i]); ns_snap[i] = (uint8_t)cntKey(pp.fail[i], HS, ns[i]); }
    for (int i = 0; i < pp.n; i++) if (!present(i)) st_snap[i] = 3;
    if (!frontend && fin == FIN_CLEANUP_DESTROY) { setPass(k, OP_FINAL_CLEANUP); cleanup(); k++; }
    setPass(k, OP_DESTROY); destroy_(0);
    npass = k + 1; if (nlog > MAXLOG) nlog = MAXLOG;
  }
};

struct Run {
  Ev log[MAXLOG]; int nlog; int nlog_snap;   // hooks; number of hooks before the final
  int npass, nops;                           // passes incl. final ones; root calls before the final
  uint8_t state_snap[MAXN];                  // Module::state() per node before the final
  uint8_t ni_snap[MAXN], ns_snap[MAXN];      // probe call counters before the final (as far as they decide future hook results)
  uint8_t called_init[MAXN];                 // onInit ran at least once (variant 4: its deferred child has been added)
  uint8_t ret[MAXSEQ + 4];                   // return values of initialize/start (1/0), 2 for void calls
  int anom;
};

static const std::string kLateName = "late";
struct RealT {
  Probe *root; const Json *cfg; const Model *m; Probe *late;
  void setPass(int i, int) { g_pass = (uint8_t)i; }
  bool initialize() { return root->initialize(*cfg); }
  bool start() { return root->start(); }
  void stop() { root->stop(); }
  void cleanup() { root->cleanup(); }
  void afterOp(int i) {
    if (m->rootst[i] == 0) return;   // by the reference the root is initialised now: add() must be refused
    if (!late) late = new Probe(-1, M_OK, kLateName);
    c_refused_adds++;
    if (root->add(late, false)) { g_anom |= A_LATE; late = nullptr; }   // wrongly accepted: the tree owns it now
  }
};

static void execute(const Prog &p, const Json &cfg, const uint8_t *seq, int len, int fin, bool frontend, const Model &m, Run &r) {
  Probe *nodes[MAXN]; bool attached[MAXN];
  g_nlog = 0; g_pass = 0; g_anom = 0; g_attached = attached;
  buildTree(p, nodes, attached);   // acceptance was judged by exploreProgram
  Probe *root = nodes[0];
  RealT t{root, &cfg, &m, nullptr};
  int k = drive(t, seq, len, frontend, r.ret); r.nops = k;
  r.nlog_snap = g_nlog;
  for (int i = 0; i < p.n; i++) { r.state_snap[i] = (uint8_t)nodes[i]->state(); r.ni_snap[i] = (uint8_t)cntKey(p.fail[i], HI, nodes[i]->ni); r.ns_snap[i] = (uint8_t)cntKey(p.fail[i], HS, nodes[i]->ns); r.called_init[i] = nodes[i]->ni > 0; }
  g_pass = (uint8_t)k;
  if (!frontend && fin == FIN_CLEANUP_DESTROY) { root->cleanup(); k++; g_pass = (uint8_t)k; }
  destroyTree(p, nodes, attached);
  delete t.late;
  r.npass = k + 1;
  r.nlog = g_nlog < MAXLOG ? g_nlog : MAXLOG;
  memcpy(r.log, g_log, sizeof(Ev) * (size_t)r.nlog);
  r.anom = g_anom;
}

static std::string logStr(const Ev *log, int n) {
  std::string s; int pass = 0;
  for (int i = 0; i < n; i++) {
    while (pass < log[i].pass) { s += "| "; pass++; }
    s += kHookCh[log[i].kind]; s += char('0' + log[i].node); if (!log[i].ok) s += 'x'; s += ' ';
  }
  if (!s.empty() && s.back() == ' ') s.pop_back();
  return s;
}

// ------------------------------------------------------------------------------------------------
// oracle
struct Finding { std::string sig, detail; };

// why did `kind` (HI/HS) of node x in pass `ps` not lead to a completed initialize()/start() ?
static std::string cause(const Prog &p, const Ev *log, int nlog, int x, int kind, int ps, int skip) {
  const char *K = kind == HI ? "init" : "start";
  // per node: 0 = hook ok in the pass, 1 = hook failed, 2 = no hook in the pass
  int st[MAXN];
  for (int i = 0; i < p.n; i++) st[i] = 2;
  for (int i = 0; i < nlog; i++) if (log[i].pass == ps && log[i].kind == kind && log[i].node < p.n) st[log[i].node] = log[i].ok ? 0 : 1;
  auto present = [&](int i) { return !(skip >= 0 && p.inSub(i, skip)); };
  // fails(y): 0 no, 1 own hook failed, 2 no hook, 3 required descendant
  std::function<int(int)> fails = [&](int y) {
    if (st[y] == 1) return 1;
    if (st[y] == 2) return 2;
    for (int z = y + 1; z < p.n; z++) if (p.par[z] == y && present(z) && p.req[z] && fails(z)) return 3;
    return 0; };
  auto firstBadReqChild = [&](int y) { for (int z = y + 1; z < p.n; z++) if (p.par[z] == y && present(z) && p.req[z] && fails(z)) return z; return -1; };
  int z = firstBadReqChild(x);
  if (z >= 0) {
    int f = fails(z);
    if (f == 1) return std::string("when-required-child-") + K + "-fails";
    if (f == 2) return std::string("when-required-child-") + K + (kind == HI ? "-skipped-config-missing-or-stale-state" : "-skipped-child-not-in-inited-state");
    return std::string("when-required-descendant-") + K + "-fails";
  }
  for (int a = p.par[x]; a >= 0; a = p.par[a]) if (firstBadReqChild(a) >= 0) return std::string("orphaned-when-ancestor-") + (kind == HI ? "initialize" : "start") + "-aborted-by-required-child";
  return "other";
}

struct Auto { uint8_t oi[MAXN], os[MAXN]; int8_t ipass[MAXN], spass[MAXN]; uint8_t lateT[MAXN], lateC[MAXN]; int iseq[MAXN], sseq[MAXN]; };

static void oracle(const Prog &p, const Ev *log, int n, int nlog_snap, int judge, int skip, std::vector<Finding> &out, Auto *snap) {
  auto add = [&](const std::string &sig, const std::string &d) { for (auto &f : out) if (f.sig == sig) return; out.push_back({sig, d}); };
  auto at = [&](int i) { char b[64]; snprintf(b, sizeof b, "hook#%d=%c%d pass%d", i, kHookCh[log[i].kind], log[i].node, log[i].pass); return std::string(b); };
  // O1 + O2 in one walk (the context of an O1 finding needs the automaton)
  Auto a; memset(&a, 0, sizeof a);
  if (snap && nlog_snap == 0) *snap = a;
  int last[4] = {-1, -1, 1000, 1000}; int curpass = -1;
  uint8_t *lateT = a.lateT, *lateC = a.lateC; int *iseq = a.iseq, *sseq = a.sseq;
  for (int i = 0; i < n; i++) {
    int k = log[i].kind, x = log[i].node; bool ok = log[i].ok;
    if (log[i].pass != curpass) { curpass = log[i].pass; last[HI] = last[HS] = -1; last[HT] = last[HC] = 1000; }
    if (k == HI || k == HS) { if (x <= last[k]) add(k == HI ? "order-init-hooks-not-parent-first-registration-order" : "order-start-hooks-not-parent-first-registration-order", at(i)); }
    else {
      // exact reverse = LIFO between hooks that both occur: y's stop/cleanup hook is late when a module whose
      // start/init hook ran EARLIER than y's (and was outstanding together with it) has already been stopped/cleaned
      // (a plain "decreasing id per root call" would be too strong: two separate roll-backs inside one
      // initialize()/start() of a corrected implementation legitimately give e.g. I0 I1 I2x C1 I3 I4x C3 C0)
      uint8_t *lt = k == HT ? lateT : lateC;
      if (lt[x]) {
        std::string ctx = k == HT ? (a.os[x] ? cause(p, log, n, x, HS, a.spass[x], skip) : std::string("module-not-started"))
                                  : (a.oi[x] ? cause(p, log, n, x, HI, a.ipass[x], skip) : std::string("module-not-inited"));
        add(std::string(k == HT ? "order-stop-hooks-not-exact-reverse-" : "order-cleanup-hooks-not-exact-reverse-") + ctx, at(i));
      }
      lt[x] = 0;
      for (int y = 0; y < p.n; y++) {
        if (k == HT && a.os[x] && a.os[y] && sseq[y] > sseq[x]) lateT[y] = 1;
        if (k == HC && a.oi[x] && a.oi[y] && iseq[y] > iseq[x]) lateC[y] = 1;
      }
    }
    last[k] = x;
    switch (k) {
      case HI:
        if (a.oi[x]) add("init-hook-rerun-before-cleanup-" + cause(p, log, n, x, HI, a.ipass[x], skip), at(i));
        if (ok && !a.oi[x]) { a.oi[x] = 1; a.ipass[x] = (int8_t)log[i].pass; iseq[x] = i; lateC[x] = 0; }   // context = the first unmatched success
        break;
      case HS:
        if (!a.oi[x]) add("start-hook-without-successful-init", at(i));
        if (a.os[x]) add("start-hook-rerun-before-stop-" + cause(p, log, n, x, HS, a.spass[x], skip), at(i));
        if (ok && !a.os[x]) { a.os[x] = 1; a.spass[x] = (int8_t)log[i].pass; sseq[x] = i; lateT[x] = 0; }
        break;
      case HT:
        if (!a.os[x]) add("stop-hook-for-module-not-started", at(i));
        a.os[x] = 0;
        break;
      case HC:
        // O6 (nesting of the phases): the cleanup phase of a subtree begins only after the whole running phase has been
        // undone - a module is never cleaned up while an ancestor is still started (exact reverse of I* S* is T* C*)
        // (judged only for histories that end with an explicit cleanup(): hooks cannot be dispatched from ~Module of a running root)
        if (judge == JUDGE_ALL) for (int anc = p.par[x]; anc >= 0; anc = p.par[anc]) if (a.os[anc]) { add("cleanup-hook-while-an-ancestor-is-still-started", at(i)); break; }
        if (a.os[x]) add("cleanup-hook-before-stop-" + cause(p, log, n, x, HS, a.spass[x], skip), at(i));
        if (!a.oi[x]) add("cleanup-hook-without-successful-init", at(i));
        a.oi[x] = 0;
        break;
    }
    if (snap && i + 1 == nlog_snap) *snap = a;
  }
  // O3
  if (judge != JUDGE_NONE) {
    const char *sfx = judge == JUDGE_NONROOT ? "-of-child-after-destroy-without-cleanup" : "";
    for (int x = judge == JUDGE_NONROOT ? 1 : 0; x < p.n; x++) {
      if (a.oi[x]) add("unbalanced-init-" + cause(p, log, n, x, HI, a.ipass[x], skip) + sfx, "module " + std::to_string(x) + ": init hook succeeded in pass" + std::to_string(a.ipass[x]) + ", no cleanup hook");
      if (a.os[x]) add("unbalanced-start-" + cause(p, log, n, x, HS, a.spass[x], skip) + sfx, "module " + std::to_string(x) + ": start hook succeeded in pass" + std::to_string(a.spass[x]) + ", no stop hook");
    }
  }
}

// O7: the real hook log and return values equal the reference
static void compareReference(const Prog &p, const Run &r, const Model &m, std::vector<Finding> &out) {
  auto add = [&](const std::string &sig, const std::string &d) { for (auto &f : out) if (f.sig == sig) return; out.push_back({sig, d}); };
  auto role = [&](int x) { return x == 0 ? "root" : x >= p.n ? "unknown-module" : p.req[x] ? "required-module" : "optional-module"; };
  auto desc = [&](const Ev *e) { return e ? std::string(kHookName[e->kind]) + "-hook" + (e->ok ? "" : "-failing") + "-of-" + role(e->node) : std::string("no-more-hooks"); };
  int nops = r.nops < m.nops ? r.nops : m.nops;
  for (int i = 0; i < nops; i++) if (r.ret[i] != m.ret[i]) {
    add(std::string("return-value-differs-from-reference-") + kOpName[m.passop[i]] + "-expected-" + (m.ret[i] ? "true" : "false"),
        "root call #" + std::to_string(i) + " returned " + std::to_string(r.ret[i]) + ", reference " + std::to_string(m.ret[i]));
    break;
  }
  int i = 0; while (i < r.nlog && i < m.nlog && r.log[i].pass == m.log[i].pass && r.log[i].kind == m.log[i].kind && r.log[i].node == m.log[i].node && r.log[i].ok == m.log[i].ok) i++;
  if (i == r.nlog && i == m.nlog) return;
  const Ev *e = i < m.nlog ? &m.log[i] : nullptr, *g = i < r.nlog ? &r.log[i] : nullptr;
  int pass;
  if (e && g && e->pass != g->pass) { if (e->pass < g->pass) g = nullptr; else e = nullptr; }
  pass = e ? e->pass : g->pass;
  const char *op = pass < m.npass ? kOpName[m.passop[pass]] : "later-call";
  add(std::string("hooks-differ-from-reference-in-") + op + "-expected-" + desc(e) + "-got-" + (g ? std::string(kHookName[g->kind]) + "-hook" : std::string("no-more-hooks")),
      "at hook#" + std::to_string(i) + " pass" + std::to_string(pass) + "; reference log=[" + logStr(m.log, m.nlog) + "]");
}

// O5: compare the projected real log with the reference log of the reduced program
static void compareOutside(const Prog &p, int f, const Ev *full, int nfull, const Ev *red, int nred, std::vector<Finding> &out) {
  static Ev proj[MAXLOG]; int m = 0;
  for (int i = 0; i < nfull; i++) if (full[i].node >= p.n || !p.inSub(full[i].node, f)) proj[m++] = full[i];
  bool same = (m == nred);
  for (int i = 0; same && i < m; i++) same = proj[i].pass == red[i].pass && proj[i].kind == red[i].kind && proj[i].node == red[i].node && proj[i].ok == red[i].ok;
  if (same) return;
  // classify: which outside module lost an init / start hook?
  int cf[4][MAXN + 1] = {{0}}, cr[4][MAXN + 1] = {{0}};
  for (int i = 0; i < m; i++) if (proj[i].node < MAXN) cf[proj[i].kind][proj[i].node]++;
  for (int i = 0; i < nred; i++) cr[red[i].kind][red[i].node]++;
  std::string sig = "optional-failure-changes-hooks-outside-its-subtree";
  for (int k : {HI, HS}) for (int x = 0; x < p.n; x++) if (cf[k][x] < cr[k][x]) {
    const char *rel = p.inSub(f, x) ? "ancestor" : (p.par[x] == p.par[f] ? "sibling" : "other-module");
    sig = std::string("optional-failure-suppresses-") + (k == HI ? "init" : "start") + "-hook-of-" + rel; goto done;
  }
  for (int x = 0; x < p.n; x++) if (cf[HT][x] > cr[HT][x]) { sig = "optional-failure-stops-running-module"; break; }
done:
  for (auto &g : out) if (g.sig == sig) return;
  out.push_back({sig, "optional subtree " + std::to_string(f) + " removed => reference log=[" + logStr(red, nred) + "] but with it outside-projection=[" + logStr(proj, m) + "]"});
}

static void anomalies(int anom, std::vector<Finding> &out) {
  if (anom & A_READD) out.push_back({"add-accepted-child-that-already-has-a-parent", "root->add(last node) returned true after the build"});
  if (anom & A_DUP) out.push_back({"add-accepted-second-child-with-the-name-of-a-sibling", "root->add(new module named like node 1) returned true"});
  if (anom & A_LATE) out.push_back({"add-accepted-on-initialised-module", "root->add(new module) returned true after a root call that left the root initialised"});
  if (anom & A_HOOKADD) out.push_back({"add-from-inside-onInit-refused", "add(child) called by a module from its own onInit (the module is not initialised yet) returned false"});
  if (anom & A_EXTRAHOOK) out.push_back({"hook-dispatched-to-module-whose-add-was-refused", "a module that must not be part of the tree got a hook"});
}

// ------------------------------------------------------------------------------------------------
static std::map<std::string, long> g_sigcount;
struct Best { long key; std::string text; };
static std::map<std::string, std::vector<Best>> g_best;   // per signature: smallest cases
static long g_viol_evals = 0;

static std::string seqStr(const uint8_t *seq, int len, bool frontend) {
  if (frontend) return "FRONTEND(initialize;if-ok{start;if-ok{stop};cleanup})";
  std::string s; for (int i = 0; i < len; i++) { if (i) s += ','; s += kOpName[seq[i]]; } return s.empty() ? "<none>" : s;
}
static std::string seqSpec(const uint8_t *seq, int len, bool frontend, int fin) {
  std::string s = frontend ? "F" : ""; if (!frontend) for (int i = 0; i < len; i++) s += char('0' + seq[i]); s += fin == FIN_DESTROY ? "/d" : "/cd"; return s;
}
static void record(const Prog &p, const uint8_t *seq, int len, bool frontend, int fin, const Run &r, const std::vector<Finding> &fs) {
  if (fs.empty()) return;
  g_viol_evals++;
  for (auto &f : fs) {
    g_sigcount[f.sig]++;
    int odd = p.var; for (int i = 0; i < p.n; i++) odd += (p.fail[i] != 0) + 3 * (p.fail[i] == M_INITX2 || p.fail[i] == M_STARTX2) + p.named[i];
    long key = p.n * 1000000L + (frontend ? 5 : len) * 10000L + r.nlog * 100 + odd;
    auto &v = g_best[f.sig];
    if (v.size() >= 2 && key >= v.back().key) continue;
    std::string t = "n=" + std::to_string(p.n) + " prog=" + progStr(p) + " seq=" + seqStr(seq, len, frontend) + " final=" + (frontend ? "destroy" : fin == FIN_DESTROY ? "destroy-only" : "cleanup+destroy") +
                    " hooklog=[" + logStr(r.log, r.nlog) + "] :: " + f.detail + " :: replay " + progSpec(p) + " " + seqSpec(seq, len, frontend, fin);
    v.push_back({key, t});
    std::sort(v.begin(), v.end(), [](const Best &a, const Best &b) { return a.key < b.key; });
    if (v.size() > 2) v.pop_back();
  }
}

// counters
static long c_programs, c_rejected, c_states, c_trans, c_exec, c_hooks, c_meta, c_balance_judged, c_balance_judged_children, c_frontend, c_frontend_initfail;
static long c_pass_req_fail, c_pass_opt_fail, c_xcheck_seqs, c_xcheck_progs, c_eval_with_failure_hook, c_retry_success, c_model_runs, c_destroy_only_same;
static long c_prog_var[NVAR];
static std::unordered_set<uint64_t> g_loghashes;
static std::set<std::string> g_profiles;
static int g_samples = 0;
static int g_cap_fail = 2, g_cap_cycle = 1, g_cap_stop = 1;

static uint64_t hashLog(const Run &r) { uint64_t h = 1469598103934665603ULL; for (int i = 0; i < r.nlog; i++) { uint32_t v = r.log[i].pass | (r.log[i].kind << 8) | (r.log[i].node << 12) | (r.log[i].ok << 16); h = (h ^ v) * 1099511628211ULL; } return h; }

static void noteOutcome(const Prog &p, const Run &r, bool viol) {
  c_hooks += r.nlog;
  g_loghashes.insert(hashLog(r));
  int c[6] = {0}; bool failhook = false;
  for (int i = 0; i < r.nlog; i++) { int k = r.log[i].kind; if (k == HI) c[r.log[i].ok ? 0 : 1]++; else if (k == HS) c[r.log[i].ok ? 2 : 3]++; else if (k == HT) c[4]++; else c[5]++; if (!r.log[i].ok) failhook = true; }
  if (failhook) c_eval_with_failure_hook++;
  char b[96]; snprintf(b, sizeof b, "n=%d Iok=%d Ix=%d Sok=%d Sx=%d T=%d C=%d %s", p.n, c[0], c[1], c[2], c[3], c[4], c[5], viol ? "VIOL" : "ok");
  g_profiles.insert(b);
}

// statistics about failure paths really exercised (non-vacuity)
static void notePaths(const Prog &p, const Run &r) {
  bool failed[MAXN][2] = {{false}}; bool retry = false;
  for (int i = 0; i < r.nlog; i++) {
    int x = r.log[i].node, k = r.log[i].kind; if (x >= p.n || k > HS) continue;
    if (!r.log[i].ok) { if (x > 0) { if (p.req[x]) c_pass_req_fail++; else c_pass_opt_fail++; } failed[x][k] = true; }
    else if (failed[x][k]) retry = true;
  }
  if (retry) c_retry_success++;   // a hook that failed earlier in the history succeeded later (life after a roll-back)
}

static std::string g_cur_spec; static bool g_in_xcheck = false;

// findings of one finished execution
static void judgeRun(const Prog &p, const std::vector<int> &optFail, const uint8_t *seq, int len, bool frontend, int fin, const Run &r, const Model &m, int judge,
                     std::vector<Finding> &fs, Auto *snap, std::string *canon_red) {
  static Model mr;
  oracle(p, r.log, r.nlog, r.nlog_snap, judge, -1, fs, snap);
  size_t before = fs.size();
  compareReference(p, r, m, fs);
  // "add() on an initialised root must be refused" is decided by the reference's root state: only meaningful while the real tree agrees with it
  anomalies(fs.size() == before ? r.anom : (r.anom & (A_READD | A_DUP | A_HOOKADD)), fs);
  for (int f : optFail) {
    mr.run(p, f, seq, len, frontend, fin); c_meta++; c_model_runs++;
    compareOutside(p, f, r.log, r.nlog, mr.log, mr.nlog, fs);
    if (canon_red) { *canon_red += '/'; for (int i = 0; i < p.n; i++) *canon_red += char('0' + mr.st_snap[i]); }
  }
  if (!fs.empty()) {
    // who is wrong? the reference itself must satisfy O1-O6 and be transparent for optional sub-trees
    std::vector<Finding> self; oracle(p, m.log, m.nlog, m.nlog_snap, judge, -1, self, nullptr);
    for (int f : optFail) { mr.run(p, f, seq, len, frontend, fin); compareOutside(p, f, m.log, m.nlog, mr.log, mr.nlog, self); }
    if (!self.empty()) fs.push_back({"harness-reference-model-breaks-its-own-rules", self[0].sig + " " + self[0].detail + " reference log=[" + logStr(m.log, m.nlog) + "]"});
  }
}

// evaluate one history of one program: both finals; returns canonical state
static std::string evalHistory(const Prog &p, const Json &cfg, const std::vector<int> &optFail, const uint8_t *seq, int len, bool frontend, std::vector<std::string> *sigs_out = nullptr) {
  static Run r, r2; static Model m, m2;
  std::vector<Finding> fs; Auto snap;
  { char *c = hx::g_cur; int k = snprintf(c, 256, "crash while evaluating :: replay %s %s", g_cur_spec.c_str(), frontend ? "F" : ""); for (int i = 0; i < len && !frontend; i++) c[k++] = char('0' + seq[i]); c[k] = 0; }
  int fin = frontend ? FIN_DESTROY : FIN_CLEANUP_DESTROY;
  m.run(p, -1, seq, len, frontend, fin); c_model_runs++;
  execute(p, cfg, seq, len, fin, frontend, m, r); c_exec++;
  if (frontend) { c_frontend++; if (m.ret[0] != 1) c_frontend_initfail++; }
  c_balance_judged++;
  std::string canon, canon_red;
  judgeRun(p, optFail, seq, len, frontend, fin, r, m, JUDGE_ALL, fs, &snap, &canon_red);
  for (int i = 0; i < p.n; i++) {
    canon += char('a' + r.state_snap[i] * 4 + snap.oi[i] * 2 + snap.os[i]);
    // oracle memory that decides future O1 verdicts: lateness flags and the relative age of outstanding hooks
    int ri = 0, rs = 0;
    for (int y = 0; y < p.n; y++) { if (snap.oi[i] && snap.oi[y] && snap.iseq[y] < snap.iseq[i]) ri++; if (snap.os[i] && snap.os[y] && snap.sseq[y] < snap.sseq[i]) rs++; }
    canon += char('0' + ri); canon += char('0' + rs); canon += char('0' + (snap.oi[i] ? snap.lateC[i] : 0) * 2 + (snap.os[i] ? snap.lateT[i] : 0));
    // reference state, and the call counters that decide future hook results
    canon += char('0' + m.st_snap[i]);
    canon += char('0' + r.ni_snap[i] * 3 + r.ns_snap[i]);
    canon += char('0' + m.ni_snap[i] * 3 + m.ns_snap[i]);
    if (p.var == V_ADD_FROM_ONINIT) canon += char('0' + r.called_init[i] * 2 + (m.ni[i] > 0));   // has the module's deferred child been added
  }
  // history counters (capped): a rolled-back failure / a finished life cycle is a different state than "never tried"
  if (!frontend) {
    int fi = 0, fst = 0, cyc = 0, stp = 0;
    for (int i = 0; i < len; i++) {
      bool hooks = false, chook = false, thook = false;
      for (int j = 0; j < r.nlog_snap; j++) if (r.log[j].pass == i) { hooks = true; if (r.log[j].kind == HC) chook = true; if (r.log[j].kind == HT) thook = true; }
      if (seq[i] == OP_STOP && thook) stp++;
      if (seq[i] == OP_INIT && r.ret[i] == 0 && hooks) fi++;
      if (seq[i] == OP_START && r.ret[i] == 0 && hooks) fst++;
      if (seq[i] == OP_CLEANUP && chook) cyc++;
    }
    canon += '#'; canon += char('0' + std::min(fi, g_cap_fail)); canon += char('0' + std::min(fst, g_cap_fail)); canon += char('0' + std::min(cyc, g_cap_cycle)); canon += char('0' + std::min(stp, g_cap_stop));
  }
  canon += char('0' + r.anom);   // a wrongly accepted add() changes the tree
  canon += canon_red;
  record(p, seq, len, frontend, fin, r, fs);
  noteOutcome(p, r, !fs.empty()); notePaths(p, r);
  if (sigs_out) for (auto &f : fs) sigs_out->push_back(f.sig);
  if (g_samples < 4 && !g_in_xcheck && p.n >= 3 && (frontend || len >= 3) && r.nlog >= 6 && (c_trans % 7) == 3) { g_samples++; printf("@SAMPLE prog=%s seq=%s final=%s => hooklog=[%s]%s\n", progStr(p).c_str(), seqStr(seq, len, frontend).c_str(), frontend ? "destroy" : "cleanup+destroy", logStr(r.log, r.nlog).c_str(), fs.empty() ? "" : (" VIOL:" + fs[0].sig).c_str()); }
  // destroy without cleanup(): crash-freedom, O1/O2, reference, and balance of the modules below the root.
  // Skipped when by the reference every module is back in its initial state AND the first run agreed with the reference
  // (its final cleanup() and ~Module dispatched nothing): "delete root" alone would then repeat exactly that run.
  bool all_initial = fs.empty(); for (int i = 0; i < p.n; i++) if (m.st_snap[i] != 0) all_initial = false;
  if (!frontend && all_initial) c_destroy_only_same++;
  if (!frontend && !all_initial) {
    std::vector<Finding> fs2;
    m2.run(p, -1, seq, len, false, FIN_DESTROY); c_model_runs++;
    execute(p, cfg, seq, len, FIN_DESTROY, false, m2, r2); c_exec++;
    c_balance_judged_children++;
    judgeRun(p, optFail, seq, len, false, FIN_DESTROY, r2, m2, JUDGE_NONROOT, fs2, nullptr, nullptr);
    record(p, seq, len, false, FIN_DESTROY, r2, fs2);
    noteOutcome(p, r2, !fs2.empty());
    if (sigs_out) for (auto &f : fs2) sigs_out->push_back(f.sig);
  }
  return canon;
}

static double g_deadline; static bool g_capped = false;

static long c_fixpoint, c_maxdepth_new, c_pruned, c_add_mismatch, c_realfill, c_realfill_same;
static void exploreProgram(const Prog &p, int depth, bool xcheck, int xdepth) {
  // acceptance by add()/addAs() is decided by the reference (predictRefused), the real build must agree
  Probe *nodes[MAXN]; bool attached[MAXN]; g_anom = 0; g_attached = attached; g_cur_spec = progSpec(p);
  snprintf(hx::g_cur, 256, "crash while building :: replay %s /cd", g_cur_spec.c_str());
  int refused = buildTree(p, nodes, attached), expect = predictRefused(p);
  Json cfg = buildConfig(p), cfg_real;
  bool realfill = refused < 0 && p.var != V_ADD_FROM_ONINIT;   // (variant 4: the deferred children do not exist for fillDefaultConfig yet)
  if (realfill) nodes[0]->fillDefaultConfig(cfg_real);
  destroyTree(p, nodes, attached);
  if (refused != expect) {
    static Run none; none.nlog = 0; c_add_mismatch++;
    std::vector<Finding> fs;
    if (expect < 0) fs.push_back({"add-refused-a-child-the-tree-allows", "add()/addAs() of node " + std::to_string(refused) + " returned false; no sibling attached before it has its name"});
    else if (refused < 0) fs.push_back({"add-accepted-two-children-with-equal-names", "add()/addAs() of node " + std::to_string(expect) + " returned true although an earlier sibling has the same name"});
    else fs.push_back({"add-refused-the-wrong-child", "node " + std::to_string(refused) + " refused, reference: node " + std::to_string(expect)});
    record(p, nullptr, 0, false, FIN_CLEANUP_DESTROY, none, fs);
    return;
  }
  if (refused >= 0 || !treeValid(p)) { c_rejected++; return; }   // correctly refused (or, variant 4, a deferred child would be)
  // the frontend script gets the config the REAL fillDefaultConfig() writes (as Main does), everything else the one written from the tree
  if (realfill) { c_realfill++; if (cfg_real == cfg) c_realfill_same++; } else cfg_real = cfg;
  eraseSections(p, cfg); eraseSections(p, cfg_real);
  c_programs++; c_prog_var[p.var]++;
  // optional children whose subtree contains a module that fails (O5 reductions)
  std::vector<int> optFail;
  for (int f = 1; f < p.n; f++) if (!p.req[f]) {
    bool any = false; for (int x = f; x < p.n; x++) if (p.inSub(x, f) && p.fail[x] != M_OK) any = true;
    if (any) optFail.push_back(f);
  }
  std::set<std::string> seen; std::set<std::string> sigs_bfs;
  typedef std::vector<uint8_t> H;
  std::vector<H> layer(1), next;
  { std::vector<std::string> sg; seen.insert(evalHistory(p, cfg, optFail, nullptr, 0, false, &sg)); c_states++; c_trans++; for (auto &s : sg) sigs_bfs.insert(s); }
  for (int d = 0; d < depth && !layer.empty(); d++) {
    next.clear();
    for (auto &h : layer) for (uint8_t op = 0; op < 4; op++) {
      H c = h; c.push_back(op);
      std::vector<std::string> sg;
      std::string canon = evalHistory(p, cfg, optFail, c.data(), (int)c.size(), false, &sg); c_trans++;
      for (auto &s : sg) sigs_bfs.insert(s);
      if (seen.insert(canon).second) { c_states++; next.push_back(c); if (d + 1 > c_maxdepth_new) c_maxdepth_new = d + 1; }
    }
    layer.swap(next);
  }
  if (layer.empty()) c_fixpoint++;   // no unexplored state left: longer sequences cannot reach anything new
  { std::vector<std::string> sg; evalHistory(p, cfg_real, optFail, nullptr, 0, true, &sg); c_trans++; }
  // cross-check of the dedup: plain enumeration of ALL sequences reaches no other canonical state / signature
  if (xcheck) {
    c_xcheck_progs++; g_in_xcheck = true;
    uint8_t s[MAXSEQ]; long total = 1; for (int len = 1; len <= xdepth; len++) {
      total = 1; for (int i = 0; i < len; i++) total *= 4;
      for (long v = 0; v < total; v++) {
        long t = v; for (int i = 0; i < len; i++) { s[i] = (uint8_t)(t & 3); t >>= 2; }
        std::vector<std::string> sg;
        std::string canon = evalHistory(p, cfg, optFail, s, len, false, &sg); c_xcheck_seqs++;
        bool bad = !seen.count(canon); for (auto &x : sg) if (!sigs_bfs.count(x)) bad = true;
        if (bad) { g_sigcount["harness-dedup-unsound"]++; if (g_sigcount["harness-dedup-unsound"] <= 2) printf("@VIOL sig=harness-dedup-unsound :: prog=%s seq=%s canon=%s\n", progStr(p).c_str(), seqStr(s, len, false).c_str(), canon.c_str()); }
      }
    }
    g_in_xcheck = false;
  }
}

// enumerate ordered trees with n nodes as pre-order parent arrays
static void shapes(int n, std::vector<std::vector<int>> &out) {
  std::vector<int> par(n, -1);
  std::function<void(int)> rec = [&](int i) {
    if (i == n) { out.push_back(par); return; }
    // parent of i must be on the path root..(i-1)
    for (int a = i - 1; a >= 0; a = par[a]) { par[i] = a; rec(i + 1); }
  };
  if (n == 1) out.push_back(par); else rec(1);
}

static int replay(const char *ps, const char *qs) {
  Prog p; if (!parseSpec(ps, p)) { printf("bad program spec\n"); return 0; }
  uint8_t seq[MAXSEQ]; int len = 0; bool frontend = false; int fin = FIN_CLEANUP_DESTROY;
  const char *c = qs; if (*c == 'F') { frontend = true; c++; }
  while (*c >= '0' && *c <= '3' && len < MAXSEQ) seq[len++] = (uint8_t)(*c++ - '0');
  if (!strcmp(c, "/d") || frontend) fin = FIN_DESTROY;
  Probe *nodes[MAXN]; bool attached[MAXN]; g_attached = attached;
  int refused = buildTree(p, nodes, attached), expect = predictRefused(p);
  Json cfg = buildConfig(p), cfg_real;
  if (refused < 0 && p.var != V_ADD_FROM_ONINIT) nodes[0]->fillDefaultConfig(cfg_real); else cfg_real = cfg;
  destroyTree(p, nodes, attached);
  if (refused != expect) { printf("@VIOL add()/addAs(): first refused child %d, reference %d\n", refused, expect); return 0; }
  if (refused >= 0 || !treeValid(p)) { printf("program rejected by Module::add() (as the reference says)\n"); return 0; }
  if (frontend) cfg = cfg_real;
  eraseSections(p, cfg);
  std::vector<int> optFail;
  for (int f = 1; f < p.n; f++) if (!p.req[f]) { bool any = false; for (int x = f; x < p.n; x++) if (p.inSub(x, f) && p.fail[x] != M_OK) any = true; if (any) optFail.push_back(f); }
  static Run r; static Model m; m.run(p, -1, seq, len, frontend, fin); execute(p, cfg, seq, len, fin, frontend, m, r);
  std::vector<Finding> fs; judgeRun(p, optFail, seq, len, frontend, fin, r, m, fin == FIN_CLEANUP_DESTROY || frontend ? JUDGE_ALL : JUDGE_NONROOT, fs, nullptr, nullptr);
  printf("prog=%s\nconfig=%s\nseq=%s final=%s\nhooklog  =[%s]\nreference=[%s]\nreturns:", progStr(p).c_str(), cfg.dump().c_str(), seqStr(seq, len, frontend).c_str(), fin == FIN_DESTROY ? "destroy" : "cleanup+destroy", logStr(r.log, r.nlog).c_str(), logStr(m.log, m.nlog).c_str());
  for (int i = 0; i < r.nops; i++) printf(" %d", r.ret[i]); printf("   reference returns:"); for (int i = 0; i < m.nops; i++) printf(" %d", m.ret[i]); printf("\n");
  for (auto &f : fs) printf("@VIOL sig=%s :: %s\n", f.sig.c_str(), f.detail.c_str());
  if (fs.empty()) printf("no violation\n");
  return 0;
}

int main(int argc, char **argv) {
  setvbuf(stdout, nullptr, _IOLBF, 0);
  if (argc >= 4 && !strcmp(argv[1], "replay")) return replay(argv[2], argv[3]);
  int nmax = argc > 2 ? atoi(argv[2]) : 3, depth = argc > 3 ? atoi(argv[3]) : 4, k = argc > 4 ? atoi(argv[4]) : 0, K = argc > 5 ? atoi(argv[5]) : 1;
  int xn = argc > 6 ? atoi(argv[6]) : 0; int xdepth = argc > 7 ? atoi(argv[7]) : depth; if (xdepth > depth) xdepth = depth;
  if (argc > 8) g_cap_fail = atoi(argv[8]); if (argc > 9) g_cap_cycle = atoi(argv[9]);
  int maxdev = argc > 10 ? atoi(argv[10]) : 0; if (argc > 11) g_cap_stop = atoi(argv[11]);
  int nlo = argc > 12 ? atoi(argv[12]) : 1, nhi = argc > 13 ? atoi(argv[13]) : nmax; if (nhi > nmax) nhi = nmax;   // only trees with nlo..nhi nodes (the partition k/K is over those)
  if (nmax >= MAXN) nmax = MAXN - 1; if (depth > MAXSEQ) depth = MAXSEQ;
  hx::install_crash_reporter("C11-crash");
  g_deadline = hx::deadline_from_env(1200);
  long base = 0;
  for (int n = nlo; n <= nhi && !g_capped; n++) {
    std::vector<std::vector<int>> sh; shapes(n, sh);
    int nvar = n == 1 ? 1 : (n < nmax ? NVAR : 2);
    for (size_t si = 0; si < sh.size() && !g_capped; si++)
      for (int rq = 0; rq < (1 << (n - 1)) && !g_capped; rq++)
        for (int nm = 0; nm < (1 << n) && !g_capped; nm++) {
          Prog p; p.n = n;
          long combos = 1;
          for (int i = 0; i < n; i++) { p.par[i] = sh[si][i]; p.req[i] = i ? ((rq >> (i - 1)) & 1) : true; p.named[i] = (nm >> i) & 1; combos *= p.named[i] ? NFAIL : NFAIL - 1; }
          for (long fl = 0; fl < combos && !g_capped; fl++) {
            { long t = fl; int md[MAXN], dev = 0, x2 = 0, x1 = 0; bool dead = false;
              for (int i = 0; i < n; i++) { int r = p.named[i] ? NFAIL : NFAIL - 1; md[i] = (int)(t % r); t /= r; }
              for (int i = 0; i < n; i++) { dev += md[i] != M_OK; x2 += md[i] == M_INITX2 || md[i] == M_STARTX2; x1 += md[i] == M_INITX1 || md[i] == M_STARTX1; }
              if (maxdev > 0 && n == nmax && dev > maxdev) continue;
              // fails-on-the-second-call-only: at most one such module per tree, the others then ok or failing always (initx, startx, nocfg)
              if (x2 > 1 || (x2 == 1 && x1 > 0)) continue;
              // the modes of the descendants of a module that can never initialise (initx / nocfg) cannot matter: only "ok" is kept for them
              for (int i = 1; i < n && !dead; i++) if (md[i] != M_OK) for (int a = p.par[i]; a >= 0; a = p.par[a]) if (md[a] == M_INITX || md[a] == M_NOCFG) { dead = true; break; }
              if (dead) { if (k == 0) c_pruned++; continue; } }
            if (base++ % K != k) continue;
            if (g_viol_evals > 100000) { g_capped = true; printf("@CAP part %d/%d: stopped after %ld evaluations with a violation (programs=%ld)\n", k, K, g_viol_evals, c_programs); break; }
            if (hx::now_s() > g_deadline) { g_capped = true; printf("@CAP part %d/%d: deadline reached at n=%d shape=%zu/%zu req=%d names=%d modes=%ld (programs=%ld)\n", k, K, n, si, sh.size(), rq, nm, fl, c_programs); break; }
            long t = fl;
            for (int i = 0; i < n; i++) { int r = p.named[i] ? NFAIL : NFAIL - 1; p.fail[i] = (int)(t % r); t /= r; }
            bool x2prog = false; for (int i = 0; i < n; i++) if (p.fail[i] == M_INITX2 || p.fail[i] == M_STARTX2) x2prog = true;
            int nv = (x2prog && n == nmax && n > 1) ? 1 : nvar;   // second-call-only modes in the largest trees: attach variant 0 only
            for (int v = 0; v < nv; v++) { p.var = v; exploreProgram(p, depth, n <= xn, xdepth); }
          }
        }
  }
  for (auto &kv : g_best) for (auto &b : kv.second) printf("@VIOL sig=%s :: %s\n", kv.first.c_str(), b.text.c_str());
  for (auto &s : g_profiles) printf("@OUTCOME %s\n", s.c_str());
  for (auto &kv : g_sigcount) printf("@STAT evals_with:%s=%ld\n", kv.first.c_str(), kv.second);
  printf("@STAT states=%ld transitions=%ld executions=%ld programs=%ld programs_rejected_by_add=%ld programs_add_topdown=%ld programs_addAs_bottomup=%ld programs_add_defaultarg_bottomup=%ld programs_addAs_topdown=%ld programs_last_child_added_from_onInit=%ld programs_frontend_with_real_fillDefaultConfig=%ld real_fillDefaultConfig_equal_to_config_written_from_tree=%ld "
         "hooks_observed=%ld hooklogs_distinct_sum_over_partitions=%zu reference_model_runs=%ld optional_subtree_reductions=%ld balance_judged=%ld balance_judged_children_destroy_only=%ld frontend_scripts=%ld frontend_scripts_initialize_fails=%ld "
         "failing_hooks_of_required=%ld failing_hooks_of_optional=%ld evaluations_with_failing_hook=%ld evaluations_with_successful_retry_after_failure=%ld adds_expected_refused=%ld "
         "destroy_only_final_identical_to_cleanup_destroy_not_rerun=%ld evaluations_with_violation=%ld xcheck_programs=%ld xcheck_plain_sequences=%ld programs_bfs_fixpoint=%ld mode_assignments_pruned_below_never_initialising_module=%ld\n",
         c_states, c_trans, c_exec, c_programs, c_rejected, c_prog_var[0], c_prog_var[1], c_prog_var[2], c_prog_var[3], c_prog_var[4], c_realfill, c_realfill_same,
         c_hooks, g_loghashes.size(), c_model_runs, c_meta, c_balance_judged, c_balance_judged_children, c_frontend, c_frontend_initfail,
         c_pass_req_fail, c_pass_opt_fail, c_eval_with_failure_hook, c_retry_success, c_refused_adds, c_destroy_only_same, g_viol_evals, c_xcheck_progs, c_xcheck_seqs, c_fixpoint, c_pruned);
  if (k < 2) printf("@INFO part %d/%d: deepest history that reached a new canonical state has length %ld (depth bound %d); %ld of %ld programs reached the BFS fixpoint\n", k, K, c_maxdepth_new, depth, c_fixpoint, c_programs);
  fflush(stdout);
  return 0;
}
