// C11: main::Module tree lifecycle hooks are nested, ordered and balanced (engine H, in-process).
//
// PROGRAMS  every ordered tree with <= nmax nodes (node ids = pre-order index = registration order),
//           x required/optional flag per child x named("m<i>")/unnamed("") per node x {ok, init-fails,
//           start-fails} per node x config {filled by fillDefaultConfig, missing}. Programs that the real
//           Module::add() rejects (two unnamed siblings = "duplicate name") are counted and skipped.
// HISTORIES every sequence of root calls over {initialize,start,stop,cleanup} up to `depth`, explored
//           breadth-first per program with canonical-state dedup (state = state_ of every node + the
//           per-node oracle automaton, also of the reduced programs used by rule O5); every explored
//           history is finished twice on a fresh tree: "cleanup(); delete root" and "delete root" only.
//           Plus the conditional call order of run_in_frontend.cpp:158-169 / run_in_backend.cpp
//           (initialize; if ok {start; if ok {stop}; cleanup}; destroy) for every program.
// ORACLE    (hook log of the probe modules only; DESIGN.md 1.7: not more than the statement)
//   O1 within one root call ("pass") init hooks and start hooks appear in strictly increasing pre-order id
//      (parent before children, children in registration order, nested); stop / cleanup hooks are LIFO w.r.t.
//      the start / init hooks they undo (exact reverse): if X's hook ran before Y's, Y is stopped/cleaned first.
//   O2 per module: start hook only while a successful init hook is outstanding; stop hook only while a
//      successful start hook is outstanding; cleanup hook only when no start is outstanding (after stop)
//      and an init is outstanding; no second init/start hook while the previous one is outstanding.
//   O3 balance, judged only for histories that end with cleanup() then destruction (1.7): no module has an
//      outstanding successful init hook or start hook.
//   O4 no crash / sanitizer report on any history (incl. destroy without cleanup).
//   O6 no cleanup hook of a module while an ancestor still has a successful start hook outstanding (stop phase of the
//      tree completes before its cleanup phase begins: the exact reverse of "init all, start all").
//   O5 an OPTIONAL child whose subtree contains a failing module never changes the hooks of any module
//      outside that subtree: the hook log projected on the outside modules equals the log of the same
//      history on the program with that subtree removed (executed on the real code as well).
// argv: bfs <nmax> <depth> <k> <K> [xcheck_nmax [xcheck_depth]]   |   replay <P-spec> <Q-spec>
#include "hist/hist.h"
#include <tbox/base/json.hpp>
#include <tbox/main/module.h>
#include <cstdint>
#include <map>
#include <set>
#include <string>
#include <unordered_set>
#include <vector>
using namespace tbox;
using namespace tbox::main;

// ------------------------------------------------------------------------------------------------
// smallest possible Context: Module only stores the reference (module.cpp:30-32) and never uses it.
struct FakeCtx : Context {
  event::Loop *loop() const override { return nullptr; }
  eventx::ThreadPool *thread_pool() const override { return nullptr; }
  eventx::TimerPool *timer_pool() const override { return nullptr; }
  eventx::Async *async() const override { return nullptr; }
  terminal::TerminalNodes *terminal() const override { return nullptr; }
  coroutine::Scheduler *coroutine() const override { return nullptr; }
  std::chrono::milliseconds running_time() const override { return std::chrono::milliseconds(0); }
  std::chrono::system_clock::time_point start_time_point() const override { return std::chrono::system_clock::time_point(); }
};
static FakeCtx g_ctx;

enum { MAXN = 6, MAXSEQ = 8 };
enum { HI, HS, HT, HC };                       // hook kinds: init, start, stop, cleanup
enum { OP_INIT, OP_START, OP_STOP, OP_CLEANUP };
enum { FIN_CLEANUP_DESTROY, FIN_DESTROY };
static const char *kOpName[] = {"initialize", "start", "stop", "cleanup"};
static const char kHookCh[] = "ISTC";
static const char *kFailName[] = {"ok", "initx", "startx"};

struct Ev { uint8_t pass, kind, node, ok; };
static Ev g_log[512];
static int g_nlog;
static uint8_t g_pass;
static inline void logev(int kind, int node, bool ok) {
  if (g_nlog < 512) { g_log[g_nlog].pass = g_pass; g_log[g_nlog].kind = (uint8_t)kind; g_log[g_nlog].node = (uint8_t)node; g_log[g_nlog].ok = ok; }
  g_nlog++;
}

struct Probe : Module {
  int id, fail;   // fail: 0 ok, 1 init hook fails, 2 start hook fails
  Probe(int i, int f, const std::string &n) : Module(n, g_ctx), id(i), fail(f) {}
  bool onInit(const Json &) override { logev(HI, id, fail != 1); return fail != 1; }
  bool onStart() override { logev(HS, id, fail != 2); return fail != 2; }
  void onStop() override { logev(HT, id, true); }
  void onCleanup() override { logev(HC, id, true); }
};

struct Prog {
  int n; int par[MAXN]; bool req[MAXN]; bool named[MAXN]; int fail[MAXN]; bool cfg;
  bool inSub(int x, int top) const { while (x > top) x = par[x]; return x == top; }   // x in subtree(top)
};

static std::string progStr(const Prog &p, int skip = -1) {
  std::function<std::string(int)> rec = [&](int i) {
    std::string s = std::to_string(i) + "{";
    if (i) s += p.req[i] ? "R," : "O,";
    s += p.named[i] ? "n," : "u,"; s += kFailName[p.fail[i]]; s += "}";
    std::string c;
    for (int j = i + 1; j < p.n; j++) if (p.par[j] == i && !(skip >= 0 && p.inSub(j, skip))) { if (!c.empty()) c += ' '; c += rec(j); }
    if (!c.empty()) s += "(" + c + ")";
    return s; };
  return rec(0) + (p.cfg ? " cfg=filled" : " cfg=missing");
}
static std::string progSpec(const Prog &p) {   // machine form for `replay`
  std::string s = std::to_string(p.n) + ":";
  for (int i = 0; i < p.n; i++) s += char('0' + (i ? p.par[i] : 0)); s += ":";
  for (int i = 0; i < p.n; i++) s += char('0' + (i ? p.req[i] : 0)); s += ":";
  for (int i = 0; i < p.n; i++) s += char('0' + p.named[i]); s += ":";
  for (int i = 0; i < p.n; i++) s += char('0' + p.fail[i]); s += ":";
  s += char('0' + p.cfg);
  return s;
}
static bool parseSpec(const char *t, Prog &p) {
  int n = atoi(t); if (n < 1 || n >= MAXN) return false; p.n = n;
  const char *c = strchr(t, ':'); if (!c) return false; c++;
  auto rd = [&](int *dst) { for (int i = 0; i < n; i++) { if (*c < '0' || *c > '9') return false; dst[i] = *c++ - '0'; } if (*c == ':') c++; return true; };
  int a[MAXN], b[MAXN], d[MAXN], e[MAXN];
  if (!rd(a) || !rd(b) || !rd(d) || !rd(e)) return false;
  for (int i = 0; i < n; i++) { p.par[i] = i ? a[i] : -1; p.req[i] = b[i]; p.named[i] = d[i]; p.fail[i] = e[i]; }
  p.cfg = (*c != '0'); return true;
}

// build the real tree; nodes of subtree(skip) are left out. Returns nullptr when add() rejects a child.
static Probe *buildTree(const Prog &p, int skip, Probe **nodes) {
  bool ok = true;
  for (int i = 0; i < p.n; i++) {
    nodes[i] = nullptr;
    if (skip >= 0 && p.inSub(i, skip)) continue;
    nodes[i] = new Probe(i, p.fail[i], p.named[i] ? "m" + std::to_string(i) : std::string());
    if (i > 0) { if (!nodes[p.par[i]]->add(nodes[i], p.req[i])) { delete nodes[i]; nodes[i] = nullptr; ok = false; break; } }
  }
  if (!ok) { delete nodes[0]; return nullptr; }
  return nodes[0];
}

struct Run {
  Ev log[512]; int nlog; int nlog_snap;      // hooks; number of hooks before the final
  int npass;                                 // passes incl. final ones
  uint8_t state_snap[MAXN];                  // Module::state_ per node before the final (3 = absent)
  uint8_t ret[MAXSEQ + 4];                   // return values of initialize/start (1/0), 2 for void calls
};

// seq entries: OP_*; script frontend = -1 len
static void execute(const Prog &p, const Json &cfg, const uint8_t *seq, int len, int fin, int skip, bool frontend, Run &r) {
  Probe *nodes[MAXN];
  g_nlog = 0; g_pass = 0;
  Probe *root = buildTree(p, skip, nodes);
  bool explicit_cleanup = true;
  if (!frontend) {
    for (int i = 0; i < len; i++) {
      g_pass = (uint8_t)i;
      switch (seq[i]) {
        case OP_INIT: r.ret[i] = root->initialize(cfg); break;
        case OP_START: r.ret[i] = root->start(); break;
        case OP_STOP: root->stop(); r.ret[i] = 2; break;
        case OP_CLEANUP: root->cleanup(); r.ret[i] = 2; break;
      }
    }
    g_pass = (uint8_t)len;
  } else {
    // run_in_frontend.cpp:158-169 (ctx calls left out): the stop() comes from the signal callback (line 72)
    g_pass = 0; bool i_ok = root->initialize(cfg); r.ret[0] = i_ok; len = 1;
    if (i_ok) {
      g_pass = 1; bool s_ok = root->start(); r.ret[1] = s_ok; len = 2;
      if (s_ok) { g_pass = 2; root->stop(); r.ret[2] = 2; len = 3; }
      g_pass = (uint8_t)len; root->cleanup(); r.ret[len] = 2; len++;
    }
    g_pass = (uint8_t)len; fin = FIN_DESTROY;
  }
  r.nlog_snap = g_nlog;
  for (int i = 0; i < p.n; i++) r.state_snap[i] = nodes[i] ? (uint8_t)nodes[i]->state_ : 3;
  if (fin == FIN_CLEANUP_DESTROY) { root->cleanup(); g_pass++; }
  delete root;
  r.npass = g_pass + 1;
  r.nlog = g_nlog < 512 ? g_nlog : 512;
  memcpy(r.log, g_log, sizeof(Ev) * (size_t)r.nlog);
  (void)explicit_cleanup;
}

static std::string logStr(const Ev *log, int n) {
  std::string s; int pass = 0;
  for (int i = 0; i < n; i++) {
    while (pass < log[i].pass) { s += "| "; pass++; }
    s += kHookCh[log[i].kind]; s += char('0' + log[i].node); if (!log[i].ok) s += 'x'; s += ' ';
  }
  if (!s.empty() && s.back() == ' ') s.pop_back();
  return s;
}

// ------------------------------------------------------------------------------------------------
// oracle
struct Finding { std::string sig, detail; };

// why did `kind` (HI/HS) of node x in pass `ps` not lead to a completed initialize()/start() ?
static std::string cause(const Prog &p, const Ev *log, int nlog, int x, int kind, int ps, int skip) {
  const char *K = kind == HI ? "init" : "start";
  // per node: 0 = hook ok in the pass, 1 = hook failed, 2 = no hook in the pass
  int st[MAXN];
  for (int i = 0; i < p.n; i++) st[i] = 2;
  for (int i = 0; i < nlog; i++) if (log[i].pass == ps && log[i].kind == kind) st[log[i].node] = log[i].ok ? 0 : 1;
  auto present = [&](int i) { return !(skip >= 0 && p.inSub(i, skip)); };
  // fails(y): 0 no, 1 own hook failed, 2 no hook, 3 required descendant
  std::function<int(int)> fails = [&](int y) {
    if (st[y] == 1) return 1;
    if (st[y] == 2) return 2;
    for (int z = y + 1; z < p.n; z++) if (p.par[z] == y && present(z) && p.req[z] && fails(z)) return 3;
    return 0; };
  auto firstBadReqChild = [&](int y) { for (int z = y + 1; z < p.n; z++) if (p.par[z] == y && present(z) && p.req[z] && fails(z)) return z; return -1; };
  int z = firstBadReqChild(x);
  if (z >= 0) {
    int f = fails(z);
    if (f == 1) return std::string("when-required-child-") + K + "-fails";
    if (f == 2) return std::string("when-required-child-") + K + (kind == HI ? "-skipped-config-missing-or-stale-state" : "-skipped-child-not-in-inited-state");
    return std::string("when-required-descendant-") + K + "-fails";
  }
  for (int a = p.par[x]; a >= 0; a = p.par[a]) if (firstBadReqChild(a) >= 0) return std::string("orphaned-when-ancestor-") + (kind == HI ? "initialize" : "start") + "-aborted-by-required-child";
  return "other";
}

struct Auto { uint8_t oi[MAXN], os[MAXN]; int8_t ipass[MAXN], spass[MAXN]; uint8_t lateT[MAXN], lateC[MAXN]; int iseq[MAXN], sseq[MAXN]; };

static void oracle(const Prog &p, const Run &r, bool judge_balance, int skip, std::vector<Finding> &out, Auto *snap) {
  const Ev *log = r.log; int n = r.nlog;
  auto add = [&](const std::string &sig, const std::string &d) { for (auto &f : out) if (f.sig == sig) return; out.push_back({sig, d}); };
  auto at = [&](int i) { char b[64]; snprintf(b, sizeof b, "hook#%d=%c%d pass%d", i, kHookCh[log[i].kind], log[i].node, log[i].pass); return std::string(b); };
  // O1 + O2 in one walk (the context of an O1 finding needs the automaton)
  Auto a; memset(&a, 0, sizeof a);
  if (snap && r.nlog_snap == 0) *snap = a;
  int last[4] = {-1, -1, 1000, 1000}; int curpass = -1;
  uint8_t *lateT = a.lateT, *lateC = a.lateC; int *iseq = a.iseq, *sseq = a.sseq;
  for (int i = 0; i < n; i++) {
    int k = log[i].kind, x = log[i].node; bool ok = log[i].ok;
    if (log[i].pass != curpass) { curpass = log[i].pass; last[HI] = last[HS] = -1; last[HT] = last[HC] = 1000; }
    if (k == HI || k == HS) { if (x <= last[k]) add(k == HI ? "order-init-hooks-not-parent-first-registration-order" : "order-start-hooks-not-parent-first-registration-order", at(i)); }
    else {
      // exact reverse = LIFO between hooks that both occur: y's stop/cleanup hook is late when a module whose
      // start/init hook ran EARLIER than y's (and was outstanding together with it) has already been stopped/cleaned
      // (a plain "decreasing id per root call" would be too strong: two separate roll-backs inside one
      // initialize()/start() of a corrected implementation legitimately give e.g. I0 I1 I2x C1 I3 I4x C3 C0)
      uint8_t *lt = k == HT ? lateT : lateC;
      if (lt[x]) {
        std::string ctx = k == HT ? (a.os[x] ? cause(p, log, n, x, HS, a.spass[x], skip) : std::string("module-not-started"))
                                  : (a.oi[x] ? cause(p, log, n, x, HI, a.ipass[x], skip) : std::string("module-not-inited"));
        add(std::string(k == HT ? "order-stop-hooks-not-exact-reverse-" : "order-cleanup-hooks-not-exact-reverse-") + ctx, at(i));
      }
      lt[x] = 0;
      for (int y = 0; y < p.n; y++) {
        if (k == HT && a.os[x] && a.os[y] && sseq[y] > sseq[x]) lateT[y] = 1;
        if (k == HC && a.oi[x] && a.oi[y] && iseq[y] > iseq[x]) lateC[y] = 1;
      }
    }
    last[k] = x;
    switch (k) {
      case HI:
        if (a.oi[x]) add("init-hook-rerun-before-cleanup-" + cause(p, log, n, x, HI, a.ipass[x], skip), at(i));
        if (ok && !a.oi[x]) { a.oi[x] = 1; a.ipass[x] = (int8_t)log[i].pass; iseq[x] = i; lateC[x] = 0; }   // context = the first unmatched success
        break;
      case HS:
        if (!a.oi[x]) add("start-hook-without-successful-init", at(i));
        if (a.os[x]) add("start-hook-rerun-before-stop-" + cause(p, log, n, x, HS, a.spass[x], skip), at(i));
        if (ok && !a.os[x]) { a.os[x] = 1; a.spass[x] = (int8_t)log[i].pass; sseq[x] = i; lateT[x] = 0; }
        break;
      case HT:
        if (!a.os[x]) add("stop-hook-for-module-not-started", at(i));
        a.os[x] = 0;
        break;
      case HC:
        // O6 (nesting of the phases): the cleanup phase of a subtree begins only after the whole running phase has been
        // undone - a module is never cleaned up while an ancestor is still started (exact reverse of I* S* is T* C*)
        // (judged like balance only for histories that end with an explicit cleanup(): hooks cannot be dispatched from ~Module of a running root)
        if (judge_balance) for (int anc = p.par[x]; anc >= 0; anc = p.par[anc]) if (a.os[anc]) { add("cleanup-hook-while-an-ancestor-is-still-started", at(i)); break; }
        if (a.os[x]) add("cleanup-hook-before-stop-" + cause(p, log, n, x, HS, a.spass[x], skip), at(i));
        if (!a.oi[x]) add("cleanup-hook-without-successful-init", at(i));
        a.oi[x] = 0;
        break;
    }
    if (snap && i + 1 == r.nlog_snap) *snap = a;
  }
  // O3
  if (judge_balance) {
    for (int x = 0; x < p.n; x++) {
      if (a.oi[x]) add("unbalanced-init-" + cause(p, log, n, x, HI, a.ipass[x], skip), "module " + std::to_string(x) + ": init hook succeeded in pass" + std::to_string(a.ipass[x]) + ", no cleanup hook");
      if (a.os[x]) add("unbalanced-start-" + cause(p, log, n, x, HS, a.spass[x], skip), "module " + std::to_string(x) + ": start hook succeeded in pass" + std::to_string(a.spass[x]) + ", no stop hook");
    }
  }
}

// O5: compare projected log with the log of the reduced program
static void compareOutside(const Prog &p, int f, const Run &full, const Run &red, std::vector<Finding> &out) {
  Ev proj[512]; int m = 0;
  for (int i = 0; i < full.nlog; i++) if (!p.inSub(full.log[i].node, f)) proj[m++] = full.log[i];
  bool same = (m == red.nlog);
  for (int i = 0; same && i < m; i++) same = proj[i].pass == red.log[i].pass && proj[i].kind == red.log[i].kind && proj[i].node == red.log[i].node && proj[i].ok == red.log[i].ok;
  if (same) return;
  // classify: which outside module lost an init / start hook?
  int cf[4][MAXN] = {{0}}, cr[4][MAXN] = {{0}};
  for (int i = 0; i < m; i++) cf[proj[i].kind][proj[i].node]++;
  for (int i = 0; i < red.nlog; i++) cr[red.log[i].kind][red.log[i].node]++;
  std::string sig = "optional-failure-changes-hooks-outside-its-subtree";
  for (int k : {HI, HS}) for (int x = 0; x < p.n; x++) if (cf[k][x] < cr[k][x]) {
    const char *rel = p.inSub(f, x) ? "ancestor" : (p.par[x] == p.par[f] ? "sibling" : "other-module");
    sig = std::string("optional-failure-suppresses-") + (k == HI ? "init" : "start") + "-hook-of-" + rel; goto done;
  }
  for (int x = 0; x < p.n; x++) if (cf[HT][x] > cr[HT][x]) { sig = "optional-failure-stops-running-module"; break; }
done:
  for (auto &g : out) if (g.sig == sig) return;
  out.push_back({sig, "optional subtree " + std::to_string(f) + " removed => log=[" + logStr(red.log, red.nlog) + "] but with it outside-projection=[" + logStr(proj, m) + "]"});
}

// ------------------------------------------------------------------------------------------------
static std::map<std::string, long> g_sigcount;
struct Best { long key; std::string text; };
static std::map<std::string, std::vector<Best>> g_best;   // per signature: smallest cases
static long g_viol_evals = 0;

static std::string seqStr(const uint8_t *seq, int len, bool frontend) {
  if (frontend) return "FRONTEND(initialize;if-ok{start;if-ok{stop};cleanup})";
  std::string s; for (int i = 0; i < len; i++) { if (i) s += ','; s += kOpName[seq[i]]; } return s.empty() ? "<none>" : s;
}
static std::string seqSpec(const uint8_t *seq, int len, bool frontend, int fin) {
  std::string s = frontend ? "F" : ""; if (!frontend) for (int i = 0; i < len; i++) s += char('0' + seq[i]); s += fin == FIN_DESTROY ? "/d" : "/cd"; return s;
}
static void record(const Prog &p, const uint8_t *seq, int len, bool frontend, int fin, const Run &r, const std::vector<Finding> &fs) {
  if (fs.empty()) return;
  g_viol_evals++;
  for (auto &f : fs) {
    g_sigcount[f.sig]++;
    int odd = p.cfg ? 0 : 1; for (int i = 0; i < p.n; i++) odd += (p.fail[i] != 0) + p.named[i];
    long key = p.n * 1000000L + (frontend ? 5 : len) * 10000L + r.nlog * 100 + odd;
    auto &v = g_best[f.sig];
    if (v.size() >= 2 && key >= v.back().key) continue;
    std::string t = "n=" + std::to_string(p.n) + " prog=" + progStr(p) + " seq=" + seqStr(seq, len, frontend) + " final=" + (frontend ? "destroy" : fin == FIN_DESTROY ? "destroy-only" : "cleanup+destroy") +
                    " hooklog=[" + logStr(r.log, r.nlog) + "] :: " + f.detail + " :: replay " + progSpec(p) + " " + seqSpec(seq, len, frontend, fin);
    v.push_back({key, t});
    std::sort(v.begin(), v.end(), [](const Best &a, const Best &b) { return a.key < b.key; });
    if (v.size() > 2) v.pop_back();
  }
}

// counters
static long c_programs, c_rejected, c_states, c_trans, c_exec, c_hooks, c_meta, c_balance_judged, c_frontend, c_frontend_nocleanup_unbalanced;
static long c_pass_req_fail, c_pass_opt_fail, c_xcheck_seqs, c_xcheck_progs, c_eval_with_failure_hook;
static std::unordered_set<uint64_t> g_loghashes;
static std::set<std::string> g_profiles;
static int g_samples = 0;

static uint64_t hashLog(const Run &r) { uint64_t h = 1469598103934665603ULL; for (int i = 0; i < r.nlog; i++) { uint32_t v = r.log[i].pass | (r.log[i].kind << 8) | (r.log[i].node << 12) | (r.log[i].ok << 16); h = (h ^ v) * 1099511628211ULL; } return h; }

static void noteOutcome(const Prog &p, const Run &r, bool viol) {
  c_hooks += r.nlog;
  g_loghashes.insert(hashLog(r));
  int c[6] = {0}; bool failhook = false;
  for (int i = 0; i < r.nlog; i++) { int k = r.log[i].kind; if (k == HI) c[r.log[i].ok ? 0 : 1]++; else if (k == HS) c[r.log[i].ok ? 2 : 3]++; else if (k == HT) c[4]++; else c[5]++; if (!r.log[i].ok) failhook = true; }
  if (failhook) c_eval_with_failure_hook++;
  char b[96]; snprintf(b, sizeof b, "n=%d Iok=%d Ix=%d Sok=%d Sx=%d T=%d C=%d %s", p.n, c[0], c[1], c[2], c[3], c[4], c[5], viol ? "VIOL" : "ok");
  g_profiles.insert(b);
}

// statistics about failure paths really exercised (non-vacuity)
static void notePaths(const Prog &p, const Run &r) {
  for (int i = 0; i < r.nlog; i++) if (!r.log[i].ok && r.log[i].node > 0) { if (p.req[r.log[i].node]) c_pass_req_fail++; else c_pass_opt_fail++; }
}

static std::string g_cur_spec; static bool g_in_xcheck = false;

// evaluate one history of one program: both finals + O5 reductions; returns canonical state
static std::string evalHistory(const Prog &p, const Json &cfg, const std::vector<int> &optFail, const uint8_t *seq, int len, bool frontend, std::vector<std::string> *sigs_out = nullptr) {
  static Run r, r2, rr;
  std::vector<Finding> fs; Auto snap;
  { char *c = hx::g_cur; int m = snprintf(c, 256, "crash while evaluating :: replay %s %s", g_cur_spec.c_str(), frontend ? "F" : ""); for (int i = 0; i < len && !frontend; i++) c[m++] = char('0' + seq[i]); c[m] = 0; }
  execute(p, cfg, seq, len, FIN_CLEANUP_DESTROY, -1, frontend, r); c_exec++;
  bool judged = true;
  if (frontend) {
    c_frontend++;
    // 1.7: balance is judged only when the history ends with an explicit cleanup() before destruction
    judged = r.ret[0] == 1;
    if (!judged) { std::vector<Finding> tmp; oracle(p, r, true, -1, tmp, nullptr); for (auto &f : tmp) if (f.sig.compare(0, 10, "unbalanced") == 0) { c_frontend_nocleanup_unbalanced++; break; } }
  }
  if (judged) c_balance_judged++;
  oracle(p, r, judged, -1, fs, &snap);
  std::string canon;
  for (int i = 0; i < p.n; i++) {
    canon += char('a' + r.state_snap[i] * 4 + snap.oi[i] * 2 + snap.os[i]);
    // oracle memory that decides future O1 verdicts: lateness flags and the relative age of outstanding hooks
    int ri = 0, rs = 0;
    for (int y = 0; y < p.n; y++) { if (snap.oi[i] && snap.oi[y] && snap.iseq[y] < snap.iseq[i]) ri++; if (snap.os[i] && snap.os[y] && snap.sseq[y] < snap.sseq[i]) rs++; }
    canon += char('0' + ri); canon += char('0' + rs); canon += char('0' + (snap.oi[i] ? snap.lateC[i] : 0) * 2 + (snap.os[i] ? snap.lateT[i] : 0));
  }
  // O5
  for (int f : optFail) {
    execute(p, cfg, seq, len, FIN_CLEANUP_DESTROY, f, frontend, rr); c_exec++; c_meta++;
    compareOutside(p, f, r, rr, fs);
    canon += '/'; for (int i = 0; i < p.n; i++) canon += char('0' + rr.state_snap[i]);
  }
  record(p, seq, len, frontend, FIN_CLEANUP_DESTROY, r, fs);
  noteOutcome(p, r, !fs.empty()); notePaths(p, r);
  if (sigs_out) for (auto &f : fs) sigs_out->push_back(f.sig);
  if (g_samples < 4 && !g_in_xcheck && p.n >= 3 && (frontend || len >= 3) && r.nlog >= 6 && (c_trans % 7) == 3) { g_samples++; printf("@SAMPLE prog=%s seq=%s final=%s => hooklog=[%s]%s\n", progStr(p).c_str(), seqStr(seq, len, frontend).c_str(), frontend ? "destroy" : "cleanup+destroy", logStr(r.log, r.nlog).c_str(), fs.empty() ? "" : (" VIOL:" + fs[0].sig).c_str()); }
  if (!frontend) {
    // destroy without cleanup(): crash-freedom and O1/O2 only
    std::vector<Finding> fs2;
    execute(p, cfg, seq, len, FIN_DESTROY, -1, false, r2); c_exec++;
    oracle(p, r2, false, -1, fs2, nullptr);
    record(p, seq, len, false, FIN_DESTROY, r2, fs2);
    noteOutcome(p, r2, !fs2.empty());
    if (sigs_out) for (auto &f : fs2) sigs_out->push_back(f.sig);
  }
  return canon;
}

static double g_deadline; static bool g_capped = false;

static long c_fixpoint, c_maxdepth_new;
static void exploreProgram(const Prog &p, int depth, bool xcheck, int xdepth) {
  // acceptance by the real add(), config by the real fillDefaultConfig()
  Probe *nodes[MAXN]; Probe *root = buildTree(p, -1, nodes);
  if (!root) { c_rejected++; return; }
  Json cfg;
  if (p.cfg) root->fillDefaultConfig(cfg);
  delete root;
  c_programs++; g_cur_spec = progSpec(p);
  // optional children whose subtree contains a module that fails (O5 reductions)
  std::vector<int> optFail;
  for (int f = 1; f < p.n; f++) if (!p.req[f]) {
    bool any = false; for (int x = f; x < p.n; x++) if (p.inSub(x, f) && (p.fail[x] != 0 || (!p.cfg && p.named[x]))) any = true;
    if (any) optFail.push_back(f);
  }
  std::set<std::string> seen; std::set<std::string> sigs_bfs;
  typedef std::vector<uint8_t> H;
  std::vector<H> layer(1), next;
  { std::vector<std::string> sg; seen.insert(evalHistory(p, cfg, optFail, nullptr, 0, false, &sg)); c_states++; c_trans++; for (auto &s : sg) sigs_bfs.insert(s); }
  for (int d = 0; d < depth && !layer.empty(); d++) {
    next.clear();
    for (auto &h : layer) for (uint8_t op = 0; op < 4; op++) {
      H c = h; c.push_back(op);
      std::vector<std::string> sg;
      std::string canon = evalHistory(p, cfg, optFail, c.data(), (int)c.size(), false, &sg); c_trans++;
      for (auto &s : sg) sigs_bfs.insert(s);
      if (seen.insert(canon).second) { c_states++; next.push_back(c); if (d + 1 > c_maxdepth_new) c_maxdepth_new = d + 1; }
    }
    layer.swap(next);
  }
  if (layer.empty()) c_fixpoint++;   // no unexplored state left: longer sequences cannot reach anything new
  { std::vector<std::string> sg; evalHistory(p, cfg, optFail, nullptr, 0, true, &sg); c_trans++; }
  // cross-check of the dedup: plain enumeration of ALL sequences reaches no other canonical state / signature
  if (xcheck) {
    c_xcheck_progs++; g_in_xcheck = true;
    uint8_t s[MAXSEQ]; long total = 1; for (int len = 1; len <= xdepth; len++) {
      total = 1; for (int i = 0; i < len; i++) total *= 4;
      for (long v = 0; v < total; v++) {
        long t = v; for (int i = 0; i < len; i++) { s[i] = (uint8_t)(t & 3); t >>= 2; }
        std::vector<std::string> sg;
        std::string canon = evalHistory(p, cfg, optFail, s, len, false, &sg); c_xcheck_seqs++;
        bool bad = !seen.count(canon); for (auto &x : sg) if (!sigs_bfs.count(x)) bad = true;
        if (bad) { g_sigcount["harness-dedup-unsound"]++; if (g_sigcount["harness-dedup-unsound"] <= 2) printf("@VIOL sig=harness-dedup-unsound :: prog=%s seq=%s canon=%s\n", progStr(p).c_str(), seqStr(s, len, false).c_str(), canon.c_str()); }
      }
    }
    g_in_xcheck = false;
  }
}

// enumerate ordered trees with n nodes as pre-order parent arrays
static void shapes(int n, std::vector<std::vector<int>> &out) {
  std::vector<int> par(n, -1);
  std::function<void(int)> rec = [&](int i) {
    if (i == n) { out.push_back(par); return; }
    // parent of i must be on the path root..(i-1)
    for (int a = i - 1; a >= 0; a = par[a]) { par[i] = a; rec(i + 1); }
  };
  if (n == 1) out.push_back(par); else rec(1);
}

static int replay(const char *ps, const char *qs) {
  Prog p; if (!parseSpec(ps, p)) { printf("bad program spec\n"); return 0; }
  uint8_t seq[MAXSEQ]; int len = 0; bool frontend = false; int fin = FIN_CLEANUP_DESTROY;
  const char *c = qs; if (*c == 'F') { frontend = true; c++; }
  while (*c >= '0' && *c <= '3' && len < MAXSEQ) seq[len++] = (uint8_t)(*c++ - '0');
  if (!strcmp(c, "/d")) fin = FIN_DESTROY;
  Probe *nodes[MAXN]; Probe *root = buildTree(p, -1, nodes);
  if (!root) { printf("program rejected by Module::add()\n"); return 0; }
  Json cfg; if (p.cfg) root->fillDefaultConfig(cfg); delete root;
  static Run r; execute(p, cfg, seq, len, fin, -1, frontend, r);
  std::vector<Finding> fs; oracle(p, r, fin == FIN_CLEANUP_DESTROY && (!frontend || r.ret[0] == 1), -1, fs, nullptr);
  for (int f = 1; f < p.n; f++) if (!p.req[f]) { static Run rr; execute(p, cfg, seq, len, fin, f, frontend, rr); compareOutside(p, f, r, rr, fs); }
  printf("prog=%s\nconfig=%s\nseq=%s final=%s\nhooklog=[%s]\nreturns:", progStr(p).c_str(), cfg.dump().c_str(), seqStr(seq, len, frontend).c_str(), fin == FIN_DESTROY || frontend ? "destroy" : "cleanup+destroy", logStr(r.log, r.nlog).c_str());
  for (int i = 0; i < (frontend ? 4 : len); i++) printf(" %d", r.ret[i]); printf("\n");
  for (auto &f : fs) printf("@VIOL sig=%s :: %s\n", f.sig.c_str(), f.detail.c_str());
  if (fs.empty()) printf("no violation\n");
  return 0;
}

int main(int argc, char **argv) {
  setvbuf(stdout, nullptr, _IOLBF, 0);
  if (argc >= 4 && !strcmp(argv[1], "replay")) return replay(argv[2], argv[3]);
  int nmax = argc > 2 ? atoi(argv[2]) : 3, depth = argc > 3 ? atoi(argv[3]) : 4, k = argc > 4 ? atoi(argv[4]) : 0, K = argc > 5 ? atoi(argv[5]) : 1;
  int xn = argc > 6 ? atoi(argv[6]) : 0; int xdepth = argc > 7 ? atoi(argv[7]) : depth; if (xdepth > depth) xdepth = depth;
  if (nmax >= MAXN) nmax = MAXN - 1; if (depth > MAXSEQ) depth = MAXSEQ;
  hx::install_crash_reporter("C11-crash");
  g_deadline = hx::deadline_from_env(1200);
  long base = 0;
  for (int n = 1; n <= nmax && !g_capped; n++) {
    std::vector<std::vector<int>> sh; shapes(n, sh);
    long pow3 = 1; for (int i = 0; i < n; i++) pow3 *= 3;
    for (size_t si = 0; si < sh.size() && !g_capped; si++)
      for (int rq = 0; rq < (1 << (n - 1)) && !g_capped; rq++)
        for (long fl = 0; fl < pow3 && !g_capped; fl++, base++) {
          if (base % K != k) continue;
          if (hx::now_s() > g_deadline) { g_capped = true; printf("@CAP part %d/%d: deadline reached at n=%d shape=%zu/%zu req=%d fails=%ld (programs=%ld)\n", k, K, n, si, sh.size(), rq, fl, c_programs); break; }
          Prog p; p.n = n;
          long t = fl;
          for (int i = 0; i < n; i++) { p.par[i] = sh[si][i]; p.req[i] = i ? ((rq >> (i - 1)) & 1) : true; p.fail[i] = (int)(t % 3); t /= 3; }
          for (int nm = 0; nm < (1 << n); nm++) {
            for (int i = 0; i < n; i++) p.named[i] = (nm >> i) & 1;
            for (int cf = 1; cf >= 0; cf--) {
              if (!cf && nm == 0) continue;   // config only matters for named modules
              p.cfg = cf;
              exploreProgram(p, depth, n <= xn, xdepth);
            }
          }
        }
  }
  for (auto &kv : g_best) for (auto &b : kv.second) printf("@VIOL sig=%s :: %s\n", kv.first.c_str(), b.text.c_str());
  for (auto &s : g_profiles) printf("@OUTCOME %s\n", s.c_str());
  for (auto &kv : g_sigcount) printf("@STAT evals_with:%s=%ld\n", kv.first.c_str(), kv.second);
  printf("@STAT states=%ld transitions=%ld executions=%ld programs=%ld programs_rejected_by_add=%ld hooks_observed=%ld hooklogs_distinct_sum_over_partitions=%zu "
         "optional_subtree_reductions=%ld balance_judged=%ld frontend_scripts=%ld frontend_initfail_nocleanup_unbalanced_info=%ld failing_hooks_of_required=%ld failing_hooks_of_optional=%ld "
         "evaluations_with_failing_hook=%ld evaluations_with_violation=%ld xcheck_programs=%ld xcheck_plain_sequences=%ld programs_bfs_fixpoint=%ld\n",
         c_states, c_trans, c_exec, c_programs, c_rejected, c_hooks, g_loghashes.size(), c_meta, c_balance_judged, c_frontend, c_frontend_nocleanup_unbalanced,
         c_pass_req_fail, c_pass_opt_fail, c_eval_with_failure_hook, g_viol_evals, c_xcheck_progs, c_xcheck_seqs, c_fixpoint);
  if (k < 2) printf("@INFO part %d/%d: deepest history that reached a new canonical state has length %ld (depth bound %d); %ld of %ld programs reached the BFS fixpoint\n", k, K, c_maxdepth_new, depth, c_fixpoint, c_programs);
  fflush(stdout);
  return 0;
}
