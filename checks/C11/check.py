import re, time, vf
PID = "C11"


def _key(v):
    m = re.match(r"n=(\d+) .* seq=(\S+) .* hooklog=\[([^\]]*)\]", v[1])
    if not m:
        return (v[0], 99, 99, 99, 99)
    seq = m.group(2)
    odd = v[1].count("x}") + v[1].count("n,") + v[1].count("cfg=missing")
    return (v[0], int(m.group(1)), 5 if seq.startswith("FRONTEND") else (0 if seq == "<none>" else seq.count(",") + 1), len(m.group(3)), odd)


def main(tier, args):
    t0 = time.time()
    exe = vf.build("C11/module", [vf.VERIF + "/checks/C11/harness.cpp"],
                   vf.module_sources("main/module.cpp", "util/variables.cpp"), mode="asan",
                   plain_srcs=[vf.VERIF + "/engine/sched/log_stub.cpp"])
    # nmax nodes, depth of root-call sequences, cross-check (plain enumeration of all sequences) up to xn nodes
    nmax, depth, xn, xd, dl, parts = (4, 4, 3, 4, 45, 16) if tier == "quick" else (5, 8, 3, 6, 1200, 64)
    res = vf.Result()
    log = open(vf.BUILD + "/C11/log.txt", "w")
    cmds = [("part%02d" % k, [exe, "bfs", str(nmax), str(depth), str(k), str(parts), str(xn), str(xd)]) for k in range(parts)]
    if args.only:
        cmds = [c for c in cmds if c[0] == args.only]
    vf.run_procs(res, cmds, env={"VERIF_DEADLINE_S": str(dl)}, log=log)
    # smallest reproducer of every signature first (replay files and the printed "first:" case)
    res.viols.sort(key=_key)
    keep, cnt = [], {}
    for v in res.viols:
        cnt[v[0]] = cnt.get(v[0], 0) + 1
        if cnt[v[0]] <= 6:
            keep.append(v)
    res.viols = keep
    vf.finish(PID, tier, res, t0,
              rule="every ordered module tree with <=%d nodes x required/optional per child x named/unnamed per node x "
                   "{ok,init-fails,start-fails} per node x config {filled,missing} (programs rejected by the real add() skipped), "
                   "per program BFS over all root call sequences over {initialize,start,stop,cleanup} of length<=%d with canonical-state "
                   "dedup (state_ of every node + per-node hook automaton, also of the optional-subtree-removed programs), every history "
                   "finished by cleanup()+delete and by delete only, plus the run_in_frontend/run_in_backend call order; dedup "
                   "cross-checked by plain enumeration of all sequences of length<=%d for trees <=%d nodes; oracle on the probe hook log: pre-order "
                   "init/start per root call, stop/cleanup LIFO w.r.t. the start/init hooks they undo (exact reverse), per-module hook automaton, balance after cleanup+destroy, "
                   "optional failing subtree leaves outside hooks identical to the program without it; ASan/UBSan" % (nmax, depth, xd, xn),
              assumptions=["a module's hook result is fixed per program (ok / init hook fails / start hook fails), not per call",
                           "balance is judged only for histories ending with an explicit cleanup() before destruction (DESIGN 1.7); "
                           "the frontend order with failing initialize() (no cleanup() call) is judged for ordering only",
                           "Context is a fake whose accessors return nullptr: Module never dereferences it (module.cpp:30-32)",
                           "hooks_distinct counter is summed over process partitions (upper bound of globally distinct hook logs)"])
