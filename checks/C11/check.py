import re, time, vf
PID = "C11"


def _key(v):
    m = re.match(r"n=(\d+) .* seq=(\S+) .* hooklog=\[([^\]]*)\]", v[1])
    if not m:
        return (v[0], 99, 99, 99, 99)
    seq = m.group(2)
    odd = v[1].count("x}") + v[1].count("x1}") + 2 * v[1].count("x2}") + v[1].count("nocfg}") + v[1].count("n,") + (0 if "attach=add(child,required)/top-down" in v[1] else 1)
    return (v[0], int(m.group(1)), 5 if seq.startswith("FRONTEND") else (0 if seq == "<none>" else seq.count(",") + 1), len(m.group(3)), odd)


# ---- the call order of the real Main() / Start() / Stop() that the harness script "FRONTEND" reproduces -------------------
# (run_in_frontend.cpp / run_in_backend.cpp are not linked into the harness: they need the whole event/terminal/log stack and
# real time. Instead the lines that touch `apps`, the surrounding control flow and the life time of the backend Runtime are
# extracted and must be exactly the ones the script was written from; any difference = the script is stale = a finding.)
_PAT = re.compile(r"apps\.|ctx\.(initialize|start|stop|cleanup)\(|\belse\b|\breturn\b|End\(\)|thread|RunIn(Front|Back)end\(|runLoop|exitLoop|CHECK_DELETE_RESET_OBJ\(_runtime\)|new Runtime")
_PRE = re.compile(r"apps\.|new Runtime")
_FRONT = ("run_in_frontend.cpp", [r"^void RunInFrontend\(", r"^int Main\("], [
    '## ^void RunInFrontend\\(', 'apps.stop();', 'ctx.stop();', 'ctx.loop()->exitLoop(std::chrono::seconds(exit_wait_sec));', 'ctx.loop()->runLoop();',
    '## ^int Main\\(', 'apps.fillDefaultConfig(js_conf);', 'if (ctx.initialize(argv[0], js_conf, &apps)) {', 'if (apps.initialize(js_conf)) {',
    'if (ctx.start() && apps.start()) {', 'RunInFrontend(ctx, apps, exit_wait_sec);', '} else {', 'apps.cleanup();', '} else {', 'ctx.cleanup();', '} else {', 'return 0;'])
_BACK = ("run_in_backend.cpp", [r"^void RunInBackend\(", r"^void End\(", r"^bool Start\(", r"^void Stop\("], [
    '## ^void RunInBackend\\(', 'loop->runLoop();', '## ^void End\\(', 'CHECK_DELETE_RESET_OBJ(_runtime);',
    '## ^bool Start\\(', '_runtime = new Runtime;', 'apps.fillDefaultConfig(js_conf);', 'if (ctx.initialize(argv[0], js_conf, &apps)) {', 'if (apps.initialize(js_conf)) {',
    'if (ctx.start()) {', 'if (apps.start()) {', '_runtime->thread = std::thread(RunInBackend);', 'return true;', '} else {', 'ctx.stop();', '} else {', 'apps.cleanup();',
    '} else {', 'ctx.cleanup();', '} else {', 'End();', 'return false;',
    '## ^void Stop\\(', 'return;', '_runtime->apps.stop();', '_runtime->ctx.stop();', '_runtime->ctx.loop()->exitLoop(std::chrono::seconds(_runtime->exit_wait_sec));',
    '_runtime->thread.join();', '_runtime->apps.cleanup();', '_runtime->ctx.cleanup();', 'End();'])


def _func_body(text, head):
    m = re.search(head, text, re.M)
    if not m:
        return None
    i = text.index("{", m.end()); d = 0; j = i
    while j < len(text):
        if text[j] == "{":
            d += 1
        elif text[j] == "}":
            d -= 1
            if d == 0:
                break
        j += 1
    return text[i:j + 1]


def _transcript(path, heads):
    text = open(path, encoding="utf-8", errors="replace").read()
    out = []
    for h in heads:
        b = _func_body(text, h)
        out.append("## " + h)
        if b is None:
            out.append("<function not found>"); continue
        seen = "ctx.initialize(" not in b
        for l in b.splitlines():
            l = re.sub(r"//.*", "", l).strip()
            if "ctx.initialize(" in l:
                seen = True
            if l and (_PAT if seen else _PRE).search(l):
                out.append(re.sub(r"\s+", " ", l))
    return out


def _check_scripts(res):
    n = 0
    for fn, heads, want in (_FRONT, _BACK):
        got = _transcript(vf.REPO + "/modules/main/" + fn, heads); n += len(got)
        if got != want:
            k = 0
            while k < len(got) and k < len(want) and got[k] == want[k]:
                k += 1
            res.viols.append(("frontend-script-stale-" + fn.replace(".cpp", "").replace("_", "-"),
                              "n=0 prog=- seq=- hooklog=[] :: the apps call order of %s differs from the one the harness script reproduces at extracted line %d: expected %r, found %r"
                              % (fn, k, want[k] if k < len(want) else "<end>", got[k] if k < len(got) else "<end>"), "scripts"))
    res.stats["main_call_order_lines_compared"] = n


def main(tier, args):
    t0 = time.time()
    # Two builds of the same sources. (1) module.cpp/variables.cpp with ASan+UBSan: runs every tree with < nmax nodes (all attach
    # variants) - a double delete / use-after-free / overflow in Module code needs no more nodes than that. (2) plain -O1: runs the
    # trees with exactly nmax nodes (95% of the work, 3x faster; a crash is still a violation). The harness TU itself (model, oracle,
    # enumeration) is never instrumented: malloc/free are intercepted process-wide in build (1).
    hf = ["-fno-sanitize=all", "-O2", "-faccess-control"]   # public API + Probe's own fields only
    srcs = vf.module_sources("main/module.cpp", "util/variables.cpp")
    exe = vf.build("C11/module", [vf.VERIF + "/checks/C11/harness.cpp"], srcs, mode="asan", harness_flags=hf,
                   plain_srcs=[vf.VERIF + "/engine/sched/log_stub.cpp"])
    exe_plain = vf.build("C11/module_plain", [vf.VERIF + "/checks/C11/harness.cpp"], srcs, mode="plain", harness_flags=hf,
                         plain_srcs=[vf.VERIF + "/engine/sched/log_stub.cpp"])
    # nmax nodes, depth of root-call sequences, cross-check (plain enumeration of all sequences) up to xn nodes / xd calls,
    # caps of the history counters in the state key, max number of non-ok modules in trees with exactly nmax nodes (0 = no limit)
    # caps of the history counters in the state key (failed passes, cleanup passes, stop passes)
    nmax, depth, xn, xd, capf, capc, caps, maxdev, dl, parts = (4, 14, 3, 3, 2, 1, 1, 0, 300, 16) if tier == "quick" else (5, 14, 3, 5, 3, 2, 2, 3, 900, 64)
    res = vf.Result()
    log = open(vf.BUILD + "/C11/log.txt", "w")
    common = [str(xn), str(xd), str(capf), str(capc), str(maxdev), str(caps)]
    small = 2 if tier == "quick" else 16
    cmds = [("part%02d" % k, [exe_plain, "bfs", str(nmax), str(depth), str(k), str(parts)] + common + [str(nmax), str(nmax)]) for k in range(parts)]
    cmds += [("asan%02d" % k, [exe, "bfs", str(nmax), str(depth), str(k), str(small)] + common + ["1", str(nmax - 1)]) for k in range(small)]
    if args.only:
        cmds = [c for c in cmds if c[0] == args.only]
    vf.run_procs(res, cmds, env={"VERIF_DEADLINE_S": str(dl)}, log=log)
    _check_scripts(res)
    # smallest reproducer of every signature first (replay files and the printed "first:" case)
    res.viols.sort(key=_key)
    keep, cnt = [], {}
    for v in res.viols:
        cnt[v[0]] = cnt.get(v[0], 0) + 1
        if cnt[v[0]] <= 6:
            keep.append(v)
    res.viols = keep
    vf.finish(PID, tier, res, t0,
              rule="every ordered module tree with <=%d nodes x required/optional per child x named/unnamed per node x hook-result mode per node "
                   "{ok, init hook fails always, start hook fails always, init hook fails on its first call only, start hook fails on its first call only, "
                   "init / start hook fails on its SECOND call only (at most one such module per tree, the others then ok or failing always; in the largest trees with the first attach variant only), "
                   "own config section missing (named nodes)}%s x attach variant {add(child,required) top-down; addAs(child,name[,false]) of probes constructed under the final name of "
                   "the previous sibling (first children share one temporary name), with the default-argument overload for required children, sub-trees attached bottom-up; for trees <%d nodes also add(child[,false]) "
                   "bottom-up, addAs top-down, and the last child of every module added from that module's first onInit()} (modes below a module that can never initialise fixed to ok; "
                   "whether add()/addAs() accepts a child is predicted from the tree - refused iff an earlier sibling has the same final name - and the real answer must agree, "
                   "correctly refused programs are skipped; after every build a re-add of an attached child and a "
                   "second module with a sibling's name must be refused, after every root call that leaves the root initialised an add() on it must be refused); "
                   "per program BFS over all root call sequences over {initialize,start,stop,cleanup} of length<=%d with canonical-state "
                   "dedup (state() of every node + per-node hook automaton + reference-model state + first-call counters + counters of failed initialize passes "
                   "(cap %d), failed start passes (cap %d), completed cleanup passes (cap %d), stop passes (cap %d), so a rolled-back failure and a finished life cycle are states of their own), "
                   "every history finished by cleanup()+delete and (unless every module is back in its initial state and the first run matched the reference) by delete only, "
                   "plus the run_in_frontend/run_in_backend call order run with the config the REAL fillDefaultConfig() writes (the extracted apps call order of "
                   "Main()/RunInFrontend()/Start()/Stop()/End() must equal the transcript the script was written from); dedup cross-checked by plain enumeration of all sequences of length<=%d for trees <=%d nodes; "
                   "oracle on the probe hook log: exact equality of hook log and initialize()/start() return values with a recursive reference model of the statement "
                   "(per-module state, required/optional, reverse-order roll-back inside the failing call), pre-order init/start per root call, stop/cleanup LIFO w.r.t. "
                   "the start/init hooks they undo (exact reverse), per-module hook automaton, no cleanup hook under a started ancestor, balance after cleanup+destroy "
                   "and after the frontend script (also on its initialize-failed path without cleanup()), balance of all non-root modules after destroy without cleanup, "
                   "optional failing subtree leaves outside hooks identical to the reference of the program without it; trees with fewer than %d nodes run on an ASan/UBSan build "
                   "of the Module code, trees with exactly %d nodes on a plain -O1 build (crash = violation)"
                   % (nmax, (" (at most %d non-ok modules in trees with exactly %d nodes)" % (maxdev, nmax)) if maxdev else "", nmax, depth, capf, capf, capc, caps, xd, xn, nmax, nmax),
              assumptions=["a hook's result depends only on the module's mode and on whether it is that hook's first call on the module "
                           "(fails always / on the first call only / on the second call only); second-call-only modes are not combined with first-call-only modes or with each other",
                           "BFS histories use a config written by the harness from the tree (one nested section per named module); the frontend script uses the one "
                           "written by the real fillDefaultConfig() (counter real_fillDefaultConfig_equal_... shows they coincide); a missing section is modelled per node",
                           "run_in_frontend.cpp / run_in_backend.cpp are not executed: their apps call order is compared textually with the transcript the script reproduces",
                           "a child added from onInit gets its config section from the harness-written config (it does not exist when fillDefaultConfig() runs)",
                           "balance of the ROOT module is not judged when the tree is destroyed while initialised/running without cleanup() "
                           "(~Module cannot dispatch the hooks of the object being destroyed, DESIGN 1.7); its descendants are judged",
                           "the reference model performs the roll-back of a failed required child inside the failing initialize()/start() call, "
                           "which is what the frontend flow (no cleanup() after a failed initialize()) needs for balance",
                           "Context is a fake whose accessors return nullptr: Module never dereferences it (module.cpp:30-32)",
                           "sanitizers (module.cpp, variables.cpp instrumented; harness TU not) only for trees smaller than the largest size; the largest trees run uninstrumented",
                           "hooks_distinct counter is summed over process partitions (upper bound of globally distinct hook logs)"])
