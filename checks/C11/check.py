import re, time, vf
PID = "C11"


def _key(v):
    m = re.match(r"n=(\d+) .* seq=(\S+) .* hooklog=\[([^\]]*)\]", v[1])
    if not m:
        return (v[0], 99, 99, 99, 99)
    seq = m.group(2)
    odd = v[1].count("x}") + v[1].count("x1}") + v[1].count("nocfg}") + v[1].count("n,") + (0 if "attach=add(child,required)/top-down" in v[1] else 1)
    return (v[0], int(m.group(1)), 5 if seq.startswith("FRONTEND") else (0 if seq == "<none>" else seq.count(",") + 1), len(m.group(3)), odd)


def main(tier, args):
    t0 = time.time()
    # the repo sources under test are built with ASan+UBSan; the harness TU itself (model, oracle, enumeration) is not
    # instrumented (half the run time) - malloc/free are intercepted process-wide, so a double delete or a use-after-free
    # inside Module code is still reported
    exe = vf.build("C11/module", [vf.VERIF + "/checks/C11/harness.cpp"],
                   vf.module_sources("main/module.cpp", "util/variables.cpp"), mode="asan",
                   harness_flags=["-fno-sanitize=all", "-O2"],
                   plain_srcs=[vf.VERIF + "/engine/sched/log_stub.cpp"])
    # nmax nodes, depth of root-call sequences, cross-check (plain enumeration of all sequences) up to xn nodes / xd calls,
    # caps of the history counters in the state key, max number of non-ok modules in trees with exactly nmax nodes (0 = no limit)
    nmax, depth, xn, xd, capf, capc, maxdev, dl, parts = (4, 12, 3, 3, 2, 1, 0, 240, 16) if tier == "quick" else (5, 12, 3, 5, 3, 2, 3, 600, 64)
    res = vf.Result()
    log = open(vf.BUILD + "/C11/log.txt", "w")
    cmds = [("part%02d" % k, [exe, "bfs", str(nmax), str(depth), str(k), str(parts), str(xn), str(xd), str(capf), str(capc), str(maxdev)]) for k in range(parts)]
    if args.only:
        cmds = [c for c in cmds if c[0] == args.only]
    vf.run_procs(res, cmds, env={"VERIF_DEADLINE_S": str(dl)}, log=log)
    # smallest reproducer of every signature first (replay files and the printed "first:" case)
    res.viols.sort(key=_key)
    keep, cnt = [], {}
    for v in res.viols:
        cnt[v[0]] = cnt.get(v[0], 0) + 1
        if cnt[v[0]] <= 6:
            keep.append(v)
    res.viols = keep
    vf.finish(PID, tier, res, t0,
              rule="every ordered module tree with <=%d nodes x required/optional per child x named/unnamed per node x hook-result mode per node "
                   "{ok, init hook fails always, start hook fails always, init hook fails on its first call only, start hook fails on its first call only, "
                   "own config section missing (named nodes)}%s x attach variant {add(child,required) top-down; addAs(child,name[,false]) from a temporary "
                   "name with the default-argument overload for required children, sub-trees attached bottom-up; for trees <%d nodes also add(child[,false]) "
                   "bottom-up and addAs top-down} (modes below a module that can never initialise fixed to ok; programs rejected by the real add() skipped; after every build a re-add of an attached child and a "
                   "second module with a sibling's name must be refused, after every root call that leaves the root initialised an add() on it must be refused); "
                   "per program BFS over all root call sequences over {initialize,start,stop,cleanup} of length<=%d with canonical-state "
                   "dedup (state_ of every node + per-node hook automaton + reference-model state + first-call counters + counters of failed initialize passes "
                   "(cap %d), failed start passes (cap %d), completed cleanup passes (cap %d), so a rolled-back failure and a finished life cycle are states of their own), "
                   "every history finished by cleanup()+delete and (unless every module is back in its initial state and the first run matched the reference) by delete only, "
                   "plus the run_in_frontend/run_in_backend call order; dedup cross-checked by plain enumeration of all sequences of length<=%d for trees <=%d nodes; "
                   "oracle on the probe hook log: exact equality of hook log and initialize()/start() return values with a recursive reference model of the statement "
                   "(per-module state, required/optional, reverse-order roll-back inside the failing call), pre-order init/start per root call, stop/cleanup LIFO w.r.t. "
                   "the start/init hooks they undo (exact reverse), per-module hook automaton, no cleanup hook under a started ancestor, balance after cleanup+destroy "
                   "and after the frontend script (also on its initialize-failed path without cleanup()), balance of all non-root modules after destroy without cleanup, "
                   "optional failing subtree leaves outside hooks identical to the reference of the program without it; ASan/UBSan on the Module code"
                   % (nmax, (" (at most %d non-ok modules in trees with exactly %d nodes)" % (maxdev, nmax)) if maxdev else "", nmax, depth, capf, capf, capc, xd, xn),
              assumptions=["a hook's result depends only on the module's mode and on whether it is that hook's first call on the module "
                           "(fails always / fails the first time only); modes that fail on a later call only are not explored",
                           "the config is written by the harness from the tree (one nested section per named module, as fillDefaultConfig() produces it), "
                           "a missing section is modelled per node",
                           "balance of the ROOT module is not judged when the tree is destroyed while initialised/running without cleanup() "
                           "(~Module cannot dispatch the hooks of the object being destroyed, DESIGN 1.7); its descendants are judged",
                           "the reference model performs the roll-back of a failed required child inside the failing initialize()/start() call, "
                           "which is what the frontend flow (no cleanup() after a failed initialize()) needs for balance",
                           "Context is a fake whose accessors return nullptr: Module never dereferences it (module.cpp:30-32)",
                           "the harness translation unit is compiled without sanitizer instrumentation (module.cpp and variables.cpp are instrumented)",
                           "hooks_distinct counter is summed over process partitions (upper bound of globally distinct hook logs)"])
