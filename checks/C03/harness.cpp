// C03: FdEvent on both back-ends (engine H, fork per evaluation, ASan, per-fd record pools de-pooled).
// usage: harness <config 0..5> <depth> <script_first> <script_last>
#include "hist/hist.h"
#include <tbox/event/loop.h>
#include <tbox/event/fd_event.h>
#include <tbox/event/engines/epoll/loop.h>
#include <tbox/event/engines/select/loop.h>
#include <fcntl.h>
#include <poll.h>
#include <sys/socket.h>
#include <stdexcept>
using namespace tbox::event;

enum K { ENABLE, DISABLE, FEED, DRAIN, PASS };
enum A { NONE, DIS_SELF, DIS_TGT, DESTROY_TGT, ENABLE_TGT, DESTROY_TGT_NEW, DESTROY_TGT_CLOSE, DIS_TGT_EN_THIRD, DESTROY_TGT_EN_THIRD };
static const char *kN[] = {"enable", "disable", "feed", "drain", "pass"};
static const char *aN[] = {"none", "disable-self", "disable", "destroy", "enable", "destroy+new-event-on-3rd-fd", "destroy+close-fd", "disable+enable-the-third-event", "destroy+enable-the-third-event"};
struct Op { int k, a; };
struct Script { int e, act, tgt; };
static const int NE = 3;
struct EvCfg { int d; short mask; bool oneshot; };
// descriptors: 0,1,2 = read ends of pipes (config 2: descriptor 0 = one end of a socketpair)
static const EvCfg CFG[6][NE] = {
  {{0, FdEvent::kReadEvent, false}, {0, FdEvent::kReadEvent, true}, {1, FdEvent::kReadEvent, false}},
  {{0, FdEvent::kReadEvent, false}, {1, FdEvent::kReadEvent, false}, {1, FdEvent::kReadEvent, true}},
  {{0, (short)(FdEvent::kReadEvent | FdEvent::kWriteEvent), false}, {0, FdEvent::kWriteEvent, true}, {1, FdEvent::kReadEvent, false}},
  // different masks on one descriptor, the one-shot subscribing to the condition that is NOT always ready:
  {{0, FdEvent::kWriteEvent, false}, {0, FdEvent::kReadEvent, true}, {1, FdEvent::kReadEvent, false}},
  {{0, FdEvent::kReadEvent, true}, {0, FdEvent::kWriteEvent, true}, {0, (short)(FdEvent::kReadEvent | FdEvent::kWriteEvent), false}},
  // three read events on ONE descriptor (a callback can remove one subscriber and add another in the same pass)
  {{0, FdEvent::kReadEvent, false}, {0, FdEvent::kReadEvent, false}, {0, FdEvent::kReadEvent, false}},
};
struct Call { int e; short m; };
struct World {
  Loop *loop = nullptr; int rd[3], wr[3]; FdEvent *ev[NE + 1]; bool alive[NE + 1], en[NE + 1], oneshot[NE + 1]; short mask[NE + 1]; int d[NE + 1];
  short snap[3]; std::string viol; std::vector<std::vector<Call>> passes; bool closed[3] = {false, false, false};
};

static void on_cb(World &w, const Script &sc, int e, short m);
static void make_event(World &w, const Script &sc, int e, int d, short mask, bool oneshot) {
  w.ev[e] = w.loop->newFdEvent("e"); w.ev[e]->initialize(w.rd[d], mask, oneshot ? Event::Mode::kOneshot : Event::Mode::kPersist);
  w.alive[e] = true; w.en[e] = false; w.oneshot[e] = oneshot; w.mask[e] = mask; w.d[e] = d;
  World *pw = &w; const Script *ps = &sc; w.ev[e]->setCallback([pw, ps, e](short m) { on_cb(*pw, *ps, e, m); });
}
static void on_cb(World &w, const Script &sc, int e, short m) {
  if (!w.viol.empty()) return;
  if (!w.alive[e]) { w.viol = "callback-on-destroyed-event e" + std::to_string(e); return; }
  if (!w.en[e]) { w.viol = "callback-on-disabled-event e" + std::to_string(e); return; }
  if (w.oneshot[e]) { w.en[e] = false; if (w.ev[e]->isEnabled()) { w.viol = "oneshot-still-enabled-in-its-callback"; return; } }
  short hit = (short)(m & w.mask[e]);
  if (!hit) { w.viol = "reported-mask-lacks-every-subscribed-condition"; return; }
  if ((hit & FdEvent::kReadEvent) && !(w.snap[w.d[e]] & (POLLIN | POLLHUP))) { w.viol = "read-callback-but-descriptor-was-not-readable e" + std::to_string(e); return; }
  if ((hit & FdEvent::kWriteEvent) && !(w.snap[w.d[e]] & POLLOUT)) { w.viol = "write-callback-but-descriptor-was-not-writable e" + std::to_string(e); return; }
  for (auto &c : w.passes.back()) if (c.e == e) { w.viol = "event-called-twice-in-one-pass e" + std::to_string(e); return; }
  w.passes.back().push_back(Call{e, hit});
  if (sc.e != e) return; int t = sc.tgt;
  switch (sc.act) {
    case DIS_SELF: w.ev[e]->disable(); w.en[e] = false; break;
    case DIS_TGT: if (w.alive[t]) { w.ev[t]->disable(); w.en[t] = false; } break;
    case ENABLE_TGT: if (w.alive[t]) { w.ev[t]->enable(); w.en[t] = true; } break;
    case DIS_TGT_EN_THIRD: case DESTROY_TGT_EN_THIRD: { int third = 3 - e - t;      // the event that is neither the running one nor the target
      if (t != e && w.alive[t]) { if (sc.act == DIS_TGT_EN_THIRD) { w.ev[t]->disable(); w.en[t] = false; } else { w.alive[t] = false; w.en[t] = false; delete w.ev[t]; w.ev[t] = nullptr; } }
      if (third >= 0 && third < NE && third != e && w.alive[third]) { w.ev[third]->enable(); w.en[third] = true; } } break;
    case DESTROY_TGT: case DESTROY_TGT_NEW: case DESTROY_TGT_CLOSE:
      if (w.alive[t] && t != e) { w.alive[t] = false; w.en[t] = false; delete w.ev[t]; w.ev[t] = nullptr;
        if (sc.act == DESTROY_TGT_CLOSE && !w.closed[w.d[t]]) { bool shared = false; for (int x = 0; x < NE; x++) if (w.alive[x] && w.d[x] == w.d[t]) shared = true; if (!shared) { close(w.rd[w.d[t]]); w.closed[w.d[t]] = true; } }
        if (sc.act == DESTROY_TGT_NEW && !w.alive[NE]) { make_event(w, sc, NE, 2, FdEvent::kReadEvent, false); w.ev[NE]->enable(); w.en[NE] = true; } }
      break;
  }
}

static std::string run_engine(const char *eng, int cfg, const Script &sc, const std::vector<Op> &h, World &w) {
  w.loop = Loop::New(eng);
  if (!strcmp(eng, "epoll")) static_cast<EpollLoop *>(w.loop)->fd_shared_data_pool_.keep_number_ = 0; else static_cast<SelectLoop *>(w.loop)->fd_shared_data_pool_.keep_number_ = 0;
  for (int i = 0; i < 3; i++) { int p[2]; if (cfg >= 2 && cfg <= 4 && i == 0) { socketpair(AF_UNIX, SOCK_STREAM | SOCK_NONBLOCK, 0, p); w.rd[i] = p[0]; w.wr[i] = p[1]; } else { pipe2(p, O_NONBLOCK); w.rd[i] = p[0]; w.wr[i] = p[1]; } }
  for (int e = 0; e < NE; e++) make_event(w, sc, e, CFG[cfg][e].d, CFG[cfg][e].mask, CFG[cfg][e].oneshot);
  w.alive[NE] = false; w.ev[NE] = nullptr; w.en[NE] = false;
  try {
    for (auto &o : h) { if (!w.viol.empty()) break;
      switch (o.k) {
        case ENABLE: if (w.alive[o.a]) { w.ev[o.a]->enable(); w.en[o.a] = true; } break;
        case DISABLE: if (w.alive[o.a]) { w.ev[o.a]->disable(); w.en[o.a] = false; } break;
        case FEED: { char c = 'x'; ssize_t r = write(w.wr[o.a], &c, 1); (void)r; } break;
        case DRAIN: if (!w.closed[o.a]) { char b[64]; while (read(w.rd[o.a], b, 64) > 0) {} } break;
        case PASS: {
          for (int i = 0; i < 3; i++) { w.snap[i] = 0; if (w.closed[i]) continue; struct pollfd pf = {w.rd[i], POLLIN | POLLOUT, 0}; poll(&pf, 1, 0); w.snap[i] = pf.revents; }
          w.passes.emplace_back();
          w.loop->runNext([] {}); w.loop->runLoop(Loop::Mode::kOnce);
        } break; }
      for (int e = 0; e <= NE && w.viol.empty(); e++) if (w.alive[e] && w.ev[e]->isEnabled() != w.en[e]) w.viol = "isEnabled-disagrees-with-history e" + std::to_string(e);
    }
  } catch (const std::exception &ex) { w.viol = std::string("exception-out-of-runLoop(") + ex.what() + ")"; for (auto &c : w.viol) if (c == ' ') c = '_'; }
  std::string c; for (int e = 0; e <= NE; e++) { char b[32]; snprintf(b, 32, "%d%d|", (int)w.alive[e], (int)w.en[e]); c += b; }
  for (int i = 0; i < 3; i++) { if (w.closed[i]) { c += 'X'; continue; } struct pollfd pf = {w.rd[i], POLLIN, 0}; poll(&pf, 1, 0); c += (pf.revents & POLLIN) ? 'R' : '-'; }
  // back-end bookkeeping is part of the state (stale records are the failure mode)
  if (!strcmp(eng, "epoll")) { auto *l = static_cast<EpollLoop *>(w.loop); c += "#" + std::to_string(l->fd_data_map_.size()); for (auto &kv : l->fd_data_map_) c += ":" + std::to_string(kv.second->ref) + "," + std::to_string(kv.second->fd_events.size()) + "," + std::to_string(kv.second->read_event_num) + std::to_string(kv.second->write_event_num); }
  else { auto *l = static_cast<SelectLoop *>(w.loop); c += "#" + std::to_string(l->fd_data_map_.size()); for (auto &kv : l->fd_data_map_) c += ":" + std::to_string(kv.second->ref) + "," + std::to_string(kv.second->fd_events.size()) + "," + std::to_string(kv.second->read_event_num) + std::to_string(kv.second->write_event_num); }
  for (int e = 0; e <= NE; e++) if (w.alive[e]) delete w.ev[e];
  delete w.loop; for (int i = 0; i < 3; i++) { if (!w.closed[i]) close(w.rd[i]); close(w.wr[i]); }
  return c;
}

int main(int argc, char **argv) {
  int cfg = argc > 1 ? atoi(argv[1]) : 0; size_t depth = argc > 2 ? atoi(argv[2]) : 4; int s0 = argc > 3 ? atoi(argv[3]) : 0, s1 = argc > 4 ? atoi(argv[4]) : 1000;
  std::vector<Script> scripts; scripts.push_back({0, NONE, 0});
  for (int e = 0; e < NE; e++) { scripts.push_back({e, DIS_SELF, e}); for (int t = 0; t < NE; t++) if (t != e) for (int a : {DIS_TGT, DESTROY_TGT, ENABLE_TGT, DESTROY_TGT_NEW, DESTROY_TGT_CLOSE, DIS_TGT_EN_THIRD, DESTROY_TGT_EN_THIRD}) scripts.push_back({e, a, t}); }
  signal(SIGPIPE, SIG_IGN);
  double deadline = hx::deadline_from_env(600); size_t S = 0, T = 0;
  for (int si = s0; si < (int)scripts.size() && si <= s1; si++) {
    const Script sc = scripts[si];
    hx::Explorer<Op> ex; char nm[96]; snprintf(nm, sizeof nm, "cfg%d/script%d(e%d:%s->e%d)", cfg, si, sc.e, aN[sc.act], sc.tgt); ex.name = nm;
    ex.deadline_s = deadline; ex.fork_workers = (int)hx::env_int("VERIF_WORKERS", 4); ex.check_replay_determinism = false;
    ex.show = [](const Op &o) { char b[32]; snprintf(b, 32, "%s(%d)", kN[o.k], o.a); return std::string(b); };
    ex.menu = [&](const std::vector<Op> &) { std::vector<Op> m; for (int e = 0; e < NE; e++) { m.push_back({ENABLE, e}); m.push_back({DISABLE, e}); } for (int p = 0; p < 2; p++) { m.push_back({FEED, p}); m.push_back({DRAIN, p}); } m.push_back({PASS, 0}); return m; };
    ex.sig = [](const std::string &v) { std::string s = v.substr(0, v.find(' ')); return s; };
    bool order_independent = (sc.act == NONE || sc.act == DIS_SELF);
    ex.run = [&](const std::vector<Op> &h, std::string &viol) {
      World we, ws; std::string c1 = run_engine("epoll", cfg, sc, h, we); std::string c2 = run_engine("select", cfg, sc, h, ws);
      if (!we.viol.empty()) viol = "epoll:" + we.viol; else if (!ws.viol.empty()) viol = "select:" + ws.viol;
      else if (order_independent) {          // both back-ends must deliver the same callbacks, pass by pass
        for (size_t p = 0; p < we.passes.size() && viol.empty(); p++) {
          auto key = [](std::vector<Call> v) { std::vector<int> k; for (auto &c : v) k.push_back(c.e * 8 + c.m); std::sort(k.begin(), k.end()); return k; };
          if (key(we.passes[p]) != key(ws.passes[p])) viol = "backends-disagree epoll-vs-select pass " + std::to_string(p);
        } }
      return c1 + "||" + c2; };
    ex.explore(depth); S += ex.states; T += ex.transitions;
    if (hx::now_s() > deadline) break;
  }
  return 0;
}
