// C03: FdEvent on both back-ends (engine H; evaluations run in forked children under ASan, see the comment above g_shared).
// usage: harness <config 0..6> <depth> <script_first> <script_last> [lane [part nparts]]
//   lane 0 = base menu (enable/disable/feed/drain/pass)
//   lane 1 = life-cycle menu (base + re-initialise to another descriptor / with another mask, destroy+re-create,
//            close the peer of a pipe; at most VERIF_C03_EXT_MAX of them per history), explored for the scripts selected by ext_lane_script()
//   part/nparts = split of the search by the first operation (one process per part)
// Every history is executed on FOUR loops:
//   epoll and select with the per-fd record pool de-pooled (ASan sees every use of a released record), and
//   epoll and select with the pool as shipped (released records are recycled) and a 2-entry epoll_wait() array
//   (two ready descriptors hit the "array was full -> grow" branch without truncating the pass).
// The oracle is the reference model kept in World (en/alive/d/mask), never the implementation's own bookkeeping.
#include "hist/hist.h"
#include <tbox/event/loop.h>
#include <tbox/event/fd_event.h>
#include <tbox/event/engines/epoll/loop.h>
#include <tbox/event/engines/epoll/fd_event.h>
#include <tbox/event/engines/select/loop.h>
#include <tbox/event/engines/select/fd_event.h>
#include <fcntl.h>
#include <poll.h>
#include <sys/socket.h>
#include <stdexcept>
#include <unordered_map>
#include <tbox/event/timer_event.h>
#include <sys/epoll.h>
#include <sys/select.h>
#include <sys/syscall.h>
#include "probe.h"
using namespace tbox::event;

// Deviation seam: the harness defines select() and epoll_wait() itself (the loops' calls bind to these); the next call can be made to FAIL once
// (EINTR: nothing is reported, the sets / the array are left untouched), otherwise the real system call runs.
static int g_fail_wait = 0;
extern "C" int select(int n, fd_set *r, fd_set *w, fd_set *e, struct timeval *t) {
  if (g_fail_wait) { errno = g_fail_wait; g_fail_wait = 0; return -1; }
  return (int)syscall(SYS_select, n, r, w, e, t); }
extern "C" int epoll_wait(int epfd, struct epoll_event *evs, int maxevents, int timeout) {
  if (g_fail_wait) { errno = g_fail_wait; g_fail_wait = 0; return -1; }
  return (int)syscall(SYS_epoll_wait, epfd, evs, maxevents, timeout); }

// private members that only feed the canonical state key are read through probes: a renamed field degrades the key (see vf_any_missing below), not the build
VF_PROBE(fd_) VF_PROBE(events_) VF_PROBE(is_stop_after_trigger_) VF_PROBE(fd_data_map_) VF_PROBE(free_number_)
VF_PROBE(ref) VF_PROBE(read_event_num) VF_PROBE(write_event_num) VF_PROBE(except_event_num) VF_PROBE(fd_events) VF_PROBE(ev)

enum K { ENABLE, DISABLE, FEED, DRAIN, PASS, REINIT_FD, REINIT_MASK, RECREATE, CLOSE_PEER, REUSE, CLOSE_EN, REOPEN, PASS_EINTR, FILL, UNFILL };
enum A { NONE, DIS_SELF, DIS_TGT, DESTROY_TGT, ENABLE_TGT, DESTROY_TGT_NEW, DESTROY_TGT_CLOSE, DIS_TGT_EN_THIRD, DESTROY_TGT_EN_THIRD,
         ENABLE_SELF, DIS_EN_TGT, REINIT_TGT_EN, DESTROY_TGT_NEW_SAME, REINIT_SELF_EN, DESTROY_TGT_REINIT_SELF };
static const char *kN[] = {"enable", "disable", "feed", "drain", "pass", "reinit-next-fd", "reinit-next-mask", "recreate", "close-peer", "close-fd+enable+reopen-same-number", "close-fd+enable", "reopen-same-number", "pass-with-the-wait-call-failing-EINTR", "fill-socket", "unfill-socket"};
static const char *aN[] = {"none", "disable-self", "disable", "destroy", "enable", "destroy+new-event-on-3rd-fd", "destroy+close-fd", "disable+enable-the-third-event", "destroy+enable-the-third-event",
                           "rearm-self", "disable+enable", "move-to-3rd-fd+enable", "destroy+new-event-on-same-fd", "move-self-to-3rd-fd+enable", "destroy+move-self-to-3rd-fd+enable"};
struct Op { int k, a; };
struct Script { int e, act, tgt; };
static const int NE = 3, ND = 3, NCFG = 7;
static const int TIMER = NE + 1;      // script 'actor' that is not a descriptor event: a 0 ms timer whose callback runs between the harvest (select/epoll_wait) and the dispatch
struct EvCfg { int d; short mask; bool oneshot; };
static const short R = FdEvent::kReadEvent, W = FdEvent::kWriteEvent, E = FdEvent::kExceptEvent;
// descriptors: 0,1,2 = read ends of pipes (configs 2..4: descriptor 0 = one end of a socketpair); 2 is never fed
static const EvCfg CFG[NCFG][NE] = {
  {{0, R, false}, {0, R, true}, {1, R, false}},
  {{0, R, false}, {1, R, false}, {1, R, true}},
  {{0, (short)(R | W), false}, {0, W, true}, {1, R, false}},
  // different masks on one descriptor, the one-shot subscribing to the condition that is NOT always ready:
  {{0, W, false}, {0, R, true}, {1, R, false}},
  {{0, R, true}, {0, W, true}, {0, (short)(R | W), false}},
  // three read events on ONE descriptor (a callback can remove one subscriber and add another in the same pass)
  {{0, R, false}, {0, R, false}, {0, R, false}},
  // the exception condition is subscribed (it never arises on a pipe: the E-only event must never be called)
  {{0, (short)(R | E), false}, {0, E, true}, {1, R, false}},
};
static bool is_socket(int cfg, int d) { return cfg >= 2 && cfg <= 4 && d == 0; }
static short next_mask(short m) { return m == R ? W : m == W ? (short)(R | W) : m == (R | W) ? (short)(R | E) : R; }

struct Call { int e; short m; };
struct World {
  Loop *loop = nullptr; bool is_epoll = false; int cfg = 0, variant = 0;
  int rd[ND], wr[ND]; bool closed[ND] = {false, false, false}, peer_closed[ND] = {false, false, false};
  FdEvent *ev[NE + 1]; bool alive[NE + 1], en[NE + 1], oneshot[NE + 1]; short mask[NE + 1]; int d[NE + 1];
  int pending = -1;          // descriptor that was closed under a disabled event and is waiting to be re-opened with the same number
  bool tainted = false;      // an event was enable()d on a closed descriptor: from then on only the safety clauses are judged (what such an event is due is outside the property)
  short snap[ND]; std::string viol; unsigned called = 0;     // bit e: the callback of event e was entered at least once
  std::vector<std::vector<Call>> passes;     // callbacks delivered, per pass
  std::vector<std::vector<Call>> expected;   // the model's exact callback set of the pass (valid when exact[p])
  std::vector<char> exact, indep, skip;      // per pass: the model knows the exact set / the pass cannot depend on the serving order / injected wait failure (nothing is demanded)
  std::vector<Call> cur_exp; int cur_nd = 0; bool cur_inexact = false;      // the running pass: model's due set, number of served descriptors, 'the model cannot predict it exactly'
};

static short ready_bits(short snap) { short r = 0; if (snap & (POLLIN | POLLHUP)) r |= R; if (snap & POLLOUT) r |= W; if (snap & (POLLERR | POLLPRI)) r |= E; return r; }
static Event::Mode mode_of(bool oneshot) { return oneshot ? Event::Mode::kOneshot : Event::Mode::kPersist; }
static void on_cb(World &w, const Script &sc, int e, short m);
static void make_event(World &w, const Script &sc, int e, int d, short mask, bool oneshot) {
  w.ev[e] = w.loop->newFdEvent("e"); w.ev[e]->initialize(w.rd[d], mask, mode_of(oneshot));
  w.alive[e] = true; w.en[e] = false; w.oneshot[e] = oneshot; w.mask[e] = mask; w.d[e] = d;
  World *pw = &w; const Script *ps = &sc; w.ev[e]->setCallback([pw, ps, e](short m) { on_cb(*pw, *ps, e, m); });
}
static void destroy_event(World &w, int t) { w.alive[t] = false; w.en[t] = false; delete w.ev[t]; w.ev[t] = nullptr; }
// re-initialise a (model-)disabled event; on an enabled event the call must change nothing (the code refuses it)
static void reinit_event(World &w, int e, int nd, short nmask) {
  w.ev[e]->initialize(w.rd[nd], nmask, mode_of(w.oneshot[e]));      // same mode as before: the mode of a re-initialised event is outside the property
  if (!w.en[e]) { w.d[e] = nd; w.mask[e] = nmask; }
}
static int next_open_fd(const World &w, int d) { for (int k = 1; k <= ND; k++) { int nd = (d + k) % ND; if (!w.closed[nd]) return nd; } return d; }

static void on_cb(World &w, const Script &sc, int e, short m) {
  w.called |= 1u << e;
  if (!w.viol.empty()) return;
  if (!w.alive[e]) { w.viol = "callback-on-destroyed-event e" + std::to_string(e); return; }
  if (!w.en[e]) { w.viol = "callback-on-disabled-event e" + std::to_string(e); return; }
  if (w.oneshot[e]) { w.en[e] = false; if (w.ev[e]->isEnabled()) { w.viol = "oneshot-still-enabled-in-its-callback"; return; } }
  short hit = (short)(m & w.mask[e]);
  if (!hit) { w.viol = "reported-mask-lacks-every-subscribed-condition"; return; }
  if ((hit & R) && !(w.snap[w.d[e]] & (POLLIN | POLLHUP))) { w.viol = "read-callback-but-descriptor-was-not-readable e" + std::to_string(e); return; }
  if ((hit & W) && !(w.snap[w.d[e]] & POLLOUT)) { w.viol = "write-callback-but-descriptor-was-not-writable e" + std::to_string(e); return; }
  if ((hit & E) && !(w.snap[w.d[e]] & (POLLERR | POLLPRI))) { w.viol = "except-callback-but-descriptor-had-no-exceptional-condition e" + std::to_string(e); return; }
  for (auto &c : w.passes.back()) if (c.e == e) { w.viol = "event-called-twice-in-one-pass e" + std::to_string(e); return; }
  w.passes.back().push_back(Call{e, hit});
  if (sc.e != e) return; int t = sc.tgt;
  switch (sc.act) {
    case DIS_SELF: w.ev[e]->disable(); w.en[e] = false; break;
    case ENABLE_SELF:      // a one-shot re-arms itself; a persistent event takes itself off the list and re-queues itself at its tail
      if (!w.oneshot[e]) w.ev[e]->disable();
      w.ev[e]->enable(); w.en[e] = true; break;
    case DIS_TGT: if (w.alive[t]) { w.ev[t]->disable(); w.en[t] = false; } break;
    case ENABLE_TGT: if (w.alive[t]) { w.ev[t]->enable(); w.en[t] = true; } break;
    case DIS_EN_TGT: if (w.alive[t]) { w.ev[t]->disable(); w.ev[t]->enable(); w.en[t] = true; } break;
    case REINIT_TGT_EN:    // move the target to the third descriptor (which has no record unless somebody already sits there) and enable it
      if (w.alive[t] && t != e) { int nd = w.d[t] != 2 ? 2 : CFG[w.cfg][t].d;
        if (!w.closed[nd]) { w.ev[t]->disable(); w.en[t] = false; reinit_event(w, t, nd, w.mask[t]); w.ev[t]->enable(); w.en[t] = true; } }
      break;
    case REINIT_SELF_EN: case DESTROY_TGT_REINIT_SELF: {      // the running event moves ITSELF to the third descriptor: the record under dispatch may lose its last reference during its own dispatch
      if (sc.act == DESTROY_TGT_REINIT_SELF && t != e && w.alive[t]) destroy_event(w, t);
      int nd = w.d[e] != 2 ? 2 : CFG[w.cfg][e].d;
      if (!w.closed[nd]) { w.ev[e]->disable(); w.en[e] = false; reinit_event(w, e, nd, w.mask[e]); w.ev[e]->enable(); w.en[e] = true; } } break;
    case DIS_TGT_EN_THIRD: case DESTROY_TGT_EN_THIRD: { int third = 3 - e - t;      // the event that is neither the running one nor the target
      if (t != e && w.alive[t]) { if (sc.act == DIS_TGT_EN_THIRD) { w.ev[t]->disable(); w.en[t] = false; } else destroy_event(w, t); }
      if (third >= 0 && third < NE && third != e && w.alive[third]) { w.ev[third]->enable(); w.en[third] = true; } } break;
    case DESTROY_TGT: case DESTROY_TGT_NEW: case DESTROY_TGT_CLOSE: case DESTROY_TGT_NEW_SAME:
      if (w.alive[t] && t != e) { destroy_event(w, t);
        if (sc.act == DESTROY_TGT_CLOSE && !w.closed[w.d[t]]) { bool shared = false; for (int x = 0; x <= NE; x++) if (w.alive[x] && w.d[x] == w.d[t]) shared = true; if (!shared) { close(w.rd[w.d[t]]); w.closed[w.d[t]] = true; } }
        if (sc.act == DESTROY_TGT_NEW && !w.alive[NE] && !w.closed[2]) { make_event(w, sc, NE, 2, R, false); w.ev[NE]->enable(); w.en[NE] = true; }
        if (sc.act == DESTROY_TGT_NEW_SAME && !w.alive[NE] && !w.closed[w.d[t]]) { make_event(w, sc, NE, w.d[t], w.mask[t], false); w.ev[NE]->enable(); w.en[NE] = true; } }
      break;
  }
}

// the model's view of a pass: who is enabled and ready now. A descriptor is (possibly) SERVED in this pass if it has an enabled subscriber and is ready
// for a subscribed condition or hung up / in error (epoll reports HUP/ERR whatever the interest is)
static void compute_expected(World &w) {
  w.cur_exp.clear(); w.cur_nd = 0; bool dseen[ND] = {false, false, false};
  for (int e = 0; e <= NE; e++) if (w.alive[e] && w.en[e]) { short hit = (short)(w.mask[e] & ready_bits(w.snap[w.d[e]]));
    if (hit) w.cur_exp.push_back(Call{e, hit});
    if ((hit || (w.snap[w.d[e]] & (POLLHUP | POLLERR))) && !dseen[w.d[e]]) { dseen[w.d[e]] = true; w.cur_nd++; } }
}
// timer scripts: the action runs in a timer callback, i.e. after the back-end has harvested the ready descriptors and before it dispatches any of them
static void timer_action(World &w, const Script &sc) {
  w.called |= 1u << TIMER; if (!w.viol.empty()) return; int t = sc.tgt;
  switch (sc.act) {
    case DIS_TGT: if (w.alive[t]) { w.ev[t]->disable(); w.en[t] = false; } break;
    case DESTROY_TGT: if (w.alive[t]) destroy_event(w, t); break;
    case DESTROY_TGT_NEW_SAME: if (w.alive[t]) { destroy_event(w, t); w.cur_inexact = true;      // a subscriber added after the harvest: whether it is served in this pass is back-end specific
        if (!w.alive[NE] && !w.closed[w.d[t]]) { make_event(w, sc, NE, w.d[t], w.mask[t], false); w.ev[NE]->enable(); w.en[NE] = true; } } break;
    case REINIT_TGT_EN: if (w.alive[t]) { int nd = w.d[t] != 2 ? 2 : CFG[w.cfg][t].d; w.cur_inexact = true;
        if (!w.closed[nd]) { w.ev[t]->disable(); w.en[t] = false; reinit_event(w, t, nd, w.mask[t]); w.ev[t]->enable(); w.en[t] = true; } } break;
  }
  if (!w.cur_inexact) compute_expected(w);      // only removals: the due set is what is left
}

static bool self_only(int act) { return act == NONE || act == DIS_SELF || act == ENABLE_SELF; }

// what the kernel holds for the epoll instance: "<descriptor index>=<interest mask>" per registered descriptor
static std::string epoll_kernel_view(World &w, int epfd) {
  char path[64]; snprintf(path, sizeof path, "/proc/self/fdinfo/%d", epfd);
  FILE *f = fopen(path, "r"); if (!f) return "?";
  std::vector<std::string> items; char line[256];
  while (fgets(line, sizeof line, f)) { int tfd; unsigned evs; if (sscanf(line, "tfd: %d events: %x", &tfd, &evs) == 2) { int di = -1; for (int i = 0; i < ND; i++) if (w.rd[i] == tfd) di = i; char b[48]; snprintf(b, sizeof b, "%d=%x", di, evs & (EPOLLIN | EPOLLOUT | EPOLLERR)); items.push_back(b); } }
  fclose(f); std::sort(items.begin(), items.end());
  std::string s; for (auto &i : items) s += i + ","; return s;
}
template <class LoopT, class EvT, class RecT> static std::string impl_key(World &w, std::unordered_map<int, RecT *> &map_out) {
  auto *l = static_cast<LoopT *>(w.loop); std::string c;
  for (int e = 0; e <= NE; e++) if (w.alive[e]) { auto *x = static_cast<EvT *>(w.ev[e]); int xfd = VF_GET(fd_, *x, -2), di = -1; for (int i = 0; i < ND; i++) if (w.rd[i] == xfd) di = i;
    char b[48]; snprintf(b, sizeof b, "i%d:%d.%x.%d%d;", e, di, VF_GET(events_, *x, 0u), (int)VF_GET(is_stop_after_trigger_, *x, false), (int)x->isEnabled()); c += b; }
  map_out = VF_GET(fd_data_map_, *l, (std::unordered_map<int, RecT *>()));
  std::vector<std::string> recs;
  for (auto &kv : map_out) { int di = -1; for (int i = 0; i < ND; i++) if (w.rd[i] == kv.first) di = i; RecT &rec = *kv.second;
    std::string r = std::to_string(di) + ":" + std::to_string(VF_GET(ref, rec, 0)) + "," + std::to_string(VF_GET(read_event_num, rec, 0)) + "," + std::to_string(VF_GET(write_event_num, rec, 0)) + "," + std::to_string(VF_GET(except_event_num, rec, 0)) + "[";
    for (auto *p : VF_GET(fd_events, rec, std::vector<EvT *>())) { int idx = -1; for (int e = 0; e <= NE; e++) if (w.alive[e] && static_cast<EvT *>(w.ev[e]) == p) idx = e; r += idx < 0 ? std::string("?") : std::to_string(idx); }   // ORDER of the subscribers matters for the dispatch
    recs.push_back(r + "]"); }
  std::sort(recs.begin(), recs.end()); c += "#" + std::to_string(recs.size()); for (auto &r : recs) c += r;
  auto &pool = l->fd_shared_data_pool_; auto st = pool.getStat(); c += "~" + std::to_string(VF_GET(free_number_, pool, (size_t)0)) + "/" + std::to_string(st.total_alloc_times - st.total_free_times);
  return c;
}

// variant 0: per-fd records de-pooled; variant 1: pool as shipped + 2-entry epoll_wait array
static std::string run_engine(const char *eng, int variant, int cfg, const Script &sc, const std::vector<Op> &h, World &w) {
  w.loop = Loop::New(eng); w.is_epoll = !strcmp(eng, "epoll"); w.cfg = cfg; w.variant = variant;
  if (variant == 0) { if (w.is_epoll) static_cast<EpollLoop *>(w.loop)->fd_shared_data_pool_.keep_number_ = 0; else static_cast<SelectLoop *>(w.loop)->fd_shared_data_pool_.keep_number_ = 0; }
  else if (w.is_epoll) static_cast<EpollLoop *>(w.loop)->max_loop_entries_ = 2;
  for (int i = 0; i < ND; i++) { int p[2]; if (is_socket(cfg, i)) { if (socketpair(AF_UNIX, SOCK_STREAM | SOCK_NONBLOCK, 0, p)) abort(); } else { if (pipe2(p, O_NONBLOCK)) abort(); }
    // variant 1: descriptor numbers DESCEND with the descriptor index (select serves d2, d1, d0) and leave holes below them, so that the loop's own wake-up
    // eventfd (created by every runLoop) gets the LOWEST number; in variant 0 numbers ascend and the wake-up fd is the highest
    if (variant == 1) { int hi = fcntl(p[0], F_DUPFD, 200 - 20 * i); if (hi < 0) abort(); close(p[0]); p[0] = hi; }
    w.rd[i] = p[0]; w.wr[i] = p[1]; }
  for (int e = 0; e < NE; e++) make_event(w, sc, e, CFG[cfg][e].d, CFG[cfg][e].mask, CFG[cfg][e].oneshot);
  w.alive[NE] = false; w.ev[NE] = nullptr; w.en[NE] = false; w.d[NE] = 2; w.mask[NE] = 0; w.oneshot[NE] = false;
  try {
    for (auto &o : h) { if (!w.viol.empty()) break;
      switch (o.k) {
        case ENABLE: if (w.alive[o.a]) { w.ev[o.a]->enable(); w.en[o.a] = true; } break;
        case DISABLE: if (w.alive[o.a]) { w.ev[o.a]->disable(); w.en[o.a] = false; } break;
        case FEED: if (!w.peer_closed[o.a]) { char c = 'x'; ssize_t r = write(w.wr[o.a], &c, 1); (void)r; } break;
        case DRAIN: if (!w.closed[o.a]) { char b[64]; while (read(w.rd[o.a], b, 64) > 0) {} } break;
        case REINIT_FD: if (w.alive[o.a]) reinit_event(w, o.a, next_open_fd(w, w.d[o.a]), w.mask[o.a]); break;
        case REINIT_MASK: if (w.alive[o.a] && !w.closed[w.d[o.a]]) reinit_event(w, o.a, w.d[o.a], next_mask(w.mask[o.a])); break;
        case RECREATE: if (!w.closed[CFG[cfg][o.a].d]) { if (w.alive[o.a]) destroy_event(w, o.a); make_event(w, sc, o.a, CFG[cfg][o.a].d, CFG[cfg][o.a].mask, CFG[cfg][o.a].oneshot); } break;
        case CLOSE_PEER: if (!w.peer_closed[o.a] && !is_socket(cfg, o.a)) { close(w.wr[o.a]); w.peer_closed[o.a] = true; } break;
        case FILL: if (is_socket(cfg, 0) && !w.closed[0]) { static char big[65536]; while (write(w.rd[0], big, sizeof big) > 0) {} while (write(w.rd[0], big, 1) > 0) {} } break;      // our end of the socket stops being writable
        case UNFILL: if (is_socket(cfg, 0) && !w.peer_closed[0]) { static char big[65536]; while (read(w.wr[0], big, sizeof big) > 0) {} } break;
        case REUSE: case CLOSE_EN: {      // the kernel refuses (or not) an enable(): the descriptor of a disabled event is closed first; the model follows enable()'s RETURN VALUE
          int e = o.a; if (!w.alive[e] || w.en[e] || w.pending >= 0 || w.closed[w.d[e]]) break;
          bool busy = false; for (int x = 0; x <= NE; x++) if (w.alive[x] && w.en[x] && w.d[x] == w.d[e]) busy = true; if (busy) break;      // never close under an enabled event
          int dd = w.d[e]; close(w.rd[dd]); if (!w.peer_closed[dd]) close(w.wr[dd]); w.closed[dd] = true; w.peer_closed[dd] = true; w.pending = dd; w.tainted = true;
          bool ok = w.ev[e]->enable(); w.en[e] = ok;      // true: counts as enabled on that descriptor NUMBER; false: not enabled, must never be called
          if (o.k == CLOSE_EN) break; }
          // fall through: re-open at once
        case REOPEN: if (w.pending >= 0) {      // a new pipe / socket takes the same descriptor number
          int dd = w.pending, p[2]; if (is_socket(cfg, dd)) { if (socketpair(AF_UNIX, SOCK_STREAM | SOCK_NONBLOCK, 0, p)) abort(); } else { if (pipe2(p, O_NONBLOCK)) abort(); }
          if (p[0] != w.rd[dd]) { if (dup3(p[0], w.rd[dd], 0) < 0) abort(); close(p[0]); }
          w.wr[dd] = p[1]; w.closed[dd] = false; w.peer_closed[dd] = false; w.pending = -1; } break;
        case PASS: case PASS_EINTR: {
          for (int i = 0; i < ND; i++) { w.snap[i] = 0; if (w.closed[i]) continue; struct pollfd pf = {w.rd[i], POLLIN | POLLOUT | POLLPRI, 0}; poll(&pf, 1, 0); w.snap[i] = pf.revents; }
          w.cur_inexact = (o.k == PASS_EINTR); compute_expected(w);
          w.passes.emplace_back();
          TimerEvent *tm = nullptr;
          if (sc.e == TIMER) { tm = w.loop->newTimerEvent("t"); tm->initialize(std::chrono::milliseconds(0), Event::Mode::kOneshot); World *pw = &w; const Script *ps = &sc; tm->setCallback([pw, ps] { timer_action(*pw, *ps); }); tm->enable(); }
          if (o.k == PASS_EINTR) g_fail_wait = EINTR;      // the wait call of this pass reports failure: whatever the loop does then, nobody whose descriptor is not ready may be called
          w.loop->runNext([] {}); w.loop->runLoop(Loop::Mode::kOnce);
          if (g_fail_wait) { g_fail_wait = 0; if (w.viol.empty()) w.viol = "harness-error:injected-wait-failure-was-not-consumed"; }
          delete tm;
          // nothing but the script's actor changes anything during a pass: if the actor was not called (or acts only on itself, or acted before the dispatch
          // and only removed subscribers) the model's set is exact
          bool actor_called = false; for (auto &c : w.passes.back()) if (c.e == sc.e) actor_called = true;
          bool trunc = w.is_epoll && w.variant == 1 && w.cur_nd > 2;      // more served descriptors than the 2-entry array holds: the rest is served by the next pass
          bool ex = (sc.e == TIMER || self_only(sc.act) || !actor_called) && !w.tainted && !w.cur_inexact && !trunc;
          w.expected.push_back(w.cur_exp); w.exact.push_back(ex); w.indep.push_back(!w.tainted && !w.cur_inexact && !trunc && (ex || w.cur_nd <= 1)); w.skip.push_back(o.k == PASS_EINTR);
          const std::vector<Call> &exp = w.cur_exp;
          if (w.viol.empty() && ex) {      // callbacks never drain, so every enabled subscriber of a ready descriptor is due exactly once, with exactly its ready conditions
            auto key = [](std::vector<Call> v) { std::vector<int> k; for (auto &c : v) k.push_back(c.e * 8 + c.m); std::sort(k.begin(), k.end()); return k; };
            if (key(exp) != key(w.passes.back())) { std::string s = "callbacks-differ-from-the-enabled-and-ready-set expected="; for (auto &c : exp) s += "e" + std::to_string(c.e) + "/" + std::to_string(c.m) + ","; s += "_got="; for (auto &c : w.passes.back()) s += "e" + std::to_string(c.e) + "/" + std::to_string(c.m) + ","; w.viol = s; }
          }
        } break; }
      for (int e = 0; e <= NE && w.viol.empty(); e++) if (w.alive[e] && w.ev[e]->isEnabled() != w.en[e]) w.viol = "isEnabled-disagrees-with-history e" + std::to_string(e);
    }
  } catch (const std::exception &ex) { w.viol = std::string("exception-out-of-runLoop(") + ex.what() + ")"; for (auto &c : w.viol) if (c == ' ') c = '_'; }
  // canonical state: model ...
  std::string c; for (int e = 0; e <= NE; e++) { char b[48]; snprintf(b, sizeof b, "%d%d%d.%x|", (int)w.alive[e], (int)w.en[e], w.alive[e] ? w.d[e] : 0, w.alive[e] ? (unsigned)w.mask[e] : 0u); c += b; }
  c += w.tainted ? 'T' : 't'; c += (char)('0' + w.pending + 1);
  // ... kernel readiness ...
  for (int i = 0; i < ND; i++) { if (w.closed[i]) { c += 'X'; continue; } struct pollfd pf = {w.rd[i], POLLIN, 0}; poll(&pf, 1, 0); c += (pf.revents & POLLIN) ? 'R' : '-'; if (pf.revents & POLLHUP) c += 'H'; { struct pollfd po = {w.rd[i], POLLOUT, 0}; poll(&po, 1, 0); if (po.revents & POLLOUT) c += 'W'; } if (w.peer_closed[i]) c += 'c'; }
  // ... and the back-end's bookkeeping (stale records / counters / list order / kernel registration are the failure modes)
  if (w.viol.empty()) {
    if (w.is_epoll) { std::unordered_map<int, EpollFdSharedData *> m; c += impl_key<EpollLoop, EpollFdEvent, EpollFdSharedData>(w, m); auto *l = static_cast<EpollLoop *>(w.loop); c += "@";
      { std::vector<std::string> v; for (auto &kv : m) { int di = -1; for (int i = 0; i < ND; i++) if (w.rd[i] == kv.first) di = i; char b[48]; snprintf(b, sizeof b, "%d=%x,", di, (unsigned)VF_GET(ev, *kv.second, epoll_event()).events); v.push_back(b); } std::sort(v.begin(), v.end()); for (auto &x : v) c += x; }
      c += "@k" + epoll_kernel_view(w, l->epollFd());
      // the kernel's ready list ORDER decides who is served first in the next pass (level-triggered: looking at it does not consume anything)
      struct epoll_event evs[8]; int n = (int)syscall(SYS_epoll_wait, l->epollFd(), evs, 8, 0); c += "@o";
      for (int i = 0; i < n; i++) { int di = -1; for (auto &kv : m) if ((void *)kv.second == evs[i].data.ptr) for (int k = 0; k < ND; k++) if (w.rd[k] == kv.first) di = k; c += (char)('0' + di + 1); } }
    else { std::unordered_map<int, SelectFdSharedData *> m; c += impl_key<SelectLoop, SelectFdEvent, SelectFdSharedData>(w, m); }
    // a probed member is missing: the key can no longer tell some states apart -> do not merge histories that end differently
    if (vf_any_missing()) { c += "!"; for (size_t i = h.size() > 3 ? h.size() - 3 : 0; i < h.size(); i++) { c += (char)('a' + h[i].k); c += (char)('0' + h[i].a); } }
  }
  for (int e = 0; e <= NE; e++) if (w.alive[e]) delete w.ev[e];
  delete w.loop; for (int i = 0; i < ND; i++) { if (!w.closed[i]) close(w.rd[i]); if (!w.peer_closed[i]) close(w.wr[i]); }
  return c;
}

// scripts that are also explored with the life-cycle menu (lane 1): the ones that keep the pass exactly predictable,
// plus plain destroy / enable of another event (record reference counting after a re-initialisation)
static bool ext_lane_script(const Script &sc) { return sc.e != TIMER && (self_only(sc.act) || sc.act == DESTROY_TGT || sc.act == ENABLE_TGT); }
static bool is_ext(int k) { return k == REINIT_FD || k == REINIT_MASK || k == RECREATE || k == CLOSE_PEER || k == REUSE || k == CLOSE_EN || k == REOPEN; }
static bool has_pass(const std::vector<Op> &h) { for (auto &o : h) if (o.k == PASS || o.k == PASS_EINTR) return true; return false; }

// configuration automorphisms: a script that is the image of an earlier script under a renaming of identical events explores an isomorphic history set
static bool is_symmetric_image(int cfg, const Script &sc, const std::vector<Script> &all, int idx) {
  int perm[NE] = {0, 1, 2};
  do {
    bool ident = true, autom = true; for (int e = 0; e < NE; e++) { if (perm[e] != e) ident = false; const EvCfg &a = CFG[cfg][e], &b = CFG[cfg][perm[e]]; if (a.d != b.d || a.mask != b.mask || a.oneshot != b.oneshot) autom = false; }
    if (ident || !autom) continue;
    for (int j = 0; j < idx; j++) if (all[j].act == sc.act && all[j].e == (sc.e < NE ? perm[sc.e] : sc.e) && all[j].tgt == perm[sc.tgt]) return true;
  } while (std::next_permutation(perm, perm + NE));
  return false;
}

// One evaluation = one history executed on the four loops. Evaluations are executed in forked children, one child per group of sibling
// histories (the extensions of one history by every operation of the menu); if a child dies (sanitizer report, signal, time-out) its group is
// executed again one history per child, so that the crash is attributed to the history that causes it.
// An evaluation in which the script's actor was never called does not depend on the script at all (the script text is only reached from the
// actor's callback, and the oracle of such a run is the maximal one), so its result is shared between the scripts explored by this process.
// Evaluations in which the script did act are remembered per script, so that the second (deeper) round does not execute the first round again.
struct Res { std::string canon, viol; unsigned called; };
static std::unordered_map<std::string, Res> g_shared, g_own, g_pending;
static size_t g_reused = 0, g_evals = 0, g_forks = 0, g_lookups = 0, g_regroup = 0, g_explores = 0;
static std::string hist_key(const std::vector<Op> &h) { std::string hk; for (auto &o : h) { hk.push_back((char)('a' + o.k)); hk.push_back((char)('0' + o.a)); } return hk; }

int main(int argc, char **argv) {
  int cfg = argc > 1 ? atoi(argv[1]) : 0; size_t depth = argc > 2 ? atoi(argv[2]) : 4; int s0 = argc > 3 ? atoi(argv[3]) : 0, s1 = argc > 4 ? atoi(argv[4]) : 1000; int lane = argc > 5 ? atoi(argv[5]) : 0;
  int part = argc > 6 ? atoi(argv[6]) : 0, nparts = argc > 7 ? atoi(argv[7]) : 1;      // optional split of the search by the first operation
  if (cfg < 0 || cfg >= NCFG) return 0;
  std::vector<Script> scripts; scripts.push_back({0, NONE, 0});
  for (int e = 0; e < NE; e++) { scripts.push_back({e, DIS_SELF, e}); for (int t = 0; t < NE; t++) if (t != e) for (int a : {DIS_TGT, DESTROY_TGT, ENABLE_TGT, DESTROY_TGT_NEW, DESTROY_TGT_CLOSE, DIS_TGT_EN_THIRD, DESTROY_TGT_EN_THIRD}) scripts.push_back({e, a, t}); }
  for (int e = 0; e < NE; e++) { scripts.push_back({e, ENABLE_SELF, e}); for (int t = 0; t < NE; t++) if (t != e) for (int a : {DIS_EN_TGT, REINIT_TGT_EN, DESTROY_TGT_NEW_SAME}) scripts.push_back({e, a, t}); }
  for (int e = 0; e < NE; e++) { scripts.push_back({e, REINIT_SELF_EN, e}); for (int t = 0; t < NE; t++) if (t != e) scripts.push_back({e, DESTROY_TGT_REINIT_SELF, t}); }
  for (int t = 0; t < NE; t++) for (int a : {DESTROY_TGT, DESTROY_TGT_NEW_SAME, REINIT_TGT_EN}) scripts.push_back({TIMER, a, t});      // acted from a timer callback between harvest and dispatch
  signal(SIGPIPE, SIG_IGN);
  const int nvariants = (int)hx::env_int("VERIF_C03_VARIANTS", 2);
  const int ext_max = (int)hx::env_int("VERIF_C03_EXT_MAX", 2);          // bound: life-cycle operations per history
  const size_t shared_cap = (size_t)hx::env_int("VERIF_C03_SHARED_CAP", 60000);
  const bool split_reuse = hx::env_int("VERIF_C03_SPLIT_REUSE", 0) != 0;          // also offer close+enable and re-open as two operations (anything may happen in between)
  // A loop pass while a subscribed descriptor is closed: DEFAULT OFF, because the unchanged select back-end then runs removeInvalidFds() (see the report / check.py)
  const bool pass_on_closed = hx::env_int("VERIF_C03_PASS_ON_CLOSED_FD", 0) != 0;
  const bool feed3 = hx::env_int("VERIF_C03_FEED3", 0) != 0, eintr_lane1 = hx::env_int("VERIF_C03_EINTR_LANE1", 0) != 0;      // wider life-cycle lane (thorough tier)
  const bool share = hx::env_int("VERIF_C03_SHARE", 1) != 0, batch = hx::env_int("VERIF_C03_GROUP", 1) != 0;
  const pid_t parent = getpid();
  double deadline = hx::deadline_from_env(600);
  // two rounds: every script to depth-1 first, then every script to the full depth (a run that is cut short by the deadline on a busy machine
  // has then still covered every script); the second round re-uses every evaluation of the first one
  std::vector<size_t> rounds; if (depth >= 3 && hx::env_int("VERIF_C03_ROUNDS", 2) >= 2) rounds.push_back(depth - 1); rounds.push_back(depth);
  std::map<int, std::pair<size_t, size_t>> first_round;      // script -> (states, transitions) counted by the first round
  for (size_t rdepth : rounds)
  for (int si = s0; si < (int)scripts.size() && si <= s1; si++) {
    if (hx::now_s() > deadline) break;
    const Script sc = scripts[si];
    if (lane == 1 && !ext_lane_script(sc) && !hx::env_int("VERIF_C03_LANE1_ALL", 0)) continue;
    if (is_symmetric_image(cfg, sc, scripts, si)) { if (rdepth == depth) printf("@INFO cfg%d/script%d(e%d:%s->e%d): skipped, image of an earlier script under a renaming of identical events\n", cfg, si, sc.e, aN[sc.act], sc.tgt); continue; }
    hx::Explorer<Op> ex; char nm[128]; snprintf(nm, sizeof nm, "cfg%d/%sscript%d(e%d:%s->e%d)", cfg, lane ? "life-cycle/" : "", si, sc.e, aN[sc.act], sc.tgt); ex.name = nm;
    ex.deadline_s = deadline; ex.fork_workers = 0 /* the run function forks by itself, see below */; ex.check_replay_determinism = false; ex.part = part; ex.nparts = nparts;
    ex.show = [](const Op &o) { char b[64]; snprintf(b, sizeof b, "%s(%d)", kN[o.k], o.a); return std::string(b); };
    ex.menu = [&](const std::vector<Op> &h) {
      // harness-side facts that do not involve the code under test: a pipe that already holds a byte is not fed again, an empty one is not drained
      // (once a descriptor has been replaced the harness no longer knows which pipe holds what, and offers everything)
      const int nfeed = (lane == 1 && feed3) ? 3 : 2;      // the life-cycle lane can also feed / hang up the third descriptor (events get there by re-initialisation; VERIF_C03_FEED3, thorough tier)
      bool fed[3] = {false, false, false}, pc[3] = {false, false, false}, replaced = false, pend = false, filled = false, failed = false; int next = 0;
      for (auto &o : h) { if (o.k == FEED && !pc[o.a]) fed[o.a] = true; if (o.k == DRAIN) fed[o.a] = false; if (o.k == CLOSE_PEER) pc[o.a] = true; if (is_ext(o.k) && o.k != REOPEN) next++;
        if (o.k == FILL) filled = true; if (o.k == UNFILL) filled = false; if (o.k == PASS_EINTR) failed = true;
        if (o.k == REUSE || o.k == CLOSE_EN) replaced = true; if (o.k == CLOSE_EN) pend = true; if (o.k == REOPEN) pend = false; }
      std::vector<Op> m; for (int e = 0; e < NE; e++) { m.push_back({ENABLE, e}); m.push_back({DISABLE, e}); }
      for (int p = 0; p < nfeed; p++) { if (replaced || (!fed[p] && !pc[p])) m.push_back({FEED, p}); if (replaced || fed[p]) m.push_back({DRAIN, p}); }
      if (lane == 0 && is_socket(cfg, 0)) { if (replaced || !filled) m.push_back({FILL, 0}); if (replaced || filled) m.push_back({UNFILL, 0}); }      // write-readiness of the socket goes away and comes back
      if (!pend || pass_on_closed) { m.push_back({PASS, 0}); if (!failed && (lane == 0 || eintr_lane1)) m.push_back({PASS_EINTR, 0}); }      // bound: one injected wait failure per history
      if (lane == 1 && pend) m.push_back({REOPEN, 0});      // (does not count against the life-cycle bound: a closed descriptor can always be re-opened)
      if (lane == 1 && next < ext_max) { for (int e = 0; e < NE; e++) { m.push_back({REINIT_FD, e}); m.push_back({REINIT_MASK, e}); m.push_back({RECREATE, e}); } for (int p = 0; p < nfeed; p++) if (!is_socket(cfg, p) && (replaced || !pc[p])) m.push_back({CLOSE_PEER, p});
        if (!pend) for (int e = 0; e < NE; e++) { m.push_back({REUSE, e}); if (split_reuse) m.push_back({CLOSE_EN, e}); } }
      return m; };
    ex.sig = [](const std::string &v) { std::string s = v.substr(0, v.find(' ')); return s; };
    auto evaluate = [&](const std::vector<Op> &h, std::string &viol, unsigned &called) {
      static const char *engs[4] = {"epoll", "select", "epoll", "select"}; static const char *tags[4] = {"epoll:", "select:", "epoll/pooled:", "select/pooled:"};
      World w[4]; std::string canon; called = 0;
      for (int i = 0; i < 2 * nvariants; i++) { canon += run_engine(engs[i], i / 2, cfg, sc, h, w[i]) + "||"; called |= w[i].called; if (!w[i].viol.empty() && viol.empty()) viol = tags[i] + w[i].viol; }
      // all loops must deliver the same callbacks, pass by pass, as long as no pass so far could depend on the order in which ready descriptors are served
      for (int i = 1; i < 2 * nvariants && viol.empty(); i++) {
        auto key = [](std::vector<Call> v) { std::vector<int> k; for (auto &c : v) k.push_back(c.e * 8 + c.m); std::sort(k.begin(), k.end()); return k; };
        for (size_t p = 0; p < w[0].passes.size() && p < w[i].passes.size(); p++) {
          if (w[0].skip[p] || w[i].skip[p]) { if (w[0].passes[p].empty() && w[i].passes[p].empty()) continue; break; }      // injected wait failure: nothing is demanded, but if somebody was called the worlds may differ from here on
          if (!w[0].indep[p] || !w[i].indep[p]) break;
          if (key(w[0].passes[p]) != key(w[i].passes[p])) { viol = std::string("backends-disagree ") + tags[0] + "-vs-" + tags[i] + " pass " + std::to_string(p); break; }
        } }
      return canon; };
    std::vector<std::vector<Op>> group;      // what the next child executes
    auto lookup = [&](const std::string &hk, Res &out) {
      bool timer_pass = sc.e == TIMER && (hk.find((char)('a' + PASS)) != std::string::npos || hk.find((char)('a' + PASS_EINTR)) != std::string::npos);      // a timer script's timer runs in every pass
      auto it = g_shared.find(hk); if (!timer_pass && it != g_shared.end() && (sc.act == NONE || !(it->second.called & (1u << sc.e)))) { out = it->second; return true; }
      auto io = g_own.find(std::to_string(si) + ":" + hk); if (io != g_own.end()) { out = io->second; return true; }
      auto ip = g_pending.find(hk); if (ip != g_pending.end()) { out = ip->second; return true; }
      return false; };
    auto store = [&](const std::string &hk, const Res &r) {
      bool acted = sc.act != NONE && (r.called & (1u << sc.e));
      if (share && !acted && g_shared.size() < shared_cap) g_shared[hk] = r;      // (a violation that does not involve the script is shared as well)
      else if (share && g_own.size() < shared_cap) g_own[std::to_string(si) + ":" + hk] = r;
      else g_pending[hk] = r; };
    // runs `group` in one child; false if the child did not deliver one complete result per history
    auto run_group = [&](std::vector<Res> &out, std::string &crash) {
      g_forks++; auto ch = ex.spawn(std::vector<Op>(), 0); hx::Eval e = hx::eval_forked_finish(ch.fo, ch.fe, ch.pid);
      out.clear(); crash = e.viol; if (!e.viol.empty()) return false;
      size_t pos = 0; while (pos < e.canon.size()) { size_t a = e.canon.find('\x03', pos), b = a == std::string::npos ? a : e.canon.find('\x03', a + 1), c = b == std::string::npos ? b : e.canon.find('\x04', b + 1); if (c == std::string::npos) return false;
        out.push_back(Res{e.canon.substr(pos, a - pos), e.canon.substr(a + 1, b - a - 1), (unsigned)strtoul(e.canon.c_str() + b + 1, nullptr, 10)}); pos = c + 1; }
      return out.size() == group.size(); };
    ex.child_timeout_s = 120;
    ex.run = [&](const std::vector<Op> &h, std::string &viol) -> std::string {
      if (getpid() != parent) {          // in the forked child: the real evaluations of the group; results travel back in the "canonical state" of the engine's child protocol
        std::string out;
        for (auto &gh : group) { std::string v; unsigned called = 0; std::string c = evaluate(gh, v, called);
          // the explorer only needs the identity of the canonical state: send the readable model part of the first loop and a 128-bit digest of the whole string
          unsigned long long h1 = 1469598103934665603ULL, h2 = 0x9E3779B97F4A7C15ULL; for (unsigned char ch : c) { h1 = (h1 ^ ch) * 1099511628211ULL; h2 = (h2 + ch) * 0xD6E8FEB86659FD93ULL; h2 ^= h2 >> 29; }
          char b[64]; snprintf(b, sizeof b, " %016llx%016llx", h1, h2); for (auto &x : v) if ((unsigned char)x < 8) x = '?';
          out += c.substr(0, c.find("||")).substr(0, 160) + b + '\x03' + v + '\x03' + std::to_string(called) + '\x04'; }
        return out; }
      g_lookups++;
      std::string hk = hist_key(h); Res r;
      if (lookup(hk, r)) { g_reused++; viol = r.viol; return r.canon; }
      // not known yet: execute it together with its siblings that are not known either (the explorer is going to ask for them next)
      group.clear(); std::vector<std::string> keys;
      if (h.empty() || !batch) { group.push_back(h); keys.push_back(hk); }
      else { std::vector<Op> prefix(h.begin(), h.end() - 1); size_t oi = 0;
        for (auto &op : ex.menu(prefix)) { if (prefix.empty() && nparts > 1 && (int)(oi++ % (size_t)nparts) != part) continue;
          std::vector<Op> g = prefix; g.push_back(op); std::string gk = hist_key(g); Res dummy; if (gk != hk && lookup(gk, dummy)) continue; group.push_back(g); keys.push_back(gk); } }
      std::vector<Res> out; std::string crash;
      if (run_group(out, crash)) { g_evals += group.size(); for (size_t i = 0; i < out.size(); i++) store(keys[i], out[i]); }
      else {      // somebody in the group kills the child: one child per history
        g_regroup++; std::vector<std::vector<Op>> all = group; std::vector<std::string> allk = keys;
        for (size_t i = 0; i < all.size(); i++) { group.assign(1, all[i]); g_evals++;
          bool hp = has_pass(all[i]);      // no pass, no callback: the crash cannot involve the script
          if (run_group(out, crash)) store(allk[i], out[0]); else store(allk[i], Res{"", crash.empty() ? std::string("crash:incomplete-result") : crash, hp ? ~0u : 0u}); } }
      if (!lookup(hk, r)) { viol = "harness-error:group-did-not-contain-the-history"; return ""; }
      viol = r.viol; return r.canon; };
    g_pending.clear();
    ex.explore(rdepth); g_explores++;
    if (rdepth != depth) first_round[si] = std::make_pair(ex.states, ex.transitions);
    else if (!ex.capped && first_round.count(si)) {   // the first round of this script is contained in the completed second one: do not count it twice
      printf("@STAT states=-%zu transitions=-%zu\n", first_round[si].first, first_round[si].second); }
  }
  // the explorer counts every request as an execution; 'executions' is corrected to the number of histories really executed (each on the four loops)
  printf("@STAT executions=-%zu\n@STAT executions=%zu evaluations_reused=%zu children_forked=%zu groups_rerun_one_by_one=%zu\n", g_lookups, g_evals, g_reused, g_forks, g_regroup);
  return 0;
}
