import time, vf
PID = "C03"
NSCRIPTS = 85          # harness.cpp main(): 67 + 3*(1+2) + 3*3 timer scripts
NCFG = 7
def main(tier, args):
    t0 = time.time()
    exe = vf.build("C03/fdevents", [vf.VERIF + "/checks/C03/harness.cpp"], vf.module_sources("event"), mode="asan",
                   plain_srcs=[vf.VERIF + "/engine/sched/log_stub.cpp"])
    # lane 0 = base menu, all scripts; lane 1 = life-cycle menu (re-initialise / re-create / close peer; at most 2 of them per history) on the scripts the harness selects for it.
    # One process per (configuration, lane, partition of the first operation): evaluations that do not depend on the script are shared inside a process.
    depth, depth1, dl, np0, np1, cap = (5, 4, 80, 3, 4, 60000) if tier == "quick" else (7, 5, 1300, 2, 4, 300000)
    res = vf.Result(); log = open(vf.BUILD + "/C03/log.txt", "w")
    jobs = []
    for cfg in range(NCFG):
        for part in range(np1):
            jobs.append(("cfg%d:life-cycle:p%d" % (cfg, part), [exe, str(cfg), str(depth1), "0", str(NSCRIPTS - 1), "1", str(part), str(np1)]))
    for cfg in range(NCFG):
        for part in range(np0):
            jobs.append(("cfg%d:base:p%d" % (cfg, part), [exe, str(cfg), str(depth), "0", str(NSCRIPTS - 1), "0", str(part), str(np0)]))
    if args.only: jobs = [j for j in jobs if j[0] == args.only]
    # the explorer process forks thousands of times: a small quarantine keeps its address space (and so the cost of fork) small
    vf.run_procs(res, jobs, env={"VERIF_DEADLINE_S": str(dl), "VERIF_C03_SHARED_CAP": str(cap),
                                 "ASAN_OPTIONS": "detect_leaks=0:abort_on_error=0:quarantine_size_mb=16",
                                 # thorough: close+enable and re-open also as two separate operations (VERIF_C03_PASS_ON_CLOSED_FD stays off: a loop pass while an
                                 # enabled event sits on a closed descriptor number is outside the property - the number is re-used by the loop's own wake-up fd)
                                 "VERIF_C03_SPLIT_REUSE": "0" if tier == "quick" else "1",
                                 # thorough: the life-cycle lane also feeds / hangs up the third descriptor and injects the wait failure
                                 "VERIF_C03_FEED3": "0" if tier == "quick" else "1", "VERIF_C03_EINTR_LANE1": "0" if tier == "quick" else "1"}, log=log, jobs=16)
    vf.finish(PID, tier, res, t0,
              rule="BFS over all histories (depth %d) of enable/disable/feed/drain/pass/pass-whose-select()/epoll_wait()-call-fails-once-with-EINTR (harness-defined select/epoll_wait; at most one failure per history; base lane, thorough: both lanes; socket configurations also fill/unfill the socket so that write-readiness goes away and comes back) on 7 configurations of 3 real FdEvents (shared descriptor, read/write/read|write/read|except/except-only masks, persistent and one-shot, pipes and a socketpair) x 85 scripts "
                   "(disable self; re-arm self (one-shot enable / persistent disable+enable); disable/enable/disable+enable/destroy another event on the same or on another descriptor ready in the same pass; destroy + create a new event on a third descriptor or on the SAME descriptor; "
                   "destroy + close; re-initialise another event onto a third descriptor and enable it; disable/destroy one event and enable a third one in the same callback; the running event moves ITSELF to a third descriptor, alone or after destroying a sibling; 9 TIMER scripts whose action (destroy / destroy+new-on-same-descriptor / move-to-third-descriptor another event) runs in a 0 ms timer callback, i.e. between the back-end's harvest and its dispatch; scripts that are images of an earlier script under a renaming of identical events are skipped); "
                   "plus a life-cycle lane (depth %d; scripts none/disable-self/re-arm-self/destroy/enable) whose menu adds, at most twice per history, initialize() again onto the next descriptor or with the next mask (also on an enabled event, which must change nothing), "
                   "destroy+re-create an event, closing the peer of a pipe (EOF/HUP readiness; thorough: this lane also feeds / hangs up the third descriptor), and 'close the descriptor of a disabled event, enable() it (the kernel may refuse: the model follows enable()'s return value - true: enabled on that descriptor number, false: not enabled, never to be called), "
                   "re-open a new pipe/socket with the SAME descriptor number' (thorough: also as two operations with anything but a pass in between); after such an operation only the safety clauses are judged in that history. A pipe that already holds a byte is not fed again and an empty one is not drained (harness-side no-ops). "
                   "Each evaluated history runs under ASan on FOUR loops: epoll and select with per-fd records de-pooled and ascending descriptor numbers (the loop's own wake-up fd is the highest), epoll and select with the record pool as shipped (recycling), a 2-entry epoll_wait array (growth branch; a pass with more than 2 served descriptors is not judged for completeness there) "
                   "and DESCENDING descriptor numbers with holes below them (select serves them in the opposite order and the wake-up fd is the lowest). Evaluations run in forked children, one child per group of sibling histories (re-run one history per child if the child dies). "
                   "An evaluation in which the script's actor was never called does not depend on the script and is executed once per process and shared between its scripts ('executions' = histories really executed, each on the four loops; 'evaluations_reused' = requests answered from an earlier execution; 'children_forked' = processes; a timer script never re-uses a history that contains a pass); "
                   "every script is explored to depth-1 first and then to the full depth re-using the first round. "
                   "State key = model + kernel readiness + every event's fd/mask/flags + per-fd record ref/counters/subscriber ORDER + pool occupancy + epoll interest masks as held by the implementation and by the kernel (/proc/self/fdinfo) + the ORDER of the kernel's epoll ready list, sent as a 128-bit digest; private fields are read through engine/probe.h (a missing one makes the key finer: last 3 operations appended). "
                   "Oracle: model-enabled and alive at callback time, reported conditions within the poll() snapshot (read/write/except), one-shot disabled in callback, never twice per pass, no exception, isEnabled agrees; "
                   "in every pass (without injected failure) in which the script's actor was not called, acts only on itself, or is the timer and only removed subscribers, the callbacks must equal {enabled events whose descriptor is ready for a subscribed condition} with exactly those conditions; "
                   "and all four loops deliver the same callbacks per pass up to the first pass in which the actor was called while more than one descriptor was served (a pass with an injected wait failure demands nothing but the safety clauses and ends the comparison only if somebody was called)" % (depth, depth1),
              assumptions=["readiness is the poll(fd,0) snapshot taken immediately before the pass (DESIGN 1.7); EOF/HUP counts as readable",
                           "a closed descriptor's number is not reused within the same pass; no event is left on a descriptor that gets closed",
                           "events do not delete themselves inside their own callback (asserted illegal by the code)",
                           "initialize() on an enabled event changes nothing (the code refuses it); a re-initialised event keeps its persistent/one-shot mode",
                           "peer close is produced on pipes only (error/HUP on the write side of a socket is reported differently by the two kernel interfaces by design)",
                           "what an event that was enable()d on a closed descriptor is due afterwards is not judged (only: no callback unless the model holds it enabled and its descriptor number is ready, none on destroyed events); no loop pass runs while that descriptor is still closed",
                           "an injected EINTR leaves the fd sets / the event array untouched, as the kernel does; nothing is demanded about who is served in such a pass except that nobody is called whose descriptor is not ready",
                           "the code under test is deterministic for a given history (sharing of script-independent evaluations relies on it, as replaying does)"])
