import time, vf
PID = "C03"
NSCRIPTS = 46
def main(tier, args):
    t0 = time.time()
    exe = vf.build("C03/fdevents", [vf.VERIF + "/checks/C03/harness.cpp"], vf.module_sources("event"), mode="asan",
                   plain_srcs=[vf.VERIF + "/engine/sched/log_stub.cpp"])
    depth, dl, chunk = (4, 80, 7) if tier == "quick" else (7, 1300, 3)
    res = vf.Result(); log = open(vf.BUILD + "/C03/log.txt", "w")
    jobs = []
    for cfg in (0, 1, 2, 3, 4, 5):
        for s in range(0, NSCRIPTS, chunk):
            jobs.append(("cfg%d:s%d" % (cfg, s), [exe, str(cfg), str(depth), str(s), str(s + chunk - 1)]))
    if args.only: jobs = [j for j in jobs if j[0] == args.only]
    vf.run_procs(res, jobs, env={"VERIF_DEADLINE_S": str(dl), "VERIF_WORKERS": "2"}, log=log, jobs=16)
    vf.finish(PID, tier, res, t0,
              rule="BFS over all histories (depth %d) of enable/disable/feed/drain/pass on 6 configurations of 3 real FdEvents (shared descriptor, read/write/read|write masks, persistent and one-shot, pipes and a socketpair) x 46 callback scripts "
                   "(disable self; disable/enable/destroy another event on the same or on another descriptor ready in the same pass; destroy + create a new event on a third descriptor; destroy + close; disable/destroy one event and enable a third one in the same callback), "
                   "each history executed on BOTH back-ends in a forked child under ASan with per-fd records de-pooled; oracle: model-enabled at callback time, poll() snapshot readiness, one-shot disabled in callback, no exception, "
                   "isEnabled agrees, and epoll == select callbacks per pass for order-independent scripts" % depth,
              assumptions=["readiness is the poll(fd,0) snapshot taken immediately before the pass (DESIGN 1.7)", "a closed descriptor's number is not reused within the same pass", "events do not delete themselves inside their own callback (asserted illegal by the code)"])
