// C08: handles never dangle or alias (engine H, in-process BFS over op histories on the REAL classes).
//   harness cabinet <depth> <k>/<n> [cfg]         tbox::cabinet::Cabinet against a boring per-handle status table (partition k of n);
//                                                 cfg = plain | wrap (id counter starts two below its maximum) | reserve<N> (reserve(N) first) |
//                                                 basic (no object-less entries in the alphabet) | reserve-mid (spare cell capacity, capped,
//                                                 is part of the state key, so histories continue after a reserve in mid-history)
//   harness pool    <depth> <keep|max> [probe]    tbox::ObjectPool<T>, T = probe16 | small1 | odd17 | wide40 (each counts ctor/dtor, stamps every byte
//                                                 it owns; constructor / destructor can re-enter the pool)
//   harness fd <depth> <cf|sys|cfnull>[:fail][:V:D]  tbox::util::Fd, V (3) handle variables on D (2) descriptor numbers (0, 1000[, 1001]) plus Fd(-1),
//                                                 Fd::Open of a missing file and of /dev/null; cf = injected CloseFunc, sys = no CloseFunc,
//                                                 cfnull = an EMPTY CloseFunc passed to the two-argument constructor; fail = ::close answers -1;
//                                                 ::close interposed below, every close is recorded with the channel it came through
// Every history is replayed on fresh real objects and judged against the model; the search extends explored histories by one op, so every
// prefix of a history has been judged as a history of its own.
#include "hist/hist.h"
#include "probe.h"
#include <tbox/base/cabinet.hpp>
#include <tbox/base/object_pool.hpp>
#include <tbox/util/fd.h>
#include <cstdint>
#include <limits>
#include <map>
#include <set>
#include <unordered_set>
#include <memory>
#include <fcntl.h>
#include <sys/syscall.h>
#include <cerrno>

struct Op { int k, a, b; };

static std::map<std::string, long> g_out;   // outcome classes (non-vacuity evidence): class -> occurrences
static long g_lookups = 0;
static void emit_outcomes(const std::string &name) {
  std::string line;
  for (auto &kv : g_out) { printf("@OUTCOME %s\n", kv.first.c_str()); line += " " + kv.first + "=" + std::to_string(kv.second); }
  printf("@INFO %s: outcome counts:%s\n", name.c_str(), line.c_str());
}

// =====================================================================================================
// ::close seam. While an Fd operation of the fd lane runs (g_fd_op) EVERY ::close is recorded with its channel; only the one kernel
// descriptor that lane has opened itself (g_real_fd) is then passed on, so descriptor 0 can be handed to Fd without the process
// losing its stdin. Outside such an operation fake descriptors (>= 1000) are swallowed and everything else is forwarded.
enum { CH_SYS = 0, CH_FUNC = 1 };           // how a close request arrived: the interposed ::close / the injected CloseFunc
struct CloseCall { int chan; int fd; };
static std::vector<CloseCall> g_close_calls;   // close requests during the current op, in order
static bool g_fd_op = false; static int g_real_fd = -1;
// Failing collaborator (lanes "...:fail"): every ::close issued by an Fd operation is recorded, carried out where it is real, and then
// answered with -1 and errno EINTR / EIO in turn - which is how Linux reports a close that has nevertheless released the descriptor.
static bool g_close_fails = false; static long g_close_fail_n = 0;
extern "C" int close(int fd) {
  if (g_fd_op) {
    g_close_calls.push_back(CloseCall{CH_SYS, fd});
    int r = 0;
    if (fd >= 0 && fd == g_real_fd) { g_real_fd = -1; r = (int)syscall(SYS_close, fd); }
    if (g_close_fails) { errno = (g_close_fail_n++ % 2) ? EIO : EINTR; return -1; }
    return r; }
  if (fd >= 1000) return 0;
  return (int)syscall(SYS_close, fd);
}

// =====================================================================================================
namespace cab {
using tbox::cabinet::Cabinet; using tbox::cabinet::Token;
enum { ALLOC, FREE, UPDATE, CLEAR, FE_NONE, FE_ALL, FE_EVEN, FE_ODD, FE_NEXT, FE_PREV, FREE_NULL, UPDATE_NULL, ALLOC_EMPTY, UPDATE_EMPTY, RESERVE, NK };
static const char *kN[] = {"alloc", "free", "update", "clear", "foreach", "foreachRmAll", "foreachRmEven", "foreachRmOdd", "foreachRmNext", "foreachRmPrev", "freeNull", "updateNull",
                           "allocEmpty", "updateToEmpty", "reserve"};
struct Obj { int handle; int serial; };
enum { LIVE = 0, FREED = 1, CLEARED = 2 };
// one entry per token EVER issued; never erased. obj == nullptr while LIVE: the entry holds no object yet (alloc() / update(t, nullptr)).
// clr: a clear() ran after it was freed
struct H { Token tok; int st; Obj *obj; bool clr; };
struct Cfg { size_t reserve_n; bool wrap; bool basic; bool spare_in_key; };   // reserve(n) before the first op; wrap: the id counter starts two below its maximum;
                                                            // basic: no entries without object in the alphabet (smaller space, searched deeper)

// Private members of the cabinet feed the state key only (plus the preset of the wrap lane); they are reached through probes so that the
// harness still builds - with a key made from the public API and the last ops - when a refactoring renames them (engine/probe.h).
VF_PROBE(last_id_) VF_PROBE(first_free_) VF_PROBE(count_) VF_PROBE(cells_)
template <class C> static auto cells_key(C &c, std::string &s, int) -> decltype((void)c.cells_.begin()->id, (void)c.cells_.begin()->next_free, true) {
  char b[48]; for (auto &cell : c.cells_) { if (cell.id) snprintf(b, sizeof b, "%zu ", (size_t)cell.id); else snprintf(b, sizeof b, "f%zd ", (ssize_t)cell.next_free); s += b; } return true; }
template <class C> static bool cells_key(C &, std::string &s, long) { vf_note_missing("cells_/Cell::id/Cell::next_free"); s += "? "; return false; }
template <class C> static auto spare_cells(C &c, int) -> decltype((size_t)(c.cells_.capacity() - c.cells_.size())) { return c.cells_.capacity() - c.cells_.size(); }
template <class C> static size_t spare_cells(C &, long) { vf_note_missing("cells_.capacity()"); return 0; }
template <class C, class V> static auto preset_last_id(C &c, V v, int) -> decltype((void)(c.last_id_ = v), true) { c.last_id_ = v; return true; }
template <class C, class V> static bool preset_last_id(C &, V, long) { return false; }

// Token value semantics (the token is used as std::set / std::map / unordered_map key in-tree): decided on the (id, pos) pairs,
// never by the token's own operator==. `t` is compared with every token in `all` (itself included) and with the null token.
static bool token_algebra(const Token &t, const std::vector<H> &all, std::string &viol) {
  auto same = [](const Token &a, const Token &b) { return a.id() == b.id() && a.pos() == b.pos(); };
  auto pair = [&](const Token &a, const Token &b) -> const char * {
    bool eq = same(a, b), lt = a < b, gt = b < a;
    if ((a == b) != eq || a.equal(b) != eq) return "cabinet-token-equality-differs-from-id-pos-pair";
    if ((a != b) == eq) return "cabinet-token-inequality-operator-inconsistent";
    if (a.less(b) != lt) return "cabinet-token-less-differs-from-operator";
    if ((int)eq + (int)lt + (int)gt != 1) return "cabinet-token-order-not-a-strict-order";      // exactly one of a<b, b<a, a==b
    if ((a > b) != gt || (a <= b) != (lt || eq) || (a >= b) != (gt || eq)) return "cabinet-token-derived-comparison-inconsistent";
    if (eq && (a.hash() != b.hash() || std::hash<Token>()(a) != std::hash<Token>()(b))) return "cabinet-token-equal-tokens-hash-differently";
    return nullptr; };
  if ((bool)t != !t.isNull()) { viol = "cabinet-token-bool-differs-from-isNull"; return false; }
  Token cp = t;
  if (const char *e = pair(t, cp)) { viol = e; return false; }
  if (std::hash<Token>()(t) != t.hash()) { viol = "cabinet-token-std-hash-differs-from-hash"; return false; }
  if (const char *e = pair(t, Token())) { viol = e; return false; }
  if (const char *e = pair(Token(), t)) { viol = e; return false; }
  for (auto &x : all) { if (const char *e = pair(t, x.tok)) { viol = e; return false; } if (const char *e = pair(x.tok, t)) { viol = e; return false; } }
  for (auto &x : all) for (auto &y : all) {           // transitivity through the new token, in every position
    const Token &a = x.tok, &b = y.tok;
    if ((a < t && t < b && !(a < b)) || (t < a && a < b && !(t < b)) || (a < b && b < t && !(a < t))) { viol = "cabinet-token-order-not-transitive"; return false; } }
  cp.reset();
  if (!cp.isNull() || (bool)cp || !same(cp, Token())) { viol = "cabinet-token-reset-does-not-give-the-null-token"; return false; }
  return true;
}

static std::string run(const std::vector<Op> &h, std::string &viol, const Cfg &cfg) {
  Cabinet<Obj> c;
  if (cfg.wrap) preset_last_id(c, std::numeric_limits<tbox::cabinet::Id>::max() - 2, 0);   // ids issued: max-1, max, then the counter wraps (main_ has made sure the field exists)
  if (cfg.reserve_n) c.reserve(cfg.reserve_n);
  std::deque<Obj> arena; std::set<const Obj *> known; std::vector<H> hs; int serial = 0;
  // The pairwise / container clauses of the oracle and the outcome counters are evaluated after the LAST op of the history only: the
  // search extends representative histories one op at a time, so every proper prefix has been through them as a history of its own
  // (a prefix with a violation is never extended). The per-op clauses on return values run at every op.
  bool last = h.empty();
#define COUNT(k) do { if (last) g_out[k]++; } while (0)
  auto mk = [&](int handle) { arena.push_back(Obj{handle, ++serial}); known.insert(&arena.back()); return &arena.back(); };
  auto slot_reused = [&](const H &x) { for (auto &y : hs) if (y.st == LIVE && y.tok.pos() == x.tok.pos()) return true; return false; };
  auto stale = [&](size_t i, const char *what) {
    const H &x = hs[i];
    return std::string("cabinet-") + what + (x.st == CLEARED ? "-after-clear" : x.clr ? "-after-free-and-later-clear" : slot_reused(x) ? "-after-slot-reuse" : "-after-free") +
           " handle#" + std::to_string(i) + " token(id=" + std::to_string(x.tok.id()) + ",pos=" + std::to_string(x.tok.pos()) + ")"; };
  auto tk = [&](size_t i) { return " handle#" + std::to_string(i) + " token(id=" + std::to_string(hs[i].tok.id()) + ",pos=" + std::to_string(hs[i].tok.pos()) + ")"; };
  // the lookup clauses: at(t) / operator[] for every token ever issued, size(), empty(), the null token. Also evaluated IN FLIGHT, inside a
  // foreach callback right after it freed an entry (in-tree callbacks free the entry and delete the object on the spot)
  auto check_lookups = [&]() {
    size_t live = 0; for (auto &x : hs) if (x.st == LIVE) live++;
    for (size_t i = 0; i < hs.size(); i++) {               // at(t) for every token ever issued
      H &x = hs[i]; Obj *p = c.at(x.tok); g_lookups++;
      if (x.st == LIVE) {
        if (x.tok.isNull()) { viol = "cabinet-live-token-is-null" + tk(i); return; }
        if (x.obj == nullptr) { if (p != nullptr) { viol = "cabinet-entry-without-object-resolves-to-an-object" + tk(i); return; } }
        else if (p == nullptr) { viol = "cabinet-live-token-resolves-to-nothing" + tk(i); return; }
        else if (p != x.obj) { viol = "cabinet-live-token-resolves-to-wrong-object" + tk(i); return; }
      } else if (p != nullptr) { viol = stale(i, "stale-token-resolves"); return; }
      if (c[x.tok] != p) { viol = "cabinet-operator-index-differs-from-at" + tk(i); return; }
    }
    if (c.size() != live) { viol = "cabinet-size-mismatch size()=" + std::to_string(c.size()) + " live=" + std::to_string(live); return; }
    if (c.empty() != (live == 0)) { viol = "cabinet-empty-mismatch"; return; }
    if (c.at(Token()) != nullptr) { viol = "cabinet-null-token-resolves"; return; }
  };
  auto check = [&]() {
    check_lookups(); if (!viol.empty()) return;
    size_t live = 0; for (auto &x : hs) if (x.st == LIVE) live++;
    for (size_t i = 0; i < hs.size(); i++) for (size_t j = i + 1; j < hs.size(); j++)      // decided on the (id, pos) pairs
      if (hs[i].st == LIVE && hs[j].st == LIVE && hs[i].tok.id() == hs[j].tok.id() && hs[i].tok.pos() == hs[j].tok.pos()) { viol = "cabinet-duplicate-live-token" + tk(i) + tk(j); return; }
    // the live tokens as keys of ordered / hashed containers (how in-tree holders keep them): none may collapse, stale ones are not found
    std::set<Token> os; std::unordered_set<Token> us;
    for (auto &x : hs) if (x.st == LIVE) { os.insert(x.tok); us.insert(x.tok); }
    if (os.size() != live) { viol = "cabinet-live-tokens-collapse-as-ordered-keys set=" + std::to_string(os.size()) + " live=" + std::to_string(live); return; }
    if (us.size() != live) { viol = "cabinet-live-tokens-collapse-as-hashed-keys set=" + std::to_string(us.size()) + " live=" + std::to_string(live); return; }
    for (size_t i = 0; i < hs.size(); i++) {
      bool want = hs[i].st == LIVE;
      if ((os.count(hs[i].tok) != 0) != want) { viol = std::string(want ? "cabinet-live-token-not-found-as-ordered-key" : "cabinet-stale-token-found-among-live-ordered-keys") + tk(i); return; }
      if ((us.count(hs[i].tok) != 0) != want) { viol = std::string(want ? "cabinet-live-token-not-found-as-hashed-key" : "cabinet-stale-token-found-among-live-hashed-keys") + tk(i); return; }
    }
  };
  auto do_free = [&](size_t i, const char *ctx) {           // free through handle i, oracle on the result
    H &x = hs[i]; Obj *r = c.free(x.tok);
    if (x.st == LIVE) { COUNT(std::string("cabinet:") + ctx + (x.obj ? "(live)->object" : "(live,no-object)->null"));
      if (r != x.obj) { viol = std::string("cabinet-free-of-live-token-returns-") + (r ? "wrong-object" : "nothing") + tk(i); return; }
      x.st = FREED; }
    else { COUNT(std::string("cabinet:") + ctx + (x.st == CLEARED ? "(cleared)->null" : slot_reused(x) ? "(freed,slot-reused)->null" : "(freed)->null"));
      if (r != nullptr) { viol = stale(i, "free-of-stale-token-returns-object"); return; } }
  };
  auto issued = [&](Token t, Obj *ob) {                       // a token just handed out by alloc
    hs.push_back(H{t, LIVE, ob, false});
    if (last) token_algebra(t, hs, viol); };
  for (auto &o : h) {
    last = &o == &h.back();
    switch (o.k) {
      case ALLOC: { Obj *ob = mk((int)hs.size()); Token t = c.alloc(ob); issued(t, ob); COUNT("cabinet:alloc"); } break;
      case ALLOC_EMPTY: { Token t = c.alloc(); issued(t, nullptr); COUNT("cabinet:alloc()-without-object"); } break;
      case FREE: do_free((size_t)o.a, "free"); break;
      case UPDATE: case UPDATE_EMPTY: { H &x = hs[o.a]; Obj *ob = o.k == UPDATE ? mk(o.a) : nullptr; bool ok = c.update(x.tok, ob);
        const char *nm = o.k == UPDATE ? "cabinet:update" : "cabinet:update-to-no-object";
        if (x.st == LIVE) { COUNT(std::string(nm) + (x.obj ? "(live)->true" : "(live,no-object)->true")); if (!ok) { viol = "cabinet-update-of-live-token-fails" + tk(o.a); break; } x.obj = ob; }
        else { COUNT(std::string(nm) + (x.st == CLEARED ? "(cleared)->false" : slot_reused(x) ? "(freed,slot-reused)->false" : "(freed)->false"));
          if (ok) { viol = stale(o.a, "update-of-stale-token-succeeds"); break; } } } break;
      case CLEAR: c.clear(); for (auto &x : hs) { if (x.st == LIVE) x.st = CLEARED; else if (x.st == FREED) x.clr = true; } COUNT("cabinet:clear"); break;
      case RESERVE: c.reserve(o.a ? 1 : hs.size() + 2); COUNT(o.a ? "cabinet:reserve(1)" : "cabinet:reserve(beyond-cells-in-use)"); break;   // more than the cells in use / fewer (or as many): nothing observable may change
      case FREE_NULL: if (c.free(Token()) != nullptr) viol = "cabinet-free-of-null-token-returns-object"; break;
      case UPDATE_NULL: { Obj *ob = mk(-1); if (c.update(Token(), ob)) viol = "cabinet-update-of-null-token-succeeds"; } break;
      default: {   // foreach, the callback only removes (DESIGN 1.7)
        // Entries that hold no object are delivered as null pointers (present code) and cannot be told apart, so they are judged by
        // number: never more null pointers than such entries were live at the start (one more would be a visit of a cell that holds
        // no entry). Whether foreach delivers them at all is not part of the statement. To pick what to remove, a null visit is taken
        // to be the lowest-pos such entry not yet accounted for (a wrong guess only changes which entry gets removed).
        std::set<int> visited; std::set<int> live_at_start; int nvis = 0, prev = -1; size_t null_visits = 0;
        for (size_t i = 0; i < hs.size(); i++) if (hs[i].st == LIVE) live_at_start.insert((int)i);
        std::set<int> guessed;
        auto free_in_flight = [&](int i, const char *ctx) {
          do_free((size_t)i, ctx); if (!viol.empty()) return;
          check_lookups(); if (!viol.empty()) viol += " (inside foreach, right after the callback freed handle#" + std::to_string(i) + ")"; };
        c.foreach([&](Obj *p) {
          if (!viol.empty()) return;
          int me = -1;
          if (p == nullptr) {
            null_visits++;
            for (int i : live_at_start) if (hs[i].obj == nullptr && hs[i].st == LIVE && !guessed.count(i) && (me < 0 || hs[i].tok.pos() < hs[me].tok.pos())) me = i;
            if (me >= 0) guessed.insert(me);
          } else {
            if (!known.count(p)) { viol = "cabinet-foreach-passes-unknown-pointer"; return; }
            me = p->handle;
            if (me < 0 || me >= (int)hs.size() || hs[me].st != LIVE || hs[me].obj != p) { viol = "cabinet-foreach-visits-removed-object handle#" + std::to_string(me); return; }
            if (!visited.insert(me).second) { viol = "cabinet-foreach-visits-object-twice handle#" + std::to_string(me); return; }
          }
          int idx = nvis++;
          if (me >= 0) switch (o.k) {
            case FE_ALL: free_in_flight(me, "foreach-remove"); break;
            case FE_EVEN: if (idx % 2 == 0) free_in_flight(me, "foreach-remove"); break;
            case FE_ODD: if (idx % 2 == 1) free_in_flight(me, "foreach-remove"); break;
            case FE_NEXT: { int nx = -1;   // the live entry that would be visited next (smallest pos above mine)
              for (size_t i = 0; i < hs.size(); i++) if (hs[i].st == LIVE && hs[i].tok.pos() > hs[me].tok.pos() && (nx < 0 || hs[i].tok.pos() < hs[nx].tok.pos())) nx = (int)i;
              if (nx >= 0) free_in_flight(nx, "foreach-remove-other"); } break;
            case FE_PREV: if (prev >= 0 && hs[prev].st == LIVE) free_in_flight(prev, "foreach-remove-other"); break;
            default: break;
          }
          prev = me; });
        if (!viol.empty()) break;
        size_t empties_at_start = 0;
        for (int i : live_at_start) {
          if (hs[i].obj == nullptr) { empties_at_start++; continue; }
          if (hs[i].st == LIVE && !visited.count(i)) { viol = "cabinet-foreach-skips-live-object handle#" + std::to_string(i); break; } }
        if (!viol.empty()) break;
        if (null_visits > empties_at_start) { viol = "cabinet-foreach-delivers-more-null-pointers-than-entries-without-object got=" + std::to_string(null_visits) + " entries=" + std::to_string(empties_at_start); break; }
        if (null_visits) COUNT("cabinet:foreach-delivers-entry-without-object");
        COUNT(std::string("cabinet:") + kN[o.k]);
      } break;
    }
    if (!viol.empty()) break;
    if (last) check();
    if (!viol.empty()) break;
  }
  if (h.empty()) check();
  // canonical state: complete implementation state + every token held by the harness with its model status
  // (E = live without an object: no control flow of the present code reads obj_ptr, but the oracle's expectations differ)
  std::string s; char b[96];
  snprintf(b, sizeof b, "L%zu F%zd N%zu [", VF_GET(last_id_, c, (size_t)0), (ssize_t)VF_GET(first_free_, c, (size_t)0), VF_GET(count_, c, c.size())); s += b;
  cells_key(c, s, 0);
  if (cfg.spare_in_key) { size_t sp = spare_cells(c, 0); snprintf(b, sizeof b, "+%zu", sp > 3 ? (size_t)3 : sp); s += b; }   // room left before the cell vector reallocates (capped)
  s += "] T{";
  std::vector<std::string> ts;
  for (auto &x : hs) { snprintf(b, sizeof b, "%zu@%zu%c", x.tok.id(), x.tok.pos(), x.st == LIVE && !x.obj ? 'E' : "LFC"[x.st]); ts.push_back(b); }
  std::sort(ts.begin(), ts.end());
  for (auto &t : ts) { s += t; s += ' '; }
  s += "}";
  // a private field is gone: states the key can no longer tell apart must not be merged, so the last ops of the history are appended
  if (vf_any_missing()) for (size_t i = h.size() >= 4 ? h.size() - 4 : 0; i < h.size(); i++) { snprintf(b, sizeof b, "/%d:%d", h[i].k, h[i].a); s += b; }
  return s;
}

// The search can be split over processes: the canonical states at depth PART_DEPTH are dealt out by hash; a process
// expands only its share (and everything below it). Every history extends exactly one such state, so the union of the
// partitions is the whole space; states at depth <= PART_DEPTH, and states reachable from two partitions, are counted
// once per partition that reaches them.
static const size_t PART_DEPTH = 6;
static void main_(size_t depth, const char *part_s, const char *cfg_s) {
  Cfg cfg{0, false, false, false}; unsigned part = 0, nparts = 1; sscanf(part_s, "%u/%u", &part, &nparts); if (nparts < 1) nparts = 1;
  if (!strcmp(cfg_s, "wrap")) cfg.wrap = true; else if (!strcmp(cfg_s, "basic")) cfg.basic = true; else if (!strcmp(cfg_s, "reserve-mid")) cfg.spare_in_key = true; else if (!strncmp(cfg_s, "reserve", 7)) cfg.reserve_n = (size_t)atol(cfg_s + 7);
  hx::Explorer<Op> ex; ex.name = std::string("cabinet") + (*cfg_s && strcmp(cfg_s, "plain") ? std::string("-") + cfg_s : "") + "/part" + std::to_string(part) + "of" + std::to_string(nparts);
  ex.deadline_s = hx::deadline_from_env(600);
  { Cabinet<Obj> probe_c;    // the wrap lane needs to preset the private id counter; without that field the lane cannot be set up
    if (cfg.wrap && !preset_last_id(probe_c, (tbox::cabinet::Id)1, 0)) { printf("@INFO %s: SKIPPED - the id counter (last_id_) cannot be preset, field not found\n@CAP %s: lane skipped, last_id_ not found\n", ex.name.c_str(), ex.name.c_str()); return; } }
  ex.show = [](const Op &o) { char b[40]; if (o.k == FREE || o.k == UPDATE || o.k == UPDATE_EMPTY) snprintf(b, 40, "%s(#%d)", kN[o.k], o.a); else if (o.k == RESERVE) snprintf(b, 40, o.a ? "reserve(1)" : "reserve(cells+2)"); else snprintf(b, 40, "%s", kN[o.k]); return std::string(b); };
  ex.menu = [&](const std::vector<Op> &h) {
    int n = 0; for (auto &o : h) if (o.k == ALLOC || o.k == ALLOC_EMPTY) n++;
    std::vector<Op> m;
    if (nparts > 1 && h.size() == PART_DEPTH) { std::string v; if (std::hash<std::string>()(run(h, v, cfg)) % nparts != part) return m; }
    m.push_back({ALLOC, 0, 0}); if (!cfg.basic) m.push_back({ALLOC_EMPTY, 0, 0});
    for (int i = 0; i < n; i++) m.push_back({FREE, i, 0});          // every token ever issued, stale ones included
    m.push_back({CLEAR, 0, 0});
    for (int i = 0; i < n; i++) m.push_back({UPDATE, i, 0});
    if (!cfg.basic) for (int i = 0; i < n; i++) m.push_back({UPDATE_EMPTY, i, 0});
    for (int k : {FE_ALL, FE_EVEN, FE_ODD, FE_NEXT, FE_PREV, FE_NONE, FREE_NULL, UPDATE_NULL, RESERVE}) m.push_back({k, 0, 0});
    m.push_back({RESERVE, 1, 0});
    return m; };
  ex.run = [&](const std::vector<Op> &h, std::string &v) { return run(h, v, cfg); };
  ex.explore(depth);
  printf("@STAT lookups=%ld\n", g_lookups);
  emit_outcomes(ex.name);
}
#undef COUNT
}  // namespace cab

// =====================================================================================================
namespace pool {
static long g_ctor = 0, g_dtor = 0;
static std::set<const void *> g_inuse;      // storage of objects the harness has not freed yet (plus the one under construction)
static std::string *g_viol = nullptr;
static void flag(const char *s) { if (g_viol && g_viol->empty()) *g_viol = s; }
// Re-entrancy hooks: what the constructor / destructor of the NEXT probe object does before it returns (run once, then cleared).
//   constructor hook: the object allocates a child from the same pool (a node that builds its child). While the outer constructor
//                     runs its storage is in use, so the nested alloc() must not hand it out again.
//   destructor hook:  the object frees another object of the same pool (a node that destroys its child).
// All four combinations occur (constructor allocates / frees, destructor frees / allocates), some two levels deep: a hook may arm the
// next hook before it re-enters the pool. The constructor hook may also throw.
static std::function<void()> g_in_ctor, g_in_dtor;
static int g_arg0 = 0;                      // what the zero-argument constructor stamps (alloc() without arguments)
// Storage is in use from the moment its constructor starts until its destructor has finished (or its constructor has thrown).
struct CtorFailure {};                      // what a failing element constructor throws (ALLOC_THROW)
static long g_ctor_failed = 0; static const void *g_failed_at = nullptr;   // storage in which the last failing constructor ran
static void on_ctor(const void *self) { g_ctor++;
  if (g_inuse.count(self)) flag("pool-constructs-in-storage-still-in-use");
  g_inuse.insert(self);
  if (g_in_ctor) { std::function<void()> f; f.swap(g_in_ctor);
    try { f(); } catch (...) { g_inuse.erase(self); g_ctor_failed++; g_failed_at = self; throw; } } }
static void on_dtor(const void *self, bool alive) { g_dtor++;
  if (!alive) flag("pool-destructs-object-that-is-not-alive");
  if (g_in_dtor) { std::function<void()> f; f.swap(g_in_dtor); f(); }
  g_inuse.erase(self); }
// every probe: one-argument and zero-argument constructors; stamps every byte it owns
#define PROBE_LIFECYCLE(P) \
  explicit P(int s) { on_ctor(this); stamp(s); } \
  P() { on_ctor(this); stamp(g_arg0); } \
  ~P() { on_dtor(this, alive()); wipe(); }
static const uint64_t MAGIC = 0x5AFEC0DE12345678ull; static const int ALIVE = 0x600DF00D, DEAD = 0x0DEAD0DE;
struct Probe16 {                            // exactly two pointers wide; head overlays Block::next of the pool's free list
  uint64_t head; int serial; int live;
  void stamp(int s) { head = MAGIC ^ (uint64_t)s; serial = s; live = ALIVE; }
  bool ok(int s) const { return live == ALIVE && serial == s && head == (MAGIC ^ (uint64_t)s); }
  bool alive() const { return live == ALIVE; }
  void wipe() { live = DEAD; head = 0; }
  PROBE_LIFECYCLE(Probe16)
};
struct Small {                              // smaller than the free-list link: a block sized for T alone cannot hold Block::next
  uint8_t v;
  void stamp(int s) { v = (uint8_t)(0x80 | (s & 0x7f)); }
  bool ok(int s) const { return v == (uint8_t)(0x80 | (s & 0x7f)); }
  bool alive() const { return (v & 0x80) != 0; }
  void wipe() { v = 0x0D; }
  PROBE_LIFECYCLE(Small)
};
struct Odd17 {                              // one byte more than a multiple of the link size, alignment 1: a block one byte short is overrun
  unsigned char b[17];
  void stamp(int s) { for (int i = 0; i < 17; i++) b[i] = (unsigned char)(0x80 | ((s + 7 * i) & 0x7f)); }
  bool ok(int s) const { for (int i = 0; i < 17; i++) if (b[i] != (unsigned char)(0x80 | ((s + 7 * i) & 0x7f))) return false; return true; }
  bool alive() const { return (b[0] & 0x80) && (b[16] & 0x80); }
  void wipe() { memset(b, 0x0D, sizeof b); }
  PROBE_LIFECYCLE(Odd17)
};
struct Wide40 {                             // several links wide, 8-aligned
  uint64_t w[5];
  void stamp(int s) { for (int i = 0; i < 5; i++) w[i] = MAGIC ^ (uint64_t)(s * 5 + i); }
  bool ok(int s) const { for (int i = 0; i < 5; i++) if (w[i] != (MAGIC ^ (uint64_t)(s * 5 + i))) return false; return true; }
  bool alive() const { return (w[4] >> 32) == (MAGIC >> 32); }
  void wipe() { for (int i = 0; i < 5; i++) w[i] = 0; }
  PROBE_LIFECYCLE(Wide40)
};
enum { ALLOC, FREE, ALLOC_NEST, ALLOC0, FREE_NEST, ALLOC_THROW, ALLOC_NEST2, ALLOC_CTOR_FREES, FREE_NEST2, FREE_DTOR_ALLOCS, FREE_DTOR_ALLOC_CTOR_FREES };

// The chain of parked blocks hangs off a private field. It feeds ADDITIONAL clauses (a live or unknown or repeated block on the chain, its
// length against free_number_ / keep_number_) and labels; the clauses of the statement itself - storage in use is never handed out,
// one constructor and one destructor per pair, every byte stamp intact - do not need it. If the names go, the walk is switched off.
VF_PROBE(free_header_) VF_PROBE(free_number_) VF_PROBE(keep_number_)
template <class Pool> static auto walk_chain(Pool &pool, std::vector<const void *> &out, const std::function<bool(const void *)> &follow, int)
    -> decltype((void)pool.free_header_->next, true) {
  for (auto *b = pool.free_header_; b != nullptr && out.size() < 64; b = b->next) { out.push_back(b); if (!follow(b)) break; }
  return true; }
template <class Pool> static bool walk_chain(Pool &, std::vector<const void *> &, const std::function<bool(const void *)> &, long) { vf_note_missing("free_header_/Block::next"); return false; }

template <class P>
static std::string run(const std::vector<Op> &h, std::string &viol, size_t keep, bool dflt) {
  typedef tbox::ObjectPool<P> Pool;
  g_ctor = g_dtor = g_ctor_failed = 0; g_inuse.clear(); g_viol = &viol; g_in_ctor = nullptr; g_in_dtor = nullptr;
  struct L { P *p; int serial; };
  std::vector<L> live; std::set<const void *> blk; int serial = 0; long allocs = 0, frees = 0;
  std::string canon;
  {
    Pool *pp = dflt ? new Pool() : new Pool(keep); Pool &pool = *pp;
    bool can_walk = true;
    auto is_live = [&](const void *q) { for (auto &l : live) if (l.p == q) return true; return false; };
    auto walk = [&](std::vector<const void *> &out) {        // the parked list; bounded (cycle guard); a link is only followed
      out.clear();                                           // out of a block this harness has seen and that is not in use
      can_walk = walk_chain(pool, out, [&](const void *b) {
        if (is_live(b)) { if (viol.empty()) viol = "pool-live-object-is-on-free-list"; return false; }
        if (!blk.count(b)) { if (viol.empty()) viol = "pool-free-list-has-unknown-block"; return false; }
        return true; }, 0); };
    auto check = [&]() {
      for (auto &l : live) if (!l.p->ok(l.serial)) { viol = "pool-live-object-corrupted serial=" + std::to_string(l.serial); return; }
      for (size_t i = 0; i < live.size(); i++) for (size_t j = i + 1; j < live.size(); j++) if (live[i].p == live[j].p) { viol = "pool-hands-out-storage-still-in-use"; return; }
      if (g_ctor - g_ctor_failed != allocs || g_dtor != frees) { viol = "pool-ctor-dtor-count ctor=" + std::to_string(g_ctor) + " (failed " + std::to_string(g_ctor_failed) + ") dtor=" + std::to_string(g_dtor) + " allocs=" + std::to_string(allocs) + " frees=" + std::to_string(frees); return; }
      std::vector<const void *> fl; walk(fl); if (!viol.empty() || !can_walk) return;
      if (VF_HAS(free_number_, pool) && fl.size() != VF_GET(free_number_, pool, (size_t)0)) { viol = "pool-free-list-length-differs-from-free-number"; return; }
      if (fl.size() > keep) { viol = "pool-parks-more-than-keep-number"; return; }
      std::set<const void *> u(fl.begin(), fl.end());
      if (u.size() != fl.size()) { viol = "pool-free-list-has-duplicate-block"; return; }
      for (auto &l : live) if (u.count(l.p)) { viol = "pool-live-object-is-on-free-list"; return; }
    };
    // One op = one outermost call into the pool; everything else happens re-entrantly from the constructor / destructor hooks.
    // born: objects whose alloc() returned (innermost first). died: live objects handed to free(). The verdict on the op is the same for all.
    struct Born { P *p; int serial; };
    auto exec = [&](const Op &o, const char *ctx) {
      std::vector<Born> born; std::vector<L> died; std::vector<size_t> died_idx; bool threw = false, want_throw = false;
      long c0 = g_ctor, d0 = g_dtor; size_t n = live.size();
      std::vector<const void *> fl0; walk(fl0); if (!viol.empty()) return;
      const char *src = !can_walk ? "" : fl0.empty() ? "<-malloc" : "<-parked-block";
      auto A = [&](int s) { P *x = pool.alloc(s); born.push_back(Born{x, s}); };
      auto die = [&](size_t i) { died.push_back(live[i]); died_idx.push_back(i); return live[i].p; };
      std::string label;
      switch (o.k) {
        case ALLOC: { int s = ++serial; A(s); label = std::string("pool:alloc") + src; } break;
        case ALLOC0: { int s = ++serial; g_arg0 = s; P *x = pool.alloc(); g_arg0 = -1; born.push_back(Born{x, s}); label = std::string("pool:alloc()") + src; } break;
        case ALLOC_THROW: { int s = ++serial; want_throw = true; g_in_ctor = []() { throw CtorFailure(); };
          g_failed_at = nullptr;
          try { P *x = pool.alloc(s); if (x) born.push_back(Born{x, s}); } catch (CtorFailure &) { threw = true; }
          if (g_failed_at) blk.insert(g_failed_at);   // a block the harness has seen: an exception-safe pool may park it (present code loses it)
          label = std::string("pool:alloc(ctor-throws)") + src; } break;
        case ALLOC_NEST: { int outer = ++serial, inner = ++serial; g_in_ctor = [&, inner]() { A(inner); }; A(outer); label = "pool:alloc-nested"; } break;
        case ALLOC_NEST2: { int s1 = ++serial, s2 = ++serial, s3 = ++serial;
          g_in_ctor = [&, s2, s3]() { g_in_ctor = [&, s3]() { A(s3); }; A(s2); }; A(s1); label = "pool:alloc-nested-two-deep"; } break;
        case ALLOC_CTOR_FREES: { int s = ++serial; P *victim = die((size_t)o.a); g_in_ctor = [&, victim]() { pool.free(victim); }; A(s); label = "pool:alloc(ctor-frees-another)"; } break;
        case FREE: pool.free(die((size_t)o.a)); label = "pool:free"; break;
        case FREE_NEST: { P *a = die((size_t)o.a), *b = die((size_t)o.b); g_in_dtor = [&, b]() { pool.free(b); }; pool.free(a); label = "pool:free-nested"; } break;
        case FREE_NEST2: { P *a = die((size_t)o.a), *b = die(((size_t)o.a + 1) % n), *c = die(((size_t)o.a + 2) % n);
          g_in_dtor = [&, b, c]() { g_in_dtor = [&, c]() { pool.free(c); }; pool.free(b); }; pool.free(a); label = "pool:free-nested-two-deep"; } break;
        case FREE_DTOR_ALLOCS: { int s = ++serial; P *a = die((size_t)o.a); g_in_dtor = [&, s]() { A(s); }; pool.free(a); label = "pool:free(dtor-allocs)"; } break;
        case FREE_DTOR_ALLOC_CTOR_FREES: { int s = ++serial; P *a = die((size_t)o.a), *b = die(((size_t)o.a + 1) % n);
          g_in_dtor = [&, s, b]() { g_in_ctor = [&, b]() { pool.free(b); }; A(s); }; pool.free(a); label = "pool:free(dtor-allocs,ctor-of-that-frees-another)"; } break;
      }
      bool hooks_left = (bool)g_in_ctor || (bool)g_in_dtor; g_in_ctor = nullptr; g_in_dtor = nullptr;
      if (!viol.empty()) return;
      long want_c = (long)born.size() + (threw ? 1 : 0);
      if (want_throw && !threw && !born.empty()) { viol = std::string("pool-alloc-hands-out-an-object-whose-constructor-threw") + ctx; return; }
      if (want_throw && g_dtor != d0) { viol = std::string("pool-runs-destructor-for-an-object-whose-constructor-threw") + ctx; return; }
      for (auto &b : born) if (b.p == nullptr) { viol = std::string("pool-alloc-returns-null") + ctx; return; }
      for (size_t i = 0; i < born.size(); i++) for (size_t j = i + 1; j < born.size(); j++) if (born[i].p == born[j].p) { viol = std::string("pool-nested-alloc-hands-out-the-storage-under-construction") + ctx; return; }
      for (auto &b : born) for (auto &l : live) if (l.p == b.p) { viol = std::string("pool-hands-out-storage-still-in-use") + ctx; return; }   // live still holds the objects that died in this op:
      if (hooks_left) { viol = std::string(born.empty() && !want_throw ? "pool-free-runs-no-destructors" : "pool-alloc-runs-no-constructors") + ctx; return; }   // none of them was finished when a nested alloc ran
      if (g_ctor != c0 + want_c) { viol = std::string(born.size() > 1 ? "pool-nested-alloc-constructor-count" : g_ctor < c0 + want_c ? "pool-alloc-runs-no-constructors" : died.empty() ? "pool-alloc-runs-several-constructors" : "pool-free-runs-constructor") + ctx; return; }
      if (g_dtor != d0 + (long)died.size()) { viol = std::string(died.empty() ? "pool-alloc-runs-destructor" : g_dtor == d0 ? "pool-free-runs-no-destructors" : g_dtor < d0 + (long)died.size() ? "pool-free-runs-too-few-destructors" : "pool-free-runs-several-destructors") + ctx; return; }
      for (auto &b : born) if (!b.p->ok(b.serial)) { viol = std::string(born.size() > 1 ? "pool-nested-alloc-object-not-constructed-with-arguments" : "pool-alloc-object-not-constructed-with-arguments") + ctx; return; }
      std::sort(died_idx.begin(), died_idx.end()); for (size_t k = died_idx.size(); k-- > 0;) live.erase(live.begin() + died_idx[k]);
      for (auto &b : born) { blk.insert(b.p); live.push_back(L{b.p, b.serial}); g_inuse.insert(b.p); }
      allocs += (long)born.size(); frees += (long)died.size();
      std::vector<const void *> fl; walk(fl); if (!viol.empty()) return;
      for (auto &x : died) {
        bool parked = std::find(fl.begin(), fl.end(), (const void *)x.p) != fl.end();
        if (can_walk) { g_out[label + (parked ? "->parked" : "->released")]++; if (!parked && !is_live(x.p)) blk.erase(x.p); } }   // really given back to malloc; the address may come back as a new block
      if (died.empty() || !can_walk) g_out[label]++;
    };
    for (auto &o : h) {
      exec(o, o.k == FREE_NEST ? " (the destructor frees another object of the pool)" : "");
      if (!viol.empty()) break;
      check(); if (!viol.empty()) break;
    }
    // canonical state. The pool's whole state is keep_number_, free_number_ and the chain of parked blocks; the harness adds the set of
    // live objects. The pool never looks at a block's address or history, and every oracle clause about the chain (length, duplicates,
    // live or unknown blocks on it) has just been evaluated, so states are identified up to renaming of blocks: chain length + number
    // of live objects. (Every live object is offered to free() in every state, whichever history represents it.)
    { std::vector<const void *> fl; walk(fl); char b[96]; snprintf(b, sizeof b, "K%zd n%zu parked%zu live%zu", (ssize_t)VF_GET(keep_number_, pool, keep), VF_GET(free_number_, pool, (size_t)0), fl.size(), live.size()); canon = b;
      if (vf_any_missing()) for (size_t i = h.size() >= 4 ? h.size() - 4 : 0; i < h.size(); i++) { snprintf(b, sizeof b, "/%d:%d", h[i].k, h[i].a); canon += b; } }
    // teardown: give everything back, destroy the pool (ASan sees double free / use after free); pairs must balance
    if (viol.empty()) {
      while (!live.empty() && viol.empty()) exec(Op{FREE, (int)live.size() - 1, 0}, " (end-of-history teardown: free of a remaining live object)");
      if (viol.empty() && (g_ctor - g_ctor_failed != allocs || g_dtor != allocs)) viol = "pool-ctor-dtor-unbalanced-at-end ctor=" + std::to_string(g_ctor) + " dtor=" + std::to_string(g_dtor) + " allocs=" + std::to_string(allocs);
    }
    if (viol.empty()) {                     // after a violation the pool is leaked on purpose: its list is suspect
      long d0 = g_dtor;
      delete pp;
      if (g_dtor != d0) viol = "pool-destructor-runs-object-destructors";
    }
  }
  g_viol = nullptr; g_in_ctor = nullptr; g_in_dtor = nullptr;
  return canon;
}

static void main_(size_t depth, const char *keep_s, const char *probe) {
  bool dflt = !strcmp(keep_s, "max"); size_t keep = dflt ? std::numeric_limits<size_t>::max() : (size_t)atol(keep_s);
  hx::Explorer<Op> ex; ex.name = std::string("pool-") + probe + "/keep" + keep_s;
  ex.deadline_s = hx::deadline_from_env(600);
  ex.show = [](const Op &o) { char b[96];
    switch (o.k) {
      case ALLOC: snprintf(b, 96, "alloc"); break;
      case ALLOC0: snprintf(b, 96, "alloc(no-arguments)"); break;
      case ALLOC_THROW: snprintf(b, 96, "alloc(ctor-throws)"); break;
      case ALLOC_NEST: snprintf(b, 96, "alloc(ctor-allocs-a-child)"); break;
      case ALLOC_NEST2: snprintf(b, 96, "alloc(ctor-allocs-a-child-whose-ctor-allocs-a-child)"); break;
      case ALLOC_CTOR_FREES: snprintf(b, 96, "alloc(ctor-frees-live[%d])", o.a); break;
      case FREE_NEST: snprintf(b, 96, "free(live[%d],dtor-frees-live[%d])", o.a, o.b); break;
      case FREE_NEST2: snprintf(b, 96, "free(live[%d],dtor-frees-the-next-whose-dtor-frees-the-one-after)", o.a); break;
      case FREE_DTOR_ALLOCS: snprintf(b, 96, "free(live[%d],dtor-allocs)", o.a); break;
      case FREE_DTOR_ALLOC_CTOR_FREES: snprintf(b, 96, "free(live[%d],dtor-allocs-an-object-whose-ctor-frees-the-next)", o.a); break;
      default: snprintf(b, 96, "free(live[%d])", o.a); break; }
    return std::string(b); };
  ex.menu = [&](const std::vector<Op> &h) {
    int n = 0;
    for (auto &o : h) switch (o.k) {
      case ALLOC: case ALLOC0: n += 1; break; case ALLOC_NEST: n += 2; break; case ALLOC_NEST2: n += 3; break; case ALLOC_THROW: case ALLOC_CTOR_FREES: case FREE_DTOR_ALLOCS: break;
      case FREE: case FREE_DTOR_ALLOC_CTOR_FREES: n -= 1; break; case FREE_NEST: n -= 2; break; case FREE_NEST2: n -= 3; break; }
    std::vector<Op> m; for (int k : {ALLOC, ALLOC0, ALLOC_NEST, ALLOC_THROW, ALLOC_NEST2}) m.push_back({k, 0, 0});
    for (int i = 0; i < n; i++) m.push_back({FREE, i, 0});          // each live object (index into the live list)
    for (int i = 0; i < n; i++) m.push_back({ALLOC_CTOR_FREES, i, 0});
    for (int i = 0; i < n; i++) m.push_back({FREE_DTOR_ALLOCS, i, 0});
    if (n >= 2) for (int i = 0; i < n; i++) m.push_back({FREE_DTOR_ALLOC_CTOR_FREES, i, 0});
    if (n >= 3) for (int i = 0; i < n; i++) m.push_back({FREE_NEST2, i, 0});
    // blocks are interchangeable for the pool, so the victim of the nested free is a neighbour in the live list (either side), not every other object
    for (int i = 0; i < n; i++) { if (n >= 2) m.push_back({FREE_NEST, i, (i + 1) % n}); if (n >= 3) m.push_back({FREE_NEST, i, (i + n - 1) % n}); }
    return m; };
  std::string pr = probe;
  if (pr == "probe16") ex.run = [&](const std::vector<Op> &h, std::string &v) { return run<Probe16>(h, v, keep, dflt); };
  else if (pr == "small1") ex.run = [&](const std::vector<Op> &h, std::string &v) { return run<Small>(h, v, keep, dflt); };
  else if (pr == "odd17") ex.run = [&](const std::vector<Op> &h, std::string &v) { return run<Odd17>(h, v, keep, dflt); };
  else if (pr == "wide40") ex.run = [&](const std::vector<Op> &h, std::string &v) { return run<Wide40>(h, v, keep, dflt); };
  else { printf("@INFO pool: unknown probe %s\n", probe); return; }
  ex.explore(depth);
  emit_outcomes(ex.name);
}
}  // namespace pool

// =====================================================================================================
namespace fdh {
using tbox::util::Fd;
enum { OPEN, DEF, CPC, MVC, CPA, MVA, SELF_CPA, SELF_MVA, SWAP, RESET, CLOSE, DESTROY, OPEN_INVALID, OPEN_FAIL, OPEN_FILE, NK };
static const char *kN[] = {"open", "default", "copyctor", "movector", "copyassign", "moveassign", "selfcopyassign", "selfmoveassign", "swap", "reset", "close", "destroy",
                           "openInvalid", "OpenMissingFile", "OpenFile"};
static const int MAXV = 4, MAXD = 3;
static int NV = 3, ND = 2;   // handle variables / fake descriptors in use
// The descriptor numbers handed to Fd(fd[, cf]). 0 is the smallest valid descriptor (the boundary of the `fd >= 0` guards); while
// an Fd operation runs the ::close seam keeps every number of this table away from the kernel.
static const int kDesc[MAXD] = {0, 1000, 1001};
enum { K_SYS = 0, K_CF = 1, K_CFNULL = 2 };
static const int REAL = MAXD;   // pseudo descriptor index of the record made by Fd::Open() on a real file (number chosen by the kernel)

// Boring reference: variables point at shared records; a record's descriptor is closed by an explicit close()
// or when its last holder lets go, whichever comes first, and never again. A record made from -1 holds no descriptor: born closed.
struct Model {
  struct Rec { int desc; int refs; bool closed; int chan; int num; };
  std::vector<Rec> recs; bool exists[MAXV]; int rec[MAXV]; int open_rec[MAXD + 1];
  int kind;    // lane: K_CF = Fd(fd, recorder), K_SYS = Fd(fd), K_CFNULL = Fd(fd, CloseFunc()) / Fd(fd, nullptr) - an empty close function means ::close
  bool use_cf;
  std::vector<CloseCall> expect;    // close calls the op just applied must produce, in order
  explicit Model(int k) : kind(k), use_cf(k == K_CF) { for (int i = 0; i < MAXV; i++) { exists[i] = false; rec[i] = -1; } for (int d = 0; d <= MAXD; d++) open_rec[d] = -1; }
  void do_close(int r) { Rec &x = recs[r]; if (!x.closed) { x.closed = true; expect.push_back(CloseCall{x.chan, x.num}); open_rec[x.desc] = -1; } }
  void release(int r) { if (r < 0) return; if (--recs[r].refs == 0) do_close(r); }
  bool enabled(const Op &o) const {
    switch (o.k) {
      case OPEN: return open_rec[o.b] < 0;                 // a descriptor number is only re-issued after it was closed
      case OPEN_FILE: return open_rec[REAL] < 0;           // at most one kernel descriptor at a time: the kernel then always issues the same number
      case OPEN_INVALID: case OPEN_FAIL: return true;
      case DEF: return !exists[o.a];
      case CPC: case MVC: return !exists[o.a] && exists[o.b];
      case CPA: case MVA: return o.a != o.b && exists[o.a] && exists[o.b];
      case SWAP: return exists[o.a] && exists[o.b];
      default: return exists[o.a];
    } }
  void bind(int v, int r) { if (exists[v]) release(rec[v]); exists[v] = true; rec[v] = r; }    // v = <temporary holding record r> (or a new variable)
  void apply(const Op &o, int real_num = -1) {
    expect.clear(); int v = o.a, w = o.b;
    switch (o.k) {
      case OPEN: { recs.push_back(Rec{w, 1, false, use_cf ? CH_FUNC : CH_SYS, kDesc[w]}); int r = (int)recs.size() - 1; open_rec[w] = r; bind(v, r); } break;
      case OPEN_FILE: { recs.push_back(Rec{REAL, 1, false, CH_SYS, real_num}); int r = (int)recs.size() - 1; open_rec[REAL] = r; bind(v, r); } break;   // Open() attaches no CloseFunc
      case OPEN_INVALID: { recs.push_back(Rec{-1, 1, true, use_cf ? CH_FUNC : CH_SYS, -1}); bind(v, (int)recs.size() - 1); } break;
      case OPEN_FAIL: bind(v, -1); break;                   // Open() of a missing file gives a handle that holds nothing
      case DEF: exists[v] = true; rec[v] = -1; break;
      case CPC: exists[v] = true; rec[v] = rec[w]; if (rec[w] >= 0) recs[rec[w]].refs++; break;
      case MVC: exists[v] = true; rec[v] = rec[w]; rec[w] = -1; break;
      case CPA: if (rec[w] >= 0) recs[rec[w]].refs++; release(rec[v]); rec[v] = rec[w]; break;
      case MVA: release(rec[v]); rec[v] = rec[w]; rec[w] = -1; break;
      case SELF_CPA: case SELF_MVA: break;
      case SWAP: std::swap(rec[v], rec[w]); break;
      case RESET: release(rec[v]); rec[v] = -1; break;
      case CLOSE: if (rec[v] >= 0) do_close(rec[v]); break;
      case DESTROY: release(rec[v]); rec[v] = -1; exists[v] = false; break;
    } }
  int expected_get(int v) const { return (rec[v] < 0 || recs[rec[v]].closed) ? -1 : recs[rec[v]].num; }
  bool is_open(int num) const { for (auto &x : recs) if (!x.closed && x.num == num) return true; return false; }
};

// the private record of a handle, for the state key only
template <class F> static auto fd_detail(const F &f, const void *&d, int) -> decltype((void)f.detail_, true) { d = f.detail_; return true; }
template <class F> static bool fd_detail(const F &, const void *&, long) { vf_note_missing("Fd::detail_"); return false; }
template <class F> static auto fd_record_key(const F &f, std::string &s, int) -> decltype((void)f.detail_->fd, (void)f.detail_->ref_count, (void)(bool)f.detail_->close_func) {
  char b[64]; snprintf(b, sizeof b, " fd%d rc%d cf%d", (int)f.detail_->fd, (int)f.detail_->ref_count, f.detail_->close_func ? 1 : 0); s += b; }
template <class F> static void fd_record_key(const F &f, std::string &s, long) {
  vf_note_missing("Fd::Detail::fd/ref_count/close_func"); char b[64]; snprintf(b, sizeof b, " get%d null%d", f.get(), (int)f.isNull()); s += b; }

static std::string show(const Op &o) {
  char b[48]; const char V[] = "ABCD";
  switch (o.k) {
    case OPEN: snprintf(b, 48, "open(%c,%d)", V[o.a], kDesc[o.b]); break;
    case CPC: case MVC: case CPA: case MVA: case SWAP: snprintf(b, 48, "%s(%c,%c)", kN[o.k], V[o.a], V[o.b]); break;
    default: snprintf(b, 48, "%s(%c)", kN[o.k], V[o.a]); break;
  }
  return b;
}

// the number the kernel will give to the next descriptor it opens (lowest unused); runs outside any Fd operation, so the seam forwards
static int next_kernel_fd() { int n = dup(1); if (n >= 0) ::close(n); return n; }

static std::string run(const std::vector<Op> &h, std::string &viol, int kind) {
  const bool use_cf = kind == K_CF; g_close_fail_n = 0;
  Model m(kind); Fd *var[MAXV] = {nullptr, nullptr, nullptr, nullptr};
  std::map<int, int> issued, closed_n;          // harness-side truth per descriptor number: times handed to an Fd / close calls seen
  Fd::CloseFunc cf = [](int fd) { g_close_calls.push_back(CloseCall{CH_FUNC, fd}); };
  auto mkfd = [&](int num) { return use_cf ? Fd(num, cf) : kind == K_SYS ? Fd(num) : num == 1000 ? Fd(num, nullptr) : Fd(num, Fd::CloseFunc()); };
  auto judge = [&](const Op &o) {                       // recorded close calls of this op against the model
    // classify the first unexpected / missing call with harness-side truth so the signature names the failure
    std::vector<CloseCall> got = g_close_calls, exp = m.expect;
    for (auto &g : got) {
      int fd = g.fd;
      if (!issued.count(fd)) { viol = "fd-close-called-for-descriptor-never-opened fd=" + std::to_string(fd) + (g.chan == CH_SYS ? " through ::close" : " through the CloseFunc") + " during " + show(o); return; }
      auto it = exp.begin(); while (it != exp.end() && it->fd != fd) ++it;
      if (it == exp.end()) {
        if (m.is_open(fd)) viol = "fd-closed-while-another-copy-still-expects-it-open fd=" + std::to_string(fd) + " during " + show(o);
        else viol = "fd-closed-twice fd=" + std::to_string(fd) + " during " + show(o);
        return; }
      if (it->chan != g.chan) { viol = std::string(it->chan == CH_FUNC ? "fd-closed-by-::close-instead-of-its-CloseFunc" : "fd-closed-by-a-CloseFunc-instead-of-::close") + " fd=" + std::to_string(fd) + " during " + show(o); return; }
      closed_n[fd]++;
      exp.erase(it);
    }
    if (!exp.empty()) { viol = std::string(o.k == CLOSE ? "fd-explicit-close-does-not-close" : "fd-not-closed-when-last-copy-goes-away") + " fd=" + std::to_string(exp[0].fd) + " during " + show(o); return; }
    for (auto &e : m.expect) g_out[std::string("fd:") + kN[o.k] + "->closes" + (e.fd == 0 ? "(descriptor 0)" : e.fd < 1000 ? "(kernel descriptor)" : "")]++;
    if (m.expect.empty()) g_out[std::string("fd:") + kN[o.k] + "->no-close"]++;
  };
  for (auto &o : h) {
    if (!m.enabled(o)) { viol = "harness-disabled-op-in-history"; break; }
    g_close_calls.clear();
    int v = o.a, w = o.b, real_num = -1;
    auto put = [&](Fd &&f) { if (var[v]) *var[v] = std::move(f); else var[v] = new Fd(std::move(f)); };
    if (o.k == OPEN_FILE) real_num = next_kernel_fd();
    g_fd_op = true;
    switch (o.k) {
      case OPEN: issued[kDesc[w]]++; put(mkfd(kDesc[w])); break;
      case OPEN_INVALID: put(mkfd(-1)); break;
      case OPEN_FAIL: put(Fd::Open("/nonexistent-dir-c08/nothing", O_RDONLY)); break;
      case OPEN_FILE: issued[real_num]++; g_real_fd = real_num; put(Fd::Open("/dev/null", O_RDONLY)); break;
      case DEF: var[v] = new Fd(); break;
      case CPC: var[v] = new Fd(*var[w]); break;
      case MVC: var[v] = new Fd(std::move(*var[w])); break;
      case CPA: *var[v] = *var[w]; break;
      case MVA: *var[v] = std::move(*var[w]); break;
      case SELF_CPA: { Fd &r = *var[v]; *var[v] = r; } break;
      case SELF_MVA: { Fd &r = *var[v]; *var[v] = std::move(r); } break;
      case SWAP: var[v]->swap(*var[w]); break;
      case RESET: var[v]->reset(); break;
      case CLOSE: var[v]->close(); break;
      case DESTROY: delete var[v]; var[v] = nullptr; break;
    }
    g_fd_op = false;
    m.apply(o, real_num);
    judge(o); if (!viol.empty()) break;
    for (int i = 0; i < NV && viol.empty(); i++) if (var[i]) {
      int e = m.expected_get(i);
      if (var[i]->get() != e || var[i]->isNull() != (e == -1)) viol = std::string("fd-handle-reports-wrong-descriptor var=") + "ABCD"[i] + " get()=" + std::to_string(var[i]->get()) + " expected=" + std::to_string(e) + " after " + show(o);
    }
    if (!viol.empty()) break;
  }
  // canonical state: per variable absent / null / record (named by first appearance); per record the real fd,
  // ref_count and whether a close function is still attached; per descriptor whether it is open in the model
  // (read through fd_key: if the private record goes by other names the key is made from the model's records, get()/isNull() and the last ops)
  std::string s; std::map<const void *, int> name; std::vector<const Fd *> order; bool have_detail = true;
  for (int i = 0; i < NV && have_detail; i++) {
    if (!var[i]) { s += "- "; continue; }
    const void *d = nullptr; have_detail = fd_detail(*var[i], d, 0); if (!have_detail) break;
    if (!d) { s += "n "; continue; }
    if (!name.count(d)) { int k = (int)name.size(); name[d] = k; order.push_back(var[i]); }
    s += "r" + std::to_string(name[d]) + " ";
  }
  s += "|";
  if (have_detail) for (auto *f : order) fd_record_key(*f, s, 0);
  else {
    s = "model:";
    for (int i = 0; i < NV; i++) { char b[64]; if (!var[i]) { s += " -"; continue; } int r = m.rec[i];
      if (r < 0) snprintf(b, sizeof b, " n"); else snprintf(b, sizeof b, " r%d(refs%d,%s,ch%d)", r, m.recs[r].refs, m.recs[r].closed ? "closed" : "open", m.recs[r].chan);
      s += b; snprintf(b, sizeof b, "/get%d", var[i]->get()); s += b; }
    for (size_t i = h.size() >= 4 ? h.size() - 4 : 0; i < h.size(); i++) { char b[32]; snprintf(b, sizeof b, " /%d:%d:%d", h[i].k, h[i].a, h[i].b); s += b; }
  }
  s += " |";
  for (int d = 0; d < ND; d++) s += m.open_rec[d] >= 0 ? " open" : issued.count(kDesc[d]) ? " closed" : " fresh";
  s += m.open_rec[REAL] >= 0 ? " file-open" : "";
  if (have_detail && vf_any_missing()) for (size_t i = h.size() >= 4 ? h.size() - 4 : 0; i < h.size(); i++) { char b[32]; snprintf(b, sizeof b, " /%d:%d:%d", h[i].k, h[i].a, h[i].b); s += b; }
  // teardown: the last copies go away; every descriptor generation must have been closed exactly once by now
  if (viol.empty()) {
    for (int i = 0; i < NV && viol.empty(); i++) if (var[i]) {
      Op o{DESTROY, i, 0}; g_close_calls.clear(); g_fd_op = true; delete var[i]; var[i] = nullptr; g_fd_op = false; m.apply(o); judge(o); }
    for (auto &kv : issued) if (viol.empty() && closed_n[kv.first] != kv.second) viol = "fd-never-closed-after-all-copies-destroyed fd=" + std::to_string(kv.first);
  } else { for (int i = 0; i < NV; i++) var[i] = nullptr; /* leak on purpose: the state is suspect */ }
  if (g_real_fd >= 0) { syscall(SYS_close, g_real_fd); g_real_fd = -1; }   // whatever the verdict, the kernel descriptor does not outlive the history
  return s;
}

static void main_(size_t depth, const char *mode) {
  // mode = cf|sys|cfnull[:fail][:<variables>:<descriptors>]
  int kind = !strncmp(mode, "cfnull", 6) ? K_CFNULL : !strncmp(mode, "cf", 2) ? K_CF : K_SYS;
  const char *rest = strchr(mode, ':');
  if (rest && !strncmp(rest, ":fail", 5)) { g_close_fails = true; rest = strchr(rest + 1, ':'); }
  if (rest) sscanf(rest, ":%d:%d", &NV, &ND);
  if (NV < 1 || NV > MAXV || ND < 1 || ND > MAXD) { printf("@INFO fd: bad size\n"); return; }
  hx::Explorer<Op> ex; ex.name = std::string("fd/") + mode;
  ex.deadline_s = hx::deadline_from_env(600);
  ex.show = show;
  ex.menu = [&](const std::vector<Op> &h) {
    Model m(kind); for (auto &o : h) m.apply(o);
    std::vector<Op> all, out;
    for (int v = 0; v < NV; v++) for (int d = 0; d < ND; d++) all.push_back({OPEN, v, d});
    for (int k : {CPC, MVC, CPA, MVA}) for (int v = 0; v < NV; v++) for (int w = 0; w < NV; w++) if (v != w) all.push_back({k, v, w});
    for (int k : {CLOSE, RESET, DESTROY, SELF_CPA, SELF_MVA, DEF, OPEN_INVALID, OPEN_FAIL, OPEN_FILE}) for (int v = 0; v < NV; v++) all.push_back({k, v, 0});
    for (int v = 0; v < NV; v++) for (int w = v; w < NV; w++) all.push_back({SWAP, v, w});   // w == v: self swap
    for (auto &o : all) if (m.enabled(o)) out.push_back(o);
    return out; };
  ex.run = [&](const std::vector<Op> &h, std::string &v) { return run(h, v, kind); };
  ex.explore(depth);
  emit_outcomes(ex.name);
}
}  // namespace fdh

int main(int argc, char **argv) {
  if (argc < 4) { fprintf(stderr, "usage: %s cabinet|pool|fd <depth> <param>\n", argv[0]); return 0; }
  std::string sub = argv[1]; size_t depth = (size_t)atol(argv[2]);
  hx::install_crash_reporter(("C08-" + sub + "-crash").c_str());
  setvbuf(stdout, nullptr, _IOLBF, 0);
  if (sub == "cabinet") cab::main_(depth, argv[3], argc > 4 ? argv[4] : "plain");
  else if (sub == "pool") pool::main_(depth, argv[3], argc > 4 ? argv[4] : "probe16");
  else if (sub == "fd") fdh::main_(depth, argv[3]);
  return 0;
}
