// C08: handles never dangle or alias (engine H, in-process BFS over op histories on the REAL classes).
//   harness cabinet <depth> <k>/<n>        tbox::cabinet::Cabinet against a boring per-handle status table (partition k of n)
//   harness pool    <depth> <keep|max>     tbox::ObjectPool<Probe> (probe counts ctor/dtor, stamps a live flag)
//   harness fd      <depth> <cf|sys>[:V:D] tbox::util::Fd, V (3) handle variables on D (2) fake descriptors (1000, 1001, ..);
//                                          cf = injected CloseFunc, sys = no CloseFunc, ::close interposed below
// Every history is replayed on fresh real objects; after EVERY op the oracle compares with the model.
#include "hist/hist.h"
#include <tbox/base/cabinet.hpp>
#include <tbox/base/object_pool.hpp>
#include <tbox/util/fd.h>
#include <cstdint>
#include <limits>
#include <map>
#include <set>
#include <sys/syscall.h>

struct Op { int k, a, b; };

static std::map<std::string, long> g_out;   // outcome classes (non-vacuity evidence): class -> occurrences
static long g_lookups = 0;
static void emit_outcomes(const std::string &name) {
  std::string line;
  for (auto &kv : g_out) { printf("@OUTCOME %s\n", kv.first.c_str()); line += " " + kv.first + "=" + std::to_string(kv.second); }
  printf("@INFO %s: outcome counts:%s\n", name.c_str(), line.c_str());
}

// =====================================================================================================
// ::close seam. Fake descriptors (>= 1000) never reach the kernel; everything else is forwarded.
static std::vector<int> g_close_calls;      // descriptors for which a close was requested during the current op
extern "C" int close(int fd) {
  if (fd >= 1000) { g_close_calls.push_back(fd); return 0; }
  return (int)syscall(SYS_close, fd);
}

// =====================================================================================================
namespace cab {
using tbox::cabinet::Cabinet; using tbox::cabinet::Token;
enum { ALLOC, FREE, UPDATE, CLEAR, FE_NONE, FE_ALL, FE_EVEN, FE_ODD, FE_NEXT, FE_PREV, FREE_NULL, UPDATE_NULL, NK };
static const char *kN[] = {"alloc", "free", "update", "clear", "foreach", "foreachRmAll", "foreachRmEven", "foreachRmOdd", "foreachRmNext", "foreachRmPrev", "freeNull", "updateNull"};
struct Obj { int handle; int serial; };
enum { LIVE = 0, FREED = 1, CLEARED = 2 };
struct H { Token tok; int st; Obj *obj; bool clr; };   // one entry per token EVER issued; never erased. clr: a clear() ran after it was freed

static std::string run(const std::vector<Op> &h, std::string &viol, size_t reserve_n) {
  Cabinet<Obj> c; if (reserve_n) c.reserve(reserve_n);
  std::deque<Obj> arena; std::set<const Obj *> known; std::vector<H> hs; int serial = 0;
  auto mk = [&](int handle) { arena.push_back(Obj{handle, ++serial}); known.insert(&arena.back()); return &arena.back(); };
  auto slot_reused = [&](const H &x) { for (auto &y : hs) if (y.st == LIVE && y.tok.pos() == x.tok.pos()) return true; return false; };
  auto stale = [&](size_t i, const char *what) {
    const H &x = hs[i];
    return std::string("cabinet-") + what + (x.st == CLEARED ? "-after-clear" : x.clr ? "-after-free-and-later-clear" : slot_reused(x) ? "-after-slot-reuse" : "-after-free") +
           " handle#" + std::to_string(i) + " token(id=" + std::to_string(x.tok.id()) + ",pos=" + std::to_string(x.tok.pos()) + ")"; };
  auto tk = [&](size_t i) { return " handle#" + std::to_string(i) + " token(id=" + std::to_string(hs[i].tok.id()) + ",pos=" + std::to_string(hs[i].tok.pos()) + ")"; };
  auto check = [&]() {
    size_t live = 0; for (auto &x : hs) if (x.st == LIVE) live++;
    for (size_t i = 0; i < hs.size(); i++) {               // at(t) for every token ever issued
      H &x = hs[i]; Obj *p = c.at(x.tok); g_lookups++;
      if (x.st == LIVE) {
        if (x.tok.isNull()) { viol = "cabinet-live-token-is-null" + tk(i); return; }
        if (p == nullptr) { viol = "cabinet-live-token-resolves-to-nothing" + tk(i); return; }
        if (p != x.obj) { viol = "cabinet-live-token-resolves-to-wrong-object" + tk(i); return; }
      } else if (p != nullptr) { viol = stale(i, "stale-token-resolves"); return; }
      if (c[x.tok] != p) { viol = "cabinet-operator-index-differs-from-at" + tk(i); return; }
    }
    for (size_t i = 0; i < hs.size(); i++) for (size_t j = i + 1; j < hs.size(); j++)
      if (hs[i].st == LIVE && hs[j].st == LIVE && hs[i].tok == hs[j].tok) { viol = "cabinet-duplicate-live-token" + tk(i) + tk(j); return; }
    if (c.size() != live) { viol = "cabinet-size-mismatch size()=" + std::to_string(c.size()) + " live=" + std::to_string(live); return; }
    if (c.empty() != (live == 0)) { viol = "cabinet-empty-mismatch"; return; }
    if (c.at(Token()) != nullptr) { viol = "cabinet-null-token-resolves"; return; }
  };
  auto do_free = [&](size_t i, const char *ctx) {           // free through handle i, oracle on the result
    H &x = hs[i]; Obj *r = c.free(x.tok);
    if (x.st == LIVE) { g_out[std::string("cabinet:") + ctx + "(live)->object"]++;
      if (r != x.obj) { viol = std::string("cabinet-free-of-live-token-returns-") + (r ? "wrong-object" : "nothing") + tk(i); return; }
      x.st = FREED; }
    else { g_out[std::string("cabinet:") + ctx + (x.st == CLEARED ? "(cleared)->null" : slot_reused(x) ? "(freed,slot-reused)->null" : "(freed)->null")]++;
      if (r != nullptr) { viol = stale(i, "free-of-stale-token-returns-object"); return; } }
  };
  for (auto &o : h) {
    switch (o.k) {
      case ALLOC: { Obj *ob = mk((int)hs.size()); Token t = c.alloc(ob); hs.push_back(H{t, LIVE, ob, false}); g_out["cabinet:alloc"]++; } break;
      case FREE: do_free((size_t)o.a, "free"); break;
      case UPDATE: { H &x = hs[o.a]; Obj *ob = mk(o.a); bool ok = c.update(x.tok, ob);
        if (x.st == LIVE) { g_out["cabinet:update(live)->true"]++; if (!ok) { viol = "cabinet-update-of-live-token-fails" + tk(o.a); break; } x.obj = ob; }
        else { g_out[x.st == CLEARED ? "cabinet:update(cleared)->false" : slot_reused(x) ? "cabinet:update(freed,slot-reused)->false" : "cabinet:update(freed)->false"]++;
          if (ok) { viol = stale(o.a, "update-of-stale-token-succeeds"); break; } } } break;
      case CLEAR: c.clear(); for (auto &x : hs) { if (x.st == LIVE) x.st = CLEARED; else if (x.st == FREED) x.clr = true; } g_out["cabinet:clear"]++; break;
      case FREE_NULL: if (c.free(Token()) != nullptr) viol = "cabinet-free-of-null-token-returns-object"; break;
      case UPDATE_NULL: { Obj *ob = mk(-1); if (c.update(Token(), ob)) viol = "cabinet-update-of-null-token-succeeds"; } break;
      default: {   // foreach, the callback only removes (DESIGN 1.7)
        std::set<int> visited; std::set<int> live_at_start; int nvis = 0, prev = -1;
        for (size_t i = 0; i < hs.size(); i++) if (hs[i].st == LIVE) live_at_start.insert((int)i);
        c.foreach([&](Obj *p) {
          if (!viol.empty()) return;
          if (!known.count(p)) { viol = "cabinet-foreach-passes-unknown-pointer"; return; }
          int me = p->handle;
          if (me < 0 || me >= (int)hs.size() || hs[me].st != LIVE || hs[me].obj != p) { viol = "cabinet-foreach-visits-removed-object handle#" + std::to_string(me); return; }
          if (!visited.insert(me).second) { viol = "cabinet-foreach-visits-object-twice handle#" + std::to_string(me); return; }
          int idx = nvis++;
          switch (o.k) {
            case FE_ALL: do_free(me, "foreach-remove"); break;
            case FE_EVEN: if (idx % 2 == 0) do_free(me, "foreach-remove"); break;
            case FE_ODD: if (idx % 2 == 1) do_free(me, "foreach-remove"); break;
            case FE_NEXT: { int nx = -1;   // the live entry that would be visited next (smallest pos above mine)
              for (size_t i = 0; i < hs.size(); i++) if (hs[i].st == LIVE && hs[i].tok.pos() > hs[me].tok.pos() && (nx < 0 || hs[i].tok.pos() < hs[nx].tok.pos())) nx = (int)i;
              if (nx >= 0) do_free(nx, "foreach-remove-other"); } break;
            case FE_PREV: if (prev >= 0 && hs[prev].st == LIVE) do_free(prev, "foreach-remove-other"); break;
            default: break;
          }
          prev = me; });
        if (!viol.empty()) break;
        for (int i : live_at_start) if (hs[i].st == LIVE && !visited.count(i)) { viol = "cabinet-foreach-skips-live-object handle#" + std::to_string(i); break; }
        g_out[std::string("cabinet:") + kN[o.k]]++;
      } break;
    }
    if (!viol.empty()) break;
    check(); if (!viol.empty()) break;
  }
  // canonical state: complete implementation state + every token held by the harness with its model status
  std::string s; char b[96];
  snprintf(b, sizeof b, "L%zu F%zd N%zu [", c.last_id_, (ssize_t)c.first_free_, c.count_); s += b;
  for (auto &cell : c.cells_) { if (cell.id) snprintf(b, sizeof b, "%zu ", cell.id); else snprintf(b, sizeof b, "f%zd ", (ssize_t)cell.next_free); s += b; }
  s += "] T{";
  std::vector<std::string> ts;
  for (auto &x : hs) { snprintf(b, sizeof b, "%zu@%zu%c", x.tok.id(), x.tok.pos(), "LFC"[x.st]); ts.push_back(b); }
  std::sort(ts.begin(), ts.end());
  for (auto &t : ts) { s += t; s += ' '; }
  s += "}";
  return s;
}

// The search can be split over processes: the canonical states at depth PART_DEPTH are dealt out by hash; a process
// expands only its share (and everything below it). Every history extends exactly one such state, so the union of the
// partitions is the whole space; states at depth <= PART_DEPTH, and states reachable from two partitions, are counted
// once per partition that reaches them.
static const size_t PART_DEPTH = 6;
static void main_(size_t depth, const char *part_s) {
  size_t reserve_n = 0; unsigned part = 0, nparts = 1; sscanf(part_s, "%u/%u", &part, &nparts); if (nparts < 1) nparts = 1;
  hx::Explorer<Op> ex; ex.name = "cabinet/part" + std::to_string(part) + "of" + std::to_string(nparts);
  ex.deadline_s = hx::deadline_from_env(600);
  ex.show = [](const Op &o) { char b[40]; if (o.k == FREE || o.k == UPDATE) snprintf(b, 40, "%s(#%d)", kN[o.k], o.a); else snprintf(b, 40, "%s", kN[o.k]); return std::string(b); };
  ex.menu = [&](const std::vector<Op> &h) {
    int n = 0; for (auto &o : h) if (o.k == ALLOC) n++;
    std::vector<Op> m;
    if (nparts > 1 && h.size() == PART_DEPTH) { std::string v; if (std::hash<std::string>()(run(h, v, reserve_n)) % nparts != part) return m; }
    m.push_back({ALLOC, 0, 0});
    for (int i = 0; i < n; i++) m.push_back({FREE, i, 0});          // every token ever issued, stale ones included
    m.push_back({CLEAR, 0, 0});
    for (int i = 0; i < n; i++) m.push_back({UPDATE, i, 0});
    for (int k : {FE_ALL, FE_EVEN, FE_ODD, FE_NEXT, FE_PREV, FE_NONE, FREE_NULL, UPDATE_NULL}) m.push_back({k, 0, 0});
    return m; };
  ex.run = [&](const std::vector<Op> &h, std::string &v) { return run(h, v, reserve_n); };
  ex.explore(depth);
  printf("@STAT lookups=%ld\n", g_lookups);
  emit_outcomes(ex.name);
}
}  // namespace cab

// =====================================================================================================
namespace pool {
static long g_ctor = 0, g_dtor = 0;
static std::set<const void *> g_inuse;      // storage of objects the harness has not freed yet
static std::string *g_viol = nullptr;
static const uint64_t MAGIC = 0x5AFEC0DE12345678ull; static const int ALIVE = 0x600DF00D, DEAD = 0x0DEAD0DE;
struct Probe {
  uint64_t head; int serial; int live;      // head overlays Block::next of the pool's free list
  explicit Probe(int s);
  ~Probe() { g_dtor++;
    if (live != ALIVE && g_viol && g_viol->empty()) *g_viol = "pool-destructs-object-that-is-not-alive";
    live = DEAD; head = 0; }
};
enum { ALLOC, FREE, ALLOC_NEST };
typedef tbox::ObjectPool<Probe> Pool;
// ALLOC_NEST: the constructor of the object being allocated allocates another object from the same pool (a node that builds its
// child). While the outer constructor runs its storage is in use, so the nested alloc() must not hand it out again.
static Pool *g_nest_pool = nullptr; static Probe *g_nested = nullptr; static int g_nested_serial = 0;
Probe::Probe(int s) { g_ctor++;
  if (g_inuse.count(this) && g_viol && g_viol->empty()) *g_viol = "pool-constructs-in-storage-still-in-use";
  if (g_nest_pool) { Pool *pp = g_nest_pool; g_nest_pool = nullptr; g_inuse.insert(this); g_nested = pp->alloc(g_nested_serial); }
  head = MAGIC ^ (uint64_t)s; serial = s; live = ALIVE; }

static std::string run(const std::vector<Op> &h, std::string &viol, size_t keep, bool dflt) {
  g_ctor = g_dtor = 0; g_inuse.clear(); g_viol = &viol;
  struct L { Probe *p; int serial; int blk; };
  std::vector<L> live; std::map<const void *, int> blk; int next_blk = 0, serial = 0; long allocs = 0, frees = 0;
  std::string canon;
  {
    Pool *pp = dflt ? new Pool() : new Pool(keep); Pool &P = *pp;
    auto is_live = [&](const void *q) { for (auto &l : live) if (l.p == q) return true; return false; };
    auto walk = [&](std::vector<const void *> &out) {        // the parked list; bounded (cycle guard); a link is only followed
      out.clear();                                           // out of a block this harness has seen and that is not in use
      for (auto *b = P.free_header_; b != nullptr && out.size() < 64; b = b->next) {
        out.push_back(b);
        if (is_live(b)) { if (viol.empty()) viol = "pool-live-object-is-on-free-list"; return; }
        if (!blk.count(b)) { if (viol.empty()) viol = "pool-free-list-has-unknown-block"; return; } } };
    auto check = [&]() {
      for (auto &l : live) if (l.p->live != ALIVE || l.p->serial != l.serial || l.p->head != (MAGIC ^ (uint64_t)l.serial)) {
        viol = "pool-live-object-corrupted serial=" + std::to_string(l.serial); return; }
      std::vector<const void *> fl; walk(fl); if (!viol.empty()) return;
      if (fl.size() != P.free_number_) { viol = "pool-free-list-length-differs-from-free-number"; return; }
      if (fl.size() > keep) { viol = "pool-parks-more-than-keep-number"; return; }
      std::set<const void *> u(fl.begin(), fl.end());
      if (u.size() != fl.size()) { viol = "pool-free-list-has-duplicate-block"; return; }
      for (auto &l : live) if (u.count(l.p)) { viol = "pool-live-object-is-on-free-list"; return; }
      if (g_ctor != allocs || g_dtor != frees) { viol = "pool-ctor-dtor-count ctor=" + std::to_string(g_ctor) + " dtor=" + std::to_string(g_dtor) + " allocs=" + std::to_string(allocs) + " frees=" + std::to_string(frees); return; }
    };
    auto do_free = [&](size_t i, const char *ctx) {
      L l = live[i]; live.erase(live.begin() + i);
      long c0 = g_ctor, d0 = g_dtor;
      g_inuse.erase(l.p);                   // from here on the storage may be handed out again
      P.free(l.p); frees++;
      if (g_dtor != d0 + 1) { if (viol.empty()) viol = std::string("pool-free-runs-") + (g_dtor == d0 ? "no" : "several") + "-destructors" + ctx; return; }
      if (g_ctor != c0) { if (viol.empty()) viol = std::string("pool-free-runs-constructor") + ctx; return; }
      std::vector<const void *> fl; walk(fl); if (!viol.empty()) return;
      bool parked = std::find(fl.begin(), fl.end(), (const void *)l.p) != fl.end();
      g_out[parked ? "pool:free->parked" : "pool:free->released"]++;
      if (!parked) blk.erase(l.p);          // really given back to malloc; the address may come back as a new block
    };
    for (auto &o : h) {
      if (o.k == ALLOC_NEST) {
        long c0 = g_ctor, d0 = g_dtor;
        int outer = ++serial, inner = ++serial; g_nested = nullptr; g_nested_serial = inner; g_nest_pool = &P;
        Probe *p = P.alloc(outer); allocs += 2; g_nest_pool = nullptr; Probe *q = g_nested;
        if (!viol.empty()) break;
        if (p == nullptr || q == nullptr) { viol = "pool-alloc-returns-null"; break; }
        if (p == q) { viol = "pool-nested-alloc-hands-out-the-storage-under-construction"; break; }
        for (auto &l : live) if (l.p == p || l.p == q) { viol = "pool-hands-out-storage-still-in-use"; break; }
        if (!viol.empty()) break;
        if (g_ctor != c0 + 2) { viol = "pool-nested-alloc-constructor-count"; break; }
        if (g_dtor != d0) { viol = "pool-alloc-runs-destructor"; break; }
        if (p->live != ALIVE || p->serial != outer || q->live != ALIVE || q->serial != inner) { viol = "pool-nested-alloc-object-not-constructed-with-arguments"; break; }
        g_out["pool:alloc-nested"]++;
        if (!blk.count(q)) blk[q] = next_blk++;     // the inner object is complete first
        if (!blk.count(p)) blk[p] = next_blk++;
        live.push_back(L{q, inner, blk[q]}); g_inuse.insert(q); live.push_back(L{p, outer, blk[p]}); g_inuse.insert(p);
      } else if (o.k == ALLOC) {
        long c0 = g_ctor, d0 = g_dtor; bool had_parked = P.free_header_ != nullptr;
        Probe *p = P.alloc(++serial); allocs++;
        if (!viol.empty()) break;
        if (p == nullptr) { viol = "pool-alloc-returns-null"; break; }
        for (auto &l : live) if (l.p == p) { viol = "pool-hands-out-storage-still-in-use"; break; }
        if (!viol.empty()) break;
        if (g_ctor != c0 + 1) { viol = std::string("pool-alloc-runs-") + (g_ctor == c0 ? "no" : "several") + "-constructors"; break; }
        if (g_dtor != d0) { viol = "pool-alloc-runs-destructor"; break; }
        if (p->live != ALIVE || p->serial != serial) { viol = "pool-alloc-object-not-constructed-with-arguments"; break; }
        if (!blk.count(p)) blk[p] = next_blk++;
        g_out[had_parked ? "pool:alloc<-parked-block" : "pool:alloc<-malloc"]++;
        live.push_back(L{p, serial, blk[p]}); g_inuse.insert(p);
      } else do_free((size_t)o.a, "");
      if (!viol.empty()) break;
      check(); if (!viol.empty()) break;
    }
    // canonical state: parked list in list order and live objects, blocks named by birth order in this history
    char b[64]; snprintf(b, sizeof b, "K%zd n%zu [", (ssize_t)P.keep_number_, P.free_number_); canon = b;
    { std::vector<const void *> fl; walk(fl); for (auto *q : fl) { snprintf(b, sizeof b, "b%d ", blk.count(q) ? blk[q] : -1); canon += b; } }
    canon += "] live{"; for (auto &l : live) { snprintf(b, sizeof b, "b%d ", l.blk); canon += b; } canon += "}";
    // teardown: give everything back, destroy the pool (ASan sees double free / use after free); pairs must balance
    if (viol.empty()) {
      while (!live.empty() && viol.empty()) do_free(live.size() - 1, " (end-of-history teardown: free of a remaining live object)");
      if (viol.empty() && (g_ctor != allocs || g_dtor != allocs)) viol = "pool-ctor-dtor-unbalanced-at-end ctor=" + std::to_string(g_ctor) + " dtor=" + std::to_string(g_dtor) + " allocs=" + std::to_string(allocs);
    }
    if (viol.empty()) {                     // after a violation the pool is leaked on purpose: its list is suspect
      long d0 = g_dtor;
      delete pp;
      if (g_dtor != d0) viol = "pool-destructor-runs-object-destructors";
    }
  }
  g_viol = nullptr;
  return canon;
}

static void main_(size_t depth, const char *keep_s) {
  bool dflt = !strcmp(keep_s, "max"); size_t keep = dflt ? std::numeric_limits<size_t>::max() : (size_t)atol(keep_s);
  hx::Explorer<Op> ex; ex.name = std::string("pool/keep") + keep_s;
  ex.deadline_s = hx::deadline_from_env(600);
  ex.show = [](const Op &o) { char b[32]; if (o.k == ALLOC) snprintf(b, 32, "alloc"); else if (o.k == ALLOC_NEST) snprintf(b, 32, "alloc(ctor-allocs-a-child)"); else snprintf(b, 32, "free(live[%d])", o.a); return std::string(b); };
  ex.menu = [&](const std::vector<Op> &h) {
    int n = 0; for (auto &o : h) n += o.k == ALLOC ? 1 : o.k == ALLOC_NEST ? 2 : -1;
    std::vector<Op> m; m.push_back({ALLOC, 0, 0}); m.push_back({ALLOC_NEST, 0, 0});
    for (int i = 0; i < n; i++) m.push_back({FREE, i, 0});          // each live object (index into the live list)
    return m; };
  ex.run = [&](const std::vector<Op> &h, std::string &v) { return run(h, v, keep, dflt); };
  ex.explore(depth);
  emit_outcomes(ex.name);
}
}  // namespace pool

// =====================================================================================================
namespace fdh {
using tbox::util::Fd;
enum { OPEN, DEF, CPC, MVC, CPA, MVA, SELF_CPA, SELF_MVA, SWAP, RESET, CLOSE, DESTROY, NK };
static const char *kN[] = {"open", "default", "copyctor", "movector", "copyassign", "moveassign", "selfcopyassign", "selfmoveassign", "swap", "reset", "close", "destroy"};
static const int MAXV = 4, MAXD = 3, BASE = 1000;
static int NV = 3, ND = 2;   // handle variables / fake descriptors in use

// Boring reference: variables point at shared records; a record's descriptor is closed by an explicit close()
// or when its last holder lets go, whichever comes first, and never again.
struct Model {
  struct Rec { int desc; int refs; bool closed; };
  std::vector<Rec> recs; bool exists[MAXV]; int rec[MAXV]; int open_rec[MAXD];
  std::vector<int> expect;    // close calls the op just applied must produce, in order
  Model() { for (int i = 0; i < NV; i++) { exists[i] = false; rec[i] = -1; } for (int d = 0; d < ND; d++) open_rec[d] = -1; }
  void do_close(int r) { Rec &x = recs[r]; if (!x.closed) { x.closed = true; expect.push_back(BASE + x.desc); open_rec[x.desc] = -1; } }
  void release(int r) { if (r < 0) return; if (--recs[r].refs == 0) do_close(r); }
  bool enabled(const Op &o) const {
    switch (o.k) {
      case OPEN: return open_rec[o.b] < 0;                 // a descriptor number is only re-issued after it was closed
      case DEF: return !exists[o.a];
      case CPC: case MVC: return !exists[o.a] && exists[o.b];
      case CPA: case MVA: return o.a != o.b && exists[o.a] && exists[o.b];
      case SWAP: return exists[o.a] && exists[o.b];
      default: return exists[o.a];
    } }
  void apply(const Op &o) {
    expect.clear(); int v = o.a, w = o.b;
    switch (o.k) {
      case OPEN: { recs.push_back(Rec{w, 1, false}); int r = (int)recs.size() - 1; open_rec[w] = r;
        if (exists[v]) release(rec[v]); exists[v] = true; rec[v] = r; } break;
      case DEF: exists[v] = true; rec[v] = -1; break;
      case CPC: exists[v] = true; rec[v] = rec[w]; if (rec[w] >= 0) recs[rec[w]].refs++; break;
      case MVC: exists[v] = true; rec[v] = rec[w]; rec[w] = -1; break;
      case CPA: if (rec[w] >= 0) recs[rec[w]].refs++; release(rec[v]); rec[v] = rec[w]; break;
      case MVA: release(rec[v]); rec[v] = rec[w]; rec[w] = -1; break;
      case SELF_CPA: case SELF_MVA: break;
      case SWAP: std::swap(rec[v], rec[w]); break;
      case RESET: release(rec[v]); rec[v] = -1; break;
      case CLOSE: if (rec[v] >= 0) do_close(rec[v]); break;
      case DESTROY: release(rec[v]); rec[v] = -1; exists[v] = false; break;
    } }
  int expected_get(int v) const { return (rec[v] < 0 || recs[rec[v]].closed) ? -1 : BASE + recs[rec[v]].desc; }
};

static std::string show(const Op &o) {
  char b[48]; const char V[] = "ABCD";
  switch (o.k) {
    case OPEN: snprintf(b, 48, "open(%c,%d)", V[o.a], BASE + o.b); break;
    case CPC: case MVC: case CPA: case MVA: case SWAP: snprintf(b, 48, "%s(%c,%c)", kN[o.k], V[o.a], V[o.b]); break;
    default: snprintf(b, 48, "%s(%c)", kN[o.k], V[o.a]); break;
  }
  return b;
}

static std::string run(const std::vector<Op> &h, std::string &viol, bool use_cf) {
  Model m; Fd *var[MAXV] = {nullptr, nullptr, nullptr, nullptr};
  int opened[MAXD] = {0, 0, 0}, closed_cur[MAXD] = {0, 0, 0};   // harness-side truth per descriptor: generations issued / close calls in the current one
  Fd::CloseFunc cf = [](int fd) { g_close_calls.push_back(fd); };
  auto mkfd = [&](int d) { return use_cf ? Fd(BASE + d, cf) : Fd(BASE + d); };
  auto judge = [&](const Op &o) {                       // recorded close calls of this op against the model
    // classify the first unexpected / missing call with harness-side truth so the signature names the failure
    std::vector<int> got = g_close_calls, exp = m.expect;
    for (int fd : got) {
      int d = fd - BASE;
      if (d < 0 || d >= ND || !opened[d]) { viol = "fd-close-called-for-descriptor-never-opened fd=" + std::to_string(fd); return; }
      if (closed_cur[d] >= 1) { viol = "fd-closed-twice fd=" + std::to_string(fd) + " during " + show(o); return; }
      closed_cur[d]++;
      auto it = std::find(exp.begin(), exp.end(), fd);
      if (it == exp.end()) { viol = "fd-closed-while-another-copy-still-expects-it-open fd=" + std::to_string(fd) + " during " + show(o); return; }
      exp.erase(it);
    }
    if (!exp.empty()) { viol = std::string(o.k == CLOSE ? "fd-explicit-close-does-not-close" : "fd-not-closed-when-last-copy-goes-away") + " fd=" + std::to_string(exp[0]) + " during " + show(o); return; }
    for (int fd : m.expect) g_out[std::string("fd:") + kN[o.k] + "->closes"]++, (void)fd;
    if (m.expect.empty()) g_out[std::string("fd:") + kN[o.k] + "->no-close"]++;
  };
  for (auto &o : h) {
    if (!m.enabled(o)) { viol = "harness-disabled-op-in-history"; break; }
    g_close_calls.clear();
    int v = o.a, w = o.b;
    switch (o.k) {
      case OPEN: opened[w]++; closed_cur[w] = 0; if (var[v]) *var[v] = mkfd(w); else var[v] = new Fd(mkfd(w)); break;
      case DEF: var[v] = new Fd(); break;
      case CPC: var[v] = new Fd(*var[w]); break;
      case MVC: var[v] = new Fd(std::move(*var[w])); break;
      case CPA: *var[v] = *var[w]; break;
      case MVA: *var[v] = std::move(*var[w]); break;
      case SELF_CPA: { Fd &r = *var[v]; *var[v] = r; } break;
      case SELF_MVA: { Fd &r = *var[v]; *var[v] = std::move(r); } break;
      case SWAP: var[v]->swap(*var[w]); break;
      case RESET: var[v]->reset(); break;
      case CLOSE: var[v]->close(); break;
      case DESTROY: delete var[v]; var[v] = nullptr; break;
    }
    m.apply(o);
    judge(o); if (!viol.empty()) break;
    for (int i = 0; i < NV && viol.empty(); i++) if (var[i]) {
      int e = m.expected_get(i);
      if (var[i]->get() != e || var[i]->isNull() != (e == -1)) viol = std::string("fd-handle-reports-wrong-descriptor var=") + "ABCD"[i] + " get()=" + std::to_string(var[i]->get()) + " expected=" + std::to_string(e) + " after " + show(o);
    }
    if (!viol.empty()) break;
  }
  // canonical state: per variable absent / null / record (named by first appearance); per record the real fd,
  // ref_count and whether a close function is still attached; per descriptor whether it is open in the model
  std::string s; std::map<const void *, int> name; std::vector<const Fd *> order;
  for (int i = 0; i < NV; i++) {
    if (!var[i]) { s += "- "; continue; }
    if (!var[i]->detail_) { s += "n "; continue; }
    if (!name.count(var[i]->detail_)) { int k = (int)name.size(); name[var[i]->detail_] = k; order.push_back(var[i]); }
    s += "r" + std::to_string(name[var[i]->detail_]) + " ";
  }
  s += "|";
  for (auto *f : order) { char b[64]; snprintf(b, sizeof b, " fd%d rc%d cf%d", f->detail_->fd, f->detail_->ref_count, f->detail_->close_func ? 1 : 0); s += b; }
  s += " |";
  for (int d = 0; d < ND; d++) s += m.open_rec[d] >= 0 ? " open" : opened[d] ? " closed" : " fresh";
  // teardown: the last copies go away; every descriptor generation must have been closed exactly once by now
  if (viol.empty()) {
    for (int i = 0; i < NV && viol.empty(); i++) if (var[i]) {
      Op o{DESTROY, i, 0}; g_close_calls.clear(); delete var[i]; var[i] = nullptr; m.apply(o); judge(o); }
    for (int d = 0; d < ND && viol.empty(); d++) if (opened[d] && closed_cur[d] != 1) viol = "fd-never-closed-after-all-copies-destroyed fd=" + std::to_string(BASE + d);
  } else { for (int i = 0; i < NV; i++) var[i] = nullptr; /* leak on purpose: the state is suspect */ }
  return s;
}

static void main_(size_t depth, const char *mode) {
  bool use_cf = !strncmp(mode, "cf", 2);     // mode = cf|sys[:<variables>:<descriptors>]
  if (strchr(mode, ':')) sscanf(strchr(mode, ':'), ":%d:%d", &NV, &ND);
  if (NV < 1 || NV > MAXV || ND < 1 || ND > MAXD) { printf("@INFO fd: bad size\n"); return; }
  hx::Explorer<Op> ex; ex.name = std::string("fd/") + mode;
  ex.deadline_s = hx::deadline_from_env(600);
  ex.show = show;
  ex.menu = [&](const std::vector<Op> &h) {
    Model m; for (auto &o : h) m.apply(o);
    std::vector<Op> all, out;
    for (int v = 0; v < NV; v++) for (int d = 0; d < ND; d++) all.push_back({OPEN, v, d});
    for (int k : {CPC, MVC, CPA, MVA}) for (int v = 0; v < NV; v++) for (int w = 0; w < NV; w++) if (v != w) all.push_back({k, v, w});
    for (int k : {CLOSE, RESET, DESTROY, SELF_CPA, SELF_MVA, DEF}) for (int v = 0; v < NV; v++) all.push_back({k, v, 0});
    for (int v = 0; v < NV; v++) for (int w = v; w < NV; w++) all.push_back({SWAP, v, w});   // w == v: self swap
    for (auto &o : all) if (m.enabled(o)) out.push_back(o);
    return out; };
  ex.run = [&](const std::vector<Op> &h, std::string &v) { return run(h, v, use_cf); };
  ex.explore(depth);
  emit_outcomes(ex.name);
}
}  // namespace fdh

int main(int argc, char **argv) {
  if (argc < 4) { fprintf(stderr, "usage: %s cabinet|pool|fd <depth> <param>\n", argv[0]); return 0; }
  std::string sub = argv[1]; size_t depth = (size_t)atol(argv[2]);
  hx::install_crash_reporter(("C08-" + sub + "-crash").c_str());
  setvbuf(stdout, nullptr, _IOLBF, 0);
  if (sub == "cabinet") cab::main_(depth, argv[3]);
  else if (sub == "pool") pool::main_(depth, argv[3]);
  else if (sub == "fd") fdh::main_(depth, argv[3]);
  return 0;
}
