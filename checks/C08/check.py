import time, vf
PID = "C08"
def main(tier, args):
    t0 = time.time()
    exe = vf.build("C08/handles", [vf.VERIF + "/checks/C08/harness.cpp"], vf.module_sources("util/fd.cpp"), mode="asan",
                   plain_srcs=[vf.VERIF + "/engine/sched/log_stub.cpp"])
    # depth per sub-harness: the cabinet space grows fastest (every alloc adds a token that is kept forever)
    dc, dp, df, dl, nparts, fdcfg = (9, 12, 8, 45, 6, ("cf", "sys")) if tier == "quick" else (13, 16, 10, 1200, 12, ("cf", "sys", "cf:4:3", "sys:4:3"))
    cmds = [("cabinet/%d" % k, [exe, "cabinet", str(dc), "%d/%d" % (k, nparts)]) for k in range(nparts)]
    cmds += [("pool/keep%s" % k, [exe, "pool", str(dp), k]) for k in ("0", "1", "2", "max")]
    cmds += [("fd/%s" % m, [exe, "fd", str(df), m]) for m in fdcfg]
    # first four: one of each kind (their @SAMPLE lines are the ones kept in the evidence) and the longest-running ones
    first = ["cabinet/0", "pool/keepmax", "fd/" + fdcfg[-1], "pool/keep2"]
    cmds.sort(key=lambda c: first.index(c[0]) if c[0] in first else len(first))
    only = getattr(args, "only", None)
    if only:
        cmds = [c for c in cmds if c[0].startswith(only)]
    res = vf.Result()
    log = open(vf.BUILD + "/C08/log.txt", "w")
    vf.run_procs(res, cmds, env={"VERIF_DEADLINE_S": str(dl),
                                      # a UBSan report raises SIGABRT so that the crash reporter prints the history being evaluated
                                      "UBSAN_OPTIONS": "print_stacktrace=1:abort_on_error=1"}, log=log)
    vf.finish(PID, tier, res, t0,
              rule="three BFS explorations over ALL op histories on the real classes, canonical-state dedup, oracle after every op + ASan/UBSan. "
                   "(a) Cabinet depth<=%d (search dealt out to %d processes by canonical state at depth 6; a state reached from two shares is counted twice): alloc, free(t)/update(t) for every token ever issued (stale included), clear, "
                   "foreach with removal (all/even/odd/next-to-visit/previously-visited/none), null-token free/update; after every op at(t) and "
                   "operator[] for every token ever issued, size(), pairwise distinct live tokens; state = last_id_, first_free_, count_, all cells "
                   "(id or free link), all tokens held with model status. "
                   "(b) ObjectPool<Probe> depth<=%d, keep_number in {0,1,2,default max}: alloc, free(each live object); probe counts ctor/dtor and stamps a "
                   "live flag over the bytes the free list reuses; state = free_number_, parked list in order, live blocks (named by birth order). "
                   "(c) util::Fd depth<=%d (reaches a fixpoint earlier), %s handle variables x fake descriptors (1000.., re-issued only after close), recorded by an injected "
                   "CloseFunc (cf) or an interposed ::close (sys): open, default/copy/move construct, copy/move assign, self-assign, swap, self-swap, reset, "
                   "close, destroy; every history ends by destroying all handles; state = variable->record map, per record fd/ref_count/close_func"
                   % (dc, nparts, dp, df, "3x2" if tier == "quick" else "3x2 and 4x3"),
              assumptions=["Cabinet ids do not wrap (2^64 allocations are out of reach); objects stored are non-null; foreach callbacks only remove",
                           "object identity is not part of the cabinet canonical state (no control flow depends on obj_ptr)",
                           "ObjectPool: single probe type (16 bytes, pointer-aligned), constructors do not throw, malloc never fails",
                           "Fd: single-threaded use; descriptor numbers are fake (>=1000) and never reach the kernel",
                           "LifetimeTag (anchor file) is not exercised by this check"])
