import time, vf
PID = "C08"
def main(tier, args):
    t0 = time.time()
    exe = vf.build("C08/handles", [vf.VERIF + "/checks/C08/harness.cpp"], vf.module_sources("util/fd.cpp"), mode="asan",
                   plain_srcs=[vf.VERIF + "/engine/sched/log_stub.cpp"])
    quick = tier == "quick"
    # depth per sub-harness: the cabinet space grows fastest (every alloc adds a token that is kept forever, x3.7 per level with the full alphabet)
    dc, dp, df, dl = (9, 12, 8, 45) if quick else (11, 18, 10, 1200)
    nparts = 6 if quick else 12
    # cabinet configurations: (name, config argument, depth, processes)
    #   plain    full alphabet (entries with and without object), fresh cabinet
    #   wrap     same, the id counter starts two below its maximum, so it wraps after two allocations
    #   reserveN same, reserve(N) before the first op
    #   reserve-mid  same, the spare capacity of the cell vector (capped at 3) is part of the state key: ops AFTER a mid-history reserve are explored
    #   basic    the alphabet without object-less entries (a much smaller space), searched deeper (thorough tier only)
    cab = [("cabinet", "plain", dc, nparts), ("cabinet-wrap", "wrap", dc - 1, 2 if quick else 6),
           ("cabinet-reserve1", "reserve1", dc - 2, 1), ("cabinet-reserve4", "reserve4", dc - 2, 1),
           ("cabinet-reserve-mid", "reserve-mid", dc - 2, 1 if quick else 4)]
    if not quick:
        cab.append(("cabinet-basic", "basic", 13, 12))
    cmds = []
    for name, cfg, d, n in cab:
        cmds += [("%s/%d" % (name, k), [exe, "cabinet", str(d), "%d/%d" % (k, n), cfg]) for k in range(n)]
    probes = ("probe16", "small1", "odd17", "wide40")
    cmds += [("pool-%s/keep%s" % (p, k), [exe, "pool", str(dp), k, p]) for p in probes for k in ("0", "1", "2", "max")]
    # fd lanes: cf / sys / cfnull (empty CloseFunc given to the two-argument constructor); ":fail" = the ::close seam answers -1 (EINTR, EIO in turn)
    fdcfg = ("cf", "sys", "cfnull", "sys:fail", "cf:fail") if quick else ("cf", "sys", "cfnull", "sys:fail", "cf:fail", "cfnull:fail", "cf:4:3", "sys:4:3", "sys:fail:4:3")
    cmds += [("fd/%s" % m, [exe, "fd", str(df), m]) for m in fdcfg]
    # first four: one of each kind (their @SAMPLE lines are the ones kept in the evidence) and the longest-running ones
    first = ["cabinet/0", "pool-probe16/keepmax", "fd/sys:fail", "cabinet-wrap/0"]
    cmds.sort(key=lambda c: first.index(c[0]) if c[0] in first else len(first))
    only = getattr(args, "only", None)
    if only:
        cmds = [c for c in cmds if c[0].startswith(only)]
    res = vf.Result()
    log = open(vf.BUILD + "/C08/log.txt", "w")
    vf.run_procs(res, cmds, env={"VERIF_DEADLINE_S": str(dl),
                                      # a UBSan report raises SIGABRT so that the crash reporter prints the history being evaluated
                                      "UBSAN_OPTIONS": "print_stacktrace=1:abort_on_error=1"}, log=log)
    vf.finish(PID, tier, res, t0,
              rule="three BFS explorations over ALL op histories on the real classes, canonical-state dedup, oracle for every explored history + ASan/UBSan. "
                   "(a) Cabinet, configurations %s (name:depth bound:processes; a search is dealt out to its processes by canonical state at depth 6, a state "
                   "reached from two shares is counted twice; wrap = the id counter starts two below its maximum so ids run max-1, max, 1, 2..; reserveN = reserve(N) first; "
                   "reserve-mid = the spare capacity of the cell vector, capped at 3, is part of the state key; basic = without object-less entries): alloc(obj), alloc() without object, free(t)/update(t,obj)/update(t,nullptr) for every token ever issued (stale included), "
                   "clear, reserve(two beyond the cells in use) and reserve(1) (capacity is not in the state key, so a history ending in reserve is judged but not extended - "
                   "except in the reserve-mid lane, where everything may follow a reserve, also after clear/free/growth), foreach with removal (all/even/odd/next-to-visit/previously-visited/none), null-token free/update; for every explored "
                   "history at(t) and operator[] for every token ever issued, size()/empty(), live tokens pairwise distinct as (id,pos) pairs and as keys of a std::set and a "
                   "std::unordered_set (stale ones not found there), for every token issued ==,!=,<,<=,>,>=,less,equal,hash,std::hash,bool,reset against the (id,pos) pairs "
                   "(strict order: trichotomy and transitivity over all tokens held; the order itself is not prescribed), foreach delivers every live object once and "
                   "never more null pointers than there are object-less entries; inside a foreach callback, right after every free it performs, at()/operator[] for every "
                   "token ever issued and size()/empty() are judged again (the entry is gone at once, not when foreach returns); the return-value clauses run at every op of a replay, the pairwise and "
                   "container clauses after its last op (every prefix of an explored history is itself an explored history); state = last_id_, first_free_, count_, all cells "
                   "(id or free link), all tokens held with model status (live with object / live without / freed / cleared); the private fields are read through engine/probe.h "
                   "(a missing one is reported as '@INFO missing-member', the key then also carries the last four ops; the wrap lane reports itself skipped with a @CAP if last_id_ is gone). "
                   "(b) ObjectPool<T> depth<=%d, T in {16-byte two-word probe, 1-byte probe (smaller than the free-list link), 17-byte alignment-1 probe, 40-byte probe} x "
                   "keep_number in {0,1,2,default max}: alloc(int), alloc() without arguments, alloc whose constructor THROWS (no live object, no destructor, counted apart; the history continues), "
                   "re-entrancy in all four combinations - constructor allocates a child / frees a live object, destructor frees a live object (either neighbour in the live list) / allocates - "
                   "and two levels deep (constructor->alloc->constructor->alloc, destructor->free->destructor->free, destructor->alloc->constructor->free), free(each live object); "
                   "storage counts as in use from the start of its constructor to the end of its destructor; the probes count "
                   "ctor/dtor and stamp every byte they own (which includes the bytes the free list reuses); state = keep_number_, free_number_, length of the parked chain, "
                   "number of live objects (blocks are interchangeable for the pool: states are identified up to renaming of blocks; every chain clause - length, duplicates, live or "
                   "unknown blocks on it - is evaluated after every op, and every live object is offered to free() in every state; the chain clauses are additional and are switched off, "
                   "with an '@INFO missing-member', if free_header_/Block::next disappear - in-use, count and stamp clauses do not need them). "
                   "(c) util::Fd depth<=%d (reaches a fixpoint earlier), lanes %s, %s handle variables x descriptor numbers (3x2: 0 and 1000; 4x3: 0, 1000 and 1001; re-issued only after close; kept from the kernel by the "
                   "::close seam), closes recorded WITH THEIR CHANNEL - the injected CloseFunc (cf lanes) or the interposed ::close (sys lanes, and cfnull lanes where the two-argument "
                   "constructor is given an empty CloseFunc / nullptr; in every lane any ::close issued during an Fd operation is recorded, whatever its argument); in the ':fail' lanes "
                   "the seam answers every such ::close with -1 and errno EINTR / EIO in turn, the model is unchanged (one call per record, get()==-1 after close()): Fd(fd[,cf]), Fd(-1[,cf]) (holds nothing, never closes), Fd::Open of a missing file (null handle) and of "
                   "/dev/null (a kernel descriptor, closed through ::close in both lanes, one at a time), default/copy/move construct, copy/move assign, self-assign, swap, "
                   "self-swap, reset, close, destroy; every history ends by destroying all handles; state = variable->record map, per record fd/ref_count/close_func"
                   % (" ".join("%s:%d:%d" % (n, d, k) for n, _, d, k in cab), dp, df, " ".join(fdcfg), "3x2" if quick else "3x2 and (lanes ending in :4:3) 4x3"),
              assumptions=["Cabinet: foreach callbacks only remove; tokens are the ones the cabinet issued (no forged tokens); one cabinet at a time; "
                           "after the id counter has wrapped the search stays far below 2^64 further allocations, so no id is issued twice",
                           "object identity is not part of the cabinet canonical state beyond 'has an object / has none' (no control flow depends on obj_ptr)",
                           "ObjectPool: destructors do not throw, malloc never fails; a constructor that throws does so before it has written anything; re-entrancy is at most two "
                           "levels deep; a block lost to a throwing constructor is not looked for (leak detection is off); stat_ is not part of the state (no control flow reads it)",
                           "Fd: single-threaded use; the CloseFunc does not call back into the handle; descriptor numbers other than the one obtained from "
                           "Fd::Open(\"/dev/null\") never reach the kernel",
                           "LifetimeTag (anchor file) is not exercised by this check"])
