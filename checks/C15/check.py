import os, time, vf
from concurrent.futures import ProcessPoolExecutor
PID = "C15"
D = vf.VERIF + "/checks/C15/"
STUB = [vf.VERIF + "/engine/sched/log_stub.cpp"]
NET = ["network/dns_request.cpp", "network/udp_socket.cpp", "network/socket_fd.cpp", "network/sockaddr.cpp", "network/ip_address.cpp",
       "util/serializer.cpp", "util/string.cpp", "util/fd.cpp"]
def builds():
    srcs = vf.module_sources("event", *NET)
    # separate processes: vf's object cache names its temporary files by pid, so concurrent builds must not share one
    with ProcessPoolExecutor(3) as ex:
        fa = ex.submit(vf.build, "C15/parser_asan", [D + "parser_harness.cpp"], srcs, mode="asan", plain_srcs=STUB)
        fp = ex.submit(vf.build, "C15/parser_plain", [D + "parser_harness.cpp"], srcs, mode="plain", plain_srcs=STUB)
        fl = ex.submit(vf.build, "C15/lookup_asan", [D + "lookup_harness.cpp"], srcs, mode="asan", plain_srcs=STUB)
        return fa.result(), fp.result(), fl.result()
def shards(tag, exe, mode, n, *extra):
    return [("%s:%d" % (tag, i), [exe, mode, str(i), str(n)] + [str(x) for x in extra]) for i in range(n)]
def replay(path, pa, pp):
    """./check C15 --replay <file>: re-deliver every datagram (hex) of a replay file through both parser builds."""
    import re, subprocess
    env = dict(os.environ, ASAN_OPTIONS="detect_leaks=0:abort_on_error=0")
    for line in open(path):
        m = re.match(r"\S+ :: ([0-9a-f]+)\s", line)
        if not m:
            if not line.startswith("#"): print("not a datagram line (lookup histories are replayed by re-running the lookups jobs):", line.strip()[:200])
            continue
        for exe in (pp, pa):
            out = subprocess.run([exe, "one", m.group(1)] + (["sock"] if " via-socket-event " in line else []), capture_output=True, env=env).stdout.decode("latin-1")
            for l in out.splitlines():
                if l.startswith("@VIOL") or l.startswith("@INFO one"): print(os.path.basename(exe), l[:400])
def main(tier, args):
    t0 = time.time()
    pa, pp, lk = builds()
    if args.replay:
        replay(args.replay, pa, pp); return
    quick = tier == "quick"
    dl = 70 if quick else 1200
    if os.environ.get("VERIF_DEADLINE_S"):
        dl = min(dl, max(5.0, float(os.environ["VERIF_DEADLINE_S"]) - (time.time() - t0) - 5))
    jobs = []
    SOCK, REENT, CONF, NOSEEN = {"C15_VIA_SOCKET": "1"}, {"C15_FOLLOWUP": "1"}, {"C15_CONFIG": "1", "C15_VIA_SOCKET": "1"}, {"C15_NOSEEN": "1"}
    RSOCK = {"C15_FOLLOWUP": "1", "C15_VIA_SOCKET": "1"}
    # C15_IDWRAP=1 (default off) adds a lane whose id counter starts at 0xFFFD and that has the op burst = 65536 x {request; cancel}.
    # On the current code it reports (a) dns-lookup-request-returned-id-0: the third lookup gets id 0, the value request() also
    # returns for "refused" (reading question: the lookup still completes once); (b) dns-lookup-isRunning-false-for-pending-lookup
    # after `request(a.b) burst`: when the 16-bit counter comes round to the id of a lookup that is still pending, addRequest()
    # overwrites its entry (dns_request.cpp `requests_[req_id] = req`) and that lookup is never reported. Needs 65536 lookups within
    # the 5 s a lookup can stay pending; kept out of the evidence until a reading decision is made (DESIGN 1.7).
    idwrap = [("lookups:idwrap-lane", [lk, "epoll", "3", "3", "2"], {"C15_IDWRAP": "1", "C15_NOSEEN": "1"})] if os.environ.get("C15_IDWRAP") else []
    if quick:
        jobs += shards("plain-tail3", pp, "tail", 16, 3)                  # id + every byte string of length <= 3 (16.8 M datagrams); longest jobs first
        jobs += [("lookups:%s" % e, [lk, e, "10", "2", "2"], NOSEEN) for e in ("epoll", "select")]     # fixpoint at depth 9
        jobs += [("lookups:%s-via-socket-event" % e, [lk, e, "6", "2", "2"], SOCK) for e in ("epoll", "select")]
        jobs += [("lookups:reentrant-callbacks-lane", [lk, "epoll", "5", "2", "2"], {"C15_FOLLOWUP": "1", "C15_NOSEEN": "1"}), ("lookups:reentrant-callbacks-after-ignored", [lk, "epoll", "4", "2", "2"], REENT)]
        jobs += [("lookups:reentrant-callbacks-1server-select-socket", [lk, "select", "5", "2", "1"], RSOCK)]
        jobs += [("lookups:setservers-lane", [lk, "epoll", "5", "2", "2"], CONF)] + idwrap
        jobs += shards("plain-struct", pp, "struct", 1)
        jobs += shards("plain-struct-sock", pp, "struct", 1, "sock")
        jobs += shards("asan-struct", pa, "struct", 4)
        jobs += shards("asan-struct-sock", pa, "struct", 4, "sock")
        jobs += shards("asan-tail2", pa, "tail", 4, 2)                    # id + every byte string of length <= 2
        pair_rule = ""
        tail_rule = "length <=3 (plain build; ASan build: length <=2)"
        ldepth = ("2 lookups / 2 servers: depth 10 (fixpoint expected at 9) with direct delivery, epoll and select, key without the ignored-datagram fields; depth 6 through the socket event, epoll and select; "
                  "re-entrant-callback lane: epoll, direct, depth 5 without those fields and depth 4 with them; select, socket event, 1 server, depth 5; setServers lane depth 5")
    else:
        jobs += [("lookups:%s" % e, [lk, e, "12", "2", "2"], NOSEEN) for e in ("epoll", "select")]
        jobs += [("lookups:%s-via-socket-event" % e, [lk, e, "10", "2", "2"], SOCK) for e in ("epoll", "select")]
        jobs += [("lookups:reentrant-callbacks-lane", [lk, "epoll", "7", "2", "2"], REENT), ("lookups:reentrant-callbacks-3lookups", [lk, "epoll", "5", "3", "2"], REENT)]
        jobs += [("lookups:reentrant-callbacks-1server-select-socket", [lk, "select", "8", "2", "1"], RSOCK)]
        jobs += [("lookups:setservers-lane", [lk, "epoll", "7", "2", "2"], CONF)] + idwrap
        jobs += [("lookups:epoll-3lookups", [lk, "epoll", "8", "3", "2"], NOSEEN), ("lookups:epoll-3servers", [lk, "epoll", "10", "2", "3"], {"C15_VIA_SOCKET": "1", "C15_NOSEEN": "1"})]
        jobs += shards("plain-struct2", pp, "struct", 8, "pairs")         # + every pair of bytes replaced (4 small bases)
        jobs += shards("asan-struct2", pa, "struct", 16, "pairs")
        jobs += shards("plain-struct-sock", pp, "struct", 2, "sock")
        jobs += shards("asan-struct-sock", pa, "struct", 4, "sock")
        import shutil
        if shutil.which("valgrind"):                                      # memcheck on the plain build: structured sweeps + id + <=1 byte
            vg = ["valgrind", "-q", "--error-limit=no", "--log-file=/dev/null"]
            jobs += [("valgrind-struct:%d" % i, vg + [pp, "struct", str(i), "8"]) for i in range(8)] + [("valgrind-tail1:0", vg + [pp, "tail", "0", "1", "1"])]
        jobs += shards("plain-tail3", pp, "tail", 16, 3)                  # id + every byte string of length <= 3 (16.8 M datagrams)
        jobs += shards("asan-tail3", pa, "tail", 32, 3)
        pair_rule = "; every pair of bytes replaced by those values"
        tail_rule = "length <=3 (both builds)"
        ldepth = ("2 lookups / 2 servers: depth 12 (fixpoint expected) with direct delivery, epoll and select, key without the ignored-datagram fields; depth 10 through the socket event; depth 8 with 3 lookups and depth 10 with 3 servers (socket event) without those fields; "
                  "re-entrant-callback lane depth 7 / 5 (3 lookups) / 8 (select, socket event, 1 server); setServers lane depth 7")
    if args.only:
        jobs = [j for j in jobs if j[0].split(":")[0] == args.only or j[0] == args.only]
    res = vf.Result(); os.makedirs(vf.BUILD + "/C15", exist_ok=True); log = open(vf.BUILD + "/C15/log.txt", "w")
    env = {"C15_DEADLINE_MONO": "%.1f" % (time.monotonic() + dl), "VERIF_DEADLINE_S": str(dl)}
    vf.run_procs(res, jobs, env=env, log=log, jobs=vf.NCPU + 6)    # the 16 long id+string shards start first; the short jobs run beside them
    vf.finish(PID, tier, res, t0,
              rule="(I, reply parser) a real lookup is outstanding on a real DnsRequest (id 0xA5A5); every datagram is delivered in a worker child on a 256 KiB thread stack, through the protected onUdpRecv and - the structured sweeps a second time - "
                   "through the real receive path UdpSocket::onSocketEvent(kReadEvent) with the executable's own recvfrom() playing the kernel (copies at most the offered length and returns that - or, when called with MSG_TRUNC, the real datagram length; "
                   "the rest of the 4096-byte receive buffer keeps the paint and is ASan-poisoned; also: zero-length datagram, recvfrom fails with EAGAIN / EINTR / ECONNREFUSED; datagrams of 4097 / 5000 / 6000 bytes = MAX + a tail, with unchanged / inflated answer count, "
                   "a CNAME pointer behind byte 4096, a last record whose rdata reaches the real end - judged as the prefix that the offered buffer holds), twice on equal object states: dead stack painted 0x00 / 0xA5 (48 KiB) immediately before the call (second paint 0x01 for the id+string sweep once id and flags are present); g++ -O1 plain build and ASan+UBSan build%s. "
                   "Datagrams: 6 base replies (A; CNAME+A with compression; TXT+A; 3A+NS; BIG = 633 bytes, records behind offset 512, CNAME with a 63-byte label and a pointer to offset 533; MAX = 4096 bytes, 62 records, pointer to offset 3000) "
                   "x {every truncation offset; qd/an/ns/ar count in {0,1,real,real+1,255,65535}; every compression pointer (MAX: two of them) -> every offset 0..len+1 (BIG/MAX also 8191, 16383), every loop of two and every loop of three; every record's RDLENGTH set to 0..true+2 and 65535 (A records also 5, 16; rdata longer than 64: 0..6, true-2..true+2) with the datagram unchanged and cut / zero-padded to end at the declared rdata end -1/0/+1; "
                   "every byte (MAX: the 120 bytes of header, question, start of the TXT record, planted name, CNAME record, first and last A record) replaced by each of {00,01,3f,40,c0,ff}%s}; CNAME reached through a chain of k pointers ending in a label / closing a cycle, "
                   "k in {1,2,3,4,8,14..19,32,64,200,1000}; matching id + every byte string of %s. "
                   "Oracle: worker survives (no stack exhaustion = bounded recursion, no ASan/UBSan report, progress within 20 s), identical callback/status/addresses/ttls/names under both paints, datagram id matches, "
                   "every reported address/name is in the set an independent generous decoder (RFC 1035 + readings L1-L6, common.h) extracts and not more records than it can frame; the 6 intact base replies are decoded exactly as encoded; "
                   "a datagram ignored under both paints leaves the lookup intact: isRunning stays true and the intact reply A delivered next completes it once with 1.2.3.4, its duplicate is ignored (every case of the structured sweeps, "
                   "every 8th ignored datagram of the length-3 id+string sweep); agreement with a strict decoder is recorded as outcome. "
                   "(H, lookups) BFS over histories of request(domain)/cancel/reply(lookup, queried server, kind in ok|servfail|nxdomain|formerr|query|unknown-id|ok-wrong-question|ok-cut-inside-the-answer|ok-whose-answer-name-is-a-pointer-loop|ok-with-one-CNAME-and-one-A-then-cut)/tick(+1 s virtual, one loop pass), %s; "
                   "socket-event lanes: replies enter through UdpSocket::onSocketEvent + recvfrom() only while the read event is enabled (completion callbacks run nested in the receive callback), plus readable events with a zero-length datagram / failing recvfrom (errno cycling) and a 5000-byte reply whose answers go on behind byte 4096 (judged as its stored prefix: ignored); "
                   "outside the fixpoint lanes the class of the last ignored datagram (per pending lookup: non-reply / undecodable; global: unknown id / event without datagram) is model-only state, so that timeouts, cancels, error replies and sibling lookups AFTER an ignored datagram are explored; "
                   "re-entrant-callback lane: + request whose callback issues a follow-up lookup, request whose callback cancels another lookup that is still pending (never itself), request with an EMPTY callback (completion observed through isRunning), tick(+5 s); "
                   "setServers lane (also through the socket event): DnsRequest(loop) + setDnsIPAddresses, op setServers(k), k in 0..2, also while lookups are pending, op sendFails(mask in none|first server|all): sendto() to those servers returns -1/ENETUNREACH (model unchanged: the lookup is pending and ends by reply or timeout), tick(+5 s); "
                   "replies stay enabled (duplicates, any order); canonical state = lookup table + response counts + timeout wheel + timer/socket-event enabled + id counter + server list + model (incl. pending callback obligations); "
                   "oracle after every op: callbacks exactly as the reference model says (once, first acceptable reply / error status / timeout at tick 5, never after cancel - also when the cancel came from another lookup's callback in the same timeout slot -, "
                   "nothing for ignored or undecodable datagrams, which also leave the lookup pending), a success carries exactly the address of the accepted reply and no name (a_vec and cname_vec are read), an error status carries nothing, isRunning() = pending, cancel() result, one well-formed query attempted per configured server to that server's address, "
                   "request() with no server: id 0, nothing sent, never a callback; the socket's read event is enabled whenever the model has a pending lookup; after the DnsRequest is deleted the loop runs at +0 s, +1 s and +6 s: no callback, no use of freed memory"
                   % ("" if quick else "; the structured sweeps also under valgrind memcheck (error counter sampled per datagram)", pair_rule, tail_rule, ldepth),
              assumptions=["a zero-length datagram reaches the parser only if UdpSocket::onSocketEvent forwards it (checked in the socket-event sweeps: it must not produce a callback); onUdpRecv itself is not fed zero-length datagrams",
                           "readings L1-L6 (common.h): class not examined, RDLENGTH of A/CNAME not cross-checked, label bytes 0x40-0xbf taken as lengths, labels compared up to a NUL, trailing dots ignored, "
                           "owner/question names only framed - so laxness of that kind is not reported as a violation",
                           "a duplicated server-failure reply that is counted as another server's failure, a reply whose question names another domain, and when 'all servers failed' holds for a lookup that was pending while the server list "
                           "changed are tolerated and recorded as outcomes (the statement does not define them); replies only come from servers that the lookup queried",
                           "a pointer chain may be decoded or ignored at any length (the statement bounds recursion, it does not fix the limit)",
                           "a callback never cancels its own lookup (cancel of the running lookup from inside its callback is outside the statement)",
                           "incoming datagrams are injected at onUdpRecv or at recvfrom() below UdpSocket::onSocketEvent, outgoing datagrams are captured at sendto(); the kernel UDP path and the back-end's readiness report for the socket are not exercised "
                           "(the read event's enabled flag stands for 'listening')",
                           "request ids stay far from the 16-bit wrap (a lane starting at 0xFFFD exists behind C15_IDWRAP=1, off: at the wrap request() returns id 0, which is also its 'refused' value - reading question)",
                           "clock reads are interposed at clock_gettime/gettimeofday/time; all events happen at whole virtual seconds",
                           "stack painting sees an uninitialised read only if the two paints lead to different observable results"])
