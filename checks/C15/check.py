import os, time, vf
PID = "C15"
D = vf.VERIF + "/checks/C15/"
STUB = [vf.VERIF + "/engine/sched/log_stub.cpp"]
NET = ["network/dns_request.cpp", "network/udp_socket.cpp", "network/socket_fd.cpp", "network/sockaddr.cpp", "network/ip_address.cpp",
       "util/serializer.cpp", "util/string.cpp", "util/fd.cpp"]
def builds():
    srcs = vf.module_sources("event", *NET)
    pa = vf.build("C15/parser_asan", [D + "parser_harness.cpp"], srcs, mode="asan", plain_srcs=STUB)
    pp = vf.build("C15/parser_plain", [D + "parser_harness.cpp"], srcs, mode="plain", plain_srcs=STUB)
    return pa, pp
def main(tier, args):
    t0 = time.time()
    pa, pp = builds()
    print(pa, pp)
