import os, time, vf
from concurrent.futures import ProcessPoolExecutor
PID = "C15"
D = vf.VERIF + "/checks/C15/"
STUB = [vf.VERIF + "/engine/sched/log_stub.cpp"]
NET = ["network/dns_request.cpp", "network/udp_socket.cpp", "network/socket_fd.cpp", "network/sockaddr.cpp", "network/ip_address.cpp",
       "util/serializer.cpp", "util/string.cpp", "util/fd.cpp"]
def builds():
    srcs = vf.module_sources("event", *NET)
    # separate processes: vf's object cache names its temporary files by pid, so concurrent builds must not share one
    with ProcessPoolExecutor(3) as ex:
        fa = ex.submit(vf.build, "C15/parser_asan", [D + "parser_harness.cpp"], srcs, mode="asan", plain_srcs=STUB)
        fp = ex.submit(vf.build, "C15/parser_plain", [D + "parser_harness.cpp"], srcs, mode="plain", plain_srcs=STUB)
        fl = ex.submit(vf.build, "C15/lookup_asan", [D + "lookup_harness.cpp"], srcs, mode="asan", plain_srcs=STUB)
        return fa.result(), fp.result(), fl.result()
def shards(tag, exe, mode, n, *extra):
    return [("%s:%d" % (tag, i), [exe, mode, str(i), str(n)] + [str(x) for x in extra]) for i in range(n)]
def replay(path, pa, pp):
    """./check C15 --replay <file>: re-deliver every datagram (hex) of a replay file through both parser builds."""
    import re, subprocess
    env = dict(os.environ, ASAN_OPTIONS="detect_leaks=0:abort_on_error=0")
    for line in open(path):
        m = re.match(r"\S+ :: ([0-9a-f]+)\s", line)
        if not m:
            if not line.startswith("#"): print("not a datagram line (lookup histories are replayed by re-running the lookups jobs):", line.strip()[:200])
            continue
        for exe in (pp, pa):
            out = subprocess.run([exe, "one", m.group(1)], capture_output=True, env=env).stdout.decode("latin-1")
            for l in out.splitlines():
                if l.startswith("@VIOL") or l.startswith("@INFO one"): print(os.path.basename(exe), l[:400])
def main(tier, args):
    t0 = time.time()
    pa, pp, lk = builds()
    if args.replay:
        replay(args.replay, pa, pp); return
    quick = tier == "quick"
    dl = 70 if quick else 1200
    if os.environ.get("VERIF_DEADLINE_S"):
        dl = min(dl, max(5.0, float(os.environ["VERIF_DEADLINE_S"]) - (time.time() - t0) - 5))
    jobs = []
    SOCK, REENT, CONF = {"C15_VIA_SOCKET": "1"}, {"C15_FOLLOWUP": "1"}, {"C15_CONFIG": "1", "C15_VIA_SOCKET": "1"}
    # C15_IDWRAP=1 (default off) adds a lane whose id counter starts at 0xFFFD: the third lookup then gets id 0, the value request()
    # also returns for "refused", and the harness reports dns-lookup-request-returned-id-0. Whether that is inside the statement is
    # a reading question (the lookup still completes once), so the lane is not part of the evidence; see the C15 notes in DESIGN.md.
    idwrap = [("lookups:idwrap-lane", [lk, "epoll", "5", "3", "2"], {"C15_IDWRAP": "1"})] if os.environ.get("C15_IDWRAP") else []
    if quick:
        jobs += shards("plain-tail3", pp, "tail", 16, 3)                  # id + every byte string of length <= 3 (16.8 M datagrams); longest jobs first
        jobs += [("lookups:epoll", [lk, "epoll", "6", "2", "2"]), ("lookups:select", [lk, "select", "6", "2", "2"])]
        jobs += [("lookups:%s-via-socket-event" % e, [lk, e, "6", "2", "2"], SOCK) for e in ("epoll", "select")]
        jobs += [("lookups:reentrant-callbacks-lane", [lk, "epoll", "5", "2", "2"], REENT)]
        jobs += [("lookups:setservers-lane", [lk, "epoll", "5", "2", "2"], CONF)] + idwrap
        jobs += shards("plain-struct", pp, "struct", 1)
        jobs += shards("plain-struct-sock", pp, "struct", 1, "sock")
        jobs += shards("asan-struct", pa, "struct", 4)
        jobs += shards("asan-struct-sock", pa, "struct", 4, "sock")
        jobs += shards("asan-tail2", pa, "tail", 4, 2)                    # id + every byte string of length <= 2
        pair_rule = ""
        tail_rule = "length <=3 (plain build; ASan build: length <=2)"
        ldepth = "depth 6 with 2 lookups / 2 servers (epoll and select, each with direct delivery and through the socket event), depth 5 in the re-entrant-callback lane and in the setServers lane"
    else:
        jobs += [("lookups:%s" % e, [lk, e, "12", "2", "2"]) for e in ("epoll", "select")]
        jobs += [("lookups:%s-via-socket-event" % e, [lk, e, "12", "2", "2"], SOCK) for e in ("epoll", "select")]
        jobs += [("lookups:reentrant-callbacks-lane", [lk, "epoll", "8", "2", "2"], REENT), ("lookups:reentrant-callbacks-3lookups", [lk, "epoll", "6", "3", "2"], REENT)]
        jobs += [("lookups:setservers-lane", [lk, "epoll", "8", "2", "2"], CONF)] + idwrap
        jobs += [("lookups:epoll-3lookups", [lk, "epoll", "8", "3", "2"]), ("lookups:epoll-3servers", [lk, "epoll", "10", "2", "3"], SOCK)]
        jobs += shards("plain-struct2", pp, "struct", 8, "pairs")         # + every pair of bytes replaced (4 small bases)
        jobs += shards("asan-struct2", pa, "struct", 16, "pairs")
        jobs += shards("plain-struct-sock", pp, "struct", 2, "sock")
        jobs += shards("asan-struct-sock", pa, "struct", 4, "sock")
        import shutil
        if shutil.which("valgrind"):                                      # memcheck on the plain build: structured sweeps + id + <=1 byte
            vg = ["valgrind", "-q", "--error-limit=no", "--log-file=/dev/null"]
            jobs += [("valgrind-struct:%d" % i, vg + [pp, "struct", str(i), "8"]) for i in range(8)] + [("valgrind-tail1:0", vg + [pp, "tail", "0", "1", "1"])]
        jobs += shards("plain-tail3", pp, "tail", 16, 3)                  # id + every byte string of length <= 3 (16.8 M datagrams)
        jobs += shards("asan-tail3", pa, "tail", 32, 3)
        pair_rule = "; every pair of bytes replaced by those values"
        tail_rule = "length <=3 (both builds)"
        ldepth = "depth 12 (fixpoint expected) with 2 lookups / 2 servers (epoll and select, each with direct delivery and through the socket event), depth 8 with 3 lookups, depth 10 with 3 servers (socket event), depth 8 / 6 (3 lookups) in the re-entrant-callback lane, depth 8 in the setServers lane"
    if args.only:
        jobs = [j for j in jobs if j[0].split(":")[0] == args.only or j[0] == args.only]
    res = vf.Result(); os.makedirs(vf.BUILD + "/C15", exist_ok=True); log = open(vf.BUILD + "/C15/log.txt", "w")
    env = {"C15_DEADLINE_MONO": "%.1f" % (time.monotonic() + dl), "VERIF_DEADLINE_S": str(dl)}
    vf.run_procs(res, jobs, env=env, log=log, jobs=vf.NCPU + 6)    # the 16 long id+string shards start first; the short jobs run beside them
    vf.finish(PID, tier, res, t0,
              rule="(I, reply parser) a real lookup is outstanding on a real DnsRequest (id 0xA5A5); every datagram goes through the protected onUdpRecv in a worker child on a 256 KiB thread stack, "
                   "twice on equal object states: dead stack painted 0x00 / 0xA5 (48 KiB) immediately before the call (second paint 0x01 for the id+string sweep once id and flags are present); g++ -O1 plain build and ASan+UBSan build%s. "
                   "Datagrams: 4 base replies (A; CNAME+A with compression; TXT+A; 3A+NS) x {every truncation offset; qd/an/ns/ar count in {0,1,real,real+1,255,65535}; every compression pointer -> every offset 0..len+1 "
                   "and every loop of two; every byte replaced by each of {00,01,3f,40,c0,ff}%s}; matching id + every byte string of %s. "
                   "Oracle: worker survives (no stack exhaustion = bounded recursion, no ASan/UBSan report, progress within 20 s), identical callback/status/addresses/ttls/names under both paints, datagram id matches, "
                   "every reported address/name is in the set an independent generous decoder (RFC 1035 + readings L1-L6, common.h) extracts and not more records than it can frame; agreement with a strict decoder is recorded as outcome. "
                   "(H, lookups) BFS over histories of request(domain)/cancel/reply(lookup, server, kind in ok|servfail|nxdomain|formerr|query|unknown-id|ok-wrong-question)/tick(+1 s virtual, one loop pass), %s, epoll and select; "
                   "replies stay enabled (duplicates, any order); canonical state = lookup table + response counts + timeout wheel + timer/socket-event enabled + id counter + model; "
                   "oracle after every op: callbacks exactly as the reference model says (once, first acceptable reply / error status / timeout at tick 5, never after cancel, nothing for ignored datagrams), isRunning() = pending, cancel() result, one well-formed query per server"
                   % ("" if quick else "; the structured sweeps also under valgrind memcheck (error counter sampled per datagram)", pair_rule, tail_rule, ldepth),
              assumptions=["a zero-length datagram is not delivered (UdpSocket::onSocketEvent forwards rsize > 0 only)",
                           "readings L1-L6 (common.h): class not examined, RDLENGTH of A/CNAME not cross-checked, label bytes 0x40-0xbf taken as lengths, labels compared up to a NUL, trailing dots ignored, "
                           "owner/question names only framed - so laxness of that kind is not reported as a violation",
                           "a duplicated server-failure reply that is counted as another server's failure, and a reply whose question names another domain, are tolerated and recorded as outcomes (the statement does not define them)",
                           "replies are injected at onUdpRecv, outgoing datagrams are captured at sendto(); the kernel UDP path is not exercised",
                           "clock reads are interposed at clock_gettime/gettimeofday/time; all events happen at whole virtual seconds",
                           "stack painting sees an uninitialised read only if the two paints lead to different observable results"])
