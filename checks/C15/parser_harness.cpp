// C15 (reply parser, engine I): exhaustive datagram sweeps through the real DnsRequest::onUdpRecv.
// usage: parser_harness struct <shard> <nshards> [pairs] [sock]   structured sweeps over 6 base replies (+ synthetic pointer chains / cycles)
//                                                               sock: delivery through UdpSocket::onSocketEvent + the executable's recvfrom()
//        parser_harness tail   <shard> <nshards> <maxlen>     matching id + every byte string of length <= maxlen
//        parser_harness tail3s <shard> <nshards>              matching id + 2 flag bytes + one byte of {00,01,3f,40,c0,ff}
//        parser_harness one <hex> [sock]                      replay one datagram (id bytes are overwritten)
// A real lookup is outstanding (id 0xA5A5, one configured server); each datagram is delivered twice, once after
// painting the dead stack below the call with 0x00 and once with 0xA5 (0x01 in the tail sweep once id and flags are
// present, see worker_thread), on equal object states. Shards are picked by a hash of the case index.
// The sweep runs in a worker child on a 256 KiB thread stack; a worker that dies identifies the datagram it
// was evaluating (shared-memory cursor) and the sweep resumes behind it in a new worker.
#include "common.h"
#include <fcntl.h>
#include <pthread.h>
#include <signal.h>
#include <sys/mman.h>
#include <sys/wait.h>
#include <time.h>
#include <ucontext.h>

#if defined(__SANITIZE_ADDRESS__)
#define BUILD_TAG_ "asan"
#else
#define BUILD_TAG_ "plain"
#endif
// thorough tier: the plain build also runs under valgrind (memcheck); its error counter is sampled around the two
// deliveries of every datagram, so an invalid / uninitialised-value use is attributed to the datagram that caused it
#if defined(__has_include)
#if __has_include(<valgrind/valgrind.h>)
#include <valgrind/valgrind.h>
#define HAVE_VG 1
#endif
#endif
#ifndef HAVE_VG
#define RUNNING_ON_VALGRIND 0
#define VALGRIND_COUNT_ERRORS 0
#endif
static const char *BUILD_TAG = BUILD_TAG_;

static double real_now_s() { struct timespec ts; syscall(SYS_clock_gettime, CLOCK_MONOTONIC, &ts); return ts.tv_sec + ts.tv_nsec * 1e-9; }

// ------------------------------------------------------------------------------------------------
// shared between the driver and its worker
struct SigEnt { char sig[176]; uint64_t n; };
struct OutEnt { char txt[112]; uint64_t n; };
struct Shm {
  volatile uint64_t cur;            // index of the case being evaluated
  volatile uint64_t done;           // cases completely evaluated
  volatile int phase;               // 1 = paint 0x00 run, 2 = second-paint run, 3 = oracle
  volatile int death;               // set by the worker's SIGSEGV handler: 1 stack exhausted, 2 other SIGSEGV
  volatile int capped, finished;
  uint64_t execs, callbacks, ignored, reused, rebuilt, viols, samples, paint_diff, strict_exact, strict_differs, probes;
  SigEnt sigs[128]; OutEnt outs[256];
};
static Shm *shm;
static const uint16_t kId = 0xA5A5;     // so that an uninitialised id painted 0xA5 matches the outstanding lookup
static std::string g_tagname;
static bool g_sock = false;            // deliver through the real receive path (UdpSocket::onSocketEvent, recvfrom() of common.h)

static void emit(const char *line) { size_t n = strlen(line); ssize_t r = write(1, line, n); (void)r; }
static const Bytes *g_full = nullptr;   // set while a datagram longer than the receive buffer is judged as its stored prefix: the replay line shows all of it
static void violation(std::string sig, const std::string &label, const Bytes &dg_judged, const std::string &detail) {
  const Bytes &dg = g_full ? *g_full : dg_judged;
  shm->viols++; if (sig.size() > 170) sig.resize(170);
  for (auto &e : shm->sigs) {
    if (e.sig[0] == 0) { strncpy(e.sig, sig.c_str(), sizeof(e.sig) - 1); }
    if (sig == e.sig) { if (++e.n <= 3) { std::string l = "@VIOL sig=" + sig + " :: " + hex(dg) + "  [" + std::string(BUILD_TAG) + (g_sock ? " via-socket-event " : " ") + label + "; " + detail + "]\n"; emit(l.c_str()); } return; }
  }
}
static void outcome(const std::string &t) {
  for (auto &e : shm->outs) { if (e.txt[0] == 0) strncpy(e.txt, t.c_str(), sizeof(e.txt) - 1); if (t.compare(0, sizeof(e.txt) - 1, e.txt) == 0) { e.n++; return; } }
}

// ------------------------------------------------------------------------------------------------
// the world: a real loop, a real DnsRequest, one outstanding lookup with a known id
struct Obs { int cb = 0; int status = -1; std::vector<Addr> a; std::vector<uint32_t> attl; std::vector<std::string> c; std::vector<uint32_t> cttl;
  std::string str() const { if (!cb) return "ignored"; char b[64]; std::string s = "cb=" + std::to_string(cb) + " st=" + std::to_string(status);
    for (size_t i = 0; i < a.size(); i++) { if (i >= 6) { s += " A...(" + std::to_string(a.size()) + ")"; break; } snprintf(b, sizeof b, " A:%u.%u.%u.%u/%u", a[i][0], a[i][1], a[i][2], a[i][3], attl[i]); s += b; }
    for (size_t i = 0; i < c.size(); i++) { if (i >= 6) { s += " C...(" + std::to_string(c.size()) + ")"; break; } s += " C:" + hex((const uint8_t *)c[i].data(), c[i].size()) + "/" + std::to_string(cttl[i]); }
    return s; }
  bool operator==(const Obs &o) const { return cb == o.cb && status == o.status && a == o.a && attl == o.attl && c == o.c && cttl == o.cttl; }
};
static event::Loop *w_loop = nullptr; static Dns *w_dns = nullptr; static Obs *w_sink = nullptr; static bool w_pristine = false;
static network::SockAddr *w_from = nullptr;
static void world_make() {
  if (w_pristine) { shm->reused++; return; }
  shm->rebuilt++;
  delete w_dns; delete w_loop;
  w_loop = event::Loop::New();
  w_dns = new Dns(w_loop, {network::IPAddress::FromString("127.0.0.1")});
  w_dns->req_id_alloc_ = kId - 1;
  uint16_t id = w_dns->request(network::DomainName("a.b"), [](const network::DnsRequest::Result &r) {
    Obs &o = *w_sink; o.cb++; o.status = (int)r.status;
    for (auto &x : r.a_vec) { uint32_t v = x.ip; Addr ad; memcpy(ad.data(), &v, 4); o.a.push_back(ad); o.attl.push_back(x.ttl); }
    for (auto &x : r.cname_vec) { o.c.push_back(x.cname.toString()); o.cttl.push_back(x.ttl); } });
  if (id != kId) { emit("@VIOL sig=harness-unexpected-request-id :: -\n"); _exit(0); }
  if (!w_from) w_from = new network::SockAddr(network::IPAddress::FromString("127.0.0.1"), 53);
  w_pristine = true;
}
static const size_t kPaint = 48 * 1024;
__attribute__((noinline)) static void paint(unsigned char v) { unsigned char buf[kPaint]; memset(buf, v, sizeof buf); asm volatile("" : : "r"(buf) : "memory"); }
__attribute__((noinline)) static void deliver(const uint8_t *p, size_t n, int rx) {
  if (!g_sock) { w_dns->feed(p, n, *w_from); return; }
  socket_event(w_dns, rx, p, n, htonl(0x7f000001u));
}
__attribute__((noinline)) static Obs run_once(const Bytes &dg, unsigned char pv, int rx = RX_DATAGRAM, int err = EAGAIN) {
  world_make();
  Obs o; w_sink = &o;
  // exact-size heap copy: an over-read is an ASan heap-buffer-overflow
  uint8_t *p = (uint8_t *)malloc(dg.size() ? dg.size() : 1); memcpy(p, dg.data(), dg.size());
  paint(pv); g_rx_errno = err;
  deliver(p, dg.size(), rx);
  free(p); w_sink = nullptr; shm->execs++;
  w_pristine = !o.cb && w_dns->requests_.size() == 1 && w_dns->requests_.begin()->first == kId && w_dns->requests_.begin()->second.response_count == 0;
  return o;
}

// A datagram that was ignored must leave the lookup intact: the next acceptable reply (the intact base reply "A") still
// completes it - once, with that reply's address - and a second copy of that reply is then ignored. Decided by what the
// callback receives, not by the implementation's table.
static Bytes g_probe;
static std::string probe_world() {
  Obs o; w_sink = &o;
  uint8_t *p = (uint8_t *)malloc(g_probe.size()); memcpy(p, g_probe.data(), g_probe.size());
  deliver(p, g_probe.size(), RX_DATAGRAM); int first = o.cb; deliver(p, g_probe.size(), RX_DATAGRAM);
  free(p); w_sink = nullptr; shm->execs += 2; shm->probes++; w_pristine = false;
  if (first != 1 || o.cb != 1) return "the intact reply that follows is answered with " + std::to_string(first) + " callback(s), its duplicate with " + std::to_string(o.cb - first);
  if (o.status != 0 || o.a.size() != 1 || o.a[0] != Addr{{1, 2, 3, 4}} || !o.c.empty()) return "the intact reply that follows is reported as " + o.str();
  return "";
}

// ------------------------------------------------------------------------------------------------
static bool g_tail = false, g_tail3s = false;
static void judge(const Bytes &dg, const std::string &label, const Obs &o0, const Obs &o1) {
  Strict st = ref_strict(dg.data(), dg.size());
  std::string shape = st.shape; if (shape == "well-formed") shape = "well-formed-reply";
  if (!(o0 == o1) && label.compare(0, 4, "one:") == 0) { std::string s = "@INFO one: shape=" + st.shape + " paint00=" + o0.str() + " paintA5=" + o1.str() + "\n"; emit(s.c_str()); }
  if (!(o0 == o1)) { shm->paint_diff++; violation("dns-" + shape + "-result-depends-on-uninitialised-memory", label, dg, "paint00 -> " + o0.str() + " | paint" + (g_tail && dg.size() >= 4 ? "01" : "A5") + " -> " + o1.str()); outcome(label.substr(0, label.find(' ')) + " -> paint-dependent"); return; }
  const Obs &o = o0;
  if (o.cb) shm->callbacks++; else shm->ignored++;
  std::string cls = "ignored";
  if (o.cb > 1) { violation("dns-callback-invoked-more-than-once-for-one-datagram", label, dg, o.str()); return; }
  if (o.cb) {
    bool idmatch = dg.size() >= 2 && dg[0] == (kId >> 8) && dg[1] == (kId & 0xff);
    if (!idmatch) { violation("dns-datagram-matching-no-lookup-completes-a-lookup", label, dg, o.str()); return; }
    if (dg.size() >= 4 && !(dg[2] & 0x80)) { violation("dns-query-datagram-accepted-as-reply", label, dg, o.str()); return; }
    Generous g = ref_generous(dg.data(), dg.size());
    // an address outside the generous set: either its 4 bytes occur nowhere behind the header (stale / uninitialised
    // memory), or they do but no decoding reaches them (the parser kept going behind an element whose read failed)
    for (auto &ad : o.a) if (!g.a.count(ad)) {
      bool present = false; for (size_t i = 12; i + 4 <= dg.size(); i++) if (memcmp(&dg[i], ad.data(), 4) == 0) present = true;
      violation("dns-" + shape + (present ? "-reports-records-located-behind-an-undecodable-element" : "-reports-address-not-in-datagram"), label, dg, o.str()); return; }
    for (auto &cn : o.c) if (!g.c.count(strip_dots(cn))) { violation("dns-" + shape + "-reports-name-not-in-datagram", label, dg, o.str()); return; }
    if (o.a.size() > g.max_a || o.c.size() > g.max_c) { violation("dns-" + shape + "-reports-more-records-than-datagram-encodes", label, dg, o.str() + " (datagram can encode at most " + std::to_string(g.max_a) + " A, " + std::to_string(g.max_c) + " CNAME)"); return; }
    // informational: agreement with the strict decoder
    bool exact = o.status == 0 && o.a == st.a && o.c.size() == st.c.size();
    for (size_t i = 0; exact && i < o.c.size(); i++) if (strip_dots(o.c[i]) != st.c[i]) exact = false;
    if (o.status != 0) cls = "error-status-" + std::to_string(o.status);
    else if (st.shape == "well-formed" && exact) { cls = "success-equals-strict-decoding"; shm->strict_exact++; }
    else { cls = "success-lenient(" + st.shape + ")"; shm->strict_differs++; }
  }
  if (label.compare(0, 5, "base:") == 0 && cls != "success-equals-strict-decoding") violation("dns-intact-well-formed-reply-not-decoded-as-encoded", label, dg, o.str());
  if (label.compare(0, 4, "one:") == 0) { std::string s = "@INFO one: shape=" + st.shape + " result=" + o.str() + "\n"; emit(s.c_str()); }
  outcome(label.substr(0, label.find(' ')) + " -> " + cls);
}

// ------------------------------------------------------------------------------------------------
// case enumeration
static const uint8_t kSub[] = {0, 1, 0x3f, 0x40, 0xc0, 0xff};
struct Case { Bytes dg; std::string label; int rx; int err; };
static std::vector<Case> g_cases;           // struct mode
static uint64_t g_ncases = 0; static int g_tail_max = 0;

struct Base { const char *name; Bytes b; std::vector<size_t> ptrs; Obs expect; bool big = false; std::vector<size_t> hot; /*MAX: byte positions worth substituting*/ };
static std::vector<Base> bases() {
  std::vector<Base> v;
  auto A = [](uint8_t a, uint8_t b, uint8_t c, uint8_t d) { return Addr{{a, b, c, d}}; };
  { Base x; x.name = "A"; x.b = header(0, 0x8180, 1, 1, 0, 0);                       // the 37-byte reply of DESIGN 1.4
    Bytes &b = x.b; put_name(b, "a.b"); put16(b, 1); put16(b, 1);
    x.ptrs.push_back(b.size()); put16(b, 0xc00c); put16(b, 1); put16(b, 1); put32(b, 60); put16(b, 4); b.insert(b.end(), {1, 2, 3, 4});
    x.expect.cb = 1; x.expect.status = 0; x.expect.a = {A(1, 2, 3, 4)}; v.push_back(x); }
  { Base x; x.name = "CNAME+A"; x.b = header(0, 0x8180, 1, 2, 0, 0);
    Bytes &b = x.b; put_name(b, "a.b"); put16(b, 1); put16(b, 1);
    x.ptrs.push_back(b.size()); put16(b, 0xc00c); put16(b, 5); put16(b, 1); put32(b, 300); put16(b, 4);
    size_t rd = b.size(); b.insert(b.end(), {1, 'c'}); x.ptrs.push_back(b.size()); put16(b, 0xc00e);      // "c" + ptr to "b"  => c.b
    x.ptrs.push_back(b.size()); put16(b, 0xc000 | rd); put16(b, 1); put16(b, 1); put32(b, 60); put16(b, 4); b.insert(b.end(), {5, 6, 7, 8});
    x.expect.cb = 1; x.expect.status = 0; x.expect.a = {A(5, 6, 7, 8)}; x.expect.c = {"c.b"}; v.push_back(x); }
  { Base x; x.name = "TXT+A"; x.b = header(0, 0x8180, 1, 2, 0, 0);
    Bytes &b = x.b; put_name(b, "a.b"); put16(b, 1); put16(b, 1);
    x.ptrs.push_back(b.size()); put16(b, 0xc00c); put16(b, 16); put16(b, 1); put32(b, 60); put16(b, 3); b.insert(b.end(), {2, 'h', 'i'});
    x.ptrs.push_back(b.size()); put16(b, 0xc00c); put16(b, 1); put16(b, 1); put32(b, 60); put16(b, 4); b.insert(b.end(), {9, 9, 9, 9});
    x.expect.cb = 1; x.expect.status = 0; x.expect.a = {A(9, 9, 9, 9)}; v.push_back(x); }
  { Base x; x.name = "3A+NS"; x.b = header(0, 0x8180, 1, 3, 1, 0);
    Bytes &b = x.b; put_name(b, "a.b"); put16(b, 1); put16(b, 1);
    x.ptrs.push_back(b.size()); put16(b, 0xc00c); put16(b, 1); put16(b, 1); put32(b, 60); put16(b, 4); b.insert(b.end(), {1, 1, 1, 1});
    put_name(b, "a.b"); put16(b, 1); put16(b, 1); put32(b, 61); put16(b, 4); b.insert(b.end(), {2, 2, 2, 2});
    x.ptrs.push_back(b.size()); put16(b, 0xc00c); put16(b, 1); put16(b, 1); put32(b, 62); put16(b, 4); b.insert(b.end(), {3, 3, 3, 3});
    x.ptrs.push_back(b.size()); put16(b, 0xc00e); put16(b, 2); put16(b, 1); put32(b, 9); put16(b, 2); x.ptrs.push_back(b.size()); put16(b, 0xc00c);   // authority: b NS a.b
    x.expect.cb = 1; x.expect.status = 0; x.expect.a = {A(1, 1, 1, 1), A(2, 2, 2, 2), A(3, 3, 3, 3)}; v.push_back(x); }
  // BIG (633 bytes): everything of interest lies behind offset 512, so the high bits of compression pointers and of set_pos matter,
  // and the reported CNAME has a label of the maximum length 63: TXT with 500 bytes of rdata; CNAME whose owner name is written
  // out at offset 533 and whose rdata is <63 x 'x'> <yz> <pointer to that owner name>; A whose owner is a pointer to the CNAME rdata
  { Base x; x.name = "BIG"; x.big = true; x.b = header(0, 0x8180, 1, 3, 0, 0);
    Bytes &b = x.b; put_name(b, "a.b"); put16(b, 1); put16(b, 1);
    x.ptrs.push_back(b.size()); put16(b, 0xc00c); put16(b, 16); put16(b, 1); put32(b, 60); put16(b, 500); b.push_back(255); b.insert(b.end(), 255, 't'); b.push_back(243); b.insert(b.end(), 243, 'u');
    size_t owner = b.size(); put_name(b, "a.b"); put16(b, 5); put16(b, 1); put32(b, 300); put16(b, 64 + 3 + 2);
    size_t rd = b.size(); b.push_back(63); b.insert(b.end(), 63, 'x'); b.insert(b.end(), {2, 'y', 'z'}); x.ptrs.push_back(b.size()); put16(b, 0xc000 | owner);
    x.ptrs.push_back(b.size()); put16(b, 0xc000 | rd); put16(b, 1); put16(b, 1); put32(b, 60); put16(b, 4); b.insert(b.end(), {5, 6, 7, 8});
    x.expect.cb = 1; x.expect.status = 0; x.expect.a = {A(5, 6, 7, 8)}; x.expect.c = {std::string(63, 'x') + ".yz.a.b"}; v.push_back(x); }
  // MAX (4096 bytes = UdpSocket's whole receive buffer): TXT with 3085 bytes of rdata in which the name t.u is planted at offset
  // 3000; CNAME big.<pointer to offset 3000>; 60 A records; the last record ends with the last byte of the datagram
  { Base x; x.name = "MAX"; x.big = true; x.b = header(0, 0x8180, 1, 62, 0, 0);
    Bytes &b = x.b; put_name(b, "a.b"); put16(b, 1); put16(b, 1);
    put16(b, 0xc00c); put16(b, 16); put16(b, 1); put32(b, 60); put16(b, 3085); size_t txt = b.size(); b.insert(b.end(), 3085, 0xee);
    const uint8_t planted[] = {1, 't', 1, 'u', 0}; memcpy(&b[3000], planted, 5); (void)txt;
    size_t cn = b.size(); put16(b, 0xc00c); put16(b, 5); put16(b, 1); put32(b, 300); put16(b, 6); b.insert(b.end(), {3, 'b', 'i', 'g'}); x.ptrs.push_back(b.size()); put16(b, 0xc000 | 3000);
    size_t cn_end = b.size();
    for (int i = 0; i < 60; i++) { if (i == 59) x.ptrs.push_back(b.size()); put16(b, 0xc00c); put16(b, 1); put16(b, 1); put32(b, 1000 + i); put16(b, 4); b.insert(b.end(), {20, 0, (uint8_t)i, 1}); x.expect.a.push_back(A(20, 0, (uint8_t)i, 1)); }
    for (size_t i = 0; i < b.size(); i++) if (i < 48 || (i >= 2996 && i < 3008) || (i + 4 >= cn && i < cn_end + 18) || i + 20 >= b.size()) x.hot.push_back(i);
    x.expect.cb = 1; x.expect.status = 0; x.expect.c = {"big.t.u"}; v.push_back(x); }
  return v;
}
// synthetic: CNAME whose rdata is the head of a chain of k compression pointers (the last one reaches the label "x", or closes a
// cycle back to the first), followed by an A record; the chain lives behind the last record
static Bytes chain_reply(int k, bool cycle) {
  Bytes b = header(0, 0x8180, 1, 2, 0, 0); put_name(b, "a.b"); put16(b, 1); put16(b, 1);
  put16(b, 0xc00c); put16(b, 5); put16(b, 1); put32(b, 300); put16(b, 2); size_t head = b.size(); put16(b, 0);
  put16(b, 0xc00c); put16(b, 1); put16(b, 1); put32(b, 60); put16(b, 4); b.insert(b.end(), {7, 7, 7, 7});
  size_t first = b.size();                      // pointers 2..k live here, then the label
  size_t label = first + 2 * (size_t)(k - 1);
  auto ptr = [&](size_t at, size_t to) { b[at] = 0xc0 | (to >> 8); b[at + 1] = to & 0xff; };
  b.resize(label); b.insert(b.end(), {1, 'x', 0});
  for (int i = 0; i < k; i++) { size_t at = i == 0 ? head : first + 2 * (size_t)(i - 1); size_t to = i + 1 < k ? first + 2 * (size_t)i : (cycle ? head : label); ptr(at, to); }
  return b;
}
static void add_case(Bytes dg, const std::string &label, int rx = RX_DATAGRAM) { if (dg.size() >= 1) dg[0] = kId >> 8; if (dg.size() >= 2) dg[1] = kId & 0xff; g_cases.push_back({dg, label, rx, EAGAIN}); }
static void add_case_raw(const Bytes &dg, const std::string &label) { g_cases.push_back({dg, label, RX_DATAGRAM, EAGAIN}); }
static void build_struct_cases(bool pairs) {
  char l[160];
  for (auto &B : bases()) {
    const Bytes &b = B.b; size_t n = b.size();
    add_case(b, std::string("base:") + B.name + " intact");
    // a zero-length datagram cannot reach onUdpRecv (UdpSocket::onSocketEvent forwards rsize > 0 only)
    for (size_t cut = 1; cut < n; cut++) { snprintf(l, sizeof l, "truncate:%s cut=%zu/%zu", B.name, cut, n); add_case(Bytes(b.begin(), b.begin() + cut), l); }
    for (size_t f = 0; f < 4; f++) { unsigned real = rd16(b.data(), 4 + 2 * f); const char *fn[] = {"qd", "an", "ns", "ar"};
      std::set<unsigned> vals = {0u, 1u, real, real + 1, 255u, 65535u};
      for (unsigned val : vals) { Bytes m = b; m[4 + 2 * f] = val >> 8; m[5 + 2 * f] = val & 0xff; snprintf(l, sizeof l, "count:%s %scount=%u(real %u)", B.name, fn[f], val, real); add_case(m, l); } }
    std::vector<size_t> targets; for (size_t t = 0; t <= n + 1; t++) targets.push_back(t); if (B.big) { targets.push_back(8191); targets.push_back(16383); }
    for (size_t p : B.ptrs) for (size_t t : targets) { Bytes m = b; m[p] = 0xc0 | (t >> 8); m[p + 1] = t & 0xff; snprintf(l, sizeof l, "pointer:%s ptr@%zu->%zu%s", B.name, p, t, t == p ? "(self)" : t >= n ? "(outside)" : t > p ? "(forward)" : ""); add_case(m, l); }
    for (size_t i = 0; i < B.ptrs.size(); i++) for (size_t j = 0; j < B.ptrs.size(); j++) if (i != j) { size_t p = B.ptrs[i], q = B.ptrs[j]; Bytes m = b; m[p] = 0xc0 | (q >> 8); m[p + 1] = q & 0xff; m[q] = 0xc0 | (p >> 8); m[q + 1] = p & 0xff; snprintf(l, sizeof l, "pointer:%s loop-of-two ptr@%zu<->ptr@%zu", B.name, p, q); add_case(m, l); }
    // per-record length field made inconsistent with the record's TYPE and with where the datagram ends: for every record RDLENGTH :=
    // 0..true+2 and 0xFFFF (A records also 5 and 16; long rdata: 0..6 and true-2..true+2), the datagram left as it is AND cut / zero-padded
    // so that it ends exactly where the declared rdata ends, one byte before, one byte after. (A decoder that bounds-checks RDLENGTH
    // bytes but consumes what the TYPE implies reads behind the datagram only in these shapes.)
    { size_t off = 12; bool okw = true; unsigned qd = rd16(b.data(), 4), nrec = rd16(b.data(), 6) + rd16(b.data(), 8) + rd16(b.data(), 10);
      for (unsigned i = 0; i < qd && okw; i++) { okw = skip_name(b.data(), n, off, off) && off + 4 <= n; off += 4; }
      for (unsigned r = 0; r < nrec && okw; r++) {
        if (!skip_name(b.data(), n, off, off) || off + 10 > n) break;
        unsigned type = rd16(b.data(), off), T = rd16(b.data(), off + 8); size_t F = off + 8, R = off + 10; if (R + T > n) break;
        std::set<unsigned> vals; if (T <= 64) for (unsigned v = 0; v <= T + 2; v++) vals.insert(v); else { for (unsigned v = 0; v <= 6; v++) vals.insert(v); for (unsigned v = T - 2; v <= T + 2; v++) vals.insert(v); }
        vals.insert(0xFFFF); if (type == 1) { vals.insert(5); vals.insert(16); }
        for (unsigned v : vals) { if (v == T) continue;
          Bytes m = b; m[F] = v >> 8; m[F + 1] = v & 0xff;
          snprintf(l, sizeof l, "rdlength:%s record#%u(type %u) rdlength=%u(real %u) datagram-unchanged", B.name, r, type, v, T); add_case(m, l);
          if (v == 0xFFFF) continue;
          for (int d = -1; d <= 1; d++) { size_t end = R + v + d; if (end < R || end == n) continue; Bytes c = m; c.resize(end, 0);
            snprintf(l, sizeof l, "rdlength:%s record#%u(type %u) rdlength=%u(real %u) datagram-ends-at-declared-rdata-end%+d(%s)", B.name, r, type, v, T, d, end < n ? "cut" : "zero-padded"); add_case(c, l); } }
        off = R + T; }
    }
    // every cycle of three pointers (a loop detector that only remembers the previous offset passes self-loops and loops of two)
    for (size_t i = 0; i < B.ptrs.size(); i++) for (size_t j = 0; j < B.ptrs.size(); j++) for (size_t k = 0; k < B.ptrs.size(); k++) if (i != j && j != k && i != k) {
      size_t p = B.ptrs[i], q = B.ptrs[j], r = B.ptrs[k]; Bytes m = b; m[p] = 0xc0 | (q >> 8); m[p + 1] = q & 0xff; m[q] = 0xc0 | (r >> 8); m[q + 1] = r & 0xff; m[r] = 0xc0 | (p >> 8); m[r + 1] = p & 0xff;
      snprintf(l, sizeof l, "pointer:%s loop-of-three ptr@%zu->ptr@%zu->ptr@%zu", B.name, p, q, r); add_case(m, l); }
    // substitution is applied after the id is written, so positions 0/1 produce non-matching ids
    std::vector<size_t> pos = B.hot; if (pos.empty()) for (size_t i = 0; i < n; i++) pos.push_back(i);
    for (size_t i : pos) for (uint8_t s : kSub) { Bytes m = b; m[0] = kId >> 8; m[1] = kId & 0xff; if (m[i] == s) continue; m[i] = s; snprintf(l, sizeof l, "byte:%s [%zu]=0x%02x", B.name, i, s); add_case_raw(m, l); }
    if (pairs && !B.big) for (size_t i = 2; i < n; i++) for (size_t j = i + 1; j < n; j++) for (uint8_t s : kSub) for (uint8_t t : kSub) { Bytes m = b; m[0] = kId >> 8; m[1] = kId & 0xff; if (m[i] == s || m[j] == t) continue; m[i] = s; m[j] = t; snprintf(l, sizeof l, "byte2:%s [%zu]=0x%02x,[%zu]=0x%02x", B.name, i, s, j, t); add_case_raw(m, l); }
  }
  // pointer chains and cycles of every length around the implementation's nesting limit and far beyond it (either decoding or
  // ignoring is accepted; what is checked is termination, stack use, and that nothing is reported that the chain does not reach)
  for (int k : {1, 2, 3, 4, 8, 14, 15, 16, 17, 18, 19, 32, 64, 200, 1000}) for (int cyc = 0; cyc < 2; cyc++) {
    snprintf(l, sizeof l, "chain:%s-of-%d-pointers", cyc ? "cycle" : "chain", k); add_case(chain_reply(k, cyc != 0), l); }
  if (g_sock) {   // kernel behaviours other than "here is a datagram": nothing may be processed (a valid reply is queued but NOT handed out)
    Bytes a = bases()[0].b;
    add_case(a, "recv:zero-length-datagram", RX_ZERO);
    add_case(a, "recv:recvfrom-fails-EAGAIN", RX_ERROR); add_case(a, "recv:recvfrom-fails-EINTR", RX_ERROR); g_cases.back().err = EINTR; add_case(a, "recv:recvfrom-fails-ECONNREFUSED", RX_ERROR); g_cases.back().err = ECONNREFUSED;
    // datagrams LONGER than the receive buffer: the kernel stores the first `len` bytes (and, asked with MSG_TRUNC, returns the real
    // length). They are judged as what was stored: the prefix. Built on MAX so that decoding wants to go on behind byte 4096.
    const Base M = bases()[5]; size_t n = M.b.size();
    for (size_t extra : {(size_t)1, (size_t)904, (size_t)1904}) {
      Bytes tail; for (int i = 0; tail.size() < extra; i++) { put16(tail, 0xc00c); put16(tail, 1); put16(tail, 1); put32(tail, 7); put16(tail, 4); tail.insert(tail.end(), {66, 66, (uint8_t)i, 1}); } tail.resize(extra);
      Bytes m = M.b; m.insert(m.end(), tail.begin(), tail.end());
      snprintf(l, sizeof l, "oversize:MAX+%zu counts-unchanged", extra); add_case(m, l);
      Bytes c = m; c[6] = 0; c[7] = 64; snprintf(l, sizeof l, "oversize:MAX+%zu ancount=64(62-in-the-buffer)", extra); add_case(c, l);
      c = m; c[6] = 0xff; c[7] = 0xff; snprintf(l, sizeof l, "oversize:MAX+%zu ancount=65535", extra); add_case(c, l);
      if (extra >= 16) { Bytes q = m; size_t p = M.ptrs[0]; size_t t = n + 4; q[p] = 0xc0 | (t >> 8); q[p + 1] = t & 0xff; const uint8_t nm[] = {1, 'o', 1, 'v', 0}; memcpy(&q[t], nm, 5);
        snprintf(l, sizeof l, "oversize:MAX+%zu cname-pointer->%zu(behind-the-buffer)", extra, t); add_case(q, l);
        Bytes u = m; size_t last = n - 16; u[last + 3] = 16; size_t rl = 4 + extra; u[last + 10] = rl >> 8; u[last + 11] = rl & 0xff;
        snprintf(l, sizeof l, "oversize:MAX+%zu last-record-TXT-with-rdata-reaching-the-real-end", extra); add_case(u, l); }
    }
  }
  g_ncases = g_cases.size();
}
static void tail_case(uint64_t idx, Bytes &dg, std::string &label) {
  dg.assign({(uint8_t)(kId >> 8), (uint8_t)(kId & 0xff)});
  if (g_tail3s) { uint64_t fl = idx / 6; dg.push_back((uint8_t)(fl >> 8)); dg.push_back((uint8_t)fl); dg.push_back(kSub[idx % 6]); label = "tail:len3s id+flags+1byte{00,01,3f,40,c0,ff}"; return; }
  uint64_t base = 0, cnt = 1; int len = 0;
  while (idx >= base + cnt) { base += cnt; cnt *= 256; len++; }
  uint64_t v = idx - base; for (int i = len - 1; i >= 0; i--) dg.push_back((uint8_t)(v >> (8 * i)));
  label = "tail:len" + std::to_string(len) + " id+" + std::to_string(len) + "bytes";
}

// ------------------------------------------------------------------------------------------------
// worker
static uint64_t g_shard = 0, g_nshards = 1; static double g_deadline = 0;
static uint64_t g_probe_every = 1, g_ignored_seen = 0;
// hashed sharding: expensive datagrams (QR=1, rcode 0, garbage counts) would otherwise all fall into the same residue class
static inline bool mine(uint64_t i) { return (((uint32_t)i * 2654435761u) >> 11) % g_nshards == g_shard; }
static char g_altstack[65536];
static void on_segv(int, siginfo_t *si, void *uc) {
  uintptr_t sp = (uintptr_t)((ucontext_t *)uc)->uc_mcontext.gregs[REG_RSP], fa = (uintptr_t)si->si_addr;
  shm->death = (fa + 65536 > sp && fa < sp + 65536) ? 1 : 2;
  _exit(7);
}
static void *worker_thread(void *arg) {
  uint64_t start = *(uint64_t *)arg;
#if !defined(__SANITIZE_ADDRESS__)
  stack_t ss; ss.ss_sp = g_altstack; ss.ss_size = sizeof g_altstack; ss.ss_flags = 0; sigaltstack(&ss, nullptr);
  struct sigaction sa; memset(&sa, 0, sizeof sa); sa.sa_sigaction = on_segv; sa.sa_flags = SA_SIGINFO | SA_ONSTACK; sigaction(SIGSEGV, &sa, nullptr); sigaction(SIGBUS, &sa, nullptr);
#endif
  Bytes dg; std::string label;
  for (uint64_t i = start; i < g_ncases; i++) {
    if (!mine(i)) continue;
    if ((shm->done & 255) == 0 && real_now_s() > g_deadline) { shm->capped = 1; break; }
    shm->cur = i; shm->phase = 0;
    const Bytes *pd; const std::string *pl; int rx = RX_DATAGRAM;
    if (g_tail) { tail_case(i, dg, label); pd = &dg; pl = &label; } else { pd = &g_cases[i].dg; pl = &g_cases[i].label; rx = g_cases[i].rx; }
    static const Bytes nothing; const Bytes *jd = rx == RX_DATAGRAM ? pd : &nothing;     // what the code under test was given
    int err = g_tail ? EAGAIN : g_cases[i].err;
    unsigned vg0 = VALGRIND_COUNT_ERRORS;
    shm->phase = 1; Obs o0 = run_once(*pd, 0x00, rx, err);
    // second paint: 0xA5 (an uninitialised id/flags word then reads as "reply to the outstanding lookup"). In the tail sweep,
    // datagrams that do carry id and flags use 0x01 instead: uninitialised record counts then read 257 instead of 42405,
    // which keeps the 16.8 M-datagram sweep affordable (same defects, 160 times fewer garbage iterations).
    unsigned char p2 = (g_tail && pd->size() >= 4) ? 0x01 : 0xA5;
    shm->phase = 2; Obs o1 = run_once(*pd, p2, rx, err);
    Bytes stored; if (g_sock && rx == RX_DATAGRAM && g_rx_last_len && pd->size() > g_rx_last_len) { stored.assign(pd->begin(), pd->begin() + g_rx_last_len); jd = &stored; g_full = pd; } else g_full = nullptr;   // longer than the buffer offered: judged as the stored prefix
    unsigned vg1 = VALGRIND_COUNT_ERRORS;
    shm->phase = 3;
    if (vg1 != vg0) { Strict sx = ref_strict(jd->data(), jd->size()); violation("dns-" + (sx.shape == "well-formed" ? std::string("well-formed-reply") : sx.shape) + "-valgrind-reports-invalid-or-uninitialised-value-use", *pl, *jd, std::to_string(vg1 - vg0) + " memcheck errors during the two deliveries"); outcome(pl->substr(0, pl->find(' ')) + " -> memcheck-error"); }
    else judge(*jd, *pl, o0, o1);
    // ignored under both paints: the outstanding lookup must still be there and must still complete (every case of the structured
    // sweeps; every g_probe_every-th ignored datagram of the id+string sweep)
    if (!o0.cb && !o1.cb) {
      shm->phase = 4; Strict sx = ref_strict(jd->data(), jd->size()); std::string shape = sx.shape == "well-formed" ? "well-formed-reply" : sx.shape;
      if (!w_dns->isRunning(kId)) { violation("dns-" + shape + "-datagram-is-ignored-but-the-outstanding-lookup-is-gone", *pl, *jd, "isRunning(id) is false and the callback was never invoked"); w_pristine = false; }
      else if (g_probe_every && (g_ignored_seen++ % g_probe_every) == 0) { std::string why = probe_world(); if (!why.empty()) violation("dns-" + shape + "-datagram-is-ignored-but-the-lookup-no-longer-completes", *pl, *jd, why); }
    }
    if (shm->samples < 4 && (shm->done % 997) == 3) { shm->samples++; std::string s = "@SAMPLE " + g_tagname + " " + *pl + " :: " + hex(*pd) + " => " + o0.str() + "\n"; emit(s.c_str()); }
    shm->done++;
  }
  shm->finished = 1;
  return nullptr;
}
static void run_worker(uint64_t start) {   // in the child
  pthread_attr_t at; pthread_attr_init(&at); pthread_attr_setstacksize(&at, 256 * 1024);
  pthread_t th; if (pthread_create(&th, &at, worker_thread, &start) != 0) { emit("@VIOL sig=harness-pthread-create-failed :: -\n"); _exit(0); }
  pthread_join(th, nullptr);
  _exit(0);
}

static std::string slurp(int fd) { std::string s; char b[4096]; lseek(fd, 0, SEEK_SET); ssize_t n; while ((n = read(fd, b, sizeof b)) > 0) { s.append(b, (size_t)n); if (s.size() > (1 << 20)) break; } return s; }

int main(int argc, char **argv) {
  std::string mode = argc > 1 ? argv[1] : "struct";
  if (RUNNING_ON_VALGRIND) BUILD_TAG = "valgrind";
  setvbuf(stdout, nullptr, _IONBF, 0);
  shm = (Shm *)mmap(nullptr, sizeof(Shm), PROT_READ | PROT_WRITE, MAP_SHARED | MAP_ANONYMOUS, -1, 0); memset(shm, 0, sizeof(Shm));
  { const char *e = getenv("VERIF_DEADLINE_S"); g_deadline = real_now_s() + (e ? atof(e) : 600);
    const char *a = getenv("C15_DEADLINE_MONO"); if (a) g_deadline = atof(a); }   // absolute CLOCK_MONOTONIC seconds (set by check.py)
  if (mode == "one") {
    Bytes dg; const char *h = argc > 2 ? argv[2] : ""; for (size_t i = 0; h[i] && h[i + 1]; i += 2) { unsigned v; sscanf(h + i, "%2x", &v); dg.push_back(v); }
    if (argc > 3 && std::string(argv[3]) == "sock") g_sock = true;
    g_cases.clear(); add_case(dg, "one:replay"); g_ncases = 1;
  } else if (mode == "tail3s") {
    g_shard = argc > 2 ? atoi(argv[2]) : 0; g_nshards = argc > 3 ? atoi(argv[3]) : 1; g_tail = g_tail3s = true; g_ncases = 65536 * 6; g_probe_every = 8;
  } else if (mode == "tail") {
    g_shard = argc > 2 ? atoi(argv[2]) : 0; g_nshards = argc > 3 ? atoi(argv[3]) : 1; g_tail_max = argc > 4 ? atoi(argv[4]) : 2; g_tail = true;
    g_probe_every = g_tail_max >= 3 ? 8 : 1;
    uint64_t c = 1; g_ncases = 0; for (int l = 0; l <= g_tail_max; l++) { g_ncases += c; c *= 256; }
  } else {
    g_shard = argc > 2 ? atoi(argv[2]) : 0; g_nshards = argc > 3 ? atoi(argv[3]) : 1;
    bool pairs = false; for (int i = 4; i < argc; i++) { if (std::string(argv[i]) == "pairs") pairs = true; if (std::string(argv[i]) == "sock") g_sock = true; }
    build_struct_cases(pairs);
  }
  { Bytes a = bases()[0].b; a[0] = kId >> 8; a[1] = kId & 0xff; g_probe = a; }
  g_tagname = std::string(BUILD_TAG) + ":" + mode + (g_sock ? "-via-socket-event" : "");
  // harness self-test: the intact base replies decode to what they were built to say (strict decoder and real parser)
  if (!g_tail && g_shard == 0) for (auto &B : bases()) { Strict st = ref_strict(B.b.data(), B.b.size());
    if (std::string(B.name) == "MAX" && B.b.size() != 4096) printf("@VIOL sig=harness-selftest-max-base-is-not-4096-bytes :: %zu\n", B.b.size());
    if (st.shape != "well-formed" || st.a != B.expect.a || st.c != B.expect.c) { printf("@VIOL sig=harness-selftest-strict-decoder-disagrees-with-base :: %s %s\n", B.name, hex(B.b).c_str()); } }
  int errfd = (int)syscall(SYS_memfd_create, "c15err", 0);
  uint64_t start = 0; uint64_t crashes = 0; int spawned = 0;
  while (start < g_ncases && !shm->capped) {
    int r = ftruncate(errfd, 0); (void)r; lseek(errfd, 0, SEEK_SET);
    shm->finished = 0; shm->death = 0; shm->cur = start;
    pid_t pid = fork(); spawned++;
    if (pid == 0) { dup2(errfd, 2); run_worker(start); }
    // watchdog: no progress for 20 s of real time = does not terminate
    int st = 0; uint64_t last_done = shm->done, last_cur = shm->cur; double last_t = real_now_s(); bool hung = false;
    for (;;) {
      pid_t w = waitpid(pid, &st, WNOHANG); if (w == pid) break;
      usleep(2000);
      if (shm->done != last_done || shm->cur != last_cur) { last_done = shm->done; last_cur = shm->cur; last_t = real_now_s(); }
      else if (real_now_s() - last_t > 20) { hung = true; kill(pid, SIGKILL); waitpid(pid, &st, 0); break; }
    }
    if (shm->finished && WIFEXITED(st) && WEXITSTATUS(st) == 0 && !hung) break;
    if (shm->capped) break;
    // the worker died while evaluating case shm->cur
    uint64_t at = shm->cur; crashes++;
    if (at >= g_ncases || !mine(at)) { printf("@VIOL sig=harness-worker-died-outside-a-case :: cursor=%lu status=%d\n", (unsigned long)at, st); break; }
    Bytes dg; std::string label; if (g_tail) tail_case(at, dg, label); else { dg = g_cases[at].dg; label = g_cases[at].label; }
    std::string err = slurp(errfd), effect, detail;
    Strict sx = ref_strict(dg.data(), dg.size()); std::string shape = sx.shape == "well-formed" ? "well-formed-reply" : sx.shape;
    size_t p;
    if (hung) effect = "does-not-terminate";
    else if (shm->death == 1 || err.find("stack-overflow") != std::string::npos) effect = "unbounded-recursion";
    else if ((p = err.find("ERROR: AddressSanitizer: ")) != std::string::npos) { size_t q = err.find_first_of(" \n", p + 25); effect = "asan-" + err.substr(p + 25, q - (p + 25)); }
    else if ((p = err.find("runtime error: ")) != std::string::npos) { size_t q = err.find('\n', p); effect = "ubsan"; detail = err.substr(p, q - p); size_t s = err.rfind('\n', p); std::string loc = err.substr(s == std::string::npos ? 0 : s + 1, p - (s == std::string::npos ? 0 : s + 1)); detail = loc + detail; }
    else if (shm->death == 2) effect = "crash-SIGSEGV";
    else if (WIFSIGNALED(st)) effect = "crash-signal" + std::to_string(WTERMSIG(st));
    else effect = "crash-exit" + std::to_string(WEXITSTATUS(st));
    if (detail.empty()) { size_t f = err.find("    #"); for (int k = 0; k < 6 && f != std::string::npos; k++) { size_t e = err.find('\n', f); std::string ln = err.substr(f, e - f); if (ln.find("dns_request.cpp") != std::string::npos || ln.find("serializer.cpp") != std::string::npos) { detail = ln.substr(ln.find("#")); break; } f = err.find("    #", e); } }
    if (!g_tail && g_cases[at].rx != RX_DATAGRAM) { dg.clear(); sx = ref_strict(dg.data(), 0); shape = sx.shape; }
    Bytes whole = dg; g_full = nullptr;
    if (g_sock && dg.size() > kRecvBuf) { g_full = &whole; dg.resize(kRecvBuf); sx = ref_strict(dg.data(), dg.size()); shape = sx.shape == "well-formed" ? "well-formed-reply" : sx.shape; }
    char ph[80]; snprintf(ph, sizeof ph, "died in phase %d (1=paint00 2=second paint 3=oracle 4=follow-up reply)", shm->phase);
    violation("dns-" + shape + "-" + effect, label, dg, std::string(ph) + (detail.empty() ? "" : "; " + detail));
    outcome(label.substr(0, label.find(' ')) + " -> " + effect);
    shm->done++;
    start = at + 1;
  }
  if (shm->capped) printf("@CAP %s shard %lu/%lu: deadline reached after %lu of ~%lu datagrams\n", g_tagname.c_str(), (unsigned long)g_shard, (unsigned long)g_nshards, (unsigned long)shm->done, (unsigned long)(g_ncases / g_nshards));
  for (auto &e : shm->outs) if (e.txt[0]) printf("@OUTCOME parser %s n=%lu [%s shard %lu]\n", e.txt, (unsigned long)e.n, g_tagname.c_str(), (unsigned long)g_shard);
  for (auto &e : shm->sigs) if (e.sig[0]) printf("@INFO %s shard %lu: %lu datagrams with signature %s\n", g_tagname.c_str(), (unsigned long)g_shard, (unsigned long)e.n, e.sig);
  bool plain = std::string(BUILD_TAG) == "plain";   // distinct datagrams are counted once (plain build); the ASan build re-evaluates a subset
  printf("@STAT states=%lu %s=%lu transitions=%lu executions=%lu violations=%lu callbacks=%lu ignored=%lu paint_dependent=%lu worker_deaths=%lu workers=%d world_reused=%lu world_rebuilt=%lu strict_exact=%lu strict_lenient=%lu followup_probes=%lu\n",
         (unsigned long)(plain ? shm->done : 0), plain ? "datagrams_plain" : RUNNING_ON_VALGRIND ? "datagrams_valgrind" : "datagrams_asan", (unsigned long)shm->done, (unsigned long)shm->execs, (unsigned long)shm->execs, (unsigned long)shm->viols, (unsigned long)shm->callbacks, (unsigned long)shm->ignored,
         (unsigned long)shm->paint_diff, (unsigned long)crashes, spawned, (unsigned long)shm->reused, (unsigned long)shm->rebuilt, (unsigned long)shm->strict_exact, (unsigned long)shm->strict_differs, (unsigned long)shm->probes);
  return 0;
}
