// C15 shared pieces: access to the protected reply entry point, outgoing-datagram capture, reply builders,
// and the INDEPENDENT reference decoders (strict = RFC 1035 shape classification, generous = oracle).
#pragma once
#include <tbox/event/loop.h>
#include <tbox/network/dns_request.h>
#include <tbox/event/fd_event.h>
#include <arpa/inet.h>
#include <cerrno>
#include <tuple>
#include <sys/socket.h>
#include <sys/syscall.h>
#include <unistd.h>
#include <array>
#include <cstdint>
#include <cstdio>
#include <cstring>
#include <set>
#include <string>
#include <vector>

using Bytes = std::vector<uint8_t>;
using namespace tbox;

// Subclass that reaches the protected datagram entry point (no source hook in /repo).
struct Dns : network::DnsRequest {
  using DnsRequest::DnsRequest;
  void feed(const uint8_t *p, size_t n, const network::SockAddr &from) { onUdpRecv(p, n, from); }
};

// Outgoing datagrams never reach the network: sendto() is defined by the harness executable.
// g_sent records every ATTEMPT. g_tx_fail_mask: bit s set = the kernel refuses datagrams to the server whose address ends in
// .(s+1) (-1 / ENETUNREACH), as when that server has no route.
struct Sent { Bytes data; uint32_t ip; uint16_t port; bool failed; };
static std::vector<Sent> g_sent;
static bool g_keep_sent = false;
static unsigned g_tx_fail_mask = 0;
extern "C" ssize_t sendto(int, const void *buf, size_t n, int, const struct sockaddr *to, socklen_t) {
  bool refuse = false;
  if (to && to->sa_family == AF_INET && g_tx_fail_mask) { auto *in = (const struct sockaddr_in *)to; unsigned last = ((const uint8_t *)&in->sin_addr.s_addr)[3]; refuse = last >= 1 && last <= 8 && (g_tx_fail_mask >> (last - 1) & 1); }
  if (g_keep_sent && g_sent.size() < 64) {
    Sent s; s.data.assign((const uint8_t *)buf, (const uint8_t *)buf + n); s.ip = 0; s.port = 0; s.failed = refuse;
    if (to && to->sa_family == AF_INET) { auto *in = (const struct sockaddr_in *)to; s.ip = in->sin_addr.s_addr; s.port = ntohs(in->sin_port); }
    g_sent.push_back(s);
  }
  if (refuse) { errno = ENETUNREACH; return -1; }
  return (ssize_t)n;
}

// Incoming datagrams through the REAL receive path: the harness calls UdpSocket::onSocketEvent(kReadEvent) (what the loop
// does when the descriptor is readable) and the executable's own recvfrom() plays the kernel: it hands out the queued
// datagram like Linux UDP does - it copies at most `len` bytes and returns the number copied, or, when the caller passes
// MSG_TRUNC, the REAL length of the datagram even if that is more than `len` (queued datagrams may be longer than any buffer) -,
// or 0 (empty datagram), or -1 with errno g_rx_errno (EAGAIN / EINTR / ECONNREFUSED). The rest of the caller's
// buffer is left untouched (= whatever the dead stack held: the painted value) and, in the ASan build, poisoned for the
// duration of the call, so that reading more than `rsize` bytes is a report and not only a paint difference.
#if defined(__SANITIZE_ADDRESS__)
extern "C" void __asan_poison_memory_region(void const volatile *, size_t);
extern "C" void __asan_unpoison_memory_region(void const volatile *, size_t);
#endif
enum RxMode { RX_REAL = 0, RX_DATAGRAM, RX_ZERO, RX_ERROR };
static int g_rx_mode = RX_REAL; static const uint8_t *g_rx_data = nullptr; static size_t g_rx_size = 0; static uint32_t g_rx_from_ip = 0;
static int g_rx_errno = EAGAIN; static size_t g_rx_last_len = 0;   // buffer size the code under test offered
static int g_rx_calls = 0; static void *g_rx_poison = nullptr; static size_t g_rx_poison_len = 0;
extern "C" ssize_t recvfrom(int fd, void *buf, size_t len, int flags, struct sockaddr *addr, socklen_t *alen) {
  if (g_rx_mode == RX_REAL) return (ssize_t)syscall(SYS_recvfrom, fd, buf, len, flags, addr, alen);
  g_rx_calls++; g_rx_last_len = len;
  if (g_rx_mode == RX_ERROR) { errno = g_rx_errno; return -1; }
  size_t n = g_rx_mode == RX_ZERO ? 0 : (g_rx_size < len ? g_rx_size : len);
  if (n) memcpy(buf, g_rx_data, n);
  if (addr && alen && *alen >= sizeof(struct sockaddr_in)) { struct sockaddr_in in; memset(&in, 0, sizeof in); in.sin_family = AF_INET; in.sin_port = htons(53); in.sin_addr.s_addr = g_rx_from_ip; memcpy(addr, &in, sizeof in); *alen = sizeof in; }
#if defined(__SANITIZE_ADDRESS__)
  if (len > n) { g_rx_poison = (uint8_t *)buf + n; g_rx_poison_len = len - n; __asan_poison_memory_region(g_rx_poison, g_rx_poison_len); }
#endif
  return (ssize_t)((flags & MSG_TRUNC) && g_rx_mode == RX_DATAGRAM ? g_rx_size : n);
}
static const size_t kRecvBuf = 4096;       // UdpSocket's receive buffer (RECV_BUFF_SIZE): what a datagram longer than this is judged as = its prefix
// one readable event on the DNS socket with the given kernel behaviour; returns the number of recvfrom() calls made
static inline int socket_event(network::DnsRequest *d, int mode, const uint8_t *p, size_t n, uint32_t from_ip_net) {
  g_rx_mode = mode; g_rx_data = p; g_rx_size = n; g_rx_from_ip = from_ip_net; g_rx_calls = 0;
  d->udp_.onSocketEvent(event::FdEvent::kReadEvent);
  g_rx_mode = RX_REAL;
#if defined(__SANITIZE_ADDRESS__)
  if (g_rx_poison) { __asan_unpoison_memory_region(g_rx_poison, g_rx_poison_len); g_rx_poison = nullptr; }
#endif
  return g_rx_calls;
}

static inline std::string hex(const uint8_t *p, size_t n) { static const char *d = "0123456789abcdef"; std::string s; for (size_t i = 0; i < n; i++) { s += d[p[i] >> 4]; s += d[p[i] & 15]; } return s.empty() ? "<empty>" : s; }
static inline std::string hex(const Bytes &b) { return hex(b.data(), b.size()); }

// ---------------------------------------------------------------------------------------------
// reply builders
static inline void put16(Bytes &b, unsigned v) { b.push_back(v >> 8); b.push_back(v & 0xff); }
static inline void put32(Bytes &b, unsigned v) { put16(b, v >> 16); put16(b, v & 0xffff); }
static inline void put_name(Bytes &b, const std::string &dotted) {   // uncompressed
  size_t s = 0; while (s < dotted.size()) { size_t e = dotted.find('.', s); if (e == std::string::npos) e = dotted.size(); b.push_back((uint8_t)(e - s)); b.insert(b.end(), dotted.begin() + s, dotted.begin() + e); s = e + 1; }
  b.push_back(0);
}
static inline Bytes header(unsigned id, unsigned flags, unsigned qd, unsigned an, unsigned ns, unsigned ar) { Bytes b; put16(b, id); put16(b, flags); put16(b, qd); put16(b, an); put16(b, ns); put16(b, ar); return b; }

// ---------------------------------------------------------------------------------------------
// Reference decoders. Written from RFC 1035 section 4, sharing nothing with dns_request.cpp.
struct NameRes { bool ok = false; const char *err = ""; std::vector<std::string> labels; size_t end = 0; };
// lenient_labels: accept the reserved label types 0x40..0xbf as plain lengths (generous reading L3)
static NameRes ref_name(const uint8_t *d, size_t n, size_t off, bool lenient_labels) {
  NameRes r; size_t pos = off; bool jumped = false; std::set<size_t> seen;
  for (;;) {
    if (pos >= n) { r.err = "truncated-reply"; return r; }
    uint8_t l = d[pos];
    if (l == 0) { if (!jumped) r.end = pos + 1; r.ok = true; return r; }
    if ((l & 0xc0) == 0xc0) {
      if (pos + 1 >= n) { r.err = "truncated-reply"; return r; }
      size_t t = ((size_t)(l & 0x3f) << 8) | d[pos + 1];
      if (!jumped) { r.end = pos + 2; jumped = true; }
      if (t == pos) { r.err = "compression-pointer-self-loop"; return r; }
      if (t >= n) { r.err = "compression-pointer-outside-packet"; return r; }
      if (!seen.insert(pos).second) { r.err = "compression-pointer-loop"; return r; }
      pos = t; continue;
    }
    if ((l & 0xc0) && !lenient_labels) { r.err = "reserved-label-type"; return r; }
    if (pos + 1 + l > n) { r.err = "truncated-reply"; return r; }
    r.labels.push_back(std::string((const char *)d + pos + 1, l)); pos += 1 + (size_t)l;
  }
}
// Rendering used for comparison (readings L4/L5): a label is compared up to its first NUL byte, labels are
// joined with '.', dots at the end (root label) are not significant.
static inline std::string strip_dots(std::string s) { while (!s.empty() && s.back() == '.') s.pop_back(); return s; }
static inline std::string render(const std::vector<std::string> &labels) {
  std::string s; for (size_t i = 0; i < labels.size(); i++) { if (i) s += '.'; s += labels[i].c_str(); } return strip_dots(s);
}
static inline unsigned rd16(const uint8_t *d, size_t o) { return (unsigned)d[o] << 8 | d[o + 1]; }

using Addr = std::array<uint8_t, 4>;
// STRICT decoder: RFC framing, stops at the first malformed element; `shape` names that element.
struct Strict { std::string shape; std::vector<Addr> a; std::vector<std::string> c; };
static Strict ref_strict(const uint8_t *d, size_t n) {
  Strict s;
  if (n < 4) { s.shape = "truncated-reply"; return s; }
  unsigned flags = rd16(d, 2);
  if (!(flags & 0x8000)) { s.shape = "not-a-reply"; return s; }
  if (flags & 0x000f) { s.shape = "error-rcode"; return s; }
  if (n < 12) { s.shape = "truncated-reply"; return s; }
  unsigned qd = rd16(d, 4), an = rd16(d, 6); size_t off = 12;
  for (unsigned i = 0; i < qd; i++) {
    if (off >= n) { s.shape = "inflated-count"; return s; }
    NameRes q = ref_name(d, n, off, false); if (!q.ok) { s.shape = q.err; return s; }
    off = q.end; if (off + 4 > n) { s.shape = "truncated-reply"; return s; } off += 4;
  }
  for (unsigned i = 0; i < an; i++) {
    if (off >= n) { s.shape = "inflated-count"; return s; }
    NameRes o = ref_name(d, n, off, false); if (!o.ok) { s.shape = o.err; return s; }
    off = o.end; if (off + 10 > n) { s.shape = "truncated-reply"; return s; }
    unsigned type = rd16(d, off), rdlen = rd16(d, off + 8); size_t rdata = off + 10;
    if (rdata + rdlen > n) { s.shape = "truncated-reply"; return s; }
    if (type == 1) { if (rdlen != 4) { s.shape = "a-record-rdlength-not-4"; return s; } s.a.push_back(Addr{{d[rdata], d[rdata + 1], d[rdata + 2], d[rdata + 3]}}); }
    else if (type == 5) { NameRes c = ref_name(d, n, rdata, false); if (!c.ok) { s.shape = c.err; return s; } if (c.end != rdata + rdlen) { s.shape = "cname-rdlength-mismatch"; return s; } s.c.push_back(render(c.labels)); }
    off = rdata + rdlen;
  }
  s.shape = "well-formed";
  return s;
}

// GENEROUS decoder = the oracle for "reports only addresses and names that are actually encoded in that
// datagram". Everything any memory-safe decoder could defensibly extract: strict + readings
//   L1 class not examined; L2 RDLENGTH of A / CNAME records not cross-checked (both framings followed);
//   L3 label bytes 0x40..0xbf accepted as lengths; L4/L5 see render(). A value outside this set cannot
// come from the datagram under any reading.
//   L6 the owner name of a record and the question name are not reported, so only their framing counts: labels
//      are skipped, a compression pointer ends the name after its two bytes, its target is not examined.
struct Generous { std::set<Addr> a; std::set<std::string> c; size_t max_a = 0, max_c = 0; std::set<std::tuple<size_t, unsigned, size_t, size_t>> memo; };
static bool skip_name(const uint8_t *d, size_t n, size_t off, size_t &end) {
  for (;;) { if (off >= n) return false; uint8_t l = d[off]; if (l == 0) { end = off + 1; return true; }
    if ((l & 0xc0) == 0xc0) { if (off + 2 > n) return false; end = off + 2; return true; }
    if (off + 1 + l > n) return false; off += 1 + (size_t)l; }
}
// work-list form (no recursion in the oracle: a 4096-byte datagram frames up to 372 records and the oracle runs on the
// worker's small stack); both framings of a record may rejoin, so each (offset, records left, counts) is visited once
static void gen_rr(const uint8_t *d, size_t n, size_t off0, unsigned left0, Generous &g) {
  typedef std::tuple<size_t, unsigned, size_t, size_t> Item;
  std::vector<Item> work; work.push_back(Item(off0, left0, 0, 0));
  while (!work.empty()) {
    Item it = work.back(); work.pop_back();
    size_t off = std::get<0>(it); unsigned left = std::get<1>(it); size_t na = std::get<2>(it), nc = std::get<3>(it);
    if (na > g.max_a) g.max_a = na; if (nc > g.max_c) g.max_c = nc;
    if (left == 0 || off >= n) continue;
    if (!g.memo.insert(it).second) continue;
    if (!skip_name(d, n, off, off)) continue;
    if (off + 10 > n) continue;
    unsigned type = rd16(d, off), rdlen = rd16(d, off + 8); size_t rdata = off + 10;
    if (type == 1) {
      if (rdata + 4 > n) continue;
      g.a.insert(Addr{{d[rdata], d[rdata + 1], d[rdata + 2], d[rdata + 3]}});
      work.push_back(Item(rdata + 4, left - 1, na + 1, nc));
      if (rdlen != 4 && rdata + rdlen <= n) work.push_back(Item(rdata + rdlen, left - 1, na + 1, nc));
    } else if (type == 5) {
      NameRes c = ref_name(d, n, rdata, true); if (!c.ok) continue;
      g.c.insert(render(c.labels));
      work.push_back(Item(c.end, left - 1, na, nc + 1));
      if (rdata + rdlen != c.end && rdata + rdlen <= n) work.push_back(Item(rdata + rdlen, left - 1, na, nc + 1));
    } else {
      if (rdata + rdlen > n) continue;
      work.push_back(Item(rdata + rdlen, left - 1, na, nc));
    }
  }
}
static Generous ref_generous(const uint8_t *d, size_t n) {
  Generous g;
  if (n < 12) return g;
  unsigned flags = rd16(d, 2); if (!(flags & 0x8000) || (flags & 0xf)) return g;
  unsigned qd = rd16(d, 4), an = rd16(d, 6); size_t off = 12;
  for (unsigned i = 0; i < qd; i++) { if (off >= n) return g; if (!skip_name(d, n, off, off)) return g; if (off + 4 > n) return g; off += 4; }
  gen_rr(d, n, off, an, g);
  return g;
}
