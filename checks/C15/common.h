// C15 shared pieces: access to the protected reply entry point, outgoing-datagram capture, reply builders,
// and the INDEPENDENT reference decoders (strict = RFC 1035 shape classification, generous = oracle).
#pragma once
#include <tbox/event/loop.h>
#include <tbox/network/dns_request.h>
#include <arpa/inet.h>
#include <sys/socket.h>
#include <sys/syscall.h>
#include <unistd.h>
#include <array>
#include <cstdint>
#include <cstdio>
#include <cstring>
#include <set>
#include <string>
#include <vector>

using Bytes = std::vector<uint8_t>;
using namespace tbox;

// Subclass that reaches the protected datagram entry point (no source hook in /repo).
struct Dns : network::DnsRequest {
  using DnsRequest::DnsRequest;
  void feed(const uint8_t *p, size_t n, const network::SockAddr &from) { onUdpRecv(p, n, from); }
};

// Outgoing datagrams never reach the network: sendto() is defined by the harness executable.
struct Sent { Bytes data; uint32_t ip; uint16_t port; };
static std::vector<Sent> g_sent;
static bool g_keep_sent = false;
extern "C" ssize_t sendto(int, const void *buf, size_t n, int, const struct sockaddr *to, socklen_t) {
  if (g_keep_sent && g_sent.size() < 64) {
    Sent s; s.data.assign((const uint8_t *)buf, (const uint8_t *)buf + n); s.ip = 0; s.port = 0;
    if (to && to->sa_family == AF_INET) { auto *in = (const struct sockaddr_in *)to; s.ip = in->sin_addr.s_addr; s.port = ntohs(in->sin_port); }
    g_sent.push_back(s);
  }
  return (ssize_t)n;
}

static inline std::string hex(const uint8_t *p, size_t n) { static const char *d = "0123456789abcdef"; std::string s; for (size_t i = 0; i < n; i++) { s += d[p[i] >> 4]; s += d[p[i] & 15]; } return s.empty() ? "<empty>" : s; }
static inline std::string hex(const Bytes &b) { return hex(b.data(), b.size()); }

// ---------------------------------------------------------------------------------------------
// reply builders
static inline void put16(Bytes &b, unsigned v) { b.push_back(v >> 8); b.push_back(v & 0xff); }
static inline void put32(Bytes &b, unsigned v) { put16(b, v >> 16); put16(b, v & 0xffff); }
static inline void put_name(Bytes &b, const std::string &dotted) {   // uncompressed
  size_t s = 0; while (s < dotted.size()) { size_t e = dotted.find('.', s); if (e == std::string::npos) e = dotted.size(); b.push_back((uint8_t)(e - s)); b.insert(b.end(), dotted.begin() + s, dotted.begin() + e); s = e + 1; }
  b.push_back(0);
}
static inline Bytes header(unsigned id, unsigned flags, unsigned qd, unsigned an, unsigned ns, unsigned ar) { Bytes b; put16(b, id); put16(b, flags); put16(b, qd); put16(b, an); put16(b, ns); put16(b, ar); return b; }

// ---------------------------------------------------------------------------------------------
// Reference decoders. Written from RFC 1035 section 4, sharing nothing with dns_request.cpp.
struct NameRes { bool ok = false; const char *err = ""; std::vector<std::string> labels; size_t end = 0; };
// lenient_labels: accept the reserved label types 0x40..0xbf as plain lengths (generous reading L3)
static NameRes ref_name(const uint8_t *d, size_t n, size_t off, bool lenient_labels) {
  NameRes r; size_t pos = off; bool jumped = false; std::set<size_t> seen;
  for (;;) {
    if (pos >= n) { r.err = "truncated-reply"; return r; }
    uint8_t l = d[pos];
    if (l == 0) { if (!jumped) r.end = pos + 1; r.ok = true; return r; }
    if ((l & 0xc0) == 0xc0) {
      if (pos + 1 >= n) { r.err = "truncated-reply"; return r; }
      size_t t = ((size_t)(l & 0x3f) << 8) | d[pos + 1];
      if (!jumped) { r.end = pos + 2; jumped = true; }
      if (t == pos) { r.err = "compression-pointer-self-loop"; return r; }
      if (t >= n) { r.err = "compression-pointer-outside-packet"; return r; }
      if (!seen.insert(pos).second) { r.err = "compression-pointer-loop"; return r; }
      pos = t; continue;
    }
    if ((l & 0xc0) && !lenient_labels) { r.err = "reserved-label-type"; return r; }
    if (pos + 1 + l > n) { r.err = "truncated-reply"; return r; }
    r.labels.push_back(std::string((const char *)d + pos + 1, l)); pos += 1 + (size_t)l;
  }
}
// Rendering used for comparison (readings L4/L5): a label is compared up to its first NUL byte, labels are
// joined with '.', dots at the end (root label) are not significant.
static inline std::string strip_dots(std::string s) { while (!s.empty() && s.back() == '.') s.pop_back(); return s; }
static inline std::string render(const std::vector<std::string> &labels) {
  std::string s; for (size_t i = 0; i < labels.size(); i++) { if (i) s += '.'; s += labels[i].c_str(); } return strip_dots(s);
}
static inline unsigned rd16(const uint8_t *d, size_t o) { return (unsigned)d[o] << 8 | d[o + 1]; }

using Addr = std::array<uint8_t, 4>;
// STRICT decoder: RFC framing, stops at the first malformed element; `shape` names that element.
struct Strict { std::string shape; std::vector<Addr> a; std::vector<std::string> c; };
static Strict ref_strict(const uint8_t *d, size_t n) {
  Strict s;
  if (n < 4) { s.shape = "truncated-reply"; return s; }
  unsigned flags = rd16(d, 2);
  if (!(flags & 0x8000)) { s.shape = "not-a-reply"; return s; }
  if (flags & 0x000f) { s.shape = "error-rcode"; return s; }
  if (n < 12) { s.shape = "truncated-reply"; return s; }
  unsigned qd = rd16(d, 4), an = rd16(d, 6); size_t off = 12;
  for (unsigned i = 0; i < qd; i++) {
    if (off >= n) { s.shape = "inflated-count"; return s; }
    NameRes q = ref_name(d, n, off, false); if (!q.ok) { s.shape = q.err; return s; }
    off = q.end; if (off + 4 > n) { s.shape = "truncated-reply"; return s; } off += 4;
  }
  for (unsigned i = 0; i < an; i++) {
    if (off >= n) { s.shape = "inflated-count"; return s; }
    NameRes o = ref_name(d, n, off, false); if (!o.ok) { s.shape = o.err; return s; }
    off = o.end; if (off + 10 > n) { s.shape = "truncated-reply"; return s; }
    unsigned type = rd16(d, off), rdlen = rd16(d, off + 8); size_t rdata = off + 10;
    if (rdata + rdlen > n) { s.shape = "truncated-reply"; return s; }
    if (type == 1) { if (rdlen != 4) { s.shape = "a-record-rdlength-not-4"; return s; } s.a.push_back(Addr{{d[rdata], d[rdata + 1], d[rdata + 2], d[rdata + 3]}}); }
    else if (type == 5) { NameRes c = ref_name(d, n, rdata, false); if (!c.ok) { s.shape = c.err; return s; } if (c.end != rdata + rdlen) { s.shape = "cname-rdlength-mismatch"; return s; } s.c.push_back(render(c.labels)); }
    off = rdata + rdlen;
  }
  s.shape = "well-formed";
  return s;
}

// GENEROUS decoder = the oracle for "reports only addresses and names that are actually encoded in that
// datagram". Everything any memory-safe decoder could defensibly extract: strict + readings
//   L1 class not examined; L2 RDLENGTH of A / CNAME records not cross-checked (both framings followed);
//   L3 label bytes 0x40..0xbf accepted as lengths; L4/L5 see render(). A value outside this set cannot
// come from the datagram under any reading.
//   L6 the owner name of a record and the question name are not reported, so only their framing counts: labels
//      are skipped, a compression pointer ends the name after its two bytes, its target is not examined.
struct Generous { std::set<Addr> a; std::set<std::string> c; size_t max_a = 0, max_c = 0; };
static bool skip_name(const uint8_t *d, size_t n, size_t off, size_t &end) {
  for (;;) { if (off >= n) return false; uint8_t l = d[off]; if (l == 0) { end = off + 1; return true; }
    if ((l & 0xc0) == 0xc0) { if (off + 2 > n) return false; end = off + 2; return true; }
    if (off + 1 + l > n) return false; off += 1 + (size_t)l; }
}
static void gen_rr(const uint8_t *d, size_t n, size_t off, unsigned left, size_t na, size_t nc, Generous &g, int depth) {
  if (na > g.max_a) g.max_a = na; if (nc > g.max_c) g.max_c = nc;
  if (left == 0 || off >= n || depth > 64) return;
  if (!skip_name(d, n, off, off)) return;
  if (off + 10 > n) return;
  unsigned type = rd16(d, off), rdlen = rd16(d, off + 8); size_t rdata = off + 10;
  if (type == 1) {
    if (rdata + 4 > n) return;
    g.a.insert(Addr{{d[rdata], d[rdata + 1], d[rdata + 2], d[rdata + 3]}});
    gen_rr(d, n, rdata + 4, left - 1, na + 1, nc, g, depth + 1);
    if (rdlen != 4 && rdata + rdlen <= n) gen_rr(d, n, rdata + rdlen, left - 1, na + 1, nc, g, depth + 1);
  } else if (type == 5) {
    NameRes c = ref_name(d, n, rdata, true); if (!c.ok) return;
    g.c.insert(render(c.labels));
    gen_rr(d, n, c.end, left - 1, na, nc + 1, g, depth + 1);
    if (rdata + rdlen != c.end && rdata + rdlen <= n) gen_rr(d, n, rdata + rdlen, left - 1, na, nc + 1, g, depth + 1);
  } else {
    if (rdata + rdlen > n) return;
    gen_rr(d, n, rdata + rdlen, left - 1, na, nc, g, depth + 1);
  }
}
static Generous ref_generous(const uint8_t *d, size_t n) {
  Generous g;
  if (n < 12) return g;
  unsigned flags = rd16(d, 2); if (!(flags & 0x8000) || (flags & 0xf)) return g;
  unsigned qd = rd16(d, 4), an = rd16(d, 6); size_t off = 12;
  for (unsigned i = 0; i < qd; i++) { if (off >= n) return g; if (!skip_name(d, n, off, off)) return g; if (off + 4 > n) return g; off += 4; }
  gen_rr(d, n, off, an, 0, 0, g, 0);
  return g;
}
