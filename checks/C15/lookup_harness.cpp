// C15 (lookups, engine H): BFS over request / cancel / reply / tick histories on a real DnsRequest that lives on a
// real loop, 2 configured servers, virtual monotonic clock. usage: lookup_harness <epoll|select> <depth>
// Outgoing datagrams are captured by the executable's own sendto(); replies are delivered through the protected
// onUdpRecv (what UdpSocket::onSocketEvent would call). A duplicated reply is the same reply op occurring again: every
// reply op stays enabled for the whole history, so all orders and all duplications are enumerated.
#include "hist/hist.h"
#include "common.h"
#include <tbox/event/common_loop.h>
#include <tbox/event/timer_event.h>
#include <tbox/event/fd_event.h>
#include <sys/epoll.h>
#include <sys/select.h>
#include <sys/time.h>
#include <time.h>

// ---- virtual clock (real clocks outside the code under test so that the explorer's deadline keeps running) ----
static bool g_virt = false; static int64_t g_mono_ms = 0;
extern "C" int clock_gettime(clockid_t k, struct timespec *ts) {
  if (g_virt) { int64_t v = g_mono_ms + ((k == CLOCK_REALTIME || k == CLOCK_REALTIME_COARSE) ? 1700000000000LL : 0); ts->tv_sec = v / 1000; ts->tv_nsec = (v % 1000) * 1000000L; return 0; }
  return (int)syscall(SYS_clock_gettime, k, ts);
}
extern "C" int gettimeofday(struct timeval *tv, void *tz) {
  if (g_virt) { int64_t v = g_mono_ms + 1700000000000LL; if (tv) { tv->tv_sec = v / 1000; tv->tv_usec = (v % 1000) * 1000; } return 0; }
  return (int)syscall(SYS_gettimeofday, tv, tz);
}
extern "C" time_t time(time_t *t) { struct timespec ts; clock_gettime(CLOCK_REALTIME, &ts); if (t) *t = ts.tv_sec; return ts.tv_sec; }
struct Virt { bool old; Virt() : old(g_virt) { g_virt = true; } ~Virt() { g_virt = old; } };
// the back-end never sleeps on virtual time: readiness comes from the real kernel objects, the timeout is dropped
extern "C" int epoll_wait(int epfd, struct epoll_event *ev, int maxev, int) { return (int)syscall(SYS_epoll_wait, epfd, ev, maxev, 0); }
extern "C" int select(int nfds, fd_set *r, fd_set *w, fd_set *e, struct timeval *) { struct timeval z = {0, 0}; return (int)syscall(SYS_select, nfds, r, w, e, &z); }

using network::DnsRequest;
enum K { REQ, CANCEL, REPLY, TICK };
enum RK { OK, SERVFAIL, NXDOMAIN, FORMERR, QUERY, UNKNOWN_ID, OK_WRONG_QUESTION, NRK };
static const char *rkN[] = {"ok", "servfail", "nxdomain", "formerr", "query-not-reply", "unknown-id", "ok-wrong-question"};
struct Op { int k, i, s, r; };    // i = lookup index / domain, s = server, r = reply kind
static const char *kDomains[] = {"a.b", "c.d"};
static int kServers = 2, kMaxLookups = 2;   // argv
static const int kTimeoutTicks = 5, kMaxServers = 3;

static Bytes make_reply(uint16_t id, int dom, int look, int server, int kind) {
  unsigned flags = 0x8180; int an = 0; int qdom = dom;
  switch (kind) { case OK: an = 1; break; case SERVFAIL: flags |= 2; break; case NXDOMAIN: flags |= 3; break; case FORMERR: flags |= 1; break;
    case QUERY: flags = 0x0100; break; case UNKNOWN_ID: id = 0x7777; an = 1; break; case OK_WRONG_QUESTION: an = 1; qdom = 1 - dom; break; }
  Bytes b = header(id, flags, 1, an, 0, 0); put_name(b, kDomains[qdom]); put16(b, 1); put16(b, 1);
  if (an) { put16(b, 0xc00c); put16(b, 1); put16(b, 1); put32(b, 60); put16(b, 4); b.insert(b.end(), {10, (uint8_t)(look + 1), (uint8_t)(server + 1), (uint8_t)(kind == OK ? 7 : 9)}); }
  return b;
}

struct Look { uint16_t id = 0; int dom = 0; int state = 0 /*0 pending 1 done 2 cancelled*/; int calls = 0; int status = -1; std::vector<Addr> addrs; bool failed[kMaxServers] = {false, false, false}; int nfail = 0; int age = 0; bool followup = false /*its callback issues one more lookup*/; };
static long g_dup_counted = 0, g_wrongq_accepted = 0, g_wrongq_ignored = 0, g_timeouts = 0, g_allfail = 0, g_success = 0, g_ignored_ok = 0;

int main(int argc, char **argv) {
  std::string engine = argc > 1 ? argv[1] : "epoll"; size_t depth = argc > 2 ? atoi(argv[2]) : 6;
  if (argc > 3) kMaxLookups = std::min(3, atoi(argv[3])); if (argc > 4) kServers = std::min(kMaxServers, atoi(argv[4]));
  hx::install_crash_reporter("dns-lookup-crash");
  hx::Explorer<Op> ex; ex.name = "lookups-" + engine + "-" + std::to_string(kMaxLookups) + "lookups-" + std::to_string(kServers) + "servers"; ex.deadline_s = hx::deadline_from_env(600);
  if (getenv("C15_DEADLINE_MONO")) ex.deadline_s = atof(getenv("C15_DEADLINE_MONO"));   // absolute CLOCK_MONOTONIC seconds (set by check.py)
  ex.show = [](const Op &o) { char b[64];
    switch (o.k) { case REQ: snprintf(b, sizeof b, o.r ? "request(%s,callback-issues-a-followup-lookup)" : "request(%s)", kDomains[o.i]); break; case CANCEL: snprintf(b, sizeof b, "cancel(#%d)", o.i); break;
      case REPLY: if (o.r == UNKNOWN_ID) snprintf(b, sizeof b, "reply(unknown-id,from-s%d)", o.s); else snprintf(b, sizeof b, "reply(#%d,from-s%d,%s)", o.i, o.s, rkN[o.r]); break;
      default: snprintf(b, sizeof b, "tick(+%ds)", o.i > 0 ? o.i : 1); }
    return std::string(b); };
  ex.menu = [&](const std::vector<Op> &h) {
    std::vector<Op> m; int issued = 0; for (auto &o : h) if (o.k == REQ) issued++;
    static const bool lane = getenv("C15_FOLLOWUP") != nullptr;    // lane: lookups whose callback issues one more lookup (retry-on-timeout idiom), 5-tick advances
    if (issued < kMaxLookups) for (int d = 0; d < 2; d++) m.push_back({REQ, d, 0, 0});
    if (lane && issued < kMaxLookups) m.push_back({REQ, 0, 0, 1});
    m.push_back({TICK, 1, 0, 0});
    if (lane) m.push_back({TICK, kTimeoutTicks, 0, 0});
    for (int i = 0; i < issued; i++) { m.push_back({CANCEL, i, 0, 0});
      for (int s = 0; s < kServers; s++) for (int r = 0; r < NRK; r++) if (r != UNKNOWN_ID) m.push_back({REPLY, i, s, r}); }
    m.push_back({REPLY, 0, 0, UNKNOWN_ID});
    return m; };
  ex.run = [&](const std::vector<Op> &h, std::string &viol) {
    Virt virt; g_mono_ms = 5000000; g_sent.clear(); g_keep_sent = true;
    event::Loop *loop = event::Loop::New(engine);
    static const char *ips[kMaxServers] = {"10.0.0.1", "10.0.0.2", "10.0.0.3"};
    DnsRequest::IPAddressVec srv; std::vector<network::SockAddr> from;
    for (int s = 0; s < kServers; s++) { srv.push_back(network::IPAddress::FromString(ips[s])); from.push_back(network::SockAddr(srv.back(), 53)); }
    Dns *dns = new Dns(loop, srv);
    std::vector<Look> L; L.reserve(8);
    auto fail = [&](const std::string &s) { if (viol.empty()) viol = s; };
    for (auto &o : h) {
      // expected effect of this op on the callback counters, computed from the model BEFORE the op runs
      std::vector<int> want_calls; for (auto &l : L) want_calls.push_back(l.calls);
      std::vector<int> want_status(L.size(), -2); int either = -1;   // either = lookup that may or may not complete (duplicate server failure)
      switch (o.k) {
        case REQ: {
          size_t before = g_sent.size(); Look l; l.dom = o.i; l.followup = o.r != 0; L.push_back(l); size_t idx = L.size() - 1;
          uint16_t id = dns->request(network::DomainName(kDomains[o.i]), [&L, idx, &fail, dns](const DnsRequest::Result &r) {
            Look &x = L[idx]; x.calls++; x.status = (int)r.status; x.addrs.clear();
            for (auto &a : r.a_vec) { uint32_t v = a.ip; Addr ad; memcpy(ad.data(), &v, 4); x.addrs.push_back(ad); }
            if (x.state == 2) fail("dns-lookup-callback-invoked-after-cancel");
            if (x.followup && x.calls == 1 && L.size() < 8) {       // a new lookup issued from inside a completion (possibly timeout) callback
              Look n; n.dom = 1; L.push_back(n); size_t j = L.size() - 1;
              L[j].id = dns->request(network::DomainName(kDomains[1]), [&L, j, &fail](const DnsRequest::Result &r2) { Look &y = L[j]; y.calls++; y.status = (int)r2.status; y.addrs.clear();
                for (auto &a : r2.a_vec) { uint32_t v = a.ip; Addr ad; memcpy(ad.data(), &v, 4); y.addrs.push_back(ad); } if (y.state == 2) fail("dns-lookup-callback-invoked-after-cancel"); }); } });
          L[idx].id = id; want_calls.push_back(0); want_status.push_back(-2);
          if (id == 0) { fail("dns-lookup-request-returned-id-0"); break; }
          for (size_t j = 0; j < idx; j++) if (L[j].id == id) fail("dns-lookup-request-id-reused-while-known");
          if (g_sent.size() - before != (size_t)kServers) { fail("dns-lookup-request-did-not-send-one-query-per-server sent=" + std::to_string(g_sent.size() - before)); break; }
          for (size_t j = before; j < g_sent.size(); j++) { const Bytes &q = g_sent[j].data; Bytes exp = header(id, 0x0100, 1, 0, 0, 0); put_name(exp, kDomains[o.i]); put16(exp, 1); put16(exp, 1);
            if (q != exp || g_sent[j].port != 53) fail("dns-lookup-query-datagram-malformed " + hex(q)); }
        } break;
        case CANCEL: { Look &l = L[o.i]; bool r = dns->cancel(l.id); bool want = l.state == 0;
          if (r != want) fail(std::string("dns-lookup-cancel-returned-") + (r ? "true-for-finished-lookup" : "false-for-pending-lookup"));
          if (l.state == 0) l.state = 2; } break;
        case REPLY: { bool unk = o.r == UNKNOWN_ID; int i = unk ? -1 : o.i;
          Bytes dg = unk ? make_reply(0, 0, 0, o.s, o.r) : make_reply(L[i].id, L[i].dom, i, o.s, o.r);
          if (!unk && o.r != QUERY && L[i].state == 0) { Look &l = L[i];
            if (o.r == OK) { want_calls[i]++; want_status[i] = 0; }
            else if (o.r == NXDOMAIN) { want_calls[i]++; want_status[i] = (int)DnsRequest::Result::Status::kDomainError; }
            else if (o.r == FORMERR) { want_calls[i]++; want_status[i] = (int)DnsRequest::Result::Status::kFail; }
            else if (o.r == OK_WRONG_QUESTION) { either = i; want_status[i] = 0; }
            else if (o.r == SERVFAIL) { l.nfail++; l.failed[o.s] = true; bool all = true; for (int s = 0; s < kServers; s++) all = all && l.failed[s];
              if (all) { want_calls[i]++; want_status[i] = (int)DnsRequest::Result::Status::kAllDnsFail; }
              else if (l.nfail >= kServers) { either = i; want_status[i] = (int)DnsRequest::Result::Status::kAllDnsFail; } }
          }
          dns->feed(dg.data(), dg.size(), from[o.s]);
          if (either >= 0) { Look &e = L[either]; if (e.calls == want_calls[either] + 1) { want_calls[either]++; if (o.r == SERVFAIL) g_dup_counted++; else g_wrongq_accepted++; } else { want_status[either] = -2; if (o.r == OK_WRONG_QUESTION) g_wrongq_ignored++; } }
        } break;
        case TICK: {
          for (int tk = 0; tk < (o.i > 0 ? o.i : 1); tk++) {
            while (want_calls.size() < L.size()) { want_calls.push_back(0); want_status.push_back(-2); }     // lookups born inside a callback of an earlier tick
            for (size_t i = 0; i < L.size(); i++) if (L[i].state == 0 && L[i].calls == want_calls[i]) { L[i].age++; if (L[i].age == kTimeoutTicks) { want_calls[i]++; want_status[i] = (int)DnsRequest::Result::Status::kTimeout; } }
            g_mono_ms += 1000; loop->runNext([] {}); loop->runLoop(event::Loop::Mode::kOnce); }
        } break;
      }
      if (!viol.empty()) break;
      while (want_calls.size() < L.size()) { want_calls.push_back(0); want_status.push_back(-2); }
      // compare: exactly the expected callbacks happened during this op, with the expected status / content
      for (size_t i = 0; i < L.size(); i++) {
        Look &l = L[i];
        if (l.calls != want_calls[i]) {
          const char *what = l.calls > want_calls[i] ? (l.state == 2 ? "dns-lookup-callback-invoked-after-cancel" : l.state == 1 ? "dns-lookup-callback-invoked-more-than-once" : o.k == TICK ? "dns-lookup-timeout-reported-early" : "dns-lookup-callback-invoked-for-a-datagram-that-must-be-ignored")
                                                       : (o.k == TICK ? "dns-lookup-timeout-not-reported-after-5-ticks" : o.r == SERVFAIL ? "dns-lookup-not-completed-although-all-servers-failed" : "dns-lookup-callback-missing-for-acceptable-reply");
          fail(std::string(what) + " lookup#" + std::to_string(i) + " calls=" + std::to_string(l.calls) + " expected=" + std::to_string(want_calls[i])); break; }
        if (want_status[i] != -2 && l.state == 0) {   // completed by this op
          if (l.status != want_status[i]) { fail("dns-lookup-completed-with-wrong-status lookup#" + std::to_string(i) + " status=" + std::to_string(l.status) + " expected=" + std::to_string(want_status[i])); break; }
          if (l.status == 0) { Addr exp{{10, (uint8_t)(i + 1), (uint8_t)(o.s + 1), (uint8_t)(o.r == OK ? 7 : 9)}}; if (l.addrs.size() != 1 || l.addrs[0] != exp) { fail("dns-lookup-success-does-not-carry-the-addresses-of-the-accepted-reply lookup#" + std::to_string(i)); break; } g_success++; }
          else if (!l.addrs.empty()) { fail("dns-lookup-error-status-with-addresses"); break; }
          if (l.status == (int)DnsRequest::Result::Status::kTimeout) g_timeouts++; if (l.status == (int)DnsRequest::Result::Status::kAllDnsFail) g_allfail++;
          l.state = 1;
        }
        if (dns->isRunning(l.id) != (l.state == 0)) { fail(std::string("dns-lookup-isRunning-") + (l.state == 0 ? "false-for-pending-lookup" : l.state == 1 ? "true-after-completion" : "true-after-cancel") + " lookup#" + std::to_string(i) + " after " + ex.show(o)); break; }
      }
      if (!viol.empty()) break;
      if (dns->requests_.size() > L.size()) { fail("dns-lookup-table-holds-unknown-entries"); break; }
    }
    // canonical state: implementation (lookup table, timeout wheel, timer, socket event, id counter) + model
    auto idx_of = [&](uint16_t id) { for (size_t i = 0; i < L.size(); i++) if (L[i].id == id) return (int)i; return -1; };
    std::string c = "R:"; for (auto &kv : dns->requests_) c += std::to_string(idx_of(kv.first)) + "." + std::to_string(kv.second.response_count) + ",";
    c += "|W:"; { auto *it = dns->timeout_monitor_.curr_item_; for (int k = 0; k < kTimeoutTicks && it; k++, it = it->next) { for (auto v : it->items) c += std::to_string(idx_of(v)); c += "/"; } }
    c += "|vn" + std::to_string(dns->timeout_monitor_.value_number_) + "|t" + std::to_string((int)dns->timeout_monitor_.sp_timer_->isEnabled()) + "|u" + std::to_string((int)dns->udp_.sp_socket_ev_->isEnabled()) + "|id" + std::to_string(dns->req_id_alloc_);
    c += "|M:"; for (auto &l : L) { c += std::to_string(l.state) + std::to_string(l.calls) + (l.state == 0 ? std::to_string((int)l.failed[0]) + std::to_string((int)l.failed[1]) + std::to_string((int)l.failed[2]) + std::to_string(std::min(l.nfail, kServers)) + std::to_string(l.age) : std::string("")) + "d" + std::to_string(l.dom) + (l.followup && l.calls == 0 ? "F" : "") + ","; }    // a pending follow-up obligation is part of the state
    // destruction must not invoke anything
    std::vector<int> calls; for (auto &l : L) calls.push_back(l.calls);
    delete dns; loop->runNext([] {}); loop->runLoop(event::Loop::Mode::kOnce); delete loop;
    for (size_t i = 0; i < L.size(); i++) if (L[i].calls != calls[i]) fail("dns-lookup-callback-invoked-during-destruction");
    g_keep_sent = false;
    return c;
  };
  ex.explore(depth);
  printf("@OUTCOME lookups %s: completed-with-success n=%ld\n@OUTCOME lookups %s: completed-with-timeout-at-tick-5 n=%ld\n@OUTCOME lookups %s: completed-with-all-servers-failed n=%ld\n", engine.c_str(), g_success, engine.c_str(), g_timeouts, engine.c_str(), g_allfail);
  if (g_dup_counted) printf("@OUTCOME lookups %s: duplicated server-failure reply of ONE server counted as the other server's failure (lookup ends with kAllDnsFail; tolerated: the statement allows an error status) n=%ld\n", engine.c_str(), g_dup_counted);
  if (g_wrongq_accepted) printf("@OUTCOME lookups %s: reply whose question names another domain accepted as answer (tolerated: acceptability is not defined by the statement) n=%ld\n", engine.c_str(), g_wrongq_accepted);
  if (g_wrongq_ignored) printf("@OUTCOME lookups %s: reply whose question names another domain ignored n=%ld\n", engine.c_str(), g_wrongq_ignored);
  return 0;
}
