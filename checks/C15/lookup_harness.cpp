// C15 (lookups, engine H): BFS over request / cancel / reply / tick histories on a real DnsRequest that lives on a
// real loop, 2 configured servers, virtual monotonic clock. usage: lookup_harness <epoll|select> <depth>
// Outgoing datagrams are captured by the executable's own sendto(); replies are delivered through the protected
// onUdpRecv (what UdpSocket::onSocketEvent would call). A duplicated reply is the same reply op occurring again: every
// reply op stays enabled for the whole history, so all orders and all duplications are enumerated.
// Lanes (environment, set by check.py):
//   C15_VIA_SOCKET=1  replies go through the real receive path UdpSocket::onSocketEvent(kReadEvent) with the executable's own
//                     recvfrom() (common.h) - only while the socket's read event is enabled, as a loop would - plus the
//                     kernel behaviours "zero-length datagram" and "recvfrom fails"; completion callbacks then run nested
//                     inside the socket's receive callback
//   C15_FOLLOWUP=1    re-entrant completion callbacks: one that issues a follow-up lookup, one that cancels another
//                     lookup that is still pending (never itself); 5-tick advances
//   C15_CONFIG=1      DnsRequest(loop) + setDnsIPAddresses(); op setServers(k), k in 0..2, also while lookups are pending
//   C15_NOSEEN=1      the model-only fields "class of the last ignored datagram" are left out of the state key (fixpoint lanes); in all other
//                     lanes a history that ends in an ignored datagram is a new state, so what follows it (timeout, cancel, sibling) is explored
//   C15_IDWRAP=1      (off by default, see check.py) the id counter starts at 0xFFFD so that the 16-bit id wraps; op burst = 65536
//                     further lookups that are cancelled at once (walks the id counter once around)
#include "hist/hist.h"
#include "common.h"
#include "probe.h"
#include <tbox/event/common_loop.h>
#include <tbox/event/timer_event.h>
#include <tbox/event/fd_event.h>
#include <sys/epoll.h>
#include <sys/select.h>
#include <sys/time.h>
#include <time.h>

// ---- virtual clock (real clocks outside the code under test so that the explorer's deadline keeps running) ----
static bool g_virt = false; static int64_t g_mono_ms = 0;
extern "C" int clock_gettime(clockid_t k, struct timespec *ts) {
  if (g_virt) { int64_t v = g_mono_ms + ((k == CLOCK_REALTIME || k == CLOCK_REALTIME_COARSE) ? 1700000000000LL : 0); ts->tv_sec = v / 1000; ts->tv_nsec = (v % 1000) * 1000000L; return 0; }
  return (int)syscall(SYS_clock_gettime, k, ts);
}
extern "C" int gettimeofday(struct timeval *tv, void *tz) {
  if (g_virt) { int64_t v = g_mono_ms + 1700000000000LL; if (tv) { tv->tv_sec = v / 1000; tv->tv_usec = (v % 1000) * 1000; } return 0; }
  return (int)syscall(SYS_gettimeofday, tv, tz);
}
extern "C" time_t time(time_t *t) { struct timespec ts; clock_gettime(CLOCK_REALTIME, &ts); if (t) *t = ts.tv_sec; return ts.tv_sec; }
struct Virt { bool old; Virt() : old(g_virt) { g_virt = true; } ~Virt() { g_virt = old; } };
// the back-end never sleeps on virtual time: readiness comes from the real kernel objects, the timeout is dropped
extern "C" int epoll_wait(int epfd, struct epoll_event *ev, int maxev, int) { return (int)syscall(SYS_epoll_wait, epfd, ev, maxev, 0); }
extern "C" int select(int nfds, fd_set *r, fd_set *w, fd_set *e, struct timeval *) { struct timeval z = {0, 0}; return (int)syscall(SYS_select, nfds, r, w, e, &z); }

using network::DnsRequest;
enum K { REQ, CANCEL, REPLY, TICK, SETSRV, BURST, SENDFAIL };
// TRUNCATED / PTR_LOOP: replies with the lookup's id that cannot be decoded - they must be ignored AND leave the lookup intact
// (it still completes with the next acceptable reply / the all-failed status / the timeout). RX_EMPTY / RX_FAIL: socket lane only.
// CNAME_A_CUT: two complete records (CNAME z.y, A 10.x.x.8) and then a cut: nothing of it may ever show up in a result.
// OVERSIZE (socket lanes): 5000-byte datagram whose answer section goes on behind byte 4096 = behind what the kernel stores in
// UdpSocket's buffer; judged as its stored prefix, which is undecodable.
enum RK { OK, SERVFAIL, NXDOMAIN, FORMERR, QUERY, UNKNOWN_ID, OK_WRONG_QUESTION, TRUNCATED, PTR_LOOP, CNAME_A_CUT, NRK, OVERSIZE = NRK, RX_EMPTY, RX_FAIL };
static const char *rkN[] = {"ok", "servfail", "nxdomain", "formerr", "query-not-reply", "unknown-id", "ok-wrong-question", "ok-cut-inside-the-answer", "ok-answer-name-is-a-pointer-loop", "ok-one-CNAME+A-then-cut",
                            "5000-bytes-answer-continues-behind-byte-4096", "zero-length-datagram", "recvfrom-fails"};
static inline bool undecodable(int r) { return r == TRUNCATED || r == PTR_LOOP || r == CNAME_A_CUT || r == OVERSIZE; }
struct Op { int k, i, s, r; };    // i = lookup index / domain / server count, s = server, r = reply kind / callback flavour
static const char *kDomains[] = {"a.b", "c.d"};
static int kServers = 2, kMaxLookups = 2;   // argv
static const int kTimeoutTicks = 5, kMaxServers = 3;

static Bytes make_reply(uint16_t id, int dom, int look, int server, int kind) {
  unsigned flags = 0x8180; int an = 0; int qdom = dom;
  switch (kind) { case OK: an = 1; break; case SERVFAIL: flags |= 2; break; case NXDOMAIN: flags |= 3; break; case FORMERR: flags |= 1; break;
    case QUERY: flags = 0x0100; break; case UNKNOWN_ID: id = 0x7777; an = 1; break; case OK_WRONG_QUESTION: an = 1; qdom = 1 - dom; break; case TRUNCATED: case PTR_LOOP: an = 1; break; case CNAME_A_CUT: case OVERSIZE: an = 3; break; }
  Bytes b = header(id, flags, 1, an, 0, 0); put_name(b, kDomains[qdom]); put16(b, 1); put16(b, 1);
  if (kind == CNAME_A_CUT) { put16(b, 0xc00c); put16(b, 5); put16(b, 1); put32(b, 77); put16(b, 5); put_name(b, "z.y");
    put16(b, 0xc00c); put16(b, 1); put16(b, 1); put32(b, 78); put16(b, 4); b.insert(b.end(), {10, (uint8_t)(look + 1), (uint8_t)(server + 1), 8});
    put16(b, 0xc00c); put16(b, 1); put16(b, 1); put32(b, 79); put16(b, 4); b.insert(b.end(), {10, 9}); return b; }
  if (kind == OVERSIZE) { put16(b, 0xc00c); put16(b, 1); put16(b, 1); put32(b, 78); put16(b, 4); b.insert(b.end(), {10, (uint8_t)(look + 1), (uint8_t)(server + 1), 8});
    put16(b, 0xc00c); put16(b, 16); put16(b, 1); put32(b, 78); size_t fill = kRecvBuf - (b.size() + 2); put16(b, fill); b.insert(b.end(), fill, 0xee);      // ends with byte 4096
    put16(b, 0xc00c); put16(b, 1); put16(b, 1); put32(b, 79); put16(b, 4); b.insert(b.end(), {10, 9, 9, 9}); b.resize(5000, 0); return b; }
  if (an) { put16(b, kind == PTR_LOOP ? (0xc000 | (unsigned)b.size()) : 0xc00c); put16(b, 1); put16(b, 1); put32(b, 60); put16(b, 4); b.insert(b.end(), {10, (uint8_t)(look + 1), (uint8_t)(server + 1), (uint8_t)(kind == OK ? 7 : 9)}); }
  if (kind == TRUNCATED) b.resize(b.size() - 3);
  return b;
}

struct Look { uint16_t id = 0; int dom = 0; int state = 0 /*0 pending 1 done 2 cancelled 3 refused (no servers configured)*/; int calls = 0; int status = -1; std::vector<Addr> addrs; bool failed[kMaxServers] = {false, false, false}; int nfail = 0; int age = 0;
  int flavour = 0 /*1: its callback issues one more lookup; 2: its callback cancels another lookup that is still pending*/; int nq = 0 /*servers queried*/; bool cancelled_in_cb = false;
  std::vector<std::string> names; /*cname_vec of the last result*/ int seen = 0 /*model only: class of the last ignored datagram it received while pending: 1 non-reply 2 undecodable 3 undecodable behind complete records*/; };
static long g_dup_counted = 0, g_wrongq_accepted = 0, g_wrongq_ignored = 0, g_timeouts = 0, g_allfail = 0, g_success = 0, g_ignored_ok = 0;
static long g_silent = 0;
static long g_undecodable = 0, g_not_listening = 0, g_cb_cancels = 0, g_cb_followups = 0, g_refused = 0, g_srvchg_completed = 0, g_srvchg_waiting = 0, g_rx_nothing = 0;

// key parts that iterate private containers, SFINAE-guarded like VF_GET (engine/probe.h)
VF_PROBE(req_id_alloc_) VF_PROBE(dns_ip_vec_) VF_PROBE(value_number_)
template <class D> static auto key_requests(D &d, const std::function<int(uint16_t)> &idx_of, int) -> decltype((void)d.requests_.begin()->second.response_count, std::string()) {
  std::string c; for (auto &kv : d.requests_) c += std::to_string(idx_of(kv.first)) + "." + std::to_string(kv.second.response_count) + ","; return c; }
template <class D> static std::string key_requests(D &, const std::function<int(uint16_t)> &, long) { vf_note_missing("requests_/response_count"); return "?"; }
template <class D> static auto key_wheel(D &d, const std::function<int(uint16_t)> &idx_of, int) -> decltype((void)d.timeout_monitor_.curr_item_->items.size(), (void)d.timeout_monitor_.curr_item_->next, (void)d.timeout_monitor_.sp_timer_->isEnabled(), std::string()) {
  std::string c; auto *it = d.timeout_monitor_.curr_item_; for (int k = 0; k < kTimeoutTicks && it; k++, it = it->next) { for (auto v : it->items) c += std::to_string(idx_of(v)); c += "/"; }
  return c + "|vn" + std::to_string(VF_GET(value_number_, d.timeout_monitor_, 0u)) + "|t" + std::to_string((int)d.timeout_monitor_.sp_timer_->isEnabled()); }
template <class D> static std::string key_wheel(D &, const std::function<int(uint16_t)> &, long) { vf_note_missing("timeout_monitor_ wheel"); return "?"; }

int main(int argc, char **argv) {
  std::string engine = argc > 1 ? argv[1] : "epoll"; size_t depth = argc > 2 ? atoi(argv[2]) : 6;
  if (argc > 3) kMaxLookups = std::min(3, atoi(argv[3])); if (argc > 4) kServers = std::min(kMaxServers, atoi(argv[4]));
  static const bool lane = getenv("C15_FOLLOWUP") != nullptr;      // re-entrant completion callbacks, 5-tick advances
  static const bool via_socket = getenv("C15_VIA_SOCKET") != nullptr;
  static const bool cfg_lane = getenv("C15_CONFIG") != nullptr;
  static const bool idwrap = getenv("C15_IDWRAP") != nullptr;
  static const bool noseen = getenv("C15_NOSEEN") != nullptr;      // key without the "class of the last ignored datagram" fields (lanes that are run to their fixpoint)
  hx::install_crash_reporter("dns-lookup-crash");
  hx::Explorer<Op> ex; ex.name = "lookups-" + engine + "-" + std::to_string(kMaxLookups) + "lookups-" + std::to_string(kServers) + "servers" + (via_socket ? "-via-socket-event" : "") + (lane ? "-reentrant-callbacks" : "") + (cfg_lane ? "-setservers" : "") + (noseen ? "" : "-after-ignored") + (idwrap ? "-idwrap" : "");
  ex.deadline_s = hx::deadline_from_env(600);
  if (getenv("C15_DEADLINE_MONO")) ex.deadline_s = atof(getenv("C15_DEADLINE_MONO"));   // absolute CLOCK_MONOTONIC seconds (set by check.py)
  ex.show = [](const Op &o) { char b[96];
    switch (o.k) { case REQ: snprintf(b, sizeof b, o.r == 1 ? "request(%s,callback-issues-a-followup-lookup)" : o.r == 2 ? "request(%s,callback-cancels-another-pending-lookup)" : o.r == 3 ? "request(%s,empty-callback)" : "request(%s)", kDomains[o.i]); break; case CANCEL: snprintf(b, sizeof b, "cancel(#%d)", o.i); break;
      case REPLY: if (o.r == UNKNOWN_ID) snprintf(b, sizeof b, "reply(unknown-id,from-s%d)", o.s); else if (o.r >= RX_EMPTY) snprintf(b, sizeof b, "socket-readable(%s)", rkN[o.r]); else snprintf(b, sizeof b, "reply(#%d,from-s%d,%s)", o.i, o.s, rkN[o.r]); break;
      case SETSRV: snprintf(b, sizeof b, "setServers(%d)", o.i); break;
      case SENDFAIL: snprintf(b, sizeof b, "sendFails(server-mask=%d)", o.i); break;
      case BURST: snprintf(b, sizeof b, "burst(65536 x {request(c.d); cancel(it)})"); break;
      default: snprintf(b, sizeof b, "tick(+%ds)", o.i > 0 ? o.i : 1); }
    return std::string(b); };
  ex.menu = [&](const std::vector<Op> &h) {
    std::vector<Op> m; int issued = 0, cur = kServers, txmask = 0; std::vector<int> nq;     // nq[i] = servers that lookup #i queried
    for (auto &o : h) { if (o.k == SETSRV) cur = o.i; if (o.k == SENDFAIL) txmask = o.i; if (o.k == REQ) { issued++; nq.push_back(cur); } }
    if (issued < kMaxLookups) for (int d = 0; d < 2; d++) m.push_back({REQ, d, 0, 0});
    if (lane && issued < kMaxLookups) { m.push_back({REQ, 0, 0, 1}); m.push_back({REQ, 0, 0, 2}); m.push_back({REQ, 0, 0, 3}); }
    m.push_back({TICK, 1, 0, 0});
    if (lane || cfg_lane) m.push_back({TICK, kTimeoutTicks, 0, 0});
    if (cfg_lane) for (int k = 0; k <= kServers; k++) if (k != cur) m.push_back({SETSRV, k, 0, 0});
    if (cfg_lane) for (int mk : {0, 1, (1 << kServers) - 1}) if (mk != txmask && !(mk == 1 && kServers == 1)) m.push_back({SENDFAIL, mk, 0, 0});
    for (int i = 0; i < issued; i++) { m.push_back({CANCEL, i, 0, 0});
      // replies come from servers that were queried (whether a reply from an address never queried is acceptable is not defined by the statement)
      for (int s = 0; s < nq[i]; s++) for (int r = 0; r < NRK; r++) if (r != UNKNOWN_ID) m.push_back({REPLY, i, s, r});
      if (via_socket) for (int s = 0; s < nq[i]; s++) m.push_back({REPLY, i, s, OVERSIZE}); }
    m.push_back({REPLY, 0, 0, UNKNOWN_ID});
    if (idwrap) { bool had = false; for (auto &o : h) had = had || o.k == BURST; if (!had) m.push_back({BURST, 0, 0, 0}); }
    if (via_socket) { m.push_back({REPLY, 0, 0, RX_EMPTY}); m.push_back({REPLY, 0, 0, RX_FAIL}); }
    return m; };
  ex.run = [&](const std::vector<Op> &h, std::string &viol) {
    Virt virt; g_mono_ms = 5000000; g_sent.clear(); g_keep_sent = true; g_tx_fail_mask = 0;
    int nobody = 0;     // model only: class of the last datagram that was for no lookup at all while one was pending (1 unknown id, 2 readable event without datagram)
    event::Loop *loop = event::Loop::New(engine);
    static const char *ips[kMaxServers] = {"10.0.0.1", "10.0.0.2", "10.0.0.3"};
    DnsRequest::IPAddressVec srv; std::vector<network::SockAddr> from;
    for (int s = 0; s < kServers; s++) { srv.push_back(network::IPAddress::FromString(ips[s])); from.push_back(network::SockAddr(srv.back(), 53)); }
    Dns *dns; int cur = kServers;       // cur = number of servers configured now (model)
    if (cfg_lane) { dns = new Dns(loop); dns->setDnsIPAddresses(srv); } else dns = new Dns(loop, srv);
    if (idwrap) dns->req_id_alloc_ = 0xFFFD;
    std::vector<Look> L; L.reserve(8);
    auto fail = [&](const std::string &s) { if (viol.empty()) viol = s; };
    // what request() must do, judged by the model: one well-formed query per configured server, a fresh non-zero id; with no server: id 0, nothing sent, never a callback
    auto judge_request = [&](size_t idx, size_t sent_before) {
      Look &l = L[idx]; l.nq = cur;
      if (cur == 0) { l.state = 3; g_refused++; if (l.id != 0) fail("dns-lookup-request-without-servers-returned-an-id"); if (g_sent.size() != sent_before) fail("dns-lookup-request-without-servers-sent-a-datagram"); return; }
      if (l.id == 0) { fail("dns-lookup-request-returned-id-0"); return; }
      for (size_t j = 0; j < L.size(); j++) if (j != idx && L[j].state != 3 && L[j].id == l.id) fail("dns-lookup-request-id-reused-while-known");
      if (g_sent.size() - sent_before != (size_t)cur) { fail("dns-lookup-request-did-not-send-one-query-per-server sent=" + std::to_string(g_sent.size() - sent_before)); return; }
      for (size_t j = sent_before; j < g_sent.size(); j++) { const Bytes &q = g_sent[j].data; Bytes exp = header(l.id, 0x0100, 1, 0, 0, 0); put_name(exp, kDomains[l.dom]); put16(exp, 1); put16(exp, 1);
        if (q != exp || g_sent[j].port != 53 || g_sent[j].ip != (uint32_t)srv[j - sent_before]) fail("dns-lookup-query-datagram-malformed " + hex(q)); }
    };
    // a lookup requested with an EMPTY callback completes silently; its completion is observed through the public isRunning()
    auto sync_silent = [&]() { for (auto &l : L) if (l.flavour == 3 && l.state == 0 && l.calls == 0 && !dns->isRunning(l.id)) { l.calls = 1; l.status = -3; } };
    std::function<DnsRequest::Callback(size_t)> mkcb = [&](size_t idx) -> DnsRequest::Callback {
      return [&, idx](const DnsRequest::Result &r) {
        Look &x = L[idx]; x.calls++; x.status = (int)r.status; x.addrs.clear(); x.names.clear();
        for (auto &a : r.a_vec) { uint32_t v = a.ip; Addr ad; memcpy(ad.data(), &v, 4); x.addrs.push_back(ad); }
        for (auto &cn : r.cname_vec) x.names.push_back(cn.cname.toString());
        if (x.state == 2) fail("dns-lookup-callback-invoked-after-cancel");
        if (x.state == 3) fail("dns-lookup-callback-invoked-for-a-refused-request");
        if (x.calls != 1) return;
        if (x.flavour == 1 && L.size() < 8) {       // a new lookup issued from inside a completion (possibly timeout) callback
          Look n; n.dom = 1; L.push_back(n); size_t j = L.size() - 1; size_t before = g_sent.size(); g_cb_followups++;
          uint16_t id = dns->request(network::DomainName(kDomains[1]), mkcb(j)); L[j].id = id; judge_request(j, before);
        }
        if (x.flavour == 2) { sync_silent();        // cancels the first OTHER lookup that is still pending (model's view); never itself
          for (size_t j = 0; j < L.size(); j++) { Look &v = L[j]; if (j == idx || v.state != 0 || v.calls != 0) continue;
            g_cb_cancels++; if (!dns->cancel(v.id)) fail("dns-lookup-cancel-returned-false-for-pending-lookup lookup#" + std::to_string(j) + " (cancel from inside the callback of lookup#" + std::to_string(idx) + ")");
            v.state = 2; v.cancelled_in_cb = true; break; }
        }
      };
    };
    auto deliver = [&](const Bytes &dg, int s, int kind) -> bool {
      if (!via_socket) { dns->feed(dg.data(), dg.size(), from[s]); return true; }
      // a loop reports readiness only for an enabled event: with the read event disabled nothing is received
      if (!dns->udp_.sp_socket_ev_->isEnabled()) { g_not_listening++; return false; }
      socket_event(dns, kind == RX_EMPTY ? RX_ZERO : kind == RX_FAIL ? RX_ERROR : RX_DATAGRAM, dg.data(), dg.size(), (uint32_t)srv[s]);
      return true;
    };
    size_t opno = 0;
    for (auto &o : h) { opno++;
      // expected effect of this op on the callback counters, computed from the model BEFORE the op runs
      std::vector<int> want_calls; for (auto &l : L) want_calls.push_back(l.calls);
      std::vector<int> calls_before = want_calls;
      std::vector<int> want_status(L.size(), -2); int either = -1;   // either = lookup that may or may not complete (duplicate server failure)
      switch (o.k) {
        case REQ: {
          size_t before = g_sent.size(); Look l; l.dom = o.i; l.flavour = o.r; L.push_back(l); size_t idx = L.size() - 1;
          uint16_t id = dns->request(network::DomainName(kDomains[o.i]), o.r == 3 ? DnsRequest::Callback() : mkcb(idx));
          L[idx].id = id; want_calls.push_back(0); want_status.push_back(-2);
          judge_request(idx, before);
        } break;
        case CANCEL: { Look &l = L[o.i]; bool r = dns->cancel(l.id); bool want = l.state == 0;
          if (r != want) fail(std::string("dns-lookup-cancel-returned-") + (r ? "true-for-finished-lookup" : "false-for-pending-lookup"));
          if (l.state == 0) l.state = 2; } break;
        case BURST: {   // 65536 further lookups, each cancelled at once: none of them is ever reported, the lookups that were pending stay untouched
          g_keep_sent = false; long bad = 0;
          for (long n = 0; n < 65536; n++) { uint16_t id = dns->request(network::DomainName(kDomains[1]), [&fail](const DnsRequest::Result &) { fail("dns-lookup-callback-invoked-after-cancel (burst lookup)"); }); if (!dns->cancel(id)) bad++; }
          g_keep_sent = true; if (bad) fail("dns-lookup-cancel-returned-false-for-pending-lookup (" + std::to_string(bad) + " lookups of the burst)");
        } break;
        case SENDFAIL: g_tx_fail_mask = (unsigned)o.i; break;      // model unchanged: a lookup whose queries could not be sent is still pending and ends by reply or timeout
        case SETSRV: { DnsRequest::IPAddressVec v(srv.begin(), srv.begin() + o.i); dns->setDnsIPAddresses(v); cur = o.i; } break;
        case REPLY: { bool unk = o.r == UNKNOWN_ID || o.r >= RX_EMPTY; int i = unk ? -1 : o.i;
          static const int errs[3] = {EAGAIN, EINTR, ECONNREFUSED}; g_rx_errno = errs[opno % 3];
          Bytes dg = unk ? make_reply(0, 0, 0, o.s, UNKNOWN_ID) : make_reply(L[i].id, L[i].dom, i, o.s, o.r);
          if (o.r >= RX_EMPTY) g_rx_nothing++;
          if (!unk && undecodable(o.r)) g_undecodable++;
          if (!unk && o.r != QUERY && !undecodable(o.r) && L[i].state == 0) { Look &l = L[i];
            if (o.r == OK) { want_calls[i]++; want_status[i] = 0; }
            else if (o.r == NXDOMAIN) { want_calls[i]++; want_status[i] = (int)DnsRequest::Result::Status::kDomainError; }
            else if (o.r == FORMERR) { want_calls[i]++; want_status[i] = (int)DnsRequest::Result::Status::kFail; }
            else if (o.r == OK_WRONG_QUESTION) { either = i; want_status[i] = 0; }
            else if (o.r == SERVFAIL) { l.nfail++; l.failed[o.s] = true; bool all = true; for (int s = 0; s < l.nq; s++) all = all && l.failed[s];
              if (cur != l.nq) { either = i; want_status[i] = (int)DnsRequest::Result::Status::kAllDnsFail; }      // server list changed while the lookup was pending: when "all servers failed" holds is not defined
              else if (all) { want_calls[i]++; want_status[i] = (int)DnsRequest::Result::Status::kAllDnsFail; }
              else if (l.nfail >= l.nq) { either = i; want_status[i] = (int)DnsRequest::Result::Status::kAllDnsFail; } }
          }
          bool got = deliver(dg, o.s, o.r); sync_silent();
          if (got) { bool pend = false; for (auto &l : L) pend = pend || l.state == 0;
            if (unk && pend) nobody = o.r == UNKNOWN_ID ? 1 : 2;
            if (!unk && L[i].state == 0 && (o.r == QUERY || undecodable(o.r))) L[i].seen = o.r == QUERY ? 1 : (o.r == CNAME_A_CUT || o.r == OVERSIZE) ? 3 : 2; }
          if (either >= 0) { Look &e = L[either]; bool chg = o.r == SERVFAIL && cur != e.nq;
            if (e.calls == want_calls[either] + 1) { want_calls[either]++; if (chg) g_srvchg_completed++; else if (o.r == SERVFAIL) g_dup_counted++; else g_wrongq_accepted++; } else { want_status[either] = -2; if (chg) g_srvchg_waiting++; if (o.r == OK_WRONG_QUESTION) g_wrongq_ignored++; } }
        } break;
        case TICK: {
          for (int tk = 0; tk < (o.i > 0 ? o.i : 1); tk++) {
            while (want_calls.size() < L.size()) { want_calls.push_back(0); want_status.push_back(-2); }     // lookups born inside a callback of an earlier tick
            for (size_t i = 0; i < L.size(); i++) if (L[i].state == 0 && L[i].calls == want_calls[i]) { L[i].age++; if (L[i].age == kTimeoutTicks) { want_calls[i]++; want_status[i] = (int)DnsRequest::Result::Status::kTimeout; } }
            g_mono_ms += 1000; loop->runNext([] {}); loop->runLoop(event::Loop::Mode::kOnce); sync_silent(); }
        } break;
      }
      if (!viol.empty()) break;
      sync_silent();
      while (want_calls.size() < L.size()) { want_calls.push_back(0); want_status.push_back(-2); }
      while (calls_before.size() < L.size()) calls_before.push_back(0);
      // a lookup cancelled from inside another lookup's callback during this op is never invoked: not before (it was pending and
      // uninvoked when cancelled) and not after (checked inside the callback itself), whatever the order of completions within the op
      for (size_t i = 0; i < L.size(); i++) if (L[i].cancelled_in_cb) { L[i].cancelled_in_cb = false; want_calls[i] = calls_before[i]; want_status[i] = -2; }
      // compare: exactly the expected callbacks happened during this op, with the expected status / content
      for (size_t i = 0; i < L.size(); i++) {
        Look &l = L[i];
        if (l.calls != want_calls[i]) {
          const char *what = l.calls > want_calls[i] ? (l.state == 2 ? "dns-lookup-callback-invoked-after-cancel" : l.state == 1 ? "dns-lookup-callback-invoked-more-than-once" : o.k == REQ || o.k == SENDFAIL || o.k == SETSRV || o.k == CANCEL ? "dns-lookup-callback-invoked-by-a-call-that-completes-nothing" : o.k == TICK ? "dns-lookup-timeout-reported-early" : "dns-lookup-callback-invoked-for-a-datagram-that-must-be-ignored")
                                                       : (o.k == TICK ? "dns-lookup-timeout-not-reported-after-5-ticks" : o.r == SERVFAIL ? "dns-lookup-not-completed-although-all-servers-failed" : "dns-lookup-callback-missing-for-acceptable-reply");
          fail(std::string(what) + " lookup#" + std::to_string(i) + " calls=" + std::to_string(l.calls) + " expected=" + std::to_string(want_calls[i]) + (l.flavour == 3 ? " (lookup with an empty callback: 'calls' is its completion as seen through isRunning)" : "")); break; }
        if (want_status[i] != -2 && l.state == 0 && l.flavour == 3) { l.state = 1; l.calls = 0; g_silent++; }     // completed silently, as the model says; nothing to compare
        else if (want_status[i] != -2 && l.state == 0) {   // completed by this op
          if (l.status != want_status[i]) { fail("dns-lookup-completed-with-wrong-status lookup#" + std::to_string(i) + " status=" + std::to_string(l.status) + " expected=" + std::to_string(want_status[i])); break; }
          if (l.status == 0) { Addr exp{{10, (uint8_t)(i + 1), (uint8_t)(o.s + 1), (uint8_t)(o.r == OK ? 7 : 9)}}; if (l.addrs.size() != 1 || l.addrs[0] != exp) { fail("dns-lookup-success-does-not-carry-the-addresses-of-the-accepted-reply lookup#" + std::to_string(i)); break; }
            if (!l.names.empty()) { fail("dns-lookup-success-carries-names-that-are-not-in-the-accepted-reply lookup#" + std::to_string(i) + " " + l.names[0]); break; } g_success++; }
          else if (!l.addrs.empty() || !l.names.empty()) { fail("dns-lookup-error-status-with-addresses"); break; }
          if (l.status == (int)DnsRequest::Result::Status::kTimeout) g_timeouts++; if (l.status == (int)DnsRequest::Result::Status::kAllDnsFail) g_allfail++;
          l.state = 1;
        }
        if (dns->isRunning(l.id) != (l.state == 0)) { fail(std::string("dns-lookup-isRunning-") + (l.state == 0 ? "false-for-pending-lookup" : l.state == 1 ? "true-after-completion" : l.state == 3 ? "true-for-refused-request" : "true-after-cancel") + " lookup#" + std::to_string(i) + " after " + ex.show(o)); break; }
      }
      if (!viol.empty()) break;
      // while a lookup is pending its replies must be receivable: the socket's read event is registered with the loop
      { bool pending = false; for (auto &l : L) pending = pending || l.state == 0;
        if (pending && !dns->udp_.sp_socket_ev_->isEnabled()) { fail("dns-lookup-socket-not-listening-while-a-lookup-is-pending after " + ex.show(o)); break; } }
    }
    // canonical state: implementation (lookup table, timeout wheel, timer, socket event, id counter, server list; read through
    // probes: a renamed member degrades the key - then the last ops are appended - instead of breaking the build) + model
    std::function<int(uint16_t)> idx_of = [&](uint16_t id) { for (size_t i = 0; i < L.size(); i++) if (L[i].id == id && L[i].state != 3) return (int)i; return -1; };
    std::string c = "R:" + key_requests(*dns, idx_of, 0);
    c += "|W:" + key_wheel(*dns, idx_of, 0);
    c += "|u" + std::to_string((int)dns->udp_.sp_socket_ev_->isEnabled()) + "|id" + std::to_string(VF_GET(req_id_alloc_, *dns, 0u));
    c += "|k" + std::to_string(VF_SIZE(dns_ip_vec_, *dns, (size_t)0)) + "/" + std::to_string(cur) + "|x" + std::to_string(g_tx_fail_mask);
    bool anyp = false; for (auto &l : L) anyp = anyp || l.state == 0;
    c += "|M:"; for (auto &l : L) { c += std::to_string(l.state) + std::to_string(l.calls) + (l.state == 0 ? std::to_string((int)l.failed[0]) + std::to_string((int)l.failed[1]) + std::to_string((int)l.failed[2]) + std::to_string(std::min(l.nfail, l.nq)) + std::to_string(l.age) + "q" + std::to_string(l.nq) + "s" + std::to_string(noseen ? 0 : l.seen) : std::string("")) + "d" + std::to_string(l.dom) + (l.flavour && (l.calls == 0 && l.state != 1) ? (l.flavour == 1 ? "F" : l.flavour == 2 ? "X" : "E") : "") + ","; }    // a pending re-entrant-callback obligation is part of the state
    if (anyp && !noseen) c += "|n" + std::to_string(nobody);      // histories AFTER an ignored datagram are explored too: which class of ignored datagram came last is (model-only) state
    if (vf_any_missing()) { c += "|H:"; for (size_t i = h.size() > 3 ? h.size() - 3 : 0; i < h.size(); i++) c += ex.show(h[i]) + ";"; }
    // destruction must not invoke anything
    std::vector<int> calls; for (auto &l : L) calls.push_back(l.calls);
    delete dns; g_tx_fail_mask = 0; loop->runNext([] {}); loop->runLoop(event::Loop::Mode::kOnce);
    for (int k = 0; k < 2; k++) { g_mono_ms += k ? 5000 : 1000; loop->runNext([] {}); loop->runLoop(event::Loop::Mode::kOnce); }     // nothing of it may still be registered with the loop: +1 s (next timer tick) and +6 s (a whole timeout period) pass
    delete loop;
    for (size_t i = 0; i < L.size(); i++) if (L[i].calls != calls[i]) fail("dns-lookup-callback-invoked-during-destruction");
    g_keep_sent = false;
    return c;
  };
  ex.explore(depth);
  const char *en = ex.name.c_str();
  printf("@OUTCOME %s: completed-with-success n=%ld\n@OUTCOME %s: completed-with-timeout-at-tick-5 n=%ld\n@OUTCOME %s: completed-with-all-servers-failed n=%ld\n", en, g_success, en, g_timeouts, en, g_allfail);
  printf("@OUTCOME %s: undecodable replies carrying a pending or finished lookup's id delivered (must be ignored, lookup must stay intact) n=%ld\n", en, g_undecodable);
  if (g_dup_counted) printf("@OUTCOME %s: duplicated server-failure reply of ONE server counted as the other server's failure (lookup ends with kAllDnsFail; tolerated: the statement allows an error status) n=%ld\n", en, g_dup_counted);
  if (g_wrongq_accepted) printf("@OUTCOME %s: reply whose question names another domain accepted as answer (tolerated: acceptability is not defined by the statement) n=%ld\n", en, g_wrongq_accepted);
  if (g_wrongq_ignored) printf("@OUTCOME %s: reply whose question names another domain ignored n=%ld\n", en, g_wrongq_ignored);
  if (via_socket) printf("@OUTCOME %s: datagram not received because the socket's read event was disabled (no lookup outstanding) n=%ld; readable events with zero-length datagram / recvfrom failure n=%ld\n", en, g_not_listening, g_rx_nothing);
  if (lane) printf("@OUTCOME %s: lookups requested with an empty callback that completed silently (seen through isRunning) n=%ld\n", en, g_silent);
  if (lane) printf("@OUTCOME %s: follow-up lookups issued inside a callback n=%ld; pending lookups cancelled from inside another lookup's callback n=%ld\n", en, g_cb_followups, g_cb_cancels);
  if (cfg_lane) printf("@OUTCOME %s: request() with no server configured refused (id 0, nothing sent, no callback) n=%ld; server failure after the server list changed while pending: completed kAllDnsFail n=%ld / kept waiting n=%ld (both tolerated)\n", en, g_refused, g_srvchg_completed, g_srvchg_waiting);
  return 0;
}
