import time, vf
PID = "C06"
def main(tier, args):
    t0 = time.time()
    exe = vf.build("C06/stream", [vf.VERIF + "/checks/C06/harness.cpp"], vf.module_sources("event", "network", "util/buffer.cpp", "util/fd.cpp", "util/string.cpp", "util/fs.cpp", "util/serializer.cpp"), mode="asan",
                   plain_srcs=[vf.VERIF + "/engine/sched/log_stub.cpp"])
    tcp = vf.build("C06/tcp", [vf.VERIF + "/checks/C06/tcp_harness.cpp"], vf.module_sources("event", "network", "util/buffer.cpp", "util/fd.cpp", "util/string.cpp", "util/fs.cpp", "util/serializer.cpp"), mode="asan",
                   plain_srcs=[vf.VERIF + "/engine/sched/log_stub.cpp"])
    import os; sockdir = vf.BUILD + "/C06/sock"; os.makedirs(sockdir, exist_ok=True)
    depth, dl, maxdev, np = (6, 80, 1, 4) if tier == "quick" else (7, 1300, 2, 8)
    tdepth, tnp, tsub = (6, 4, 3) if tier == "quick" else (7, 4, 4)      # the root offers 4 operations; each is split again by the second operation
    import os; dl = int(os.environ.get("C06_DEADLINE_S", dl))      # per-process deadline (a process that reaches it reports @CAP and exits 0)
    res = vf.Result(); log = open(vf.BUILD + "/C06/log.txt", "w")
    jobs = []
    # (mode, receive threshold, consumption policy 0 all/1 one byte/2 none/3 all-but-1, extra: cb= callback behaviour, ev= initialize() events, bind= bind/unbind ops, depth delta)
    cfgs = [("bfd", 0, 0, [], 0), ("bfd", 1, 1, ["kind=1"], 0), ("bfd", 3, 3, [], 0), ("bfd", 0, 2, [], 0), ("tcp", 0, 0, [], 0), ("tcp", 3, 1, [], -1),
            ("bfd", 0, 0, ["cb=1"], 0), ("bfd", 1, 3, ["cb=2"], 0), ("bfd", 0, 1, ["cb=3"], 0), ("tcp", 0, 0, ["cb=3"], -1),
            ("bfd", 0, 3, ["bind=1"], -1), ("bfd", 0, 3, ["ev=1"], 0), ("bfd", 0, 0, ["ev=2"], -1),
            ("bfd", 1, 3, ["shrink=1"], 0), ("tcp", 3, 3, ["shrink=1"], -1), ("bfd", 0, 3, ["cb=4"], -1),
            ("bfd", 0, 3, ["ev=1", "kind=2"], 0), ("bfd", 0, 0, ["ev=2", "kind=2"], -1)]
    # server/client lane: (threshold, policy) for the server and both clients, rc=1 client 0 auto-reconnects, bind=1 client 1 forwards to a bound receiver
    tcfgs = [(["thr=0", "pol=0", "rc=0", "bind=0"], 0), (["thr=3", "pol=3", "rc=1", "bind=1", "reinit=1"], 0),
             (["thr=0", "pol=3", "rc=0", "bind=0", "cb=3"], -1), (["thr=1", "pol=0", "rc=0", "bind=0", "cb=4"], -1)]      # cb: 1 greeting in both connected callbacks + 2 echo server; 4 close in the first receive callback
    for e in ("epoll", "select"):      # longest jobs first
        for (targs, tdd) in tcfgs:
            for p in (0, 1, 3, 2):
                for sp in range(tsub):
                    jobs.append(("tcp:%s:%s:p%d.%d" % (e, ",".join(targs), p, sp), [tcp, e, str(tdepth + tdd), sockdir, str(p), str(tnp)] + targs + ["sub=%d/%d" % (sp, tsub)]))
    for e in ("epoll", "select"):
        for (mode, thr, pol, extra, dd) in cfgs:
            for p in range(np):
                jobs.append(("hist:%s:%s:thr%d:pol%d:%s:p%d" % (e, mode, thr, pol, ",".join(extra) or "plain", p), [exe, "hist", e, str(depth + dd), mode, str(thr), str(pol), str(maxdev), str(p), str(np)] + extra))
        jobs.append(("bulk:%s" % e, [exe, "bulk", e]))
        jobs.append(("bulkrecv:%s" % e, [exe, "bulkrecv", e]))
    if args.only: jobs = [j for j in jobs if j[0].startswith(args.only)]
    vf.run_procs(res, jobs, env={"VERIF_DEADLINE_S": str(dl)}, log=log)
    # two loops in two threads, free-running under ThreadSanitizer: own-stream oracle in the harness, every TSan report becomes a violation race:<file:line>
    if not args.only or args.only.startswith("mt"):
        import subprocess, re
        mt = vf.build("C06/mt_tsan", [vf.VERIF + "/checks/C06/mt_harness.cpp"], vf.module_sources("event", "network", "util/buffer.cpp", "util/fd.cpp", "util/string.cpp", "util/fs.cpp", "util/serializer.cpp"), mode="tsan",
                      plain_srcs=[vf.VERIF + "/engine/sched/log_stub.cpp"])
        for e in ("epoll", "select"):
            env = dict(os.environ, TSAN_OPTIONS="exitcode=0:halt_on_error=0:report_signal_unsafe=0:second_deadlock_stack=1")
            try:
                pr = subprocess.run([mt, e, "8" if tier == "quick" else "40"], capture_output=True, timeout=600, env=env)
                out, err, rc = pr.stdout.decode("latin-1"), pr.stderr.decode("latin-1"), pr.returncode
            except subprocess.TimeoutExpired as ex:
                out, err, rc = (ex.stdout or b"").decode("latin-1"), (ex.stderr or b"").decode("latin-1"), "timeout"
            res.runs += 1; res.absorb(out, "mt:" + e)
            log.write("=== mt:%s rc=%s\n%s\n--- stderr\n%s\n" % (e, rc, out[-8000:], err[-12000:]))
            if rc != 0: res.errors.append("mt:%s: harness exit %s; stderr tail: %s" % (e, rc, err[-1200:]))
            seen_races = set()
            for blk in err.split("WARNING: ThreadSanitizer: ")[1:]:
                kind = blk.split("\n", 1)[0].split(" (pid")[0].strip().replace(" ", "-")
                m = re.search(r"#\d+ (\S.*?) (\S*/modules/(\S+?)):(\d+)", blk)          # innermost frame inside the library sources
                where = "%s:%s" % (os.path.basename(m.group(2)), m.group(4)) if m else "unknown-location"
                sig = "race:%s" % where if kind == "data-race" else "tsan-%s:%s" % (kind, where)
                if sig not in seen_races:
                    seen_races.add(sig); res.viols.append((sig, "two-loops %s: ThreadSanitizer %s in %s" % (e, kind, (m.group(1)[:120] if m else "?")), "mt:" + e))
    # every kind of injected I/O deviation must really have altered a system call of the code under test (the interposer is reached)
    if not args.only:
        for kind in ("wclamp", "weagain", "rclamp", "reagain"):
            if res.stats.get("dev_armed_" + kind, 0) > 0 and res.stats.get("dev_fired_" + kind, 0) == 0:
                res.errors.append("injected deviation '%s' was armed %d times but never reached a system call of the descriptor under test" % (kind, res.stats["dev_armed_" + kind]))
    pol_names = {0: "all", 1: "1 byte", 2: "none", 3: "all-but-1"}
    pairs = sorted(set("%s thr%d/%s" % (m, t, pol_names[p_]) for (m, t, p_, _x, _d) in cfgs))
    vf.finish(PID, tier, res, t0,
              rule="(1) BFS (depth %d, some configurations one level shallower; canonical-state dedup incl. read index/capacity of both buffers, read through probes) over all histories of send(1|2|5)/enable/disable/peer-read/peer-write/"
                   "peer-close (half close after draining)/peer-close-fully (reset when it has unread data)/loop-pass with <=%d injected I/O deviations (next write 1 byte, next write EAGAIN, next read 1 byte, next read EAGAIN; every read-/write-type call of the "
                   "descriptor is interposed and each deviation kind must have fired) on the real BufferedFd and TcpConnection (there 'disable' = disconnect()), both back-ends, %d configurations; the (mode threshold/consumption policy) pairs actually run are: %s. "
                   "Variants: user callbacks that call back in (send-complete sends 2 bytes; receive callback echoes what it took; pauses the descriptor / disconnects the connection; shrinks receive and send buffer after its partial hasRead); bind()/unbind() "
                   "to a recording receiver, shrinkSendBuffer()/shrinkRecvBuffer() as extra operations; initialize(kReadOnly) / initialize(kWriteOnly); descriptor kind: non-blocking socketpair, socketpair handed over blocking, pipe read end, pipe write end. "
                   "Only operations that change the model state are offered. After every history the loop is run to quiescence with the peer draining, then the callback is replaced on the live object (threshold 0, take all) and the peer writes one more byte: "
                   "all unconsumed bytes must come again with it. Byte-exact std::string reference for both directions; shown/delivered/close clauses are decided by the reference model. A receive or read-zero callback on a BufferedFd the user has disabled, and a receive or disconnected callback after the user's own TcpConnection::disconnect(), are violations (the user closing from inside a callback is one of the points at which either side closes). "
                   "(2) TcpServer+TcpClient lane (real acceptor/connector over a unix-domain socket, depth %d, %d configurations: threshold/policy 0/all; 3/all-but-1 with client 0 auto-reconnecting, client 1 bound to a receiver (also un/re-bound on the live "
                   "connection) and server-stop = cleanup()+initialize(); greeting sent inside both connected callbacks + echo server; each side closing its own end inside its first receive callback (the last two one level shallower)): objects go through several sessions - "
                   "client stop/start, client 1 cleanup()+initialize(), peer-initiated disconnect, auto-reconnect, server stop/start with connections waiting in the listen queue, shutdown(SHUT_WR) from either side, late installation of callbacks inside the "
                   "connected callback, per-connection send-complete against per-descriptor written counters, callback replacement at the end; the clock stands still during a history. (3) bulk lanes with real kernel back-pressure, over a socketpair and over a pipe: "
                   "(4) two threads, each with its own real loop, socketpair and BufferedFd / TcpConnection, free-running under ThreadSanitizer (%d rounds x 3 pairings x 2 back-ends): each receiver must be shown exactly its own 6-7 KB stream (several readv per callback, spill area used) "
                   "and any ThreadSanitizer report on library data is a violation. Bulk details: sends of 64 KiB-2 MiB through a 4 KiB kernel buffer before/after enable; receives of 1024 B-1 MiB in two step sizes x threshold {0,1500} x {take all, all-but-1, nothing, forward to a second real BufferedFd with a slow reader} x enable before/after the data"
                   % (depth, maxdev, len(cfgs), "; ".join(pairs), tdepth, len(tcfgs), 8 if tier == "quick" else 40),
              assumptions=["at raw BufferedFd level the harness disables the descriptor in its read-zero callback, as every in-tree user does (DESIGN 1.7)", "bytes below the receive threshold stay buffered (not counted as lost)",
                           "while a receiver is bound, received bytes are due to the receiver instead of the callback; bytes that were already buffered below the threshold when bind() was called are only demanded once a later byte arrives",
                           "after a user-side stop()/disconnect() nothing is demanded of bytes still queued on that side; a disconnected callback is expected only for a close/half-close made by the other side",
                           "after the peer closed its descriptor completely nothing is demanded of bytes it had not read or that are sent afterwards, and send-complete is not judged any more",
                           "the kernel hands out unix-domain connections in connect() order; connections still waiting in the listen queue die with the listening socket (their client stays in its retry delay, the clock being frozen); "
                           "sends in the server/client lane are small enough to be written through at once"])
