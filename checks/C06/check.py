import time, vf
PID = "C06"
def main(tier, args):
    t0 = time.time()
    exe = vf.build("C06/stream", [vf.VERIF + "/checks/C06/harness.cpp"], vf.module_sources("event", "network", "util/buffer.cpp", "util/fd.cpp", "util/string.cpp", "util/fs.cpp", "util/serializer.cpp"), mode="asan",
                   plain_srcs=[vf.VERIF + "/engine/sched/log_stub.cpp"])
    tcp = vf.build("C06/tcp", [vf.VERIF + "/checks/C06/tcp_harness.cpp"], vf.module_sources("event", "network", "util/buffer.cpp", "util/fd.cpp", "util/string.cpp", "util/fs.cpp", "util/serializer.cpp"), mode="asan",
                   plain_srcs=[vf.VERIF + "/engine/sched/log_stub.cpp"])
    import os; sockdir = vf.BUILD + "/C06/sock"; os.makedirs(sockdir, exist_ok=True)
    depth, dl, maxdev, np = (6, 80, 1, 4) if tier == "quick" else (7, 1300, 2, 8)
    tdepth, tnp = (5, 4) if tier == "quick" else (7, 8)
    res = vf.Result(); log = open(vf.BUILD + "/C06/log.txt", "w")
    jobs = []
    cfgs = [("bfd", 0, 0), ("bfd", 1, 1), ("bfd", 3, 3), ("bfd", 0, 2), ("tcp", 0, 0), ("tcp", 3, 1)]
    for e in ("epoll", "select"):
        jobs.append(("bulk:%s" % e, [exe, "bulk", e]))
        for p in range(tnp):
            jobs.append(("tcp:%s:p%d" % (e, p), [tcp, e, str(tdepth), sockdir, str(p), str(tnp)]))
        for (mode, thr, pol) in cfgs:
            for p in range(np):
                jobs.append(("hist:%s:%s:thr%d:pol%d:p%d" % (e, mode, thr, pol, p), [exe, "hist", e, str(depth), mode, str(thr), str(pol), str(maxdev), str(p), str(np)]))
    if args.only: jobs = [j for j in jobs if j[0].startswith(args.only)]
    vf.run_procs(res, jobs, env={"VERIF_DEADLINE_S": str(dl)}, log=log)
    vf.finish(PID, tier, res, t0,
              rule="BFS (depth %d, canonical-state dedup) over all histories of send(1|2|5)/enable/disable/peer-read/peer-write/peer-close/loop-pass with <=%d injected I/O deviations (next write returns 1 byte, next write EAGAIN, next readv 1 byte) on the real BufferedFd and TcpConnection over a socketpair, "
                   "both back-ends, receive threshold in {0,1,3} x consumption policy {all,1 byte,none,all-but-1}; after every history the loop is run to quiescence with the peer draining; byte-exact std::string reference for both directions; "
                   "plus a TcpServer+TcpClient lane (real acceptor/connector over a unix-domain socket, 2 clients, client/server sends, client stop, server disconnect/stop, depth %d) and a bulk lane with real kernel back-pressure (64 KiB-2 MiB, SO_SNDBUF 4 KiB, sends before/after enable)" % (depth, maxdev, tdepth),
              assumptions=["at raw BufferedFd level the harness disables the descriptor in its read-zero callback, as every in-tree user does (DESIGN 1.7)", "bytes below the receive threshold stay buffered (not counted as lost)"])
