// C06 lane: real TcpServer + TcpAcceptor + TcpClient + TcpConnector + TcpConnection over a unix-domain listening socket
// on one real loop (engine H, in-process BFS).
// usage: tcp_harness <engine> <depth> <sockdir> <part> <nparts> [thr=N] [pol=N] [rc=0|1] [bind=0|1] [cb=N] [reinit=0|1] [sub=a/b]
//   cb      : user callbacks that call back in (bit mask): 1 both connected callbacks send a 1-byte greeting, 2 the server's receive callback echoes the
//             bytes it took, 4 the first receive callback of a connection closes its own end (server: disconnect(token); client 0: stop())
//   reinit=1: "server-stop" is TcpServer::cleanup() + initialize() + callbacks again (the listening socket is closed and re-created: connections
//             still waiting in its queue die with it); "server-start" then starts the second life
//   thr/pol : receive threshold and consumption policy (0 all, 1 one byte, 2 none, 3 all-but-1) used by the server and both clients
//   rc=1    : client 0 runs with setAutoReconnect(true) (client 1 never does, so a connect() nobody asked for is client 0's)
//   bind=1  : client 1 is bound (TcpClient::bind, before start) to a ByteStream of the harness: its received bytes are forwarded, not called back;
//             operation bind-toggle(1) unbinds / binds again on the live connection
// Objects live for the whole history and go through several sessions: client stop/start, peer-initiated disconnect and auto-reconnect,
// server stop/start (connections made meanwhile wait in the listen queue), half-close from either side.
// A session = one connect() of a client. The kernel hands connections out in connect order, so every accept() takes the oldest session still
// waiting in the listen queue (those die when the listening socket is closed).
// Client 1 installs its receive / send-complete callbacks inside its connected callback (late installation on a live connection), and its
// "stop" is a re-initialisation: cleanup() + initialize() + callbacks (+ bind) again. Client 0's stop is TcpClient::stop().
//
// Reference model (independent of the implementation's bookkeeping): per session and direction the std::string of bytes whose send() was
// accepted, the number delivered (taken by the callback / forwarded) and the number shown at least once; per-fd counters of bytes really
// written (interposed write()), connect()/accept() interposed to know which descriptor belongs to which session.
#include "hist/hist.h"
#include "probe.h"
#include <tbox/event/loop.h>
#include <tbox/network/tcp_server.h>
#include <tbox/network/tcp_client.h>
#include <tbox/network/sockaddr.h>
#include <sys/stat.h>
#include <sstream>
#include <sys/socket.h>
#include <sys/syscall.h>
using namespace tbox; using namespace tbox::network;

enum K { START_CLIENT, CLIENT_SEND, SERVER_SEND, CLIENT_STOP, SERVER_DISCONNECT, PASS, SERVER_STOP, SERVER_START, CLIENT_SHUT_WR, SERVER_SHUT_WR, BIND_TOGGLE, NK };
static const char *kN[] = {"start-client", "client-send", "server-send", "client-stop", "server-disconnect", "pass", "server-stop", "server-start", "client-shutdown-wr", "server-shutdown-wr", "bind-toggle"};
struct Op { int k, i, n; };
enum Policy { ALL, ONE, NONE_, ALL_BUT_ONE };
static const int NC = 2, MAXS = 5, MAXFD = 4096;
struct Cfg { std::string eng, dir; size_t thr = 0; int pol = 0, cb = 0; bool reconnect = false, bind1 = false, reinit = false; };
enum { CB_GREET = 1, CB_ECHO = 2, CB_CLOSE = 4 };
VF_PROBE(read_index_)

struct Sess {
  int client = -1, cfd = -1, sfd = -1, tk = -1;      // tk: index of the server's token for this session (-1: not accepted)
  size_t c_bind_mark = 0; bool s_cb_closed = false, c_cb_closed = false;
  bool c_connected = false, accepted = false, c_user_closed = false, s_user_closed = false, c_shutwr = false, s_shutwr = false; int c_disc = 0, s_disc = 0;
  std::string c_sent, s_sent;                 // client->server / server->client bytes whose send() was accepted
  size_t s_cons = 0, s_hi = 0, c_cons = 0, c_hi = 0;   // delivered / shown-at-least-once counts on the server side (of c_sent) and the client side (of s_sent)
  bool c_open() const { return c_connected && !c_user_closed && c_disc == 0; }
  bool s_open() const { return accepted && !s_user_closed && s_disc == 0; }
  bool client_closed() const { return c_user_closed || c_shutwr || c_disc > 0; }
  bool server_closed() const { return s_user_closed || s_shutwr || s_disc > 0; }
};

static bool g_trace = false;      // C06_TRACE=1: event trace on stderr (for replaying one history by hand, see C06_REPLAY in main)
#define TRACE(...) do { if (g_trace) { fprintf(stderr, __VA_ARGS__); fputc('\n', stderr); } } while (0)
struct World;
struct Receiver : ByteStream { World *w = nullptr;
  void setReceiveCallback(const ReceiveCallback &, size_t) override {} void setSendCompleteCallback(const SendCompleteCallback &) override {}
  bool send(const void *p, size_t n) override; void bind(ByteStream *) override {} void unbind() override {} util::Buffer *getReceiveBuffer() override { return nullptr; } };

struct World {
  Cfg cfg; event::Loop *loop; TcpServer *srv; TcpClient *cli[NC]; Receiver rcv;
  std::vector<Sess> ss; std::vector<TcpServer::ConnToken> tok; std::vector<int> tok_sess /*token index -> session*/, accepted_fds, accepted_sess; std::deque<int> backlog /*sessions waiting in the listen queue*/; bool bound1 = false; std::string path;
  int cur[NC] = {-1, -1}, pend[NC] = {-1, -1}; bool active[NC] = {false, false}; int cur_client = -1; bool srv_running = false;
  long long wr[MAXFD]; std::string viol; uint8_t ctr[NC] = {1, 101}; uint8_t sctr[NC] = {51, 151};
  size_t cthr[NC]; int cpol[NC]; int gen = 0;          // callbacks carry the generation they were installed with; a replaced callback must not be called
  int tok_index(const TcpServer::ConnToken &t) { for (size_t k = 0; k < tok.size(); k++) if (tok[k] == t) return (int)k; return -1; }
  int sess_of(const TcpServer::ConnToken &t) { int k = tok_index(t); return k < 0 ? -1 : tok_sess[k]; }
  void pass() { loop->runNext([] {}); loop->runLoop(event::Loop::Mode::kOnce); }
  void fail(const std::string &v) { TRACE("FAIL %s", v.c_str()); if (viol.empty()) viol = v; }
  static size_t take_of(int pol, size_t n) { return pol == ALL ? n : pol == ONE ? std::min<size_t>(1, n) : pol == NONE_ ? 0 : n - (n > 0); }
  int server_sess(int i) { for (int j = (int)ss.size() - 1; j >= 0; j--) if (ss[j].client == i && ss[j].s_open()) return j; return -1; }   // the server's newest live connection to client i (may be one the client already left)

  // ---- syscalls seen by the harness
  void on_connect(int fd) { TRACE("connect fd=%d cur_client=%d", fd, cur_client);
    int c = cur_client; if (c < 0) { if (!cfg.reconnect) { fail("connect-attempt-nobody-asked-for"); return; } c = 0; }
    Sess s; s.client = c; s.cfd = fd; ss.push_back(s); pend[c] = (int)ss.size() - 1; backlog.push_back(pend[c]); active[c] = true; if (fd >= 0 && fd < MAXFD) wr[fd] = 0; }
  void on_accept(int fd) { TRACE("accept fd=%d backlog=%zu", fd, backlog.size()); if (backlog.empty()) { fail("accept-without-a-waiting-connection"); return; } accepted_fds.push_back(fd); accepted_sess.push_back(backlog.front()); backlog.pop_front(); if (fd >= 0 && fd < MAXFD) wr[fd] = 0; }

  // ---- server callbacks
  void srv_connected(const TcpServer::ConnToken &t) { if (tok_index(t) >= 0) { fail("server-connected-callback-twice-for-one-token"); return; }
    size_t k = tok.size(); if (k >= accepted_sess.size()) { fail("server-connected-callback-without-an-accepted-connection"); return; }
    tok.push_back(t); tok_sess.push_back(accepted_sess[k]); Sess &s = ss[accepted_sess[k]]; s.accepted = true; s.sfd = accepted_fds[k]; s.tk = (int)k;
    if (cfg.cb & CB_GREET) { char g = (char)sctr[s.client]++; s.s_sent.push_back(g); if (!srv->send(t, &g, 1)) fail("server-send-inside-connected-callback-returned-false"); } }
  void srv_disconnected(const TcpServer::ConnToken &t) { int k = sess_of(t); TRACE("srv_disconnected sess=%d", k); if (k < 0) { fail("server-disconnected-callback-for-unknown-token"); return; } Sess &s = ss[k];
    if (++s.s_disc > 1) fail("server-disconnected-callback-more-than-once");
    if (s.s_hi < s.c_sent.size() && s.c_sent.size() - s.s_cons >= cfg.thr) fail("server-told-peer-closed-before-all-preceding-data-was-presented");
    if (!(s.c_user_closed || s.c_shutwr || s.c_disc > 0)) fail("server-disconnected-callback-although-the-client-did-not-close"); }
  void srv_received(int g, const TcpServer::ConnToken &t, util::Buffer &b) { if (g != gen) { fail("replaced-server-receive-callback-was-called"); return; }
    int k = sess_of(t); if (k < 0) { fail("server-receive-callback-for-unknown-token"); return; } Sess &s = ss[k]; TRACE("srv_received sess=%d n=%zu", k, b.readableSize());
    if (s.s_disc) { fail("server-receive-callback-after-disconnected-callback"); return; }
    size_t n = b.readableSize(); if (n < cfg.thr) { fail("server-receive-callback-below-threshold"); return; }
    if (s.s_cons + n > s.c_sent.size() || memcmp(b.readableBegin(), s.c_sent.data() + s.s_cons, n) != 0) { fail("server-receive-callback-content-not-the-undelivered-bytes-of-that-client-in-order"); return; }
    s.s_hi = std::max(s.s_hi, s.s_cons + n); size_t take = take_of(cfg.pol, n); std::string taken((const char *)b.readableBegin(), take); b.hasRead(take); s.s_cons += take;
    if ((cfg.cb & CB_ECHO) && take > 0 && g == 0 && !s.s_shutwr) { s.s_sent += taken; if (!srv->send(t, taken.data(), taken.size())) fail("server-send-inside-receive-callback-returned-false"); }      // echo server
    if ((cfg.cb & CB_CLOSE) && !s.s_cb_closed && g == 0) { s.s_cb_closed = true; s.s_user_closed = true; if (!srv->disconnect(t)) fail("server-disconnect-inside-receive-callback-returned-false"); } }
  void srv_complete(const TcpServer::ConnToken &t) { int k = sess_of(t); TRACE("srv_complete sess=%d wr=%lld sent=%zu", k, k >= 0 && ss[k].sfd >= 0 ? wr[ss[k].sfd] : -1, k >= 0 ? ss[k].s_sent.size() : 0); if (k < 0) { fail("server-send-complete-for-unknown-token"); return; } Sess &s = ss[k];
    if (s.client_closed()) return;       // the kernel refuses bytes sent after the other side closed: "everything sent" is then no longer what was written
    if (s.sfd >= 0 && s.sfd < MAXFD && (size_t)wr[s.sfd] != s.s_sent.size()) fail("server-send-complete-before-everything-sent-on-that-connection-was-written"); }

  // ---- client callbacks
  void install_client_cbs(int i) { World *pw = this; int g = gen;
    cli[i]->setReceiveCallback([pw, i, g](util::Buffer &b) { pw->cli_received(g, i, b); }, cthr[i]); cli[i]->setSendCompleteCallback([pw, i, g] { pw->cli_complete(g, i); }); }
  void cli_connected(int i) { int j = pend[i]; TRACE("cli_connected client=%d sess=%d", i, j); if (j < 0) { fail("client-connected-callback-without-a-pending-connect"); return; }
    ss[j].c_connected = true; cur[i] = j; pend[i] = -1; if (i == 1) install_client_cbs(1);
    if (cfg.cb & CB_GREET) { char g = (char)ctr[i]++; ss[j].c_sent.push_back(g); if (!cli[i]->send(&g, 1)) fail("client-send-inside-connected-callback-returned-false"); } }
  void cli_disconnected(int i) { int j = cur[i]; TRACE("cli_disconnected client=%d sess=%d", i, j); if (j < 0) { fail("client-disconnected-callback-without-a-live-connection"); return; } Sess &s = ss[j];
    if (++s.c_disc > 1) fail("client-disconnected-callback-more-than-once");
    if (c_due(i, s)) fail("client-told-peer-closed-before-all-preceding-data-was-presented");
    if (!(s.s_user_closed || s.s_shutwr || s.s_disc > 0)) fail("client-disconnected-callback-although-the-server-did-not-close");
    cur[i] = -1; active[i] = pend[i] >= 0; }
  bool bound(int i) const { return bound1 && i == 1; }
  // bytes the client side must have been shown once everything in the kernel was read: unbound - the undelivered bytes reach the threshold; bound - a byte arrived after the bind
  bool c_due(int i, const Sess &s) const { return s.c_hi < s.s_sent.size() && (bound(i) ? s.s_sent.size() > s.c_bind_mark : s.s_sent.size() - s.c_cons >= cthr[i]); }
  void cli_received(int g, int i, util::Buffer &b) { if (g != gen) { fail("replaced-client-receive-callback-was-called"); return; }
    if (bound(i)) { fail("client-receive-callback-while-a-receiver-is-bound"); return; }
    int j = cur[i]; if (j < 0) { fail("client-receive-callback-without-a-live-connection"); return; } Sess &s = ss[j]; TRACE("cli_received client=%d sess=%d n=%zu", i, j, b.readableSize());
    size_t n = b.readableSize(); if (n < cthr[i]) { fail("client-receive-callback-below-threshold"); return; }
    if (s.c_cons + n > s.s_sent.size() || memcmp(b.readableBegin(), s.s_sent.data() + s.c_cons, n) != 0) { fail("client-receive-callback-content-not-the-undelivered-bytes-the-server-sent-to-it-in-order"); return; }
    s.c_hi = std::max(s.c_hi, s.c_cons + n); size_t take = take_of(cpol[i], n); b.hasRead(take); s.c_cons += take;
    if ((cfg.cb & CB_CLOSE) && i == 0 && !s.c_cb_closed && g == 0) { s.c_cb_closed = true; user_stop(0); } }
  void user_stop(int i) { for (int j : {cur[i], pend[i]}) if (j >= 0) ss[j].c_user_closed = true; cur[i] = pend[i] = -1; active[i] = false; cli[i]->stop(); }
  void cli_forward(const void *p, size_t n) { int j = cur[1]; if (j < 0) { fail("bytes-forwarded-without-a-live-connection"); return; } Sess &s = ss[j];
    if (s.c_cons + n > s.s_sent.size() || memcmp(p, s.s_sent.data() + s.c_cons, n) != 0) { fail("forwarded-bytes-are-not-the-undelivered-bytes-the-server-sent-in-order"); return; }
    s.c_cons += n; s.c_hi = std::max(s.c_hi, s.c_cons); }
  void cli_complete(int g, int i) { if (g != gen) { fail("replaced-client-send-complete-callback-was-called"); return; } int j = cur[i]; if (j < 0) return; Sess &s = ss[j];
    if (s.server_closed()) return;
    if (s.cfd >= 0 && s.cfd < MAXFD && (size_t)wr[s.cfd] != s.c_sent.size()) fail("client-send-complete-before-everything-sent-on-that-connection-was-written"); }

  // ---- which operations do something in the current model state (the menu offers only these; the others would be no-ops)
  bool enabled(const Op &o) {
    switch (o.k) {
      case START_CLIENT: return !active[o.i] && (int)ss.size() < MAXS;
      case CLIENT_SEND: { int j = cur[o.i]; return j >= 0 && ss[j].c_open() && !ss[j].c_shutwr && ss[j].c_sent.size() + o.n <= 8; }
      case SERVER_SEND: { int j = server_sess(o.i); return j >= 0 && !ss[j].s_shutwr && ss[j].s_sent.size() + o.n <= 8; }
      case CLIENT_STOP: return active[o.i];
      case SERVER_DISCONNECT: return server_sess(o.i) >= 0;
      case PASS: return true;
      case SERVER_STOP: return srv_running;
      case SERVER_START: return !srv_running;
      case CLIENT_SHUT_WR: { int j = cur[o.i]; return j >= 0 && ss[j].c_open() && !ss[j].c_shutwr; }
      case SERVER_SHUT_WR: { int j = server_sess(o.i); return j >= 0 && !ss[j].s_shutwr; }
      case BIND_TOGGLE: return cfg.bind1 && cur[1] >= 0; }
    return false; }
  void check_tokens() { for (size_t k = 0; k < tok.size(); k++) { bool v = srv->isClientValid(tok[k]); Sess &s = ss[tok_sess[k]];
      if (s.s_user_closed && v) fail("token-still-valid-after-the-server-closed-that-connection"); if (s.s_open() && !v) fail("token-of-a-live-connection-is-not-valid"); } }
};
bool Receiver::send(const void *p, size_t n) { w->cli_forward(p, n); return true; }

static World *g_w = nullptr;

extern "C" int connect(int fd, const struct sockaddr *a, socklen_t l) { int r = (int)syscall(SYS_connect, fd, a, l);
  if (g_w) { if (r == 0 || errno == EINPROGRESS) g_w->on_connect(fd); else g_w->fail("harness-connect-failed-errno-" + std::to_string(errno)); } return r; }
// The clock stands still while a history runs: a TcpConnector whose connection attempt fails (only possible here when the listening socket is
// re-created with the attempt still in its queue) waits in its retry delay for the rest of the history instead of re-connecting at a wall-clock
// dependent moment. Outside run_hist() (engine deadline) the real clock is used.
static struct timespec g_frozen;
extern "C" int clock_gettime(clockid_t id, struct timespec *ts) { if (g_w) { *ts = g_frozen; return 0; } return (int)syscall(SYS_clock_gettime, id, ts); }
extern "C" int accept(int fd, struct sockaddr *a, socklen_t *l) { int r = (int)syscall(SYS_accept, fd, a, l); if (g_w && r >= 0) g_w->on_accept(r); return r; }
extern "C" ssize_t write(int fd, const void *b, size_t n) { ssize_t r = syscall(SYS_write, fd, b, n); if (g_w && r > 0 && fd >= 0 && fd < MAXFD) g_w->wr[fd] += r; return r; }

static std::vector<Op> all_ops() { std::vector<Op> m;
  m.push_back({START_CLIENT, 0, 0}); m.push_back({START_CLIENT, 1, 0}); m.push_back({PASS, 0, 0});
  for (int n : {1, 3}) { m.push_back({CLIENT_SEND, 0, n}); m.push_back({SERVER_SEND, 0, n}); } m.push_back({CLIENT_SEND, 1, 1}); m.push_back({SERVER_SEND, 1, 2});
  for (int i = 0; i < NC; i++) { m.push_back({CLIENT_STOP, i, 0}); m.push_back({SERVER_DISCONNECT, i, 0}); }
  m.push_back({SERVER_STOP, 0, 0}); m.push_back({SERVER_START, 0, 0}); m.push_back({CLIENT_SHUT_WR, 0, 0}); m.push_back({SERVER_SHUT_WR, 0, 0}); m.push_back({BIND_TOGGLE, 1, 0}); return m; }
static const std::vector<Op> g_ops = all_ops();
static std::map<std::string, uint32_t> g_enabled;       // history -> bitmask over g_ops of the operations enabled in the state it reaches
static std::string hkey(const std::vector<Op> &h) { std::string s; for (auto &o : h) { s.push_back((char)('A' + o.k)); s.push_back((char)('0' + o.i)); s.push_back((char)('0' + o.n)); } return s; }

static std::string run_hist(const Cfg &cfg, const std::vector<Op> &h, std::string &viol) {
  World w; w.cfg = cfg; w.loop = event::Loop::New(cfg.eng); w.rcv.w = &w; memset(w.wr, 0, sizeof w.wr);
  std::string path = cfg.dir + "/c06_" + std::to_string(getpid()) + ".sock"; unlink(path.c_str());
  w.srv = new TcpServer(w.loop); w.bound1 = cfg.bind1; w.path = path;
  if (!w.srv->initialize(SockAddr::FromString(path), 16)) { viol = "harness-server-initialize-failed"; return "x"; }
  World *pw = &w; syscall(SYS_clock_gettime, CLOCK_MONOTONIC, &g_frozen); g_w = pw;
  auto install_server_cbs = [pw]() { int g = pw->gen;
    pw->srv->setReceiveCallback([pw, g](const TcpServer::ConnToken &t, util::Buffer &b) { pw->srv_received(g, t, b); }, pw->cfg.thr);
    pw->srv->setSendCompleteCallback([pw](const TcpServer::ConnToken &t) { pw->srv_complete(t); }); };
  auto install_all_server_cbs = [pw, install_server_cbs]() {
    pw->srv->setConnectedCallback([pw](const TcpServer::ConnToken &t) { pw->srv_connected(t); });
    pw->srv->setDisconnectedCallback([pw](const TcpServer::ConnToken &t) { pw->srv_disconnected(t); });
    install_server_cbs(); };
  install_all_server_cbs();
  if (!w.srv->start()) { viol = "harness-server-start-failed"; g_w = nullptr; return "x"; } w.srv_running = true;
  auto setup_client = [pw, path](int i) { World &w = *pw; if (!w.cli[i]->initialize(SockAddr::FromString(path))) return false; w.cli[i]->setAutoReconnect(i == 0 && w.cfg.reconnect);
    w.cli[i]->setConnectedCallback([pw, i] { pw->cli_connected(i); }); w.cli[i]->setDisconnectedCallback([pw, i] { pw->cli_disconnected(i); });
    if (i == 0) w.install_client_cbs(0);                 // client 1 installs its data callbacks when it gets connected
    if (w.bound(i)) w.cli[i]->bind(&w.rcv);
    return true; };
  for (int i = 0; i < NC; i++) { w.cthr[i] = cfg.thr; w.cpol[i] = cfg.pol; w.cli[i] = new TcpClient(w.loop); if (!setup_client(i)) { viol = "harness-client-initialize-failed"; g_w = nullptr; return "x"; } }
  for (auto &o : h) { if (!w.viol.empty()) break;
    if (!w.enabled(o)) continue;                          // (only reachable when a history is replayed by hand)
    switch (o.k) {
      case START_CLIENT: { w.cur_client = o.i; bool ok = w.cli[o.i]->start(); w.cur_client = -1; if (!ok) w.fail("client-start-returned-false"); else if (!w.active[o.i]) w.fail("client-start-made-no-connection-attempt"); w.pass(); w.pass(); } break;   // connect + accept settle
      case CLIENT_SEND: { Sess &s = w.ss[w.cur[o.i]]; std::string d; for (int j = 0; j < o.n; j++) d.push_back((char)w.ctr[o.i]++);
          s.c_sent += d; if (!w.cli[o.i]->send(d.data(), d.size())) { s.c_sent.resize(s.c_sent.size() - d.size()); w.fail("client-send-on-live-connection-returned-false"); } } break;
      case SERVER_SEND: { int j = w.server_sess(o.i); Sess &s = w.ss[j]; std::string d; for (int q = 0; q < o.n; q++) d.push_back((char)w.sctr[o.i]++);
          s.s_sent += d; if (!w.srv->send(w.tok[s.tk], d.data(), d.size())) { s.s_sent.resize(s.s_sent.size() - d.size()); w.fail("server-send-on-live-connection-returned-false"); } } break;
      case CLIENT_STOP: { if (o.i == 0) w.user_stop(0);
          else { for (int j : {w.cur[1], w.pend[1]}) if (j >= 0) w.ss[j].c_user_closed = true; w.cur[1] = w.pend[1] = -1; w.active[1] = false; w.cli[1]->cleanup(); if (!setup_client(1)) w.fail("client-initialize-after-cleanup-returned-false"); } } break;   // client 1 is re-initialised: cleanup() + initialize() + callbacks (+ bind) again
      case SERVER_DISCONNECT: { int j = w.server_sess(o.i); w.ss[j].s_user_closed = true; if (!w.srv->disconnect(w.tok[w.ss[j].tk])) w.fail("server-disconnect-of-live-connection-returned-false"); } break;
      case SERVER_STOP: { w.srv_running = false; for (auto &s : w.ss) if (s.s_open()) s.s_user_closed = true;
          if (!cfg.reinit) w.srv->stop();
          else { for (int j : w.backlog) w.ss[j].s_user_closed = true; w.backlog.clear();         // the listening socket goes away, and with it every connection still waiting in its queue
            w.srv->cleanup(); if (!w.srv->initialize(SockAddr::FromString(path), 16)) w.fail("server-initialize-after-cleanup-returned-false"); install_all_server_cbs(); } } break;
      case SERVER_START: { if (!w.srv->start()) w.fail("server-start-after-stop-returned-false"); w.srv_running = true; } break;
      case CLIENT_SHUT_WR: { Sess &s = w.ss[w.cur[o.i]]; s.c_shutwr = true; if (!w.cli[o.i]->shutdown(SHUT_WR)) w.fail("client-shutdown-of-live-connection-returned-false"); } break;
      case SERVER_SHUT_WR: { int j = w.server_sess(o.i); w.ss[j].s_shutwr = true; if (!w.srv->shutdown(w.tok[w.ss[j].tk], SHUT_WR)) w.fail("server-shutdown-of-live-connection-returned-false"); } break;
      case BIND_TOGGLE: { if (w.bound1) { w.cli[1]->unbind(); w.bound1 = false; } else { w.cli[1]->bind(&w.rcv); w.bound1 = true; Sess &s = w.ss[w.cur[1]]; s.c_bind_mark = s.s_sent.size(); } } break;   // on the live connection
      case PASS: w.pass(); break; }
    w.check_tokens();
  }
  auto geo = [](util::Buffer *rb, char *out, size_t n) { if (!rb) { snprintf(out, n, "-"); return; } snprintf(out, n, "%zu@%zu+%zu", rb->readableSize(), VF_GET(read_index_, *rb, (size_t)0), rb->writableSize()); };   // residue, read index (probe), free tail
  auto snapshot = [&]() { std::string c; char b[200], g[48];
    for (int i = 0; i < NC; i++) { geo(w.cli[i]->getReceiveBuffer(), g, sizeof g); snprintf(b, sizeof b, "c%d:a%d cur%d pend%d st%d rb%s|", i, (int)w.active[i], w.cur[i], w.pend[i], (int)w.cli[i]->state(), g); c += b; }
    for (size_t k = 0; k < w.ss.size(); k++) { Sess &s = w.ss[k]; geo(s.tk >= 0 ? w.srv->getClientReceiveBuffer(w.tok[s.tk]) : nullptr, g, sizeof g);
      snprintf(b, sizeof b, "k%zu:c%d %d%d%d%d%d%d%d%d d%d%d cs%zu sc%zu sh%d ss%zu cc%zu ch%d bm%d v%d rb%s|", k, s.client, (int)s.c_connected, (int)s.accepted, (int)s.c_user_closed, (int)s.s_user_closed, (int)s.c_shutwr, (int)s.s_shutwr, (int)s.s_cb_closed, (int)s.c_cb_closed, s.c_disc, s.s_disc,
               s.c_sent.size(), s.s_cons, (int)(s.s_hi == s.c_sent.size()), s.s_sent.size(), s.c_cons, (int)(s.c_hi == s.s_sent.size()), (int)(s.s_sent.size() > s.c_bind_mark), s.tk >= 0 ? (int)w.srv->isClientValid(w.tok[s.tk]) : 2, g); c += b; }
    snprintf(b, sizeof b, "S%d%d B%d Q%zu", (int)w.srv_running, (int)w.srv->state(), (int)w.bound1, w.backlog.size()); c += b;
    if (vf_any_missing()) { c += "|last:"; for (size_t i = h.size() > 3 ? h.size() - 3 : 0; i < h.size(); i++) { c += kN[h[i].k]; c += (char)('0' + h[i].i); c += (char)('0' + h[i].n); c += ','; } }
    return c; };
  std::string c = snapshot();
  { uint32_t mask = 0; for (size_t q = 0; q < g_ops.size(); q++) if (w.enabled(g_ops[q])) mask |= 1u << q; g_enabled[hkey(h)] = mask; }
  // ---- run to quiescence, then: every connection attempt got connected / accepted, everything sent toward a side that did not itself
  // close has been presented there (threshold permitting), a close by one side is reported to the other exactly once and never otherwise
  if (w.viol.empty()) {
    std::string last; int same = 0; for (int i = 0; i < 24 && same < 2 && w.viol.empty(); i++) { w.pass(); std::string now = snapshot(); same = now == last ? same + 1 : 0; last = now; }
    w.check_tokens();
    for (int i = 0; i < NC && w.viol.empty(); i++) if (w.pend[i] >= 0 && !w.ss[w.pend[i]].s_user_closed) w.fail("client-never-connected");      // (an attempt that died with the listening socket is retried after a delay)
    if (w.viol.empty() && w.srv_running && !w.backlog.empty()) w.fail("server-never-accepted-a-pending-connection (" + std::to_string(w.backlog.size()) + " still waiting)");
    // A session whose client already got its disconnected callback was judged there (cli_disconnected: nothing due at that moment, with the
    // binding that was in force THEN); c_due() uses the client's CURRENT binding, which a later bind-toggle on a newer session may have changed -
    // applying it to an ended session was a false alarm of this harness (depth-7 history: bound session, 2 bytes below the threshold, unbind, close,
    // new session, bind again).
    for (size_t k = 0; k < w.ss.size() && w.viol.empty(); k++) { Sess &s = w.ss[k]; int ci = s.client;
      if (s.accepted && !s.s_user_closed && s.s_hi < s.c_sent.size() && s.c_sent.size() - s.s_cons >= cfg.thr) w.fail("bytes-sent-by-client-never-presented-to-the-server (shown " + std::to_string(s.s_hi) + " of " + std::to_string(s.c_sent.size()) + ")");
      else if (s.c_connected && !s.c_user_closed && s.c_disc == 0 && w.c_due(ci, s)) w.fail("bytes-sent-by-server-never-presented-to-the-client (shown " + std::to_string(s.c_hi) + " of " + std::to_string(s.s_sent.size()) + ")");
      else if (s.client_closed() && s.accepted && !s.s_user_closed && s.s_disc != 1) w.fail("server-disconnected-callback-count-" + std::to_string(s.s_disc) + "-after-client-close");
      else if (s.server_closed() && s.c_connected && !s.c_user_closed && s.c_disc != 1) w.fail("client-disconnected-callback-count-" + std::to_string(s.c_disc) + "-after-server-close"); }
    // flush: every callback is replaced on the live objects (clients: threshold 0, take everything), then one more byte travels each way on every
    // connection that is open on both sides: everything left unconsumed must be delivered again with it, and only the new callbacks may be called
    if (w.viol.empty()) { w.gen++; install_server_cbs(); for (int i = 0; i < NC; i++) { w.cthr[i] = 0; w.cpol[i] = ALL; w.install_client_cbs(i); }
      bool any = false;
      for (int i = 0; i < NC; i++) { int j = w.cur[i]; if (j < 0 || j != w.server_sess(i) || !w.ss[j].c_open() || w.ss[j].c_shutwr || w.ss[j].s_shutwr) continue; Sess &s = w.ss[j]; any = true;
        char a = (char)w.ctr[i]++, b = (char)w.sctr[i]++; s.c_sent.push_back(a); s.s_sent.push_back(b);
        if (!w.cli[i]->send(&a, 1)) w.fail("client-send-on-live-connection-returned-false"); if (!w.srv->send(w.tok[s.tk], &b, 1)) w.fail("server-send-on-live-connection-returned-false"); }
      if (any) { for (int i = 0; i < 4 && w.viol.empty(); i++) w.pass();
        for (int i = 0; i < NC && w.viol.empty(); i++) { int j = w.cur[i]; if (j < 0 || !w.ss[j].c_open() || !w.ss[j].s_open()) continue; Sess &s = w.ss[j];
          if (s.c_cons != s.s_sent.size()) w.fail("unconsumed-bytes-not-delivered-again-to-the-client-with-later-data (delivered " + std::to_string(s.c_cons) + " of " + std::to_string(s.s_sent.size()) + ")");
          else if (s.s_hi < s.c_sent.size() && s.c_sent.size() - s.s_cons >= cfg.thr) w.fail("unconsumed-bytes-not-presented-again-to-the-server-with-later-data (shown " + std::to_string(s.s_hi) + " of " + std::to_string(s.c_sent.size()) + ")"); } } }
  }
  viol = w.viol;
  for (int i = 0; i < NC; i++) delete w.cli[i];
  delete w.srv; w.pass(); g_w = nullptr; delete w.loop; unlink(path.c_str());
  return c;
}

int main(int argc, char **argv) {
  signal(SIGPIPE, SIG_IGN); hx::install_crash_reporter("C06-tcp-crash");
  Cfg cfg; cfg.eng = argc > 1 ? argv[1] : "epoll"; size_t depth = argc > 2 ? atoi(argv[2]) : 5; cfg.dir = argc > 3 ? argv[3] : "/tmp";
  hx::Explorer<Op> ex; int sub = 0, nsub = 1;      // sub/nsub: second-level partition of the search by the SECOND operation (the engine partitions by the first)
  if (argc > 5) { ex.part = atoi(argv[4]); ex.nparts = atoi(argv[5]); }
  for (int i = 6; i < argc; i++) { if (!strncmp(argv[i], "thr=", 4)) cfg.thr = atoi(argv[i] + 4); else if (!strncmp(argv[i], "pol=", 4)) cfg.pol = atoi(argv[i] + 4); else if (!strncmp(argv[i], "rc=", 3)) cfg.reconnect = atoi(argv[i] + 3) != 0; else if (!strncmp(argv[i], "bind=", 5)) cfg.bind1 = atoi(argv[i] + 5) != 0; else if (!strncmp(argv[i], "cb=", 3)) cfg.cb = atoi(argv[i] + 3); else if (!strncmp(argv[i], "reinit=", 7)) cfg.reinit = atoi(argv[i] + 7) != 0; else if (!strncmp(argv[i], "sub=", 4)) sscanf(argv[i] + 4, "%d/%d", &sub, &nsub); }
  char nm[96]; snprintf(nm, sizeof nm, "tcp-%s-thr%zu-pol%d-rc%d-bind%d-cb%d-reinit%d", cfg.eng.c_str(), cfg.thr, cfg.pol, (int)cfg.reconnect, (int)cfg.bind1, cfg.cb, (int)cfg.reinit); ex.name = nm; ex.deadline_s = hx::deadline_from_env(600);
  ex.show = [](const Op &o) { char b[48]; if (o.k == CLIENT_SEND || o.k == SERVER_SEND) snprintf(b, 48, "%s(%d,%d)", kN[o.k], o.i, o.n); else if (o.k == PASS || o.k == SERVER_STOP || o.k == SERVER_START) snprintf(b, 48, "%s", kN[o.k]); else snprintf(b, 48, "%s(%d)", kN[o.k], o.i); return std::string(b); };
  ex.menu = [&](const std::vector<Op> &h) { std::vector<Op> m; auto it = g_enabled.find(hkey(h)); uint32_t mask = it == g_enabled.end() ? 0xffffffffu : it->second;
    int idx = 0; for (size_t q = 0; q < g_ops.size(); q++) if (mask & (1u << q)) { if (h.size() == 1 && nsub > 1 && (idx++ % nsub) != sub) continue; m.push_back(g_ops[q]); } return m; };
  ex.sig = [](const std::string &v) { return v.substr(0, v.find(' ')); };
  ex.run = [&](const std::vector<Op> &h, std::string &viol) { return run_hist(cfg, h, viol); };
  if (const char *rp = getenv("C06_REPLAY")) {      // replay one history by hand: C06_REPLAY='start-client(0) pass ...' [C06_TRACE=1]
    g_trace = getenv("C06_TRACE") != nullptr; std::vector<Op> h; std::string tokn; std::istringstream is(rp);
    while (is >> tokn) { bool ok = false; for (auto &o : g_ops) if (ex.show(o) == tokn) { h.push_back(o); ok = true; break; } if (!ok) { printf("unknown op %s\n", tokn.c_str()); return 2; } }
    std::string v, c = run_hist(cfg, h, v); printf("state: %s\nviolation: %s\n", c.c_str(), v.empty() ? "(none)" : v.c_str()); return 0; }
  ex.explore(depth);
  return 0;
}
