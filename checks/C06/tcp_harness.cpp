// C06 lane: real TcpServer + TcpAcceptor + TcpClient + TcpConnector + TcpConnection over a unix-domain listening socket
// on one real loop (engine H, in-process BFS).   usage: tcp_harness <engine> <depth> <sockdir> [part nparts]
#include "hist/hist.h"
#include <tbox/event/loop.h>
#include <tbox/network/tcp_server.h>
#include <tbox/network/tcp_client.h>
#include <tbox/network/sockaddr.h>
#include <sys/stat.h>
using namespace tbox; using namespace tbox::network;

enum K { START_CLIENT, CLIENT_SEND, SERVER_SEND, CLIENT_STOP, SERVER_DISCONNECT, PASS, SERVER_STOP };
static const char *kN[] = {"start-client", "client-send", "server-send", "client-stop", "server-disconnect", "pass", "server-stop"};
struct Op { int k, i, n; };
static const int NC = 2;

struct Side { std::string sent, got; int connected_cb = 0, disconnected_cb = 0; bool started = false, stopped = false; int conn = -1 /*accept order = start order on one loop*/; };
struct World {
  event::Loop *loop; TcpServer *srv; TcpClient *cli[NC]; Side c[NC];            // c[i].sent = client->server bytes, c[i].got = bytes the client received
  std::vector<TcpServer::ConnToken> tok; std::vector<Side> s;                     // per accepted connection (accept order): s[k].sent = server->client k
  std::string viol; uint8_t ctr[NC] = {1, 101}; uint8_t sctr[NC] = {51, 151}; bool srv_stopped = false;
  int tok_index(const TcpServer::ConnToken &t) { for (size_t k = 0; k < tok.size(); k++) if (tok[k] == t) return (int)k; return -1; }
  void pass() { loop->runNext([] {}); loop->runLoop(event::Loop::Mode::kOnce); }
};

static std::string run_hist(const std::string &eng, const std::string &sockdir, const std::vector<Op> &h, std::string &viol) {
  World w; w.loop = event::Loop::New(eng);
  std::string path = sockdir + "/c06_" + std::to_string(getpid()) + ".sock"; unlink(path.c_str());
  w.srv = new TcpServer(w.loop);
  if (!w.srv->initialize(SockAddr::FromString(path), 4)) { viol = "harness-server-initialize-failed"; return "x"; }
  World *pw = &w;
  w.srv->setConnectedCallback([pw](const TcpServer::ConnToken &t) { if (pw->tok_index(t) >= 0) pw->viol = "server-connected-callback-twice-for-one-token"; pw->tok.push_back(t); pw->s.emplace_back(); pw->s.back().connected_cb = 1; });
  w.srv->setDisconnectedCallback([pw](const TcpServer::ConnToken &t) { int k = pw->tok_index(t); if (k < 0) { pw->viol = "server-disconnected-callback-for-unknown-token"; return; }
    if (++pw->s[k].disconnected_cb > 1) pw->viol = "server-disconnected-callback-more-than-once";
    // accept order == start order on one loop: connection k belongs to the k-th started client
    int ci = -1; for (int i = 0; i < NC; i++) if (pw->c[i].conn == k) ci = i;
    if (ci >= 0 && pw->s[k].got != pw->c[ci].sent) pw->viol = "server-told-peer-closed-before-all-preceding-data-was-delivered"; });
  w.srv->setReceiveCallback([pw](const TcpServer::ConnToken &t, util::Buffer &b) { int k = pw->tok_index(t); if (k < 0) { pw->viol = "server-receive-callback-for-unknown-token"; return; }
    if (pw->s[k].disconnected_cb) pw->viol = "server-receive-callback-after-disconnected-callback";
    pw->s[k].got.append((const char *)b.readableBegin(), b.readableSize()); b.hasReadAll(); }, 0);
  if (!w.srv->start()) { viol = "harness-server-start-failed"; return "x"; }
  for (int i = 0; i < NC; i++) { w.cli[i] = new TcpClient(w.loop); w.cli[i]->initialize(SockAddr::FromString(path)); w.cli[i]->setAutoReconnect(false);
    w.cli[i]->setConnectedCallback([pw, i] { if (++pw->c[i].connected_cb > 1) pw->viol = "client-connected-callback-more-than-once"; });
    w.cli[i]->setDisconnectedCallback([pw, i] { if (++pw->c[i].disconnected_cb > 1) pw->viol = "client-disconnected-callback-more-than-once"; });
    w.cli[i]->setReceiveCallback([pw, i](util::Buffer &b) { if (pw->c[i].disconnected_cb) pw->viol = "client-receive-callback-after-disconnected-callback"; pw->c[i].got.append((const char *)b.readableBegin(), b.readableSize()); b.hasReadAll(); }, 0); }
  int nstarted = 0; auto conn_of_client = [&](int i) { return w.c[i].conn; };
  auto check_streams = [&]() {
    for (int i = 0; i < NC && w.viol.empty(); i++) { int k = conn_of_client(i);
      if (k >= 0 && k < (int)w.s.size()) {
        if (w.s[k].got.size() > w.c[i].sent.size() || w.c[i].sent.compare(0, w.s[k].got.size(), w.s[k].got) != 0) w.viol = "server-received-bytes-are-not-a-prefix-of-what-that-client-sent";
        else if (w.c[i].got.size() > w.s[k].sent.size() || w.s[k].sent.compare(0, w.c[i].got.size(), w.c[i].got) != 0) w.viol = "client-received-bytes-are-not-a-prefix-of-what-the-server-sent-to-it";
      } else if (!w.c[i].got.empty()) w.viol = "client-received-bytes-without-a-connection"; } };
  for (auto &o : h) { if (!w.viol.empty()) break;
    switch (o.k) {
      case START_CLIENT: if (!w.c[o.i].started && !w.srv_stopped) { w.c[o.i].started = true; w.c[o.i].conn = nstarted++; if (!w.cli[o.i]->start()) w.viol = "client-start-returned-false"; w.pass(); w.pass(); } break;   // connect + accept settle
      case CLIENT_SEND: if (w.c[o.i].started && !w.c[o.i].stopped && w.c[o.i].connected_cb && !w.c[o.i].disconnected_cb && w.c[o.i].sent.size() + o.n <= 8) { std::string d; for (int j = 0; j < o.n; j++) d.push_back((char)w.ctr[o.i]++);
          if (w.cli[o.i]->send(d.data(), d.size())) w.c[o.i].sent += d; } break;
      case SERVER_SEND: if (o.i < (int)w.tok.size() && !w.s[o.i].disconnected_cb && !w.s[o.i].stopped && !w.srv_stopped && w.s[o.i].sent.size() + o.n <= 8) { std::string d; for (int j = 0; j < o.n; j++) d.push_back((char)w.sctr[o.i]++);
          if (w.srv->send(w.tok[o.i], d.data(), d.size())) w.s[o.i].sent += d; } break;
      case CLIENT_STOP: if (w.c[o.i].started && !w.c[o.i].stopped) { w.c[o.i].stopped = true; w.cli[o.i]->stop(); } break;
      case SERVER_DISCONNECT: if (o.i < (int)w.tok.size() && !w.s[o.i].stopped && !w.s[o.i].disconnected_cb && !w.srv_stopped) { w.s[o.i].stopped = true; if (!w.srv->disconnect(w.tok[o.i])) w.viol = "server-disconnect-of-live-connection-returned-false"; if (w.srv->isClientValid(w.tok[o.i])) w.viol = "token-still-valid-after-server-disconnect"; } break;
      case SERVER_STOP: if (!w.srv_stopped) { w.srv_stopped = true; w.srv->stop(); for (auto &t : w.tok) if (w.srv->isClientValid(t)) w.viol = "token-still-valid-after-server-stop"; } break;
      case PASS: w.pass(); break; }
    check_streams();
  }
  std::string c; { char b[64]; for (int i = 0; i < NC; i++) { snprintf(b, sizeof b, "c%d:%d%d s%zu g%zu cc%d dc%d st%d|", i, (int)w.c[i].started, (int)w.c[i].stopped, w.c[i].sent.size(), w.c[i].got.size(), w.c[i].connected_cb, w.c[i].disconnected_cb, (int)w.cli[i]->state()); c += b; }
    for (size_t k = 0; k < w.s.size(); k++) { snprintf(b, sizeof b, "k%zu: s%zu g%zu dc%d st%d v%d|", k, w.s[k].sent.size(), w.s[k].got.size(), w.s[k].disconnected_cb, (int)w.s[k].stopped, (int)w.srv->isClientValid(w.tok[k])); c += b; } c += w.srv_stopped ? "S" : "-"; }
  // run to quiescence: everything sent over a connection that is still open on the sending side's view must arrive; a close must be reported once
  if (w.viol.empty()) { for (int i = 0; i < 8; i++) w.pass(); check_streams();
    for (int i = 0; i < NC && w.viol.empty(); i++) { int k = conn_of_client(i); if (k < 0 || k >= (int)w.s.size()) { if (w.c[i].started && !w.c[i].stopped && !w.srv_stopped && !w.c[i].connected_cb) w.viol = "client-never-connected"; continue; }
      bool srv_closed = w.s[k].stopped || w.srv_stopped;
      if (w.s[k].got != w.c[i].sent && !srv_closed) w.viol = "bytes-sent-by-client-never-reach-the-server (got " + std::to_string(w.s[k].got.size()) + " of " + std::to_string(w.c[i].sent.size()) + ")";
      else if (w.c[i].got != w.s[k].sent && !w.c[i].stopped) w.viol = "bytes-sent-by-server-never-reach-the-client (got " + std::to_string(w.c[i].got.size()) + " of " + std::to_string(w.s[k].sent.size()) + ")";
      else if (w.c[i].stopped && !srv_closed && w.s[k].disconnected_cb != 1) w.viol = "server-disconnected-callback-count-" + std::to_string(w.s[k].disconnected_cb) + "-after-client-stop";
      else if (srv_closed && !w.c[i].stopped && w.c[i].disconnected_cb != 1) w.viol = "client-disconnected-callback-count-" + std::to_string(w.c[i].disconnected_cb) + "-after-server-close"; } }
  viol = w.viol;
  for (int i = 0; i < NC; i++) delete w.cli[i];
  delete w.srv; w.pass(); delete w.loop; unlink(path.c_str());
  return c;
}

int main(int argc, char **argv) {
  signal(SIGPIPE, SIG_IGN); hx::install_crash_reporter("C06-tcp-crash");
  std::string eng = argc > 1 ? argv[1] : "epoll"; size_t depth = argc > 2 ? atoi(argv[2]) : 5; std::string dir = argc > 3 ? argv[3] : "/tmp";
  hx::Explorer<Op> ex; ex.name = "tcp-" + eng; ex.deadline_s = hx::deadline_from_env(600);
  if (argc > 5) { ex.part = atoi(argv[4]); ex.nparts = atoi(argv[5]); }
  ex.show = [](const Op &o) { char b[48]; if (o.k == CLIENT_SEND || o.k == SERVER_SEND) snprintf(b, 48, "%s(%d,%d)", kN[o.k], o.i, o.n); else if (o.k == PASS || o.k == SERVER_STOP) snprintf(b, 48, "%s", kN[o.k]); else snprintf(b, 48, "%s(%d)", kN[o.k], o.i); return std::string(b); };
  ex.menu = [&](const std::vector<Op> &) { std::vector<Op> m;
    for (int i = 0; i < NC; i++) { m.push_back({START_CLIENT, i, 0}); for (int n : {1, 3}) { m.push_back({CLIENT_SEND, i, n}); m.push_back({SERVER_SEND, i, n}); } m.push_back({CLIENT_STOP, i, 0}); m.push_back({SERVER_DISCONNECT, i, 0}); }
    m.push_back({PASS, 0, 0}); m.push_back({SERVER_STOP, 0, 0}); return m; };
  ex.sig = [](const std::string &v) { return v.substr(0, v.find(' ')); };
  ex.run = [&](const std::vector<Op> &h, std::string &viol) { return run_hist(eng, dir, h, viol); };
  ex.explore(depth);
  return 0;
}
