// C06: BufferedFd / TcpConnection byte-stream preservation on a real loop + socketpair (engine H).
// usage: harness hist <engine> <depth> <mode: bfd|tcp> <threshold> <policy> <max_deviations> <part> <nparts> [cb=N] [ev=N] [bind=N] [shrink=N] [kind=N]
//          cb : behaviour of the user callbacks (re-entrant calls): 0 record only, 1 the first two send-complete callbacks send 2 bytes,
//               2 the receive callback echoes (sends back) the bytes it consumed, 3 the first receive callback pauses the descriptor
//               (BufferedFd::disable(), resumed by a later enable) / disconnects the connection (TcpConnection::disconnect()),
//               4 the receive callback shrinks the receive buffer (and, at BufferedFd level, the send buffer) after its partial hasRead;
//                 the send-complete callback shrinks the send buffer
//          ev : events handed to BufferedFd::initialize(): 3 read+write (default), 1 kReadOnly, 2 kWriteOnly          (bfd mode only)
//          bind=1 : the menu also offers bind(receiver)/unbind(); the receiver is a ByteStream of the harness that records what is forwarded
//          shrink=1 : the menu also offers shrinkSendBuffer() / shrinkRecvBuffer() (tcp mode: getReceiveBuffer()->shrink())
//          kind : 0 socketpair, both ends non-blocking (default); 1 socketpair whose BufferedFd end is handed over BLOCKING (initialize() must
//                 switch it itself); 2 pipe(2), BufferedFd end blocking: read end with ev=1, write end with ev=2            (bfd mode only)
//        harness bulk <engine>        large sends against real kernel back-pressure
//        harness bulkrecv <engine>    large receives (callback / forwarding to a second real BufferedFd with a slow reader)
//
// Readings (DESIGN 1.7): the peer close is reported through the disconnected callback at TcpConnection level; at raw BufferedFd level the
// harness disables the descriptor in its read-zero callback, as every in-tree user does. Bytes below the receive threshold stay buffered and
// are not counted as lost. While a receiver is bound, received bytes go to the receiver instead of the callback (ByteStream::bind contract);
// "delivered" below means consumed by the callback or forwarded to the receiver - one ordered stream, decided by the reference model only.
#include "hist/hist.h"
#include "probe.h"
#include <tbox/event/loop.h>
#include <tbox/event/fd_event.h>
#include <tbox/network/buffered_fd.h>
#include <tbox/network/tcp_connection.h>
#include <tbox/network/sockaddr.h>
#include <sys/socket.h>
#include <sys/syscall.h>
#include <sys/uio.h>
#include <errno.h>
#include <fcntl.h>
using namespace tbox;

// ---- fd I/O deviation injector (legal kernel answers: short write, EAGAIN on write, short read, EAGAIN on read = spurious wake-up) ----
// Every read-type and write-type call is interposed for the descriptor under test, so a move from readv/write to read/recv/recvmsg/
// writev/send/sendmsg cannot silently switch the deviations off; armed/fired counters are reported and check.py insists that each kind fired.
static int inj_fd = -1; static int dev_write_clamp = -1; static bool dev_write_eagain = false; static int dev_readv_clamp = -1; static bool dev_read_eagain = false; static long long fd_written = 0;
enum { D_WCLAMP, D_WEAGAIN, D_RCLAMP, D_REAGAIN, ND }; static long dev_armed[ND], dev_fired[ND];
static bool w_gate(int fd, size_t &n) {            // false: the call must return -1/EAGAIN
  if (fd != inj_fd) return true;
  if (dev_write_eagain) { dev_write_eagain = false; dev_fired[D_WEAGAIN]++; errno = EAGAIN; return false; }
  if (dev_write_clamp >= 0 && (size_t)dev_write_clamp < n) { n = (size_t)dev_write_clamp; dev_write_clamp = -1; dev_fired[D_WCLAMP]++; }
  return true; }
static int r_gate(int fd, size_t &clamp) {          // 0 pass through, 1 return -1/EAGAIN, 2 read at most `clamp` bytes
  if (fd != inj_fd) return 0;
  if (dev_read_eagain) { dev_read_eagain = false; dev_fired[D_REAGAIN]++; errno = EAGAIN; return 1; }
  if (dev_readv_clamp >= 0) { clamp = (size_t)dev_readv_clamp; dev_readv_clamp = -1; dev_fired[D_RCLAMP]++; return 2; }
  return 0; }
static ssize_t wrote(int fd, ssize_t r) { if (fd == inj_fd && r > 0) fd_written += r; return r; }
static int clamp_iov(const struct iovec *iov, int cnt, size_t n, struct iovec *out) { int k = 0; for (int i = 0; i < cnt && k < 16 && n > 0; i++) { if (!iov[i].iov_len) continue; out[k] = iov[i]; if (out[k].iov_len > n) out[k].iov_len = n; n -= out[k].iov_len; k++; } return k; }
static size_t iov_total(const struct iovec *iov, int cnt) { size_t t = 0; for (int i = 0; i < cnt; i++) t += iov[i].iov_len; return t; }
extern "C" ssize_t write(int fd, const void *b, size_t n) { if (!w_gate(fd, n)) return -1; return wrote(fd, syscall(SYS_write, fd, b, n)); }
extern "C" ssize_t send(int fd, const void *b, size_t n, int fl) { if (!w_gate(fd, n)) return -1; return wrote(fd, syscall(SYS_sendto, fd, b, n, fl, nullptr, 0)); }
extern "C" ssize_t writev(int fd, const struct iovec *iov, int cnt) { size_t t = iov_total(iov, cnt), n = t; if (!w_gate(fd, n)) return -1;
  if (n < t) { struct iovec v[16]; int k = clamp_iov(iov, cnt, n, v); return wrote(fd, syscall(SYS_writev, fd, v, k)); } return wrote(fd, syscall(SYS_writev, fd, iov, cnt)); }
extern "C" ssize_t sendmsg(int fd, const struct msghdr *m, int fl) { size_t t = iov_total(m->msg_iov, (int)m->msg_iovlen), n = t; if (!w_gate(fd, n)) return -1;
  if (n < t) { struct iovec v[16]; struct msghdr c = *m; c.msg_iovlen = (size_t)clamp_iov(m->msg_iov, (int)m->msg_iovlen, n, v); c.msg_iov = v; return wrote(fd, syscall(SYS_sendmsg, fd, &c, fl)); } return wrote(fd, syscall(SYS_sendmsg, fd, m, fl)); }
extern "C" ssize_t readv(int fd, const struct iovec *iov, int cnt) { size_t c = 0; int g = r_gate(fd, c); if (g == 1) return -1;      // short read: only up to c bytes, into the first non-empty vector(s)
  if (g == 2) { struct iovec v[16]; int k = clamp_iov(iov, cnt, c, v); return syscall(SYS_readv, fd, v, k); } return syscall(SYS_readv, fd, iov, cnt); }
extern "C" ssize_t read(int fd, void *b, size_t n) { size_t c = 0; int g = r_gate(fd, c); if (g == 1) return -1; if (g == 2 && c < n) n = c; return syscall(SYS_read, fd, b, n); }
extern "C" ssize_t recv(int fd, void *b, size_t n, int fl) { size_t c = 0; int g = r_gate(fd, c); if (g == 1) return -1; if (g == 2 && c < n) n = c; return syscall(SYS_recvfrom, fd, b, n, fl, nullptr, nullptr); }
extern "C" ssize_t recvmsg(int fd, struct msghdr *m, int fl) { size_t c = 0; int g = r_gate(fd, c); if (g == 1) return -1;
  if (g == 2) { struct iovec v[16]; struct msghdr cm = *m; cm.msg_iovlen = (size_t)clamp_iov(m->msg_iov, (int)m->msg_iovlen, c, v); cm.msg_iov = v; return syscall(SYS_recvmsg, fd, &cm, fl); } return syscall(SYS_recvmsg, fd, m, fl); }

// ---- private members that only feed the canonical state key / the pruning of no-op operations: read through probes, so that renaming one of
// them makes the key coarser (and then the last operations are appended to it) instead of breaking the build. The oracle never reads them.
VF_PROBE(read_index_) VF_PROBE(buffer_size_) VF_PROBE(sp_write_event_) VF_PROBE(sp_buffered_fd_)
template <class T> static auto send_buffer_of(T &o, int) -> decltype(&o.send_buff_) { return &o.send_buff_; }
template <class T> static util::Buffer *send_buffer_of(T &, long) { vf_note_missing("send_buff_"); return nullptr; }

enum K { SEND, ENABLE, DISABLE, PEER_READ, PEER_WRITE, PEER_CLOSE, PEER_RESET, PASS, BIND, UNBIND, SHRINK_SEND, SHRINK_RECV, DEV_WCLAMP, DEV_WEAGAIN, DEV_RCLAMP, DEV_REAGAIN };
static const char *kN[] = {"send", "enable", "disable", "peer-read", "peer-write", "peer-close", "peer-close-fully(reset-if-unread-data)", "pass", "bind", "unbind", "shrink-send-buffer", "shrink-recv-buffer",
                           "DEV:next-write-1-byte", "DEV:next-write-EAGAIN", "DEV:next-read-1-byte", "DEV:next-read-EAGAIN"};
struct Op { int k, a; };
enum Policy { ALL, ONE, NONE_, ALL_BUT_ONE };
enum CbMode { CB_RECORD, CB_COMPLETE_SENDS, CB_ECHO, CB_STOP, CB_SHRINK };
struct Cfg { std::string eng; bool tcp = false; size_t thr = 0; int pol = 0, cb = 0, ev = 3, kind = 0; bool bindops = false, shrinkops = false; };

struct World;
struct Receiver : network::ByteStream {          // what a bound descriptor forwards to
  World *w = nullptr;
  void setReceiveCallback(const ReceiveCallback &, size_t) override {}
  void setSendCompleteCallback(const SendCompleteCallback &) override {}
  bool send(const void *p, size_t n) override;
  void bind(network::ByteStream *) override {}
  void unbind() override {}
  util::Buffer *getReceiveBuffer() override { return nullptr; }
};

struct World {
  event::Loop *loop; int sv[2]; network::BufferedFd *bfd = nullptr; network::TcpConnection *tcp = nullptr; bool tcp_mode; Receiver rcv;
  // reference model: sent = every byte handed to send() that was accepted; peer_wrote = every byte the peer wrote; consumed = bytes of peer_wrote
  // delivered so far (taken by the receive callback or forwarded to the bound receiver); presented_hi = bytes of peer_wrote shown at least once
  std::string sent, peer_got, peer_wrote; size_t consumed = 0, presented_hi = 0; bool peer_closed = false, running = false, bound = false; int zero_cb = 0, complete_cb = 0; std::string viol;
  uint8_t sctr = 1, pctr = 101; size_t threshold; int policy, cb; bool can_read = true, can_write = true; bool is_pipe = false;
  bool dead = false;          // connection object gone (peer close reported, or the user disconnected)
  bool peer_gone = false;     // the peer closed its descriptor completely: what it had not read is lost with it, later sends have nowhere to go
  int sc_sends = 0; bool stop_fired = false;
  // implementation objects, for the state key and for pruning no-op operations only (never for the oracle)
  network::BufferedFd *B() { return tcp_mode ? VF_GET(sp_buffered_fd_, *tcp, (network::BufferedFd *)nullptr) : bfd; }
  util::Buffer *recv_buffer() { return tcp_mode ? tcp->getReceiveBuffer() : bfd->getReceiveBuffer(); }                       // public accessor
  util::Buffer *send_buffer() { network::BufferedFd *x = B(); return x ? send_buffer_of(*x, 0) : nullptr; }
  static bool has_slack(util::Buffer *b) { return b && VF_GET(buffer_size_, *b, (size_t)-1) > b->readableSize(); }         // shrink() would change something
  size_t pw_at_bind = 0;      // peer_wrote.size() when the receiver was bound: only a byte written after that is certain to be read while bound
  // bytes that must have been shown by the time everything in the kernel has been read: unbound - the unconsumed bytes reach the threshold;
  // bound - a byte arrived after the bind (then everything undelivered is forwarded with it)
  bool unseen_due() const { return presented_hi < peer_wrote.size() && (bound ? peer_wrote.size() > pw_at_bind : peer_wrote.size() - consumed >= threshold); }
  void do_send(const std::string &d) {
    sent += d; bool ok = tcp_mode ? tcp->send(d.data(), d.size()) : bfd->send(d.data(), d.size());
    if (!ok) { sent.resize(sent.size() - d.size()); if (can_write) viol = "send-returned-false"; }     // refused bytes were never handed over
  }
  void on_recv(util::Buffer &b) {
    if (!tcp_mode && !running) { viol = "receive-callback-while-the-descriptor-is-disabled"; return; }
    if (tcp_mode && dead) { viol = "receive-callback-after-the-user-disconnected"; return; }
    if (bound) { viol = "receive-callback-while-a-receiver-is-bound"; return; }
    size_t n = b.readableSize(); if (n < threshold) { viol = "receive-callback-below-threshold"; return; }
    if (consumed + n > peer_wrote.size() || memcmp(b.readableBegin(), peer_wrote.data() + consumed, n) != 0) { viol = "receive-callback-content-not-the-unconsumed-bytes-in-order"; return; }
    if (consumed + n > presented_hi) presented_hi = consumed + n;
    size_t take = policy == ALL ? n : policy == ONE ? 1 : policy == NONE_ ? 0 : n - 1; if (take > n) take = n;
    std::string taken((const char *)b.readableBegin(), take);
    b.hasRead(take); consumed += take;
    if (cb == CB_ECHO && take > 0 && !dead && !peer_gone) do_send(taken);              // re-entrant send() from the receive callback
    if (cb == CB_STOP && !stop_fired) { stop_fired = true;                            // re-entrant pause / disconnect from the receive callback
      if (tcp_mode) { tcp->disconnect(); dead = true; } else { bfd->disable(); running = false; } }
    if (cb == CB_SHRINK) { if (tcp_mode) b.shrink(); else { bfd->shrinkRecvBuffer(); bfd->shrinkSendBuffer(); } }      // give memory back with residue left / a tail queued
  }
  void on_forward(const void *p, size_t n) {
    if (!bound) { viol = "bytes-forwarded-to-a-receiver-that-is-not-bound"; return; }
    if (consumed + n > peer_wrote.size() || memcmp(p, peer_wrote.data() + consumed, n) != 0) { viol = "forwarded-bytes-are-not-the-undelivered-bytes-in-order"; return; }
    consumed += n; if (consumed > presented_hi) presented_hi = consumed;
  }
  void on_zero() { zero_cb++; if (zero_cb > 1) viol = "peer-close-reported-more-than-once";
    if (viol.empty() && !tcp_mode && !running) viol = "peer-close-reported-while-the-descriptor-is-disabled";         // a disabled descriptor does no I/O: a report now was decided before the user's disable() and not re-checked after it (wave 7)
    if (viol.empty() && !peer_closed) viol = "peer-close-reported-although-the-peer-did-not-close";
    if (viol.empty() && unseen_due()) viol = "peer-close-reported-before-all-preceding-data-was-presented";          // by the model
    if (!tcp_mode) { util::Buffer *rb = recv_buffer();       // diagnostic cross-check through the public accessor; the model clause above decides
      if (viol.empty() && rb && consumed + rb->readableSize() != peer_wrote.size()) viol = "peer-close-reported-before-all-preceding-data-was-read"; bfd->disable(); running = false; } }
  void on_disconnected() { zero_cb++; if (zero_cb > 1) viol = "disconnect-reported-more-than-once";
    if (viol.empty() && dead) viol = "disconnect-reported-after-the-user-disconnected";
    if (viol.empty() && unseen_due()) viol = "disconnect-reported-before-all-preceding-data-was-presented";
    if (viol.empty() && !peer_closed) viol = "disconnect-reported-although-the-peer-did-not-close";
    dead = true; }
  void on_complete() { complete_cb++; if (dead) return;
    if (!peer_gone && (size_t)fd_written != sent.size()) viol = "send-complete-before-everything-was-written";       // fd_written: bytes the kernel really accepted (interposed)
    if (viol.empty() && cb == CB_COMPLETE_SENDS && sc_sends < 2 && !peer_gone) { sc_sends++; std::string d; for (int i = 0; i < 2; i++) d.push_back((char)sctr++); do_send(d); }   // re-entrant send() from send-complete
    if (viol.empty() && cb == CB_SHRINK && !tcp_mode) bfd->shrinkSendBuffer(); }
  void pass() { loop->runNext([] {}); loop->runLoop(event::Loop::Mode::kOnce); }
  void peer_read(size_t k) { char buf[4096]; if (k > sizeof buf) k = sizeof buf; if (peer_gone) return;
    ssize_t n = is_pipe ? syscall(SYS_read, sv[1], buf, k) : syscall(SYS_recvfrom, sv[1], buf, k, MSG_DONTWAIT, nullptr, nullptr); if (n > 0) { peer_got.append(buf, (size_t)n);
      if (peer_got.size() > sent.size() || memcmp(peer_got.data(), sent.data(), peer_got.size()) != 0) viol = "peer-received-bytes-are-not-a-prefix-of-the-sent-stream"; } }
  bool peer_write(int n) { std::string d; for (int i = 0; i < n; i++) d.push_back((char)pctr++); ssize_t r = syscall(SYS_write, sv[1], d.data(), d.size()); if (r == (ssize_t)d.size()) { peer_wrote += d; return true; } pctr -= (uint8_t)n; return false; }
  // which operations do something in the current model state (the menu offers only these; the others would leave every state component unchanged)
  bool enabled(const Op &o) {
    switch (o.k) {
      case SEND: return !dead && !peer_gone && sent.size() + o.a <= 14;
      case ENABLE: return !tcp_mode && zero_cb == 0 && !running;      // no in-tree user re-enables a descriptor after its peer closed
      case DISABLE: return tcp_mode ? !dead : running;
      case PEER_READ: return !peer_gone && (size_t)fd_written > peer_got.size();    // something is waiting in the kernel for the peer
      case PEER_WRITE: return !peer_closed && (!is_pipe || can_read) && peer_wrote.size() + o.a <= 9;          // (the peer of a pipe end has only one direction)
      case PEER_CLOSE: return !peer_closed && (!is_pipe || can_read);
      case PEER_RESET: return !peer_closed && !is_pipe;
      case PASS: return true;
      case BIND: return !dead && !bound;
      case UNBIND: return !dead && bound;
      case SHRINK_SEND: return !tcp_mode && has_slack(send_buffer());
      case SHRINK_RECV: return !dead && has_slack(recv_buffer());
      case DEV_WCLAMP: return dev_write_clamp != 1;
      case DEV_WEAGAIN: return !dev_write_eagain;
      case DEV_RCLAMP: return dev_readv_clamp != 1;
      case DEV_REAGAIN: return !dev_read_eagain; }
    return false; }
  void install_receive_cb() { World *pw = this; auto f = [pw](util::Buffer &b) { pw->on_recv(b); }; if (tcp_mode) tcp->setReceiveCallback(f, threshold); else bfd->setReceiveCallback(f, threshold); }
};
bool Receiver::send(const void *p, size_t n) { w->on_forward(p, n); return true; }

static std::vector<Op> all_ops(const Cfg &cfg) { std::vector<Op> m;
  for (int n : {1, 2, 5}) m.push_back({SEND, n}); if (!cfg.tcp) m.push_back({ENABLE, 0}); m.push_back({DISABLE, 0});      // tcp mode: "disable" = TcpConnection::disconnect()
  m.push_back({PEER_READ, 1}); m.push_back({PEER_READ, 64}); m.push_back({PEER_WRITE, 1}); m.push_back({PEER_WRITE, 3}); m.push_back({PEER_CLOSE, 0}); m.push_back({PEER_RESET, 0}); m.push_back({PASS, 0});
  if (cfg.bindops) { m.push_back({BIND, 0}); m.push_back({UNBIND, 0}); }
  if (cfg.shrinkops) { m.push_back({SHRINK_SEND, 0}); m.push_back({SHRINK_RECV, 0}); }
  m.push_back({DEV_WCLAMP, 0}); m.push_back({DEV_WEAGAIN, 0}); m.push_back({DEV_RCLAMP, 0}); m.push_back({DEV_REAGAIN, 0}); return m; }
static std::vector<Op> g_ops;
static std::map<std::string, uint32_t> g_enabled;       // history -> bitmask over g_ops of the operations enabled in the state it reaches
static std::string hkey(const std::vector<Op> &h) { std::string s; for (auto &o : h) { s.push_back((char)('A' + o.k)); s.push_back((char)('0' + o.a)); } return s; }

static void on_alarm(int) { hx::emit_crash("blocked-in-one-history-for-60s(descriptor-left-blocking?)"); _exit(1); }

static std::string run_hist(const Cfg &cfg, const std::vector<Op> &h, std::string &viol) {
  const bool tcp_mode = cfg.tcp; alarm(60);
  World w; w.tcp_mode = tcp_mode; w.threshold = cfg.thr; w.policy = cfg.pol; w.cb = cfg.cb; w.loop = event::Loop::New(cfg.eng); w.rcv.w = &w;
  w.can_read = tcp_mode || (cfg.ev & network::BufferedFd::kReadOnly); w.can_write = tcp_mode || (cfg.ev & network::BufferedFd::kWriteOnly);
  // sv[0]: the descriptor under test, sv[1]: the raw peer held by the harness (always non-blocking)
  if (cfg.kind == 2 && !tcp_mode) { int p[2]; if (pipe(p)) { viol = "harness-pipe-failed"; return "x"; } w.is_pipe = true; if (w.can_write) { w.sv[0] = p[1]; w.sv[1] = p[0]; } else { w.sv[0] = p[0]; w.sv[1] = p[1]; } }
  else socketpair(AF_UNIX, SOCK_STREAM | (cfg.kind == 0 ? SOCK_NONBLOCK : 0), 0, w.sv);
  fcntl(w.sv[1], F_SETFL, fcntl(w.sv[1], F_GETFL) | O_NONBLOCK);
  inj_fd = w.sv[0]; fd_written = 0; dev_write_clamp = -1; dev_write_eagain = false; dev_readv_clamp = -1; dev_read_eagain = false;
  bool peer_fd_open = true; World *pw = &w;
  if (tcp_mode) { w.tcp = new network::TcpConnection(w.loop, network::SocketFd(w.sv[0]), network::SockAddr()); w.running = true;
    w.install_receive_cb(); w.tcp->setSendCompleteCallback([pw] { pw->on_complete(); }); w.tcp->setDisconnectedCallback([pw] { pw->on_disconnected(); }); }
  else { w.bfd = new network::BufferedFd(w.loop); if (!w.bfd->initialize(util::Fd(w.sv[0]), (short)cfg.ev)) { viol = "harness-initialize-failed"; alarm(0); return "x"; }
    w.install_receive_cb(); w.bfd->setSendCompleteCallback([pw] { pw->on_complete(); }); w.bfd->setReadZeroCallback([pw] { pw->on_zero(); }); }
  for (auto &o : h) { if (!w.viol.empty()) break;
    if (!w.enabled(o)) continue;                          // (only reachable when a history is replayed by hand)
    switch (o.k) {
      case SEND: { std::string d; for (int i = 0; i < o.a; i++) d.push_back((char)w.sctr++); w.do_send(d); } break;
      case ENABLE: w.bfd->enable(); w.running = true; break;
      case DISABLE: if (!tcp_mode) { w.bfd->disable(); w.running = false; }
                    else { if (!w.tcp->disconnect()) w.viol = "disconnect-of-live-connection-returned-false"; w.dead = true; } break;   // user-side disconnect: nothing is demanded of queued bytes afterwards
      case PEER_READ: w.peer_read((size_t)o.a); break;
      case PEER_WRITE: w.peer_write(o.a); break;
      case PEER_CLOSE: if (w.is_pipe) { close(w.sv[1]); peer_fd_open = false; w.peer_gone = true; }
                       else { /* drain what the peer can still read first so close does not turn into a reset */ w.peer_read(4096); shutdown(w.sv[1], SHUT_WR); } w.peer_closed = true; break;
      case PEER_RESET: close(w.sv[1]); peer_fd_open = false; w.peer_closed = true; w.peer_gone = true; break;      // with unread data at the peer the descriptor under test sees ECONNRESET, else a plain end of stream
      case PASS: w.pass(); break;
      case BIND: if (tcp_mode) w.tcp->bind(&w.rcv); else w.bfd->bind(&w.rcv); w.bound = true; w.pw_at_bind = w.peer_wrote.size(); break;
      case UNBIND: if (tcp_mode) w.tcp->unbind(); else w.bfd->unbind(); w.bound = false; break;
      case SHRINK_SEND: w.bfd->shrinkSendBuffer(); break;
      case SHRINK_RECV: if (tcp_mode) { if (util::Buffer *b = w.tcp->getReceiveBuffer()) b->shrink(); } else w.bfd->shrinkRecvBuffer(); break;
      case DEV_WCLAMP: dev_write_clamp = 1; dev_armed[D_WCLAMP]++; break;
      case DEV_WEAGAIN: dev_write_eagain = true; dev_armed[D_WEAGAIN]++; break;
      case DEV_RCLAMP: dev_readv_clamp = 1; dev_armed[D_RCLAMP]++; break;
      case DEV_REAGAIN: dev_read_eagain = true; dev_armed[D_REAGAIN]++; break; }
  }
  // canonical state (before the closing run-to-quiescence): both buffers with their geometry (read index / capacity select the
  // fits / memmove / grow branch of the next append and the iovec split of the next read), event and life-cycle state, model counters.
  // Implementation fields come through probes / public accessors; if one is missing the last operations are appended instead.
  std::string c; { char b[360]; network::BufferedFd *x = w.B(); util::Buffer *sb = w.send_buffer(), *rb = w.dead ? nullptr : w.recv_buffer();
    event::FdEvent *wev = x ? VF_GET(sp_write_event_, *x, (event::FdEvent *)nullptr) : nullptr;
    snprintf(b, sizeof b, "s%zu@%zu/%zu r%zu@%zu/%zu+%zu w%d st%d|sent%zu got%zu fdw%lld|pw%zu cons%zu ph%d|pc%d%d z%d run%d dead%d bd%d%d|dv%d%d%d%d|cc%d sc%d sf%d",
             sb ? sb->readableSize() : 0, sb ? VF_GET(read_index_, *sb, (size_t)0) : 0, sb ? VF_GET(buffer_size_, *sb, (size_t)0) : 0,
             rb ? rb->readableSize() : 0, rb ? VF_GET(read_index_, *rb, (size_t)0) : 0, rb ? VF_GET(buffer_size_, *rb, (size_t)0) : 0, rb ? rb->writableSize() : 0,
             wev ? (int)wev->isEnabled() : 0, x ? (int)x->state() : 9, w.sent.size(), w.peer_got.size(), fd_written, w.peer_wrote.size(), w.consumed, (int)(w.presented_hi == w.peer_wrote.size()),
             (int)w.peer_closed, (int)w.peer_gone, w.zero_cb, (int)w.running, (int)w.dead, (int)w.bound, (int)(w.bound && w.peer_wrote.size() > w.pw_at_bind), dev_write_clamp, (int)dev_write_eagain, dev_readv_clamp, (int)dev_read_eagain, w.complete_cb > 0, w.sc_sends, (int)w.stop_fired); c = b;
    if (vf_any_missing()) { c += "|last:"; for (size_t i = h.size() > 3 ? h.size() - 3 : 0; i < h.size(); i++) { c += kN[h[i].k]; c += (char)('0' + h[i].a); c += ','; } } }
  { uint32_t mask = 0; for (size_t q = 0; q < g_ops.size(); q++) if (w.enabled(g_ops[q])) mask |= 1u << q; g_enabled[hkey(h)] = mask; }
  // ---- liveness part of the oracle: let the loop run to quiescence with the peer draining; then everything must have arrived
  if (w.viol.empty() && w.running && !w.dead) {
    int idle = 0; size_t last = (size_t)-1;
    for (int i = 0; i < 60 && idle < 3 && w.viol.empty(); i++) { w.pass(); w.peer_read(4096); size_t prog = w.peer_got.size() * 1000 + w.presented_hi * 13 + w.consumed * 7 + (size_t)w.zero_cb * 100000 + w.sent.size() * 31; if (prog == last) idle++; else idle = 0; last = prog; if (w.dead || !w.running) break; }
    if (w.viol.empty() && w.peer_got != w.sent && !w.dead && w.running && !w.peer_gone) w.viol = "sent-bytes-never-reach-the-peer (got " + std::to_string(w.peer_got.size()) + " of " + std::to_string(w.sent.size()) + ")";
    if (w.can_read && !w.dead && w.running) {
      // by the model alone: everything the peer wrote has been shown (callback) or forwarded (receiver) unless it is still below the threshold
      if (w.viol.empty() && w.unseen_due()) w.viol = "received-bytes-never-presented (shown " + std::to_string(w.presented_hi) + " of " + std::to_string(w.peer_wrote.size()) + ")";
      util::Buffer *rb = w.recv_buffer();      // diagnostic cross-check through the public accessor (the model clauses before and after it decide)
      if (w.viol.empty() && rb && w.consumed + rb->readableSize() != w.peer_wrote.size()) w.viol = "received-bytes-lost-or-duplicated";
      // flush: the callback is replaced on the live object by one with threshold 0 that takes everything, and the peer writes one more byte:
      // every byte left unconsumed so far must come again, in order, together with the new one (callback) / be forwarded (bound receiver)
      if (w.viol.empty() && !w.peer_closed && w.zero_cb == 0) {
        w.threshold = 0; w.policy = ALL; w.cb = CB_RECORD; w.install_receive_cb();
        if (w.peer_write(1)) { for (int i = 0; i < 3 && w.viol.empty(); i++) w.pass();
          if (w.viol.empty() && w.consumed != w.peer_wrote.size()) w.viol = "unconsumed-bytes-not-delivered-again-with-later-data (delivered " + std::to_string(w.consumed) + " of " + std::to_string(w.peer_wrote.size()) + ")"; }
      }
    }
    const bool user_stopped = w.zero_cb == 0 && (w.dead || !w.running);      // the user's own callback paused / disconnected during the closing run: nothing more is due
    if (w.viol.empty() && w.can_read && w.peer_closed && w.zero_cb != 1 && !user_stopped) w.viol = "peer-close-reported-" + std::to_string(w.zero_cb) + "-times";
  }
  if (w.viol.empty() && !w.can_read && (w.consumed || w.presented_hi || w.zero_cb)) w.viol = "write-only-descriptor-delivered-received-data";
  viol = w.viol; inj_fd = -1;
  if (tcp_mode) delete w.tcp; else delete w.bfd;
  w.pass(); delete w.loop; if (peer_fd_open) close(w.sv[1]);       // sv[0] is owned (and closed) by the object under test
  alarm(0);
  return c;
}

static void pass(event::Loop *loop) { loop->runNext([] {}); loop->runLoop(event::Loop::Mode::kOnce); }

static void make_pair(bool pipe_kind, bool under_test_writes, int sv[2]) {      // sv[0] under test (left blocking for pipes: initialize() must switch it), sv[1] raw peer (non-blocking)
  if (pipe_kind) { int p[2]; if (pipe(p)) abort(); if (under_test_writes) { sv[0] = p[1]; sv[1] = p[0]; } else { sv[0] = p[0]; sv[1] = p[1]; } fcntl(sv[1], F_SETFL, fcntl(sv[1], F_GETFL) | O_NONBLOCK); }
  else socketpair(AF_UNIX, SOCK_STREAM | SOCK_NONBLOCK, 0, sv); }

static int bulk(const std::string &eng) {       // engine I lane: real kernel back-pressure, large sends; over a socketpair and over a pipe
  size_t cases = 0;
  for (int pipe_kind = 0; pipe_kind < 2; pipe_kind++) for (size_t total : {65536ul, 262144ul, 1048576ul, 2097152ul}) for (size_t chunk : {total, total / 7 + 1}) for (size_t step : {4096ul, 65536ul}) for (int pre_enable = 0; pre_enable < 2; pre_enable++) {
    alarm(300);
    event::Loop *loop = event::Loop::New(eng); int sv[2]; make_pair(pipe_kind, true, sv); int sz = 4096; if (pipe_kind) fcntl(sv[0], F_SETPIPE_SZ, sz); else setsockopt(sv[0], SOL_SOCKET, SO_SNDBUF, &sz, sizeof sz);
    inj_fd = sv[0]; fd_written = 0; auto *bfd = new network::BufferedFd(loop); bfd->initialize(util::Fd(sv[0]), pipe_kind ? network::BufferedFd::kWriteOnly : network::BufferedFd::kReadWrite); int complete = 0; bool early = false; size_t sent = 0;
    bfd->setSendCompleteCallback([&] { complete++; if ((size_t)fd_written != sent) early = true; });
    if (pre_enable) bfd->enable();
    std::string data(total, 0); for (size_t i = 0; i < total; i++) data[i] = (char)((i * 131 + (i >> 8)) & 0xff);
    for (size_t off = 0; off < total; off += chunk) { size_t n = std::min(chunk, total - off); bfd->send(data.data() + off, n); sent += n; }
    if (!pre_enable) bfd->enable();
    std::string got; std::vector<char> buf(step); int idle = 0;
    for (int i = 0; i < 100000 && got.size() < total && idle < 50; i++) { pass(loop); ssize_t n = syscall(SYS_read, sv[1], buf.data(), step); if (n > 0) { got.append(buf.data(), (size_t)n); idle = 0; } else idle++; }
    for (int i = 0; i < 3; i++) pass(loop);
    cases++; char desc[160]; snprintf(desc, sizeof desc, "bulk %s %s total=%zu chunk=%zu peer-step=%zu enable-%s", eng.c_str(), pipe_kind ? "pipe" : "socketpair", total, chunk, step, pre_enable ? "before-send" : "after-send");
    if (got != data) printf("@VIOL sig=bulk-stream-not-preserved(got_%zu_of_%zu) :: %s\n", got.size(), total, desc);
    else if (early) printf("@VIOL sig=bulk-send-complete-before-everything-written :: %s\n", desc);
    else if (complete < 1) printf("@VIOL sig=bulk-send-complete-never-reported :: %s\n", desc);
    if (cases <= 2 || (pipe_kind && cases <= 34)) printf("@SAMPLE %s => received %zu bytes, send-complete x%d\n", desc, got.size(), complete);
    inj_fd = -1; delete bfd; pass(loop); delete loop; close(sv[1]); alarm(0);
  }
  printf("@STAT states=%zu transitions=%zu executions=%zu\n", cases, cases, cases); return 0;
}

// engine I lane, receive direction with real sizes: the peer writes `total` bytes in steps (as much as the kernel takes each round); the
// descriptor either presents them to a callback (threshold x consumption policy) or forwards them (bind) to a SECOND real BufferedFd whose
// own peer reads slowly through a minimum-size kernel buffer. Covers a full 1024-byte overflow area, several reads per callback and growth
// of the receive buffer while it holds unconsumed data. Oracle: the same reference stream as the history lane.
static int bulk_recv(const std::string &eng) {
  size_t cases = 0; double t_end = hx::deadline_from_env(600); bool capped = false;
  for (size_t total : {1024ul, 1025ul, 3000ul, 65536ul, 1048576ul}) for (size_t thr : {0ul, 1500ul}) for (int pre_enable = 0; pre_enable < 2; pre_enable++) for (int variant = 0; variant < 4; variant++) for (int big_step = 0; big_step < 2; big_step++) for (int pipe_kind = 0; pipe_kind < 2; pipe_kind++) {
    if (hx::now_s() > t_end) { capped = true; continue; }
    alarm(300);
    const bool fwd = variant == 3; const int pol = variant == 0 ? ALL : variant == 1 ? ALL_BUT_ONE : NONE_;
    const size_t step = big_step ? 65536 : total / 13 + 1;
    event::Loop *loop = event::Loop::New(eng); int sv[2], sv2[2] = {-1, -1}; make_pair(pipe_kind, false, sv);
    std::string data(total, 0); for (size_t i = 0; i < total; i++) data[i] = (char)((i * 167 + (i >> 7) + 3) & 0xff);
    auto *bfd = new network::BufferedFd(loop); bfd->initialize(util::Fd(sv[0]), (fwd || pipe_kind) ? network::BufferedFd::kReadOnly : network::BufferedFd::kReadWrite);
    network::BufferedFd *out = nullptr; std::string viol; size_t consumed = 0, presented_hi = 0, wrote = 0; int zero = 0, callbacks = 0;
    bfd->setReceiveCallback([&](util::Buffer &b) { callbacks++; size_t n = b.readableSize();
      if (fwd) { viol = "bulk-receive-callback-while-a-receiver-is-bound"; return; }
      if (n < thr) { viol = "bulk-receive-callback-below-threshold"; return; }
      if (consumed + n > wrote || memcmp(b.readableBegin(), data.data() + consumed, n) != 0) { viol = "bulk-receive-callback-content-not-the-unconsumed-bytes-in-order"; return; }
      presented_hi = std::max(presented_hi, consumed + n);
      size_t take = pol == ALL ? n : pol == NONE_ ? 0 : n - 1; b.hasRead(take); consumed += take; }, thr);
    bfd->setReadZeroCallback([&] { zero++; if (presented_hi < wrote && wrote - consumed >= thr && !fwd) viol = "bulk-peer-close-reported-before-all-preceding-data-was-presented"; bfd->disable(); });
    if (fwd) { socketpair(AF_UNIX, SOCK_STREAM | SOCK_NONBLOCK, 0, sv2); int sz = 4096; setsockopt(sv2[0], SOL_SOCKET, SO_SNDBUF, &sz, sizeof sz);
      out = new network::BufferedFd(loop); out->initialize(util::Fd(sv2[0]), network::BufferedFd::kWriteOnly); out->enable(); bfd->bind(out); }
    if (pre_enable) bfd->enable();
    std::string got2; std::vector<char> buf(8192); bool enabled = pre_enable; int idle = 0; size_t last_seen = (size_t)-1;
    for (int i = 0; i < 200000 && viol.empty() && idle < 50; i++) {
      bool progress = false;
      if (wrote < total) { ssize_t r = syscall(SYS_write, sv[1], data.data() + wrote, std::min(step, total - wrote)); if (r > 0) { wrote += (size_t)r; progress = true; } }
      if (!enabled && (wrote >= total || i >= 2)) { bfd->enable(); enabled = true; progress = true; }      // late enable: data is already waiting in the kernel
      pass(loop);
      if (fwd) { ssize_t n = syscall(SYS_read, sv2[1], buf.data(), buf.size()); if (n > 0) { got2.append(buf.data(), (size_t)n); progress = true;
          if (got2.size() > wrote || memcmp(got2.data() + got2.size() - n, data.data() + got2.size() - n, (size_t)n) != 0) viol = "bulk-forwarded-bytes-are-not-a-prefix-of-the-received-stream"; } }
      size_t seen = fwd ? got2.size() : presented_hi; if (seen != last_seen) progress = true; last_seen = seen;
      idle = progress ? 0 : idle + 1;
      if (wrote >= total && (fwd ? got2.size() >= total : (presented_hi >= total || total - consumed < thr)) && idle >= 2) break;
    }
    if (viol.empty()) { if (fwd) { if (got2 != data) viol = "bulk-forwarded-stream-not-preserved(got_" + std::to_string(got2.size()) + "_of_" + std::to_string(total) + ")"; }
      else if (presented_hi < total && total - consumed >= thr) viol = "bulk-received-bytes-never-presented(shown_" + std::to_string(presented_hi) + "_of_" + std::to_string(total) + ")"; }
    bool peer_open = true;
    if (viol.empty()) { if (pipe_kind) { close(sv[1]); peer_open = false; } else shutdown(sv[1], SHUT_WR); for (int i = 0; i < 4; i++) pass(loop); if (zero != 1) viol = "bulk-peer-close-reported-" + std::to_string(zero) + "-times"; }
    cases++; char desc[224]; snprintf(desc, sizeof desc, "bulkrecv %s %s total=%zu peer-step=%zu threshold=%zu %s enable-%s", eng.c_str(), pipe_kind ? "pipe" : "socketpair", total, step, thr,
                                     fwd ? "bound-to-second-BufferedFd(SO_SNDBUF=4096,slow-reader)" : pol == ALL ? "callback-takes-all" : pol == NONE_ ? "callback-takes-nothing" : "callback-takes-all-but-1", pre_enable ? "before-data" : "after-data");
    if (!viol.empty()) printf("@VIOL sig=%s :: %s\n", viol.c_str(), desc);
    if (cases <= 2 || (fwd && cases < 12)) printf("@SAMPLE %s => %d callbacks, delivered %zu, forwarded %zu, peer-close x%d\n", desc, callbacks, consumed, got2.size(), zero);
    if (fwd) bfd->unbind();
    delete bfd; delete out; pass(loop); delete loop; if (peer_open) close(sv[1]); if (sv2[1] >= 0) close(sv2[1]); alarm(0);
  }
  if (capped) printf("@CAP bulkrecv %s: deadline reached after %zu cases\n", eng.c_str(), cases);
  printf("@STAT states=%zu transitions=%zu executions=%zu\n", cases, cases, cases); return 0;
}

int main(int argc, char **argv) {
  signal(SIGPIPE, SIG_IGN); hx::install_crash_reporter("C06-crash"); signal(SIGALRM, on_alarm);
  std::string what = argc > 1 ? argv[1] : "hist"; Cfg cfg; cfg.eng = argc > 2 ? argv[2] : "epoll";
  if (what == "bulk") return bulk(cfg.eng);
  if (what == "bulkrecv") return bulk_recv(cfg.eng);
  size_t depth = argc > 3 ? atoi(argv[3]) : 5; cfg.tcp = argc > 4 && !strcmp(argv[4], "tcp"); cfg.thr = argc > 5 ? atoi(argv[5]) : 0; cfg.pol = argc > 6 ? atoi(argv[6]) : 0; int maxdev = argc > 7 ? atoi(argv[7]) : 1;
  hx::Explorer<Op> ex;
  if (argc > 9) { ex.part = atoi(argv[8]); ex.nparts = atoi(argv[9]); }
  for (int i = 10; i < argc; i++) { if (!strncmp(argv[i], "cb=", 3)) cfg.cb = atoi(argv[i] + 3); else if (!strncmp(argv[i], "ev=", 3)) cfg.ev = atoi(argv[i] + 3); else if (!strncmp(argv[i], "bind=", 5)) cfg.bindops = atoi(argv[i] + 5) != 0;
    else if (!strncmp(argv[i], "shrink=", 7)) cfg.shrinkops = atoi(argv[i] + 7) != 0; else if (!strncmp(argv[i], "kind=", 5)) cfg.kind = atoi(argv[i] + 5); }
  const bool tcp = cfg.tcp;
  char nm[128]; snprintf(nm, sizeof nm, "%s-%s-thr%zu-pol%d-cb%d-ev%d-bind%d-shrink%d-kind%d", cfg.eng.c_str(), tcp ? "tcp" : "bfd", cfg.thr, cfg.pol, cfg.cb, cfg.ev, (int)cfg.bindops, (int)cfg.shrinkops, cfg.kind); ex.name = nm; ex.deadline_s = hx::deadline_from_env(600);
  ex.show = [](const Op &o) { char b[48]; if (o.k == SEND || o.k == PEER_READ || o.k == PEER_WRITE) snprintf(b, 48, "%s(%d)", kN[o.k], o.a); else snprintf(b, 48, "%s", kN[o.k]); return std::string(b); };
  g_ops = all_ops(cfg);
  ex.menu = [&](const std::vector<Op> &h) { std::vector<Op> m; int dev = 0; for (auto &o : h) if (o.k >= DEV_WCLAMP) dev++;
    auto it = g_enabled.find(hkey(h)); uint32_t mask = it == g_enabled.end() ? 0xffffffffu : it->second;
    for (size_t q = 0; q < g_ops.size(); q++) if ((mask & (1u << q)) && (g_ops[q].k < DEV_WCLAMP || dev < maxdev)) m.push_back(g_ops[q]);
    return m; };
  ex.sig = [](const std::string &v) { return v.substr(0, v.find(' ')); };
  ex.run = [&](const std::vector<Op> &h, std::string &viol) { return run_hist(cfg, h, viol); };
  ex.explore(depth);
  printf("@STAT dev_armed_wclamp=%ld dev_fired_wclamp=%ld dev_armed_weagain=%ld dev_fired_weagain=%ld dev_armed_rclamp=%ld dev_fired_rclamp=%ld dev_armed_reagain=%ld dev_fired_reagain=%ld\n",
         dev_armed[D_WCLAMP], dev_fired[D_WCLAMP], dev_armed[D_WEAGAIN], dev_fired[D_WEAGAIN], dev_armed[D_RCLAMP], dev_fired[D_RCLAMP], dev_armed[D_REAGAIN], dev_fired[D_REAGAIN]);
  return 0;
}
