// C06: BufferedFd / TcpConnection byte-stream preservation on a real loop + socketpair (engine H).
// usage: harness hist <engine> <depth> <mode: bfd|tcp> <threshold> <policy> <max_deviations> [part nparts]
//        harness bulk <engine>
#include "hist/hist.h"
#include <tbox/event/loop.h>
#include <tbox/event/fd_event.h>
#include <tbox/network/buffered_fd.h>
#include <tbox/network/tcp_connection.h>
#include <tbox/network/sockaddr.h>
#include <sys/socket.h>
#include <sys/syscall.h>
#include <sys/uio.h>
#include <errno.h>
using namespace tbox;

// ---- fd I/O deviation injector (legal kernel answers: short write, EAGAIN, short read) ----
static int inj_fd = -1; static int dev_write_clamp = -1; static bool dev_write_eagain = false; static int dev_readv_clamp = -1; static long long fd_written = 0;
extern "C" ssize_t write(int fd, const void *b, size_t n) {
  if (fd == inj_fd) { if (dev_write_eagain) { dev_write_eagain = false; errno = EAGAIN; return -1; }
    if (dev_write_clamp >= 0 && (size_t)dev_write_clamp < n) { n = (size_t)dev_write_clamp; dev_write_clamp = -1; } }
  ssize_t r = syscall(SYS_write, fd, b, n); if (fd == inj_fd && r > 0) fd_written += r; return r;
}
extern "C" ssize_t readv(int fd, const struct iovec *iov, int cnt) {
  if (fd == inj_fd && dev_readv_clamp >= 0 && cnt > 0) {       // short read: only up to k bytes into the first non-empty vector
    for (int i = 0; i < cnt; i++) if (iov[i].iov_len > 0) { struct iovec v = iov[i]; if (v.iov_len > (size_t)dev_readv_clamp) v.iov_len = (size_t)dev_readv_clamp; dev_readv_clamp = -1; return syscall(SYS_readv, fd, &v, 1); } }
  return syscall(SYS_readv, fd, iov, cnt);
}

enum K { SEND, ENABLE, DISABLE, PEER_READ, PEER_WRITE, PEER_CLOSE, PASS, DEV_WCLAMP, DEV_WEAGAIN, DEV_RCLAMP };
static const char *kN[] = {"send", "enable", "disable", "peer-read", "peer-write", "peer-close", "pass", "DEV:next-write-1-byte", "DEV:next-write-EAGAIN", "DEV:next-readv-1-byte"};
struct Op { int k, a; };
enum Policy { ALL, ONE, NONE_, ALL_BUT_ONE };

struct World {
  event::Loop *loop; int sv[2]; network::BufferedFd *bfd = nullptr; network::TcpConnection *tcp = nullptr; bool tcp_mode;
  std::string sent, peer_got, peer_wrote; size_t consumed = 0; bool peer_closed = false, running = false; int zero_cb = 0, complete_cb = 0; std::string viol;
  uint8_t sctr = 1, pctr = 101; size_t threshold; int policy; bool dead = false;   // dead: connection object gone after disconnect
  network::BufferedFd *B() { return tcp_mode ? tcp->sp_buffered_fd_ : bfd; }
  void on_recv(util::Buffer &b) {
    size_t n = b.readableSize(); if (n < threshold) { viol = "receive-callback-below-threshold"; return; }
    if (consumed + n > peer_wrote.size() || memcmp(b.readableBegin(), peer_wrote.data() + consumed, n) != 0) { viol = "receive-callback-content-not-the-unconsumed-bytes-in-order"; return; }
    size_t take = policy == ALL ? n : policy == ONE ? 1 : policy == NONE_ ? 0 : n - 1; if (take > n) take = n;
    b.hasRead(take); consumed += take;
  }
  void on_zero() { zero_cb++; if (zero_cb > 1) viol = "peer-close-reported-more-than-once";
    network::BufferedFd *x = B(); size_t inbuf = x ? x->recv_buff_.readableSize() : 0;
    if (!tcp_mode) { if (consumed + inbuf != peer_wrote.size()) viol = "peer-close-reported-before-all-preceding-data-was-presented"; bfd->disable(); running = false; } }
  void on_disconnected() { zero_cb++; if (zero_cb > 1) viol = "disconnect-reported-more-than-once"; dead = true; }
  void on_complete() { complete_cb++; network::BufferedFd *x = B(); if (!x) return;
    if (x->send_buff_.readableSize() != 0) viol = "send-complete-while-send-buffer-not-empty";
    else if ((size_t)fd_written != sent.size()) viol = "send-complete-before-everything-was-written"; }
  void pass() { loop->runNext([] {}); loop->runLoop(event::Loop::Mode::kOnce); }
  void peer_read(size_t k) { char buf[4096]; if (k > sizeof buf) k = sizeof buf; ssize_t n = recv(sv[1], buf, k, MSG_DONTWAIT); if (n > 0) { peer_got.append(buf, (size_t)n);
      if (peer_got.size() > sent.size() || memcmp(peer_got.data(), sent.data(), peer_got.size()) != 0) viol = "peer-received-bytes-are-not-a-prefix-of-the-sent-stream"; } }
};

static std::string run_hist(const std::string &eng, bool tcp_mode, size_t threshold, int policy, const std::vector<Op> &h, std::string &viol) {
  World w; w.tcp_mode = tcp_mode; w.threshold = threshold; w.policy = policy; w.loop = event::Loop::New(eng);
  socketpair(AF_UNIX, SOCK_STREAM | SOCK_NONBLOCK, 0, w.sv); inj_fd = w.sv[0]; fd_written = 0; dev_write_clamp = -1; dev_write_eagain = false; dev_readv_clamp = -1;
  World *pw = &w;
  if (tcp_mode) { w.tcp = new network::TcpConnection(w.loop, network::SocketFd(w.sv[0]), network::SockAddr()); w.running = true;
    w.tcp->setReceiveCallback([pw](util::Buffer &b) { pw->on_recv(b); }, threshold); w.tcp->setSendCompleteCallback([pw] { pw->on_complete(); }); w.tcp->setDisconnectedCallback([pw] { pw->on_disconnected(); }); }
  else { w.bfd = new network::BufferedFd(w.loop); w.bfd->initialize(util::Fd(w.sv[0]));
    w.bfd->setReceiveCallback([pw](util::Buffer &b) { pw->on_recv(b); }, threshold); w.bfd->setSendCompleteCallback([pw] { pw->on_complete(); }); w.bfd->setReadZeroCallback([pw] { pw->on_zero(); }); }
  for (auto &o : h) { if (!w.viol.empty()) break;
    switch (o.k) {
      case SEND: if (!w.dead && w.sent.size() + o.a <= 14) { std::string d; for (int i = 0; i < o.a; i++) d.push_back((char)w.sctr++); w.sent += d; bool ok = tcp_mode ? w.tcp->send(d.data(), d.size()) : w.bfd->send(d.data(), d.size()); if (!ok) w.viol = "send-returned-false"; } break;
      case ENABLE: if (!tcp_mode && w.zero_cb == 0) { w.bfd->enable(); w.running = true; } break;   // no in-tree user re-enables a descriptor after its peer closed
      case DISABLE: if (!tcp_mode) { w.bfd->disable(); w.running = false; } break;
      case PEER_READ: w.peer_read((size_t)o.a); break;
      case PEER_WRITE: if (!w.peer_closed && w.peer_wrote.size() + o.a <= 9) { std::string d; for (int i = 0; i < o.a; i++) d.push_back((char)w.pctr++); ssize_t r = syscall(SYS_write, w.sv[1], d.data(), d.size()); if (r == (ssize_t)d.size()) w.peer_wrote += d; } break;
      case PEER_CLOSE: if (!w.peer_closed) { /* drain what the peer can still read first so close does not turn into a reset */ w.peer_read(4096); shutdown(w.sv[1], SHUT_WR); w.peer_closed = true; } break;
      case PASS: w.pass(); break;
      case DEV_WCLAMP: dev_write_clamp = 1; break;
      case DEV_WEAGAIN: dev_write_eagain = true; break;
      case DEV_RCLAMP: dev_readv_clamp = 1; break; }
  }
  // canonical state (before the closing run-to-quiescence)
  std::string c; { char b[200]; network::BufferedFd *x = w.B();
    snprintf(b, sizeof b, "s%zu r%zu w%d st%d|sent%zu got%zu fdw%lld|pw%zu cons%zu|pc%d z%d run%d dead%d|dv%d%d%d|cc%d", x ? x->send_buff_.readableSize() : 0, x ? x->recv_buff_.readableSize() : 0,
             x && x->sp_write_event_ ? (int)x->sp_write_event_->isEnabled() : 0, x ? (int)x->state_ : 9, w.sent.size(), w.peer_got.size(), fd_written, w.peer_wrote.size(), w.consumed, (int)w.peer_closed, w.zero_cb, (int)w.running, (int)w.dead,
             dev_write_clamp, (int)dev_write_eagain, dev_readv_clamp, w.complete_cb > 0); c = b; }
  // ---- liveness part of the oracle: let the loop run to quiescence with the peer draining; then everything must have arrived
  if (w.viol.empty() && w.running && !w.dead) {
    int idle = 0; size_t last = (size_t)-1;
    for (int i = 0; i < 60 && idle < 3 && w.viol.empty(); i++) { w.pass(); w.peer_read(4096); network::BufferedFd *x = w.B(); size_t prog = w.peer_got.size() * 1000 + (x ? x->recv_buff_.readableSize() : 0) + w.consumed * 7 + (size_t)w.zero_cb * 100000; if (prog == last) idle++; else idle = 0; last = prog; if (w.dead) break; }
    if (w.viol.empty() && w.peer_got != w.sent && !w.dead && w.running) w.viol = "sent-bytes-never-reach-the-peer (got " + std::to_string(w.peer_got.size()) + " of " + std::to_string(w.sent.size()) + ")";
    network::BufferedFd *x = w.B();
    if (w.viol.empty() && x && w.consumed + x->recv_buff_.readableSize() != w.peer_wrote.size()) w.viol = "received-bytes-lost-or-duplicated";
    if (w.viol.empty() && w.peer_closed && w.zero_cb != 1) w.viol = "peer-close-reported-" + std::to_string(w.zero_cb) + "-times";
  }
  viol = w.viol; inj_fd = -1;
  if (tcp_mode) delete w.tcp; else delete w.bfd;
  w.pass(); delete w.loop; close(w.sv[1]); if (tcp_mode) { /* fd owned by the connection */ }
  return c;
}

static int bulk(const std::string &eng) {       // engine I lane: real kernel back-pressure, large sends
  size_t cases = 0;
  for (size_t total : {65536ul, 262144ul, 1048576ul, 2097152ul}) for (size_t chunk : {total, total / 7 + 1}) for (size_t step : {4096ul, 65536ul}) for (int pre_enable = 0; pre_enable < 2; pre_enable++) {
    event::Loop *loop = event::Loop::New(eng); int sv[2]; socketpair(AF_UNIX, SOCK_STREAM | SOCK_NONBLOCK, 0, sv); int sz = 4096; setsockopt(sv[0], SOL_SOCKET, SO_SNDBUF, &sz, sizeof sz);
    inj_fd = sv[0]; fd_written = 0; auto *bfd = new network::BufferedFd(loop); bfd->initialize(util::Fd(sv[0])); int complete = 0; bool early = false; size_t sent = 0;
    bfd->setSendCompleteCallback([&] { complete++; if ((size_t)fd_written != sent || bfd->send_buff_.readableSize()) early = true; });
    if (pre_enable) bfd->enable();
    std::string data(total, 0); for (size_t i = 0; i < total; i++) data[i] = (char)((i * 131 + (i >> 8)) & 0xff);
    for (size_t off = 0; off < total; off += chunk) { size_t n = std::min(chunk, total - off); bfd->send(data.data() + off, n); sent += n; }
    if (!pre_enable) bfd->enable();
    std::string got; std::vector<char> buf(step); int idle = 0;
    for (int i = 0; i < 100000 && got.size() < total && idle < 50; i++) { loop->runNext([] {}); loop->runLoop(event::Loop::Mode::kOnce); ssize_t n = recv(sv[1], buf.data(), step, MSG_DONTWAIT); if (n > 0) { got.append(buf.data(), (size_t)n); idle = 0; } else idle++; }
    for (int i = 0; i < 3; i++) { loop->runNext([] {}); loop->runLoop(event::Loop::Mode::kOnce); }
    cases++; char desc[128]; snprintf(desc, sizeof desc, "bulk %s total=%zu chunk=%zu peer-step=%zu enable-%s", eng.c_str(), total, chunk, step, pre_enable ? "before-send" : "after-send");
    if (got != data) printf("@VIOL sig=bulk-stream-not-preserved(got_%zu_of_%zu) :: %s\n", got.size(), total, desc);
    else if (early) printf("@VIOL sig=bulk-send-complete-before-everything-written :: %s\n", desc);
    else if (complete < 1) printf("@VIOL sig=bulk-send-complete-never-reported :: %s\n", desc);
    if (cases <= 2) printf("@SAMPLE %s => received %zu bytes, send-complete x%d\n", desc, got.size(), complete);
    inj_fd = -1; delete bfd; loop->runNext([] {}); loop->runLoop(event::Loop::Mode::kOnce); delete loop; close(sv[1]);
  }
  printf("@STAT states=%zu transitions=%zu executions=%zu\n", cases, cases, cases); return 0;
}

int main(int argc, char **argv) {
  signal(SIGPIPE, SIG_IGN); hx::install_crash_reporter("C06-crash");
  std::string what = argc > 1 ? argv[1] : "hist", eng = argc > 2 ? argv[2] : "epoll";
  if (what == "bulk") return bulk(eng);
  size_t depth = argc > 3 ? atoi(argv[3]) : 5; bool tcp = argc > 4 && !strcmp(argv[4], "tcp"); size_t thr = argc > 5 ? atoi(argv[5]) : 0; int pol = argc > 6 ? atoi(argv[6]) : 0; int maxdev = argc > 7 ? atoi(argv[7]) : 1;
  hx::Explorer<Op> ex; char nm[96]; snprintf(nm, sizeof nm, "%s-%s-thr%zu-pol%d", eng.c_str(), tcp ? "tcp" : "bfd", thr, pol); ex.name = nm; ex.deadline_s = hx::deadline_from_env(600);
  if (argc > 9) { ex.part = atoi(argv[8]); ex.nparts = atoi(argv[9]); }
  ex.show = [](const Op &o) { char b[48]; if (o.k == SEND || o.k == PEER_READ || o.k == PEER_WRITE) snprintf(b, 48, "%s(%d)", kN[o.k], o.a); else snprintf(b, 48, "%s", kN[o.k]); return std::string(b); };
  ex.menu = [&](const std::vector<Op> &h) { std::vector<Op> m; int dev = 0; for (auto &o : h) if (o.k >= DEV_WCLAMP) dev++;
    for (int n : {1, 2, 5}) m.push_back({SEND, n}); if (!tcp) { m.push_back({ENABLE, 0}); m.push_back({DISABLE, 0}); }
    m.push_back({PEER_READ, 1}); m.push_back({PEER_READ, 64}); m.push_back({PEER_WRITE, 1}); m.push_back({PEER_WRITE, 3}); m.push_back({PEER_CLOSE, 0}); m.push_back({PASS, 0});
    if (dev < maxdev) { m.push_back({DEV_WCLAMP, 0}); m.push_back({DEV_WEAGAIN, 0}); m.push_back({DEV_RCLAMP, 0}); }
    return m; };
  ex.sig = [](const std::string &v) { return v.substr(0, v.find(' ')); };
  ex.run = [&](const std::vector<Op> &h, std::string &viol) { return run_hist(eng, tcp, thr, pol, h, viol); };
  ex.explore(depth);
  return 0;
}
