// C06 lane "two loops in two threads" (free-running, built with ThreadSanitizer; not an exploration).
// The history lanes are single-threaded, so state that a regression moves from the object / the stack to module scope (a scratch buffer made
// static, a shared counter) is invisible there: it only matters when several descriptors are served by different loops in different threads.
// Here two threads each own a real loop (Loop::New), a socketpair and a BufferedFd (variant bfd) or TcpConnection (variant tcp); each peer
// writes its own pattern of a few KB in several writes before the first read, so the first read on the fresh descriptor overflows the
// (capacity 0) receive buffer into the spill area and needs several readv calls. A barrier before the writes makes the two read phases overlap.
// Oracle: each receiver is shown exactly its own stream, in order (byte-exact reference), the peer close is reported once after it; and
// ThreadSanitizer reports nothing (check.py turns every report into a violation race:<file:line>) - the verdict does not depend on the two
// reads really colliding, an unsynchronised access to shared library data is flagged on every run.
// usage: mt_harness <engine> <rounds>
#include <tbox/event/loop.h>
#include <tbox/network/buffered_fd.h>
#include <tbox/network/tcp_connection.h>
#include <tbox/network/sockaddr.h>
#include <sys/socket.h>
#include <pthread.h>
#include <unistd.h>
#include <signal.h>
#include <string.h>
#include <stdio.h>
#include <string>
using namespace tbox;

static pthread_barrier_t g_bar;
static std::string g_engine;
struct Job { int id; bool tcp; int round; std::string viol; size_t got = 0; int closes = 0; };

static void *worker(void *arg) {
  Job &j = *static_cast<Job *>(arg);
  const size_t total = 6000 + 700 * (size_t)j.id; std::string data(total, 0);
  for (size_t i = 0; i < total; i++) data[i] = (char)((j.id ? 0x80 : 0x00) | (int)((i * 7 + (i >> 6) + (size_t)j.round) % 127 + 1));      // the two streams share no byte value
  event::Loop *loop = event::Loop::New(g_engine); int sv[2]; socketpair(AF_UNIX, SOCK_STREAM | SOCK_NONBLOCK, 0, sv);
  network::BufferedFd *bfd = nullptr; network::TcpConnection *tcp = nullptr; size_t consumed = 0; bool done = false;
  auto on_recv = [&](util::Buffer &b) { size_t n = b.readableSize();
    if (consumed + n > total || memcmp(b.readableBegin(), data.data() + consumed, n) != 0) { if (j.viol.empty()) j.viol = "two-loops-receiver-was-shown-bytes-that-are-not-its-own-stream-in-order"; }
    size_t take = n > 1 ? n - 1 : n; b.hasRead(take); consumed += take; j.got = consumed; };      // leaves one byte: it must come again with later data
  if (j.tcp) { tcp = new network::TcpConnection(loop, network::SocketFd(sv[0]), network::SockAddr()); tcp->setReceiveCallback(on_recv, 0); tcp->setDisconnectedCallback([&] { j.closes++; done = true; }); }
  else { bfd = new network::BufferedFd(loop); bfd->initialize(util::Fd(sv[0])); bfd->setReceiveCallback(on_recv, 0); bfd->setReadZeroCallback([&] { j.closes++; bfd->disable(); done = true; }); bfd->enable(); }
  pthread_barrier_wait(&g_bar);
  size_t off = 0;
  for (int it = 0; it < 4000 && !done; it++) {
    if (off < total) { size_t n = std::min<size_t>(2100, total - off); ssize_t r = ::write(sv[1], data.data() + off, n); if (r > 0) off += (size_t)r; if (off < 4000 && off < total) continue; }   // the first read finds several KB waiting
    else if (consumed + 1 >= total && it > 3) shutdown(sv[1], SHUT_WR);
    loop->runNext([] {}); loop->runLoop(event::Loop::Mode::kOnce);
  }
  if (j.viol.empty() && consumed + 1 < total) j.viol = "two-loops-received-bytes-never-presented(" + std::to_string(consumed) + "_of_" + std::to_string(total) + ")";
  if (j.viol.empty() && j.closes != 1) j.viol = "two-loops-peer-close-reported-" + std::to_string(j.closes) + "-times";
  delete tcp; delete bfd; loop->runNext([] {}); loop->runLoop(event::Loop::Mode::kOnce); delete loop; close(sv[1]);
  return nullptr;
}

int main(int argc, char **argv) {
  signal(SIGPIPE, SIG_IGN); alarm(120);
  g_engine = argc > 1 ? argv[1] : "epoll"; int rounds = argc > 2 ? atoi(argv[2]) : 8; size_t cases = 0, printed = 0;
  pthread_barrier_init(&g_bar, nullptr, 2);
  for (int r = 0; r < rounds; r++) for (int variant = 0; variant < 3; variant++) {      // bfd+bfd, tcp+tcp, bfd+tcp
    Job jobs[2]; pthread_t th[2];
    for (int i = 0; i < 2; i++) { jobs[i].id = i; jobs[i].round = r; jobs[i].tcp = variant == 1 || (variant == 2 && i == 1); }
    for (int i = 0; i < 2; i++) pthread_create(&th[i], nullptr, worker, &jobs[i]);
    for (int i = 0; i < 2; i++) pthread_join(th[i], nullptr);
    for (int i = 0; i < 2; i++) { cases++; char desc[160]; snprintf(desc, sizeof desc, "two-loops %s round=%d thread=%d object=%s (other thread: %s)", g_engine.c_str(), r, i, jobs[i].tcp ? "TcpConnection" : "BufferedFd", jobs[1 - i].tcp ? "TcpConnection" : "BufferedFd");
      if (!jobs[i].viol.empty() && printed++ < 6) printf("@VIOL sig=%s :: %s\n", jobs[i].viol.c_str(), desc);
      if (cases <= 2) printf("@SAMPLE %s => delivered %zu bytes, peer-close x%d\n", desc, jobs[i].got, jobs[i].closes); }
  }
  printf("@STAT states=%zu transitions=%zu executions=%zu\n", cases, cases, cases); fflush(stdout);
  return 0;
}
