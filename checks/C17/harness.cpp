// C17: action trees (tbox::flow) on a real event loop under a virtual monotonic clock (engine H).
//
//   harness run <part> <nparts> <hist-depth> <max-weight> <max-composites> <max-depth> [<min-depth> [<lane>]]
//   harness replay <hist-depth> <max-weight> <max-composites> <max-depth> <program-index> "<history e.g. start pass pause>" [<min-depth> [<lane>]]
//   harness list <max-weight> <max-composites> <max-depth> [<min-depth> [<lane>]]           (print the canonical program order)
//
// PROGRAM = tree of real composites (Sequence x3 modes, Parallel x3, IfElse, IfThen, Switch, Loop x3, LoopIf,
// Repeat times{1,2} x3, Wrapper x4, Composite) over <=4 leaves, optional timeout on the root.
// Programs are enumerated canonically by WEIGHT (small and plain first, see weight rules at `struct Family`).
// For every program: BFS (hx::Explorer) over control histories {start,pause,resume,stop,reset,pass,advance-timeout}.
// Every library class is instantiated through Tap<T> (life-cycle hooks announce run boundaries of inner nodes to the observer); the constructor / setter /
// role-alias variant used to build each composite is picked from the program index (`alt`, printed as v<alt>).
//
// LANES (program family + op menu; lane A is the main one)
//   A  all composite kinds and modes, harness leaves (ProbeLeaf: succeed/fail/block/never/flip x delay)
//   X  same shapes (+ Repeat without setTimes), leaves S0/F1 plus at least one of: SleepAction(50 ms; both constructors), FunctionAction (true/false; all four callable
//      overloads, constructor or setFunc), Fn! (a FunctionAction whose function stops the ROOT from inside the start), "late" probe leaves LS1/LF1/LB1 whose finish()/block()
//      arrives although the leaf was paused or stopped meanwhile (must be refused without effect after stop), BB1 (blocks again after the resume); extra op advance+7
//   N  two nested composites (one representative mode per kind, arity <= 2; inner Sequence/Parallel also with NO children), leaves S0/F1 + one of B1 / flip /
//      a timeout on the inner composite / on root AND inner composite (same timer phase) / on the first leaf
//   T  one composite level (8 representative shapes), leaves S1 + up to two of N/F1/B1/SleepAction, with and without an initial root timeout, extra ops
//      set-timeout (setTimeout on a running/paused root, also repeatedly), reset-timeout (resetTimeout) and advance+7 (the clock overshoots the earliest timer by 7 ms)
//   R  lane A's shapes and leaves; the root's finish callback acts on the tree from inside the notification, once: re-use (reset(); start();) or, by variant bit 4,
//      DELETE it (what ActionExecutor does) - then three more loop passes: nothing may arrive, no timer may be left, ASan watches
// `advance-timeout` moves the virtual clock to the instant of the earliest armed timer of the loop (action timeouts and SleepAction timers).
// After every history that reaches a new canonical state with something queued or armed, a terminal `destroy` is tried as well: delete the tree
// as it is and run the loop (ASan + "no notification after destroy").
//
// A `pass` is the body of ONE iteration of the real CommonLoop (handleExpiredTimers(); handleNextFunc();), i.e. what
// runLoop(kForever) does per wake-up. runLoop(kOnce) is deliberately not used for a single pass: its epilogue
// cleanupDeferredTasks() drains up to 100 rounds of deferred tasks, which would hide every interleaving between a
// child's queued notification and its parent's handling of it. Leaves complete from inside the loop (a runNext task
// queued by `pass` advances their countdown), so a leaf's finish()/block() happens in one iteration and the
// notification is delivered in the next one; control calls may fall in between.
//
// ORACLES
//  (i) structural (independent of documentation details; first one to fail gives the signature)
//      - root finish callback at most once per run, exactly once when the root is finished, agrees with result()
//      - no leaf is started again while a previous run of it is under way
//      - a node that is finished or stopped has no descendant that isUnderway() (also for inner nodes)
//      - no finish/block notification of a run that was stopped or reset is delivered (every node: epoch tag captured by the
//        installed callback; epochs advance in the node's own onStop/onReset hook, for the root also at the op itself)
//      - a leaf's finish() is refused without any effect once the leaf is stopped/finished, accepted while it is under way (late leaves)
//      - a composite finishes from a timer callback only if a timeout is configured on it and the full span has passed since its run
//        started / the timeout was set (never after resetTimeout)
//      - library leaves: FunctionAction finishes with its function's return value, SleepAction with success; a SleepAction under way has its timer armed
//      - pause: between an accepted pause() of the root and the next resume/stop/reset no node is started, no leaf completes or blocks (late leaves excepted),
//        nothing below the root is running and no paused SleepAction has its timer armed
//      - block(): refused without effect once the leaf is stopped/finished, accepted while under way; every delivered block notification has a cause
//        (a block() call of that leaf / a block notification received from a child in this run)
//      - below a finished/stopped node every descendant's run has been ended (model flag, not only the implementation's state)
//      - destroy at any moment: no notification afterwards, no timer left armed, no task touching the freed tree (ASan)
//      - final hook exactly once per run that ended by finish or stop
//      - after reset every node is idle/unsure, and the continuation (rest of the history + drain) is trace-equal
//        to the same continuation on a freshly built tree
//      - drain: at the end of every history the harness resumes a paused root and passes until nothing is pending;
//        if the root is still under way, every node must be legitimately waiting (a `never` leaf below it, or an
//        endless loop); otherwise "the tree can complete but the root never finishes".
//      - calls that the base class documents as no-ops in the current state do not change anything
//  (ii) result: one monitor per composite node applies that composite's documented step function (see RULES below)
//      to the child notifications actually delivered to it, and checks every child start and the node's own finish
//      (and result) against it. Local per node, hence independent of nesting, of timing and of Parallel interleaving.
#include "hist/hist.h"
#include "probe.h"
#include <tbox/event/loop.h>
#include <tbox/event/common_loop.h>
#include <tbox/event/timer_event.h>
#include <tbox/flow/action.h>
#include <tbox/flow/action_reason.h>
#include <tbox/flow/actions/assemble_action.h>
#include <tbox/flow/actions/sequence_action.h>
#include <tbox/flow/actions/parallel_action.h>
#include <tbox/flow/actions/if_else_action.h>
#include <tbox/flow/actions/if_then_action.h>
#include <tbox/flow/actions/switch_action.h>
#include <tbox/flow/actions/loop_action.h>
#include <tbox/flow/actions/loop_if_action.h>
#include <tbox/flow/actions/repeat_action.h>
#include <tbox/flow/actions/wrapper_action.h>
#include <tbox/flow/actions/composite_action.h>
#include <tbox/flow/actions/sleep_action.h>
#include <tbox/flow/actions/function_action.h>
#include <tbox/event/timer_event_impl.h>
#include <time.h>
#include <sys/time.h>
#include <sys/syscall.h>
#include <set>
#include <unordered_map>

// ------------------------------------------------------------------------------------------------ virtual clock
static long long vnow = 1000000;     // virtual milliseconds
extern "C" int clock_gettime(clockid_t, struct timespec *ts) { ts->tv_sec = vnow / 1000; ts->tv_nsec = (vnow % 1000) * 1000000; return 0; }
extern "C" int gettimeofday(struct timeval *tv, void *) { if (tv) { tv->tv_sec = vnow / 1000; tv->tv_usec = (vnow % 1000) * 1000; } return 0; }
static double real_now() { struct timespec ts; syscall(SYS_clock_gettime, CLOCK_MONOTONIC, &ts); return ts.tv_sec + ts.tv_nsec * 1e-9; }   // deadline needs the real clock

// private members that only feed the canonical state key or the whitebox classification are read through probes (a rename must not stop the check from building)
VF_PROBE(timer_ev_) VF_PROBE(finished_children_) VF_PROBE(curr_action_) VF_PROBE(child_finish_func_) VF_PROBE(index_) VF_PROBE(remain_times_) VF_PROBE(finish_time_) VF_PROBE(remain_time_span_) VF_PROBE(what) VF_PROBE(id)
using namespace tbox; using namespace tbox::flow;
using St = Action::State;
static const int T_MS = 100;         // root timeout

// ------------------------------------------------------------------------------------------------ programs
enum Kind { LEAF, SEQ, PAR, IFELSE, IFTHEN, SWITCH, LOOP, LOOPIF, REPEAT, WRAP, COMP };
static const char *kKind[] = {"Leaf", "Sequence", "Parallel", "IfElse", "IfThen", "Switch", "Loop", "LoopIf", "Repeat", "Wrapper", "Composite"};
static const char *kKindLc[] = {"leaf", "sequence", "parallel", "ifelse", "ifthen", "switch", "loop", "loopif", "repeat", "wrapper", "composite"};
static const char *kSeqMode[] = {"AllFinish", "AnyFail", "AnySucc"};
static const char *kLoopMode[] = {"Forever", "UntilFail", "UntilSucc"};
static const char *kRepMode[] = {"NoBreak", "BreakFail", "BreakSucc"};
static const char *kWrapMode[] = {"Normal", "Invert", "AlwaySucc", "AlwayFail"};

enum Out { oS, oF, oB, oN, oSF, oFS, oSL, oFP, oFM, oLS, oLF, oLB, oBB, oFX, oSX };   // succeed / fail / block (then succeed when resumed) / never / succeed on the first run then fail / fail first then succeed /
// library leaves: SleepAction(50 ms) / FunctionAction returning true / false / "late" probe leaves: succeed / fail after <delay> passes EVEN IF the leaf was paused or stopped meanwhile
// (an asynchronous completion that arrives late: finish() must be refused and nothing delivered once the leaf is stopped; it is accepted while the leaf is only paused)
// LB = late leaf whose late call is block() (refused without effect once stopped/finished; after a resume it succeeds) / BB = blocks, and after the resume blocks a second time, then succeeds /
// Fn! = FunctionAction whose function calls root->stop() and returns true (a control call from inside a start) / S! = probe leaf calling root->stop() in onStart and completing LATER
// (only with C17_STOP_IN_ONSTART_DELAYED=1: on the unchanged code it is left running below the stopped root - observation, reading question)
static const char *kOut[] = {"S", "F", "B", "N", "SF", "FS", "SL", "Fn+", "Fn-", "LS", "LF", "LB", "BB", "Fn!", "S!"};
static bool lib_leaf(int out) { return out == oSL || out == oFP || out == oFM || out == oFX; }
static bool g_stop_delayed = getenv("C17_STOP_IN_ONSTART_DELAYED") != nullptr;
static const int SLEEP_MS = 50;      // SleepAction time span
struct Script { uint8_t out, delay, msg; };   // delay: 0 = inside onStart (onResume for B), 1/2 = that many passes later; msg: 0 "", 1 "case:a", 2 "case:b"
static const char *kMsg[] = {"", "case:a", "case:b"};

struct Shape { int k, mode, var; std::vector<Shape> ch; };
// var: REPEAT times; IFELSE 0=[if,then,else] 1=[if,then] 2=[if,else]; IFTHEN number of pairs; SWITCH 0=[sw,a] 1=[sw,default] 2=[sw,a,default] 3=[sw,a,b] 4=[sw,a,b,default]
static const char *role_of(int k, int var, int pos) {
  switch (k) {
    case IFELSE: return pos == 0 ? "if" : (pos == 1 ? (var == 2 ? "else" : "then") : "else");
    case IFTHEN: return pos % 2 == 0 ? "if" : "then";
    case LOOPIF: return pos == 0 ? "if" : "exec";
    case SWITCH: { if (pos == 0) return "switch";
      static const char *r[5][3] = {{"case:a", "", ""}, {"default", "", ""}, {"case:a", "default", ""}, {"case:a", "case:b", ""}, {"case:a", "case:b", "default"}};
      return r[var][pos - 1]; }
  }
  return "";
}
struct Node { int k, mode, var, parent, pos, leafno, depth; std::vector<int> ch; bool under_loop, under_switch, has_b; };
// timeout: 0 none, 1 on the root, 2 on the first inner composite, 3 on the root AND the inner composite (both expire in the same timer phase), 4 on the first leaf (2-4: lane N).
// alt bit2: Parallel/Loop/Wrapper built with the default mode + setMode(); FunctionAction(loop) + setFunc(). alt bit3: the root is re-configured at every reset (setMode to the
// next mode, Repeat also setTimes 1<->2): the monitors and the fresh twin follow the new configuration. alt: construction variant bits derived from the program index (zero weight):
//   Loop/Wrapper bit0 -> constructor taking the child; Repeat alt%3 -> (times,mode)+setChild | (child,times,mode) | default constructor+setTimes+setMode+setChild;
//   IfElse bit0 -> role names "succ"/"fail"; Sequence bit0 -> default mode + setMode; LoopIf alt%3 -> default | setFinishResult(false) | setFinishResult(true);
//   FunctionAction leaves: overload (alt/2+leafno)%4 of the four callable types; SleepAction leaves: bit0 -> Generator constructor
struct Program { std::vector<Node> n; std::vector<Script> sc; int timeout; std::string text; int nleaves; long index; int weight; unsigned alt; std::vector<int> to_nodes;
  bool toOn(int i) const { for (int t : to_nodes) if (t == i) return true; return false; } };
// C17_PAUSE_ORACLE_ANY=1: demand "no running descendant" below EVERY paused node. Fails on the unchanged code (observation, reading question: resume() does not
// withdraw a block notification that is still queued): Sequence[B1] ; start pass pause resume pass -> the leaf's queued block arrives after the resume, the root turns
// kPause (blocked) while the leaf it has just resumed is running.
static bool g_pause_any = getenv("C17_PAUSE_ORACLE_ANY") != nullptr;
static char g_lane = 'A';   // A = main family | X = library leaves + late leaves | N = nested, representative kinds | T = timeout set/withdrawn while under way
static unsigned alt_of(long index) { return (unsigned)((((uint32_t)index + 1u) * 2654435761u) >> 13) & 0xFFu; }

static std::string script_str(const Script &s) { std::string r = kOut[s.out]; if (s.out != oN && !lib_leaf(s.out)) r += std::to_string((int)s.delay); if (s.msg) r += std::string(":") + (s.msg == 1 ? "a" : "b"); return r; }
static std::string head_str(int k, int mode, int var) {
  std::string h = kKind[k];
  switch (k) { case SEQ: case PAR: h += std::string(".") + kSeqMode[mode]; break; case LOOP: h += std::string(".") + kLoopMode[mode]; break;
    case REPEAT: h += "(" + (var ? std::to_string(var) : std::string("default-times")) + ")." + kRepMode[mode]; break; case WRAP: h += std::string(".") + kWrapMode[mode]; break; default: break; }
  return h;
}
static void flatten(const Shape &s, int parent, int pos, int depth, Program &p, bool ul, bool us, bool hb) {
  int i = (int)p.n.size(); p.n.push_back(Node()); { Node &n = p.n[i]; n.k = s.k; n.mode = s.mode; n.var = s.var; n.parent = parent; n.pos = pos; n.depth = depth; n.leafno = -1; n.under_loop = ul; n.under_switch = us; n.has_b = hb; }
  if (s.k == LEAF) { p.n[i].leafno = p.nleaves++; return; }
  bool ul2 = ul || s.k == LOOP || s.k == LOOPIF || s.k == REPEAT;
  for (size_t c = 0; c < s.ch.size(); c++) { int ci = (int)p.n.size(); p.n[i].ch.push_back(ci);
    bool sw = (s.k == SWITCH && c == 0); flatten(s.ch[c], i, (int)c, depth + 1, p, ul2, us || sw, sw ? (s.var >= 3) : hb); }
}
static std::string prog_text(const Program &p, int i) {
  const Node &n = p.n[i]; if (n.k == LEAF) return script_str(p.sc[n.leafno]);
  std::string r = head_str(n.k, n.mode, n.var) + "[";
  for (size_t c = 0; c < n.ch.size(); c++) { if (c) r += ","; const char *ro = role_of(n.k, n.var, (int)c); if (*ro) r += std::string(ro) + "="; r += prog_text(p, n.ch[c]); }
  return r + "]";
}

// Family = all shapes with <= maxc composite nodes, depth <= maxd, <= 4 leaves, enumerated by weight:
//   shape weight  = 2*(composites-1) + (depth-1) + max(0, leaves-2)
//   script weight = S0,S1,F0,F1: 0 | N, B1, SF0,SF1,FS0,FS1: 1 | B0,S2,F2: 2 | B2,SF2,FS2: 3   (flip scripts only below Loop/LoopIf/Repeat;
//                   the reason message "", case:a, case:b (weight 0) is enumerated for succeeding leaves below a Switch's switch child)
//   root timeout  = 1
// canonical order: weight class, then timeout off/on, then shapes (by shape weight, text), then script tuples in alphabet order.
struct SpecT { int k, mode, var, arity; };
static std::vector<SpecT> all_specs() {
  std::vector<SpecT> v;
  if (g_lane == 'N') {   // one representative mode per kind, arity <= 2
    v.push_back({SEQ, 0, 0, 2}); v.push_back({PAR, 0, 0, 2}); v.push_back({IFTHEN, 0, 1, 2}); v.push_back({LOOP, 2, 0, 1}); v.push_back({LOOPIF, 0, 0, 2});
    v.push_back({REPEAT, 0, 2, 1}); v.push_back({WRAP, 1, 0, 1}); v.push_back({COMP, 0, 0, 1});
    v.push_back({SEQ, 0, 0, 0}); v.push_back({PAR, 0, 0, 0}); return v; }   // + no children at all (inner nodes only)
  if (g_lane == 'T') { v.push_back({SEQ, 0, 0, 2}); v.push_back({PAR, 0, 0, 2}); v.push_back({PAR, 2, 0, 2}); v.push_back({IFELSE, 0, 0, 3}); v.push_back({LOOP, 0, 0, 1}); v.push_back({REPEAT, 0, 2, 1});
    v.push_back({WRAP, 1, 0, 1}); v.push_back({COMP, 0, 0, 1}); return v; }
  for (int m = 0; m < 3; m++) for (int a = 1; a <= 4; a++) v.push_back({SEQ, m, 0, a});
  for (int m = 0; m < 3; m++) for (int a = 1; a <= 4; a++) v.push_back({PAR, m, 0, a});
  v.push_back({IFELSE, 0, 0, 3}); v.push_back({IFELSE, 0, 1, 2}); v.push_back({IFELSE, 0, 2, 2});
  v.push_back({IFTHEN, 0, 1, 2}); v.push_back({IFTHEN, 0, 2, 4});
  v.push_back({SWITCH, 0, 0, 2}); v.push_back({SWITCH, 0, 1, 2}); v.push_back({SWITCH, 0, 2, 3}); v.push_back({SWITCH, 0, 3, 3}); v.push_back({SWITCH, 0, 4, 4});
  for (int m = 0; m < 3; m++) v.push_back({LOOP, m, 0, 1});
  v.push_back({LOOPIF, 0, 0, 2});
  for (int t = 1; t <= 2; t++) for (int m = 0; m < 3; m++) v.push_back({REPEAT, m, t, 1});
  if (g_lane == 'X' || g_lane == 'R') for (int m = 1; m < 3; m++) v.push_back({REPEAT, m, 0, 1});   // RepeatAction(loop) without setTimes(): the default count (lane A keeps its program numbering)
  for (int m = 0; m < 4; m++) v.push_back({WRAP, m, 0, 1});
  v.push_back({COMP, 0, 0, 1});
  return v;
}
struct SInfo { Shape s; int leaves, comps, depth; };
static int weight_of(int comps, int depth, int leaves) { return 2 * (comps - 1) + (depth - 1) + std::max(0, leaves - 2); }
template <class F> static void gen_children(const std::vector<SInfo> &pool, int arity, int leaves_left, int comps_left, std::vector<int> &cur, F &f) {
  if ((int)cur.size() == arity) { f(cur); return; }
  int remaining_children = arity - (int)cur.size() - 1;
  for (size_t i = 0; i < pool.size(); i++) { const SInfo &c = pool[i]; if (c.comps > comps_left) break;   /* pool is sorted by comps */
    if (c.leaves + remaining_children > leaves_left) continue; cur.push_back((int)i); gen_children(pool, arity, leaves_left - c.leaves, comps_left - c.comps, cur, f); cur.pop_back(); }
}
// byd[d] = shapes of depth <= d; at the top level only shapes with weight <= maxw and depth >= mind are materialised
static std::vector<SInfo> gen_shapes(int maxd, int maxc, int maxl, int maxw, int mind) {
  std::vector<std::vector<SInfo>> byd(maxd + 1); SInfo leaf; leaf.s = Shape{LEAF, 0, 0, {}}; leaf.leaves = 1; leaf.comps = 0; leaf.depth = 0; byd[0].push_back(leaf);
  auto specs = all_specs();
  for (int d = 1; d <= maxd; d++) { byd[d].push_back(leaf); std::stable_sort(byd[d - 1].begin(), byd[d - 1].end(), [](const SInfo &a, const SInfo &b) { return a.comps < b.comps; });
    const std::vector<SInfo> &pool = byd[d - 1]; bool top = (d == maxd); int cbudget = maxc - 1; if (top) cbudget = std::min(cbudget, (maxw - (d >= 1 ? 0 : 0)) / 2);
    for (auto &sp : specs) { std::vector<int> cur;
      auto emit = [&](const std::vector<int> &t) { SInfo x; x.leaves = 0; x.comps = 1; x.depth = 0; for (int i : t) { x.leaves += pool[i].leaves; x.comps += pool[i].comps; x.depth = std::max(x.depth, pool[i].depth); } x.depth++;
        if (top && (weight_of(x.comps, x.depth, x.leaves) > maxw || x.depth < mind)) return;
        x.s = Shape{sp.k, sp.mode, sp.var, {}}; for (int i : t) x.s.ch.push_back(pool[i].s); byd[d].push_back(x); };
      gen_children(pool, sp.arity, maxl, cbudget, cur, emit); } }
  std::vector<SInfo> r; for (auto &x : byd[maxd]) if (x.comps >= 1) r.push_back(x); return r;
}
static int shape_weight(const SInfo &x) { return weight_of(x.comps, x.depth, x.leaves); }
struct Alt { Script s; int w; };
static std::vector<Alt> alphabet(const Node &n) {
  std::vector<Alt> a; auto add = [&](int out, int delay, int w) { bool succ = (out != oF && out != oN && out != oFM && out != oLF && out != oSL /* SleepAction's reason text is fixed */ && out != oFX); int nm = (n.under_switch && succ) ? (n.has_b ? 3 : 2) : 1; for (int m = 0; m < nm; m++) a.push_back(Alt{Script{(uint8_t)out, (uint8_t)delay, (uint8_t)m}, w}); };
  if (g_lane == 'X') { add(oS, 0, 0); add(oF, 1, 0); add(oSL, 0, 1); add(oFP, 0, 1); add(oFM, 0, 1); add(oFX, 0, 1); add(oLS, 1, 1); add(oLF, 1, 1); if (g_stop_delayed) add(oSX, 1, 1); add(oLB, 1, 2); add(oBB, 1, 2); return a; }   // (LB/BB: alone among plain siblings)
  if (g_lane == 'N') { add(oS, 0, 0); add(oF, 1, 0); add(oB, 1, 1); if (n.under_loop) add(oFS, 0, 1); return a; }
  if (g_lane == 'T') { add(oS, 1, 0); add(oN, 0, 1); add(oF, 1, 1); add(oSL, 0, 1); add(oB, 1, 1); return a; }
  add(oS, 0, 0); add(oS, 1, 0); add(oF, 0, 0); add(oF, 1, 0); add(oN, 0, 1); add(oB, 1, 1);
  if (n.under_loop) { add(oSF, 0, 1); add(oSF, 1, 1); add(oFS, 0, 1); add(oFS, 1, 1); }
  add(oB, 0, 2); add(oS, 2, 2); add(oF, 2, 2); add(oB, 2, 3);
  if (n.under_loop) { add(oSF, 2, 3); add(oFS, 2, 3); }
  return a;
}
struct Family {
  std::vector<SInfo> shapes; std::vector<Program> protos; std::vector<int> sw; int maxw;
  Family(int maxd, int maxc, int mw, int mind = 0) : maxw(mw) {
    shapes = gen_shapes(maxd, maxc, 4, mw, mind);
    for (auto &x : shapes) { Program p; p.nleaves = 0; p.timeout = 0; p.alt = 0; flatten(x.s, -1, 0, 0, p, false, false, false); p.sc.assign(p.nleaves, Script{oS, 0, 0}); protos.push_back(p); sw.push_back(shape_weight(x)); }
    std::vector<size_t> ord(shapes.size()); for (size_t i = 0; i < ord.size(); i++) ord[i] = i;
    std::stable_sort(ord.begin(), ord.end(), [&](size_t a, size_t b) { if (sw[a] != sw[b]) return sw[a] < sw[b]; return false; });
    std::vector<Program> p2; std::vector<int> w2; for (size_t i : ord) { p2.push_back(protos[i]); w2.push_back(sw[i]); } protos.swap(p2); sw.swap(w2);
  }
  static int to_weight() { return g_lane == 'T' ? 0 : 1; }
  static int to_variants() { return g_lane == 'N' ? 3 : 1; }     // lane T: with and without an initial timeout at no weight
  static void set_text(Program &p) { p.text = prog_text(p, 0) + (p.timeout == 1 ? " timeout=100ms" : p.timeout == 2 ? " inner-timeout=100ms" : p.timeout == 3 ? " root+inner-timeout=100ms" : p.timeout == 4 ? " leaf-timeout=100ms" : "") + " v" + std::to_string(p.alt); }
  static bool wanted(const Program &p) {   // lane X repeats no program of lane A: at least one library / late leaf
    if (g_lane != 'X') return true; for (auto &sc : p.sc) if (sc.out >= oSL) return true; return false; }   // (B1 only next to one of them)
  long total() {    // number of programs of the family (same loops as each(), counted by convolution of the leaf alphabets' weight histograms)
    long n = 0; if (g_lane == 'X' || g_lane == 'N') { each([&](Program &) { n++; return true; }); return n; }
    for (size_t si = 0; si < protos.size(); si++) { std::vector<long> h(maxw + 1, 0); h[0] = 1;
      for (auto &nd : protos[si].n) if (nd.k == LEAF) { std::vector<long> a(4, 0); for (auto &al : alphabet(nd)) a[al.w]++; std::vector<long> h2(maxw + 1, 0); for (int i = 0; i <= maxw; i++) for (int j = 0; j < 4 && i + j <= maxw; j++) h2[i + j] += h[i] * a[j]; h.swap(h2); }
      for (int W = 0; W <= maxw; W++) for (int to = 0; to <= to_variants(); to++) { int rest = W - (to ? 1 : 0) * to_weight() - sw[si]; if (rest >= 0) n += h[rest]; } }
    return n; }
  // calls f(program) for every program in canonical order (program.text is NOT set: call set_text); f returns false to stop
  template <class F> void each(F f) {
    long index = 0; bool go = true;
    for (int W = 0; W <= maxw && go; W++) for (int to = 0; to <= to_variants() && go; to++) for (size_t si = 0; si < protos.size() && go; si++) {
      int rest = W - (to ? 1 : 0) * to_weight() - sw[si]; if (rest < 0) continue;
      Program p = protos[si]; p.timeout = to ? (g_lane == 'N' ? to + 1 : 1) : 0; p.weight = W; p.to_nodes.clear();
      int inner = -1, fleaf = -1; for (size_t i = 1; i < p.n.size(); i++) { if (p.n[i].k != LEAF && inner < 0) inner = (int)i; if (p.n[i].k == LEAF && fleaf < 0) fleaf = (int)i; }
      if (p.timeout == 1 || p.timeout == 3) p.to_nodes.push_back(0); if ((p.timeout == 2 || p.timeout == 3) && inner > 0) p.to_nodes.push_back(inner);
      if (p.timeout == 4) { if (fleaf < 0) continue; p.to_nodes.push_back(fleaf); }
      std::vector<std::vector<Alt>> alts; for (auto &n : p.n) if (n.k == LEAF) alts.push_back(alphabet(n));
      std::function<void(int, int)> rec = [&](int li, int left) {
        if (!go) return;
        if (li == p.nleaves) { if (left != 0 || !wanted(p)) return; p.index = index++; p.alt = alt_of(p.index); go = f(p); return; }
        for (auto &a : alts[li]) { if (a.w > left) continue; p.sc[li] = a.s; rec(li + 1, left - a.w); if (!go) return; } };
      rec(0, rest); }
  }
};

// ------------------------------------------------------------------------------------------------ the world: one real tree + observers
static event::Loop *g_loop; static event::CommonLoop *g_cl;
struct World;
struct ProbeLeaf : Action {
  World *w; int ni; Script sc; int runs = 0, remaining = -1, what = 0; bool blocked = false, active = false;
  ProbeLeaf(event::Loop &l, World *w_, int ni_, Script s) : Action(l, "Probe"), w(w_), ni(ni_), sc(s) {}
  bool isReady() const override { return true; }
  void onStart() override; void onResume() override; void onStop() override; void onReset() override; void onFinal() override;
  void onFinished(bool ok, const Reason &r, const Trace &t) override;    // (also reached when the leaf's own timeout finishes it)
  int nblocks = 0;
  bool late() const { return sc.out == oLS || sc.out == oLF || sc.out == oLB; }
  void arm(int d) { if (d == 0) fire(); else remaining = d; }
  // a late leaf's completion is outside the action's control: it arrives also when the leaf has been paused or stopped meanwhile (not after a reset:
  // the base class accepts finish() on an idle action, a leaf that completes an action it was told to forget is outside the property)
  bool pending() const { return remaining > 0 && (state() == St::kRunning || (late() && state() != St::kIdle)); }
  void tick() { if (pending()) { if (--remaining == 0) fire(); } }
  void fire();
};
// Every library class in the tree is instantiated as Tap<T>: the protected life-cycle hooks announce themselves to the observer before delegating, so inner
// composites and library leaves get the same run/epoch bookkeeping as the root and the probe leaves (the oracle does not read their state to find run boundaries).
template <class T> struct Tap : T {
  World *w = nullptr; int ni = -1;
  using T::T;
  void onStart() override; void onStop() override; void onReset() override;
  void onFinished(bool ok, const Action::Reason &r, const Action::Trace &t) override;
};
template <class T> struct LeafTap : Tap<T> { using Tap<T>::Tap; void onFinal() override; };

// RULES (reference step function of every composite = its header pseudo-code read together with the pinned tests):
//  Sequence   children in index order; stops at the first success (AnySucc) / failure (AnyFail); result = result of the LAST EXECUTED
//             child. [reading: the header ends with `return true`, but SequenceAction.FinishIfAnySucc_AllFail and
//             FinishIfAllFinish_AllFail pin `false` when the last child fails - tests win]
//  Parallel   all children started at start, in index order; finishes when all have finished, or at the first success (AnySucc) /
//             failure (AnyFail), the others being stopped; result ALWAYS true. [reading: header has no pseudo-code; pinned by
//             ParallelAction.AllFinish/AnyFail/AnySucc (EXPECT_TRUE(is_succ) with failing children, ta3 kStoped)]
//  IfElse     if; then on success / else on failure; result of the branch. A missing branch finishes with TRUE. [reading: header
//             silent; pinned by IfElseAction.CondSuccNoIfAction / CondFailNoElseAction]
//  IfThen     if_1, then_1 on success, otherwise if_2 ...; result of the then branch; `false` when no `if` succeeds (header + IfThenAction.IfFalse)
//  Switch     switch child; on success the case whose role equals the reason message, else default, else result false (SwitchSkip);
//             switch child fails -> false (SwitchFail) [header silent on both; pinned by SwitchAction.SwitchFail / SwitchSkip]; result of the branch
//  Loop       Forever: restart the child for ever; UntilFail: while(child()); UntilSucc: while(!child()). The RESULT of a terminating loop is
//             not documented and not pinned -> not checked.
//  LoopIf     while (if()) exec(); exec's result ignored; result = finish_result_, default true ("默认结束结果是true" in the header)
//  Repeat     child run `times` times; BreakFail/BreakSucc stop at the first failure/success with the CHILD's result [pinned by
//             FunctionActionRepeat5BreakFail/BreakSucc]; running out of times gives true in NoBreak [FunctionActionRepeat3NoBreak];
//             running out of times in the Break modes is neither documented nor pinned -> result not checked. times==0 is outside the family.
//  Wrapper    Normal: child; Invert: !child; AlwaySucc: true; AlwayFail: false (header + 8 pinned tests)
//  Composite  the child's result (CompositeAction.ReasonAndTrace)
enum { E_NONE, E_START, E_ALL, E_FIN };   // what the node must do next: nothing (waits for a child) / start child ec / (Parallel) start all / finish with er
enum { R_FALSE, R_TRUE, R_ANY };
struct Mon { int exp = E_NONE, ec = -1, er = R_ANY, cur = -1, remain = 0, k = 0; uint8_t rec[4] = {0, 0, 0, 0}; bool dwp = false, done = false, started = false; };

static std::vector<std::string> g_out_lines;   // protocol lines produced while stdout is parked (printed after each program)
static std::map<std::string, long> g_sig_count;
static std::set<std::string> g_outcomes;

struct World {
  const Program &P; int N; Action *root = nullptr;
  std::vector<Action *> act; std::vector<ProbeLeaf *> leaf;
  std::vector<Action::FinishCallback> of; std::vector<Action::BlockCallback> ob;
  std::vector<int> ep, finals, fdeliv; std::vector<char> epwhy, by_timeout; std::vector<Mon> mon;
  std::vector<char> live, to_conf; std::vector<long long> t_arm;   // model: run of node i under way | a timeout is configured on node i | instant of the node's last start / set-timeout
  std::vector<int> bcall, bdeliv, bgot;   // per run of node i: block() calls accepted on a probe leaf | block notifications delivered from i | block notifications received from children
  bool user_paused = false;                // model: set by an accepted `pause` op, cleared by resume / stop / reset: while set nothing in the tree may start or complete
  bool destroyed = false;
  // lane R: the user's finish callback acts on the tree from inside the notification (once): alt bit4 clear -> re-use it: reset(); start();  alt bit4 set -> delete it
  // (what ActionExecutor does with a finished action); afterwards the loop runs on: nothing of the tree may arrive, no timer may be left, ASan watches
  bool restart_armed = false, delete_armed = false, gone = false;
  std::string trace, viol; bool quiet_trace = false;
  std::string end_status;

  explicit World(const Program &p) : P(p), N((int)p.n.size()) { if (g_lane == 'R') { if (p.alt & 16) delete_armed = true; else restart_armed = true; } }
  // Whitebox classification only (the verdict always comes from an oracle): SerialAssembleAction::onResume() hands a held-back child result to the
  // loop with runNext(); such a task that was queued before a reset and runs after it is the common cause of many different symptoms.
  std::set<event::Loop::RunId> stale_ids; bool stale_replay_ran = false;
  void V(const std::string &sig, const std::string &detail) { if (!viol.empty()) return;
    if (stale_replay_ran && sig.compare(0, 7, "harness") != 0) viol = "held-child-finish-replayed-after-reset [observed as " + sig + "] " + detail; else viol = sig + " " + detail; }
  void tr(const char *f, int a = 0, int b = 0) { char buf[32]; snprintf(buf, sizeof buf, f, a, b); trace += buf; trace += ' '; }
  static char sc(St s) { return "irpfs"[(int)s]; }
  static const char *sname(St s) { static const char *n[] = {"idle", "running", "pause", "finished", "stoped"}; return n[(int)s]; }
  static bool underway(St s) { return s == St::kRunning || s == St::kPause; }

  template <class T> T *tap(T *a, int i) { a->w = this; a->ni = i; return a; }
  bool built_ok = true; void need(bool ok) { if (!ok) built_ok = false; }
  Action *mk(int i) {
    const Node &n = P.n[i]; Action *a = nullptr; unsigned alt = P.alt; event::Loop &L = *g_loop;
    switch (n.k) {
      case LEAF: { const Script sc = P.sc[n.leafno];
        if (sc.out == oSL) { a = (alt & 1) ? tap(new LeafTap<SleepAction>(L, SleepAction::Generator([] { return std::chrono::milliseconds(SLEEP_MS); })), i) : tap(new LeafTap<SleepAction>(L, std::chrono::milliseconds(SLEEP_MS)), i); }
        else if (sc.out == oFP || sc.out == oFM || sc.out == oFX) { bool ok = sc.out != oFM, stopper = sc.out == oFX; std::string msg = kMsg[sc.msg]; unsigned ov = (alt / 2 + (unsigned)n.leafno) % 4; if (sc.msg && (ov == 0 || ov == 2)) ov++;   // only the overloads taking a Reason can name a Switch case
          World *W = this; bool late_set = (alt & 4) != 0;   // alt bit2: FunctionAction(loop), the callable is handed over by setFunc()
          auto *f = late_set ? tap(new LeafTap<FunctionAction>(L), i) : nullptr;
          FunctionAction::Func f0([ok, stopper, W] { if (stopper) W->stopFromInside(); return ok; });
          FunctionAction::FuncWithReason f1([ok, msg, stopper, W](Action::Reason &r) { if (stopper) W->stopFromInside(); r.message = msg; return ok; });
          FunctionAction::FuncWithVars f2([ok, stopper, W](util::Variables &) { if (stopper) W->stopFromInside(); return ok; });
          FunctionAction::FuncWithReasonVars f3([ok, msg, stopper, W](Action::Reason &r, util::Variables &) { if (stopper) W->stopFromInside(); r.message = msg; return ok; });
          if (late_set) { if (ov == 0) f->setFunc(std::move(f0)); else if (ov == 1) f->setFunc(std::move(f1)); else if (ov == 2) f->setFunc(std::move(f2)); else f->setFunc(std::move(f3)); a = f; }
          else if (ov == 0) a = tap(new LeafTap<FunctionAction>(L, std::move(f0)), i);
          else if (ov == 1) a = tap(new LeafTap<FunctionAction>(L, std::move(f1)), i);
          else if (ov == 2) a = tap(new LeafTap<FunctionAction>(L, std::move(f2)), i);
          else a = tap(new LeafTap<FunctionAction>(L, std::move(f3)), i); }
        else { auto *l = new ProbeLeaf(L, this, i, sc); leaf[i] = l; a = l; } } break;
      case SEQ: { Tap<SequenceAction> *s; if (alt & 1) { s = tap(new Tap<SequenceAction>(L), i); s->setMode((SequenceAction::Mode)n.mode); } else s = tap(new Tap<SequenceAction>(L, (SequenceAction::Mode)n.mode), i);
        a = s; for (int c : n.ch) need(s->addChild(mk(c)) >= 0); } break;
      case PAR: { Tap<ParallelAction> *s; if (alt & 4) { s = tap(new Tap<ParallelAction>(L), i); s->setMode((ParallelAction::Mode)n.mode); } else s = tap(new Tap<ParallelAction>(L, (ParallelAction::Mode)n.mode), i); a = s; for (int c : n.ch) need(s->addChild(mk(c)) >= 0); } break;
      case IFELSE: { auto *s = tap(new Tap<IfElseAction>(L), i); a = s; for (size_t c = 0; c < n.ch.size(); c++) { std::string ro = role_of(n.k, n.var, (int)c); if (alt & 1) { if (ro == "then") ro = "succ"; else if (ro == "else") ro = "fail"; } need(s->setChildAs(mk(n.ch[c]), ro)); } } break;
      case IFTHEN: { auto *s = tap(new Tap<IfThenAction>(L), i); a = s; for (size_t c = 0; c < n.ch.size(); c++) need(s->addChildAs(mk(n.ch[c]), role_of(n.k, n.var, (int)c)) >= 0); } break;
      case SWITCH: { auto *s = tap(new Tap<SwitchAction>(L), i); a = s; for (size_t c = 0; c < n.ch.size(); c++) need(s->setChildAs(mk(n.ch[c]), role_of(n.k, n.var, (int)c))); } break;
      case LOOP: { if (alt & 1) { auto *s = (alt & 4) ? tap(new Tap<LoopAction>(L, mk(n.ch[0])), i) : tap(new Tap<LoopAction>(L, mk(n.ch[0]), (LoopAction::Mode)n.mode), i); if (alt & 4) s->setMode((LoopAction::Mode)n.mode); a = s; }
        else { auto *s = (alt & 4) ? tap(new Tap<LoopAction>(L), i) : tap(new Tap<LoopAction>(L, (LoopAction::Mode)n.mode), i); if (alt & 4) s->setMode((LoopAction::Mode)n.mode); a = s; need(s->setChild(mk(n.ch[0]))); } } break;
      case LOOPIF: { auto *s = tap(new Tap<LoopIfAction>(L), i); a = s; need(s->setChildAs(mk(n.ch[0]), "if")); need(s->setChildAs(mk(n.ch[1]), "exec")); if (alt % 3 == 1) s->setFinishResult(false); else if (alt % 3 == 2) s->setFinishResult(true); } break;
      case REPEAT: { if (n.var == 0) { auto *s = tap(new Tap<RepeatAction>(L), i); a = s; s->setMode((RepeatAction::Mode)n.mode); need(s->setChild(mk(n.ch[0]))); }   // never told how many times
        else if (alt % 3 == 1) a = tap(new Tap<RepeatAction>(L, mk(n.ch[0]), (size_t)n.var, (RepeatAction::Mode)n.mode), i);
        else if (alt % 3 == 2) { auto *s = tap(new Tap<RepeatAction>(L), i); a = s; s->setTimes((size_t)n.var); s->setMode((RepeatAction::Mode)n.mode); need(s->setChild(mk(n.ch[0]))); }
        else { auto *s = tap(new Tap<RepeatAction>(L, (size_t)n.var, (RepeatAction::Mode)n.mode), i); a = s; need(s->setChild(mk(n.ch[0]))); } } break;
      case WRAP: { if (alt & 1) { auto *s = (alt & 4) ? tap(new Tap<WrapperAction>(L, mk(n.ch[0])), i) : tap(new Tap<WrapperAction>(L, mk(n.ch[0]), (WrapperAction::Mode)n.mode), i); if (alt & 4) s->setMode((WrapperAction::Mode)n.mode); a = s; }
        else { auto *s = (alt & 4) ? tap(new Tap<WrapperAction>(L), i) : tap(new Tap<WrapperAction>(L, (WrapperAction::Mode)n.mode), i); if (alt & 4) s->setMode((WrapperAction::Mode)n.mode); a = s; need(s->setChild(mk(n.ch[0]))); } } break;
      case COMP: { auto *s = tap(new Tap<CompositeAction>(L, "Composite"), i); a = s; need(s->setChild(mk(n.ch[0]))); } break;
    }
    act[i] = a; return a;
  }
  // current configuration of the root (changed by reconfigure() between runs); every other node keeps the program's
  int root_mode = 0, root_times = 0;
  int modeOf(int i) const { return i == 0 ? root_mode : P.n[i].mode; }
  int timesOf(int i) const { return i == 0 ? root_times : P.n[i].var; }
  static int nmodes(int k) { return k == SEQ || k == PAR || k == LOOP || k == REPEAT ? 3 : k == WRAP ? 4 : 0; }
  void configureRoot(int mode, int times) {   // public setters on an idle tree
    int k = P.n[0].k; if (mode != root_mode) { root_mode = mode;
      if (k == SEQ) static_cast<SequenceAction *>(root)->setMode((SequenceAction::Mode)mode); else if (k == PAR) static_cast<ParallelAction *>(root)->setMode((ParallelAction::Mode)mode);
      else if (k == LOOP) static_cast<LoopAction *>(root)->setMode((LoopAction::Mode)mode); else if (k == REPEAT) static_cast<RepeatAction *>(root)->setMode((RepeatAction::Mode)mode);
      else if (k == WRAP) static_cast<WrapperAction *>(root)->setMode((WrapperAction::Mode)mode); }
    if (k == REPEAT && times != root_times) { root_times = times; static_cast<RepeatAction *>(root)->setTimes((size_t)times); } }
  void reconfigure() { int k = P.n[0].k; if (!(P.alt & 8) || !nmodes(k)) return; int m = (root_mode + 1) % nmodes(k), t = (k == REPEAT && root_times) ? 3 - root_times : root_times; tr("RECONF%d", m); configureRoot(m, t); }
  // a control call made from inside a start: a FunctionAction's function (or a probe leaf's onStart) stops the whole tree
  void stopFromInside() { tr("STOP!"); user_paused = false; if (root->isUnderway()) bump(0, 's'); root->stop(); }
  bool isSleep(int i) const { return P.n[i].k == LEAF && P.sc[P.n[i].leafno].out == oSL; }
  int loopIfResult() const { return P.alt % 3 == 1 ? R_FALSE : R_TRUE; }
  void install(int i) {   // observer callbacks carrying the node's current epoch
    int tag = ep[i];
    act[i]->setFinishCallback([this, i, tag](bool ok, const Action::Reason &r, const Action::Trace &t) { finishDelivered(i, tag, ok, r, t); });
    act[i]->setBlockCallback([this, i, tag](const Action::Reason &r, const Action::Trace &t) { blockDelivered(i, tag, r, t); });
  }
  void bump(int i, char why) { ep[i]++; epwhy[i] = why; install(i); }
  void build(int root_timeout = -1, int mode = -1, int times = -1) {    // root_timeout: -1 = as the program says, 0/1 = without/with a timeout on the root (fresh twin of a tree whose timeout was changed by an op)
    vnow = 1000000; Action::_id_alloc_counter_ = 0;
    act.assign(N, nullptr); leaf.assign(N, nullptr); of.resize(N); ob.resize(N); ep.assign(N, 0); finals.assign(N, 0); fdeliv.assign(N, 0); epwhy.assign(N, ' '); by_timeout.assign(N, 0); mon.assign(N, Mon());
    live.assign(N, 0); to_conf.assign(N, 0); t_arm.assign(N, 0); bcall.assign(N, 0); bdeliv.assign(N, 0); bgot.assign(N, 0);
    root_mode = P.n[0].mode; root_times = P.n[0].var; root = mk(0); if (mode >= 0) configureRoot(mode, times);
    for (int i = 0; i < N; i++) { if (i > 0) { of[i] = act[i]->finish_cb_; ob[i] = act[i]->block_cb_; } install(i);
      if (P.n[i].k != LEAF) static_cast<AssembleAction *>(act[i])->setFinalCallback([this, i] { finalHook(i); }); }
    for (int t : P.to_nodes) if (t > 0) { act[t]->setTimeout(std::chrono::milliseconds(T_MS)); to_conf[t] = 1; }
    if (root_timeout < 0 ? P.toOn(0) : root_timeout == 1) { root->setTimeout(std::chrono::milliseconds(T_MS)); to_conf[0] = 1; }
    if (!built_ok) V("composite-refuses-a-documented-child-or-role", "");
    else if (!root->isReady()) V("harness-tree-not-ready", "");
  }
  static void scrub() { g_cl->run_next_func_queue_.clear(); g_cl->tmp_func_queue_.clear(); g_cl->timer_min_heap_.clear(); }
  void destroy() { destroyed = true; delete root; root = nullptr; scrub(); }
  // destruction at an arbitrary moment (what ActionExecutor::cancel does): whatever the tree had queued or armed must be withdrawn by the destructors;
  // the loop then runs what is left. A notification that still arrives is stale, a task that touches the freed tree is reported by ASan.
  void destroyLive() {
    destroyed = true; trace += "destroy: "; delete root; root = nullptr;
    for (int r = 0; r < 3 && viol.empty(); r++) {
      if (!g_cl->timer_min_heap_.empty()) { V("timer-left-armed-after-destroy", "the destroyed tree left " + std::to_string(g_cl->timer_min_heap_.size()) + " timer(s) armed on the loop"); break; }
      g_cl->handleNextFunc(); }
    scrub();
  }

  // ---------------------------------------------------------------- monitors (result oracle)
  std::string exp_str(const Mon &m) { char b[64]; const char *t[] = {"wait-for-child", "start-child", "start-all-children", "finish"}; snprintf(b, sizeof b, "%s(child=%d,result=%s)", t[m.exp], m.ec, m.er == R_ANY ? "any" : m.er ? "true" : "false"); return b; }
  void nodeStart(int i) { finals[i] = 0; fdeliv[i] = 0; by_timeout[i] = 0; t_arm[i] = vnow; bcall[i] = bdeliv[i] = bgot[i] = 0; Mon m; m.started = true; const Node &n = P.n[i];
    if (n.k != LEAF && n.ch.empty()) { m.exp = E_FIN; m.er = R_TRUE; }   // no children: Sequence's loop body never runs (`return true`), Parallel has nothing to wait for (its result is always true)
    else if (n.k == PAR) { m.exp = E_ALL; m.k = 0; } else if (n.k != LEAF) { m.exp = E_START; m.ec = 0; } if (n.k == REPEAT) m.remain = timesOf(i) ? timesOf(i) - 1 : (1 << 20); mon[i] = m; }
  void monChildStart(int i, int pos) { Mon &m = mon[i];
    if (m.exp == E_START && m.ec == pos) { m.exp = E_NONE; m.cur = pos; return; }
    if (m.exp == E_ALL && m.k == pos) { if (++m.k == (int)P.n[i].ch.size()) m.exp = E_NONE; return; }
    V(std::string(kKindLc[P.n[i].k]) + "-starts-child-out-of-documented-order", "node " + std::to_string(i) + " started child#" + std::to_string(pos) + " while the documented next step is " + exp_str(m) + " state=" + sname(act[i]->state())); }
  void monChildFinish(int i, int pos, bool ok, const std::string &msg, bool paused) {
    Mon &m = mon[i]; const Node &n = P.n[i]; int nch = (int)n.ch.size(); const int mode = modeOf(i);
    auto fin = [&](int r) { m.exp = E_FIN; m.er = r; }; auto start = [&](int c) { m.exp = E_START; m.ec = c; };
    if (n.k == PAR) { if (m.rec[pos]) return; m.rec[pos] = ok ? 1 : 2; if (paused) m.dwp = true; if (m.exp == E_FIN) return;
      bool trig = (mode == 2 && ok) || (mode == 1 && !ok), all = true; for (int c = 0; c < nch; c++) if (!m.rec[c]) all = false;
      if (trig || all) fin(R_TRUE); return; }
    if (pos != m.cur || m.exp != E_NONE) return;    // not the child this node waits for
    switch (n.k) {
      case SEQ: if ((mode == 2 && ok) || (mode == 1 && !ok) || pos + 1 == nch) fin(ok); else start(pos + 1); break;
      case IFELSE: if (pos == 0) { int b = ok ? (n.var == 2 ? -1 : 1) : (n.var == 1 ? -1 : (n.var == 2 ? 1 : 2)); if (b < 0) fin(R_TRUE); else start(b); } else fin(ok); break;
      case IFTHEN: if (pos % 2 == 0) { if (ok) start(pos + 1); else if (pos + 2 < nch) start(pos + 2); else fin(R_FALSE); } else fin(ok); break;
      case SWITCH: if (pos == 0) { if (!ok) { fin(R_FALSE); break; } int tgt = -1, dflt = -1;
          for (int c = 1; c < nch; c++) { std::string ro = role_of(n.k, n.var, c); if (ro == "default") dflt = c; else if (ro == msg) tgt = c; }
          if (tgt < 0) tgt = dflt; if (tgt < 0) fin(R_FALSE); else start(tgt); } else fin(ok); break;
      case LOOP: if ((mode == 2 && ok) || (mode == 1 && !ok)) fin(R_ANY); else start(0); break;
      case LOOPIF: if (pos == 0) { if (ok) start(1); else fin(loopIfResult()); } else start(0); break;
      case REPEAT: if ((mode == 2 && ok) || (mode == 1 && !ok)) fin(ok); else if (m.remain > 0) { m.remain--; start(0); } else fin(mode == 0 ? R_TRUE : R_ANY); break;
      case WRAP: fin(mode == 0 ? ok : mode == 1 ? !ok : mode == 2 ? R_TRUE : R_FALSE); break;
      case COMP: fin(ok); break;
    }
  }

  // ---------------------------------------------------------------- observation points
  // life-cycle hooks (Tap<T> / ProbeLeaf call them from inside the library's start()/stop()/reset()/finish())
  void hookStart(int i) {
    bool isleaf = P.n[i].k == LEAF; if (isleaf) tr("S%d", i);
    if (live[i]) V("child-started-again-while-previous-run-underway", std::string(isleaf ? "leaf " : "node ") + std::to_string(i));
    if (user_paused) V("node-started-while-the-tree-is-paused", std::string(isleaf ? "leaf " : "node ") + std::to_string(i) + " was started after pause() and before resume()/stop()/reset()");
    live[i] = 1;
    if (P.n[i].parent >= 0) monChildStart(P.n[i].parent, P.n[i].pos);
    nodeStart(i);
  }
  void hookStop(int i) { live[i] = 0; bump(i, 's'); }
  void hookReset(int i) { live[i] = 0; bump(i, 'r'); }
  void hookFinished(int i, bool ok) { live[i] = 0; if (P.n[i].k != LEAF) return; tr(ok ? "f%d+" : "f%d-", i);
    if (user_paused) V("leaf-completes-while-the-tree-is-paused", "library leaf " + std::to_string(i) + " finished after pause() and before resume()/stop()/reset()");
    int o = P.sc[P.n[i].leafno].out;    // library leaves: FunctionAction finishes with what its function returned, SleepAction with success (headers + FunctionAction/SleepAction tests)
    if ((o == oFP || o == oFM || o == oFX) && ok != (o != oFM)) V("function-leaf-result-differs-from-what-the-function-returned", "leaf " + std::to_string(i) + " function returned " + (o != oFM ? "true" : "false"));
    if (o == oSL && !ok) V("sleep-leaf-finished-with-failure", "leaf " + std::to_string(i)); }
  void finishDelivered(int i, int tag, bool ok, const Action::Reason &r, const Action::Trace &t) {
    if (destroyed) { V("notification-delivered-after-destroy", "finish notification of node " + std::to_string(i) + " runs after the tree was destroyed"); return; }
    tr(ok ? "F%d+" : "F%d-", i);
    std::string where = i == 0 ? "" : "-inner";
    if (tag != ep[i]) V(std::string("stale-finish-notification-after-") + (epwhy[i] == 's' ? "stop" : "reset") + where, "node " + std::to_string(i) + " delivered the finish notification of an earlier run");
    if (++fdeliv[i] > 1) V(i == 0 ? "root-finish-callback-more-than-once-per-run" : "finish-notification-delivered-twice-per-run", "node " + std::to_string(i));
    if (i == 0) { if (root->state() == St::kFinished && ok != (root->result() == Action::Result::kSuccess)) V("root-finish-callback-disagrees-with-result", "");
      if (restart_armed && viol.empty() && tag == ep[0]) { restart_armed = false; tr("RESTART"); resetRoot(); if (viol.empty()) root->start(); }
      if (delete_armed && viol.empty() && tag == ep[0]) { delete_armed = false; tr("DELETE"); gone = destroyed = true; delete root; root = nullptr; return; } }
    else { int p = P.n[i].parent; St ps = act[p]->state(); if (underway(ps) && viol.empty()) monChildFinish(p, P.n[i].pos, ok, r.message, ps == St::kPause); if (of[i]) of[i](ok, r, t); }
    scan();
  }
  void blockDelivered(int i, int tag, const Action::Reason &r, const Action::Trace &t) {
    if (destroyed) { V("notification-delivered-after-destroy", "block notification of node " + std::to_string(i) + " runs after the tree was destroyed"); return; }
    tr("B%d", i);
    std::string where = i == 0 ? "" : "-inner";
    if (tag != ep[i]) V(std::string("stale-block-notification-after-") + (epwhy[i] == 's' ? "stop" : "reset") + where, "node " + std::to_string(i) + " delivered the block notification of a run that was " + (epwhy[i] == 's' ? "stopped" : "reset"));
    if (tag == ep[i]) { bdeliv[i]++;    // every block notification has a cause: a block() call of the leaf itself / a block notification received from a child
      int have = P.n[i].k == LEAF ? (leaf[i] ? bcall[i] : 0) : bgot[i];
      if (bdeliv[i] > have) V("block-notification-without-a-cause", "node " + std::to_string(i) + " delivered " + std::to_string(bdeliv[i]) + " block notification(s) in this run but " + (P.n[i].k == LEAF ? "called block() " : "received ") + std::to_string(have));
      if (i > 0 && underway(act[P.n[i].parent]->state())) bgot[P.n[i].parent]++; }
    if (i > 0 && ob[i]) ob[i](r, t);
    scan();
  }
  void finalHook(int i) {
    if (destroyed) return;
    tr("X%d", i); St s = act[i]->state();
    if (s != St::kFinished && s != St::kStoped) V("final-hook-in-wrong-state", "node " + std::to_string(i) + " " + sname(s));
    if (++finals[i] > 1) V("final-hook-more-than-once-per-run", "node " + std::to_string(i));
  }
  void descend(int i, std::vector<int> &out) { for (int c : P.n[i].ch) { out.push_back(c); descend(c, out); } }
  void scan() {
    if (!viol.empty() || gone) return;
    for (int i = 0; i < N; i++) { St s = act[i]->state();
      if (s == St::kFinished || s == St::kStoped) {
        if (finals[i] != 1) { V(std::string("final-hook-not-run-after-") + (s == St::kFinished ? "finish" : "stop"), "node " + std::to_string(i) + " finals=" + std::to_string(finals[i])); return; }
        std::vector<int> d; descend(i, d);
        for (int c : d) if (act[c]->isUnderway()) { V(std::string("descendant-left-underway-after-") + (by_timeout[i] ? "timeout-finish" : s == St::kFinished ? "finish" : "stop") + "-of-" + (by_timeout[i] && P.n[i].k != PAR ? "serial-composite" : kKind[P.n[i].k]),   // the serial composites share SerialAssembleAction
              "node " + std::to_string(i) + "(" + kKind[P.n[i].k] + ") is " + sname(s) + " but descendant " + std::to_string(c) + " is " + sname(act[c]->state())); return; }
        for (int c : d) if (live[c]) { V(std::string("descendant-run-not-ended-after-") + (s == St::kFinished ? "finish" : "stop"), "node " + std::to_string(i) + "(" + kKind[P.n[i].k] + ") is " + sname(s) + " but the run of descendant " + std::to_string(c) + " was never ended by finish/stop/reset (implementation state " + sname(act[c]->state()) + ")"); return; }
      }
      // pause oracle: between an accepted pause() of the root and the next resume/stop/reset nothing below the root is running and no paused SleepAction counts down.
      // The general form (ANY paused node, also one paused by a block) does not hold on the unchanged code - see g_pause_any - and is off by default.
      if (s == St::kPause && ((user_paused && i == 0) || g_pause_any || (user_paused && P.n[i].k == LEAF))) {
        if (P.n[i].k != LEAF) { std::vector<int> d; descend(i, d); for (int c : d) if (act[c]->state() == St::kRunning) { V(std::string("descendant-left-running-below-paused-") + (P.n[i].k == PAR ? "Parallel" : "serial-composite"), "node " + std::to_string(i) + "(" + kKind[P.n[i].k] + ") is paused but descendant " + std::to_string(c) + " is running"); return; } }
        else if (isSleep(i) && expiry(static_cast<SleepAction *>(act[i])->timer_) != -1) { V("paused-sleep-leaf-keeps-its-timer-armed", "leaf " + std::to_string(i)); return; } }
      if (s == St::kIdle) { std::vector<int> d; descend(i, d); for (int c : d) if (act[c]->state() != St::kIdle) { V("descendant-not-idle-below-idle-node", "node " + std::to_string(i) + " idle, descendant " + std::to_string(c) + " " + sname(act[c]->state())); return; } }
      if (s == St::kFinished && P.n[i].k != LEAF && !by_timeout[i] && !mon[i].done) { Mon &m = mon[i]; m.done = true;
        if (m.exp != E_FIN) { V(std::string(kKindLc[P.n[i].k]) + "-finished-without-documented-cause", "node " + std::to_string(i) + " finished while the documented next step is " + exp_str(m)); return; }
        if (m.er != R_ANY && (act[i]->result() == Action::Result::kSuccess) != (m.er == R_TRUE)) { V(std::string(kKindLc[P.n[i].k]) + "-wrong-result", "node " + std::to_string(i) + " result=" + ToString(act[i]->result()) + " documented=" + (m.er ? "true" : "false")); return; } }
    }
  }
  void snapshot() { if (quiet_trace) return; if (gone) { trace += "|gone "; return; } trace += '|'; for (int i = 0; i < N; i++) { trace += sc(act[i]->state()); trace += "usf"[(int)act[i]->result()]; } trace += ' '; }

  // ---------------------------------------------------------------- operations
  // timers: every timer of the loop belongs to the tree (action timeouts, SleepAction)
  static long long heapMin() { return g_cl->timer_min_heap_.empty() ? -1 : (long long)g_cl->timer_min_heap_.front()->expired; }
  bool timerDue() { long long m = heapMin(); return m >= 0 && m <= vnow; }
  bool timerArmed() { long long m = heapMin(); return m >= 0 && m > vnow; }
  static long long expiry(event::TimerEvent *t) {   // -1: no timer / not armed
    if (!t || !t->isEnabled()) return -1; auto *ti = static_cast<event::TimerEventImpl *>(t); auto *tm = g_cl->timer_cabinet_.at(ti->token_); return tm ? (long long)tm->expired : -2; }
  long long sleepExpiry() { long long m = -1; for (int i = 0; i < N; i++) if (isSleep(i)) { long long e = expiry(static_cast<SleepAction *>(act[i])->timer_); if (e >= 0 && (m < 0 || e < m)) m = e; } return m; }
  void passGone() {   // the tree was deleted from inside its finish notification
    if (!g_cl->timer_min_heap_.empty()) { V("timer-left-armed-after-destroy", "the tree deleted in its finish callback left " + std::to_string(g_cl->timer_min_heap_.size()) + " timer(s) armed on the loop"); scrub(); return; }
    g_cl->handleNextFunc(); }
  void pass() {
    if (gone) { passGone(); return; }
    g_loop->runNext([this] { if (gone) return; for (int i = 0; i < N; i++) if (leaf[i]) leaf[i]->tick(); scan(); });   // leaf completions happen inside the loop, after the already queued notifications
    std::vector<char> before(N); for (int i = 0; i < N; i++) before[i] = (char)act[i]->state();
    g_cl->handleExpiredTimers();
    // a composite that finishes inside the timer phase can only have been finished by its own timeout (child notifications travel through the task queue).
    // The model is deliberately permissive about WHEN (pause/resume/block re-arm details are not documented): a timeout must be configured on that
    // node and at least the full span must have passed since the run started / the timeout was set; a withdrawn timeout must never fire.
    // (a probe leaf completes only from the task queue, so for it the same holds)
    for (int i = 0; i < N && viol.empty(); i++) if ((P.n[i].k != LEAF || leaf[i]) && act[i]->state() == St::kFinished && before[i] != (char)St::kFinished) {
      if (to_conf[i] && vnow - t_arm[i] >= T_MS) { by_timeout[i] = 1; if (i == 0) tr("TIMEOUT"); else tr("TIMEOUT%d", i); }
      else V("timeout-fires-although-not-armed", "node " + std::to_string(i) + " was finished from a timer callback; timeout configured=" + std::to_string((int)to_conf[i]) + ", " + std::to_string(vnow - t_arm[i]) + " ms after its run started / the timeout was set"); }
    scan();
    if (!stale_ids.empty()) for (auto &it : g_cl->run_next_func_queue_) if (stale_ids.count(VF_GET(id, it, (event::Loop::RunId)0))) stale_replay_ran = true;
    g_cl->handleNextFunc();
    scan();
  }
  void resetRoot() {
    user_paused = false; if (root->state() != St::kIdle) bump(0, 'r'); root->reset();
    for (auto &it : g_cl->run_next_func_queue_) if (VF_GET(what, it, std::string("?")).empty()) stale_ids.insert(VF_GET(id, it, (event::Loop::RunId)0));
    for (int i = 0; i < N && viol.empty(); i++) if (act[i]->state() != St::kIdle || act[i]->result() != Action::Result::kUnsure) V("reset-leaves-node-not-idle", "node " + std::to_string(i) + " " + sname(act[i]->state()));
  }
  enum { O_START, O_PAUSE, O_RESUME, O_STOP, O_RESET, O_PASS, O_ADV, O_SETTO, O_RSTTO, O_ADV7 };
  void op(int o) {
    static const char *n[] = {"start", "pause", "resume", "stop", "reset", "pass", "advance", "set-timeout", "reset-timeout", "advance+7"};
    trace += n[o]; trace += ": ";
    if (gone && o != O_PASS) { snapshot(); return; }    // nothing left to call
    switch (o) {
      case O_START: root->start(); break;
      case O_PAUSE: { bool was_running = root->state() == St::kRunning; bool acc = root->pause(); if (was_running && acc) user_paused = true; } break;
      case O_RESUME: user_paused = false; root->resume(); break;
      case O_STOP: user_paused = false; if (root->isUnderway()) bump(0, 's'); root->stop(); break;
      case O_RESET: resetRoot(); reconfigure(); break;
      case O_ADV7: { long long m = heapMin(); if (m > vnow) vnow = m + 7; } break;   // the loop wakes up late: the clock has passed the earliest armed timer by 7 ms
      case O_PASS: pass(); break;
      case O_ADV: { long long m = heapMin(); if (m > vnow) vnow = m; } break;    // to the instant of the earliest armed timer (root/inner timeout, SleepAction)
      case O_SETTO: root->setTimeout(std::chrono::milliseconds(T_MS)); to_conf[0] = 1; t_arm[0] = vnow; break;
      case O_RSTTO: root->resetTimeout(); to_conf[0] = 0; break;
    }
    scan(); snapshot();
  }
  bool queueEmpty() { return g_cl->run_next_func_queue_.empty(); }
  bool quiescent() { if (gone) return queueEmpty(); if (!queueEmpty() || timerDue()) return false; for (int i = 0; i < N; i++) if (leaf[i] && leaf[i]->pending()) return false; return true; }

  // calls the base class answers without doing anything in the current state must leave everything unchanged
  void probes() {
    std::string c0 = canon_impl(); size_t t0 = trace.size(); St s = root->state(); bool bad = false;
    switch (s) {
      case St::kRunning: bad = !root->start() || !root->resume(); break;
      case St::kPause: bad = !root->pause() || root->start(); break;
      case St::kFinished: case St::kStoped: bad = !root->stop() || root->start() || root->pause() || root->resume(); break;
      case St::kIdle: bad = !root->stop() || root->pause() || root->resume(); root->reset(); break;
    }
    if (bad) V("noop-call-wrong-answer", std::string("root ") + sname(s));
    else if (canon_impl() != c0 || trace.size() != t0) V("noop-call-changed-state", std::string("root ") + sname(s));
  }

  // drain: can the tree complete? then the root must finish (exactly one callback)
  bool anyLoopUnderway() { for (int i = 0; i < N; i++) if ((P.n[i].k == LOOP || P.n[i].k == LOOPIF || (P.n[i].k == REPEAT && timesOf(i) == 0)) && act[i]->isUnderway()) return true; return false; }
  void explain(int i) {   // node i is under way and nothing is pending anywhere: it must be waiting for a `never` leaf
    if (!viol.empty()) return; St s = act[i]->state(); const Node &n = P.n[i]; std::string ni = "node " + std::to_string(i) + "(" + kKind[n.k] + ")";
    if (s == St::kPause) { V("descendant-left-paused-while-root-running", ni); return; }
    if (n.k == LEAF) { if (isSleep(i)) V("sleep-leaf-under-way-but-its-timer-is-not-armed", ni + " can never complete");
      else if (!leaf[i] || leaf[i]->what != 0) V("harness-leaf-running-but-not-armed", ni); return; }
    Mon &m = mon[i];
    if (m.exp != E_NONE) { if (n.k == PAR && m.dwp && m.exp == E_FIN) V("parallel-drops-child-finish-while-paused", ni + " got a child's finish notification while paused and never accounts for it: all documented conditions to finish hold, nothing is pending, state=running");
      else V(std::string(kKindLc[n.k]) + "-stuck-documented-step-not-performed", ni + " documented next step " + exp_str(m) + " was never performed, nothing is pending"); return; }
    std::vector<int> awaited; if (n.k == PAR) { for (size_t c = 0; c < n.ch.size(); c++) if (!m.rec[c]) awaited.push_back(n.ch[c]); } else if (m.cur >= 0) awaited.push_back(n.ch[m.cur]);
    for (int c : awaited) { St cs = act[c]->state();
      if (underway(cs)) explain(c);
      else if (cs == St::kFinished) V("child-finish-notification-lost", ni + " waits for child " + std::to_string(c) + " which is finished; its notification was never delivered and nothing is pending");
      else V(std::string(kKindLc[n.k]) + "-waits-for-child-that-is-not-underway", ni + " child " + std::to_string(c) + " is " + sname(cs));
      if (!viol.empty()) return; }
  }
  void epilogue() {
    if (gone) { trace += "after-delete: "; for (int j = 0; j < 3 && viol.empty(); j++) passGone(); end_status = "deleted-in-finish-callback"; return; }
    trace += "drain: "; const int K = 48; bool stuck = false; int k = 0;
    for (; k < K && viol.empty(); k++) {
      if (!root->isUnderway()) break;
      if (root->state() == St::kPause) { trace += "resume "; user_paused = false; root->resume(); scan(); if (!viol.empty() || !root->isUnderway()) break; }
      if (gone) { epilogue(); return; }
      if (quiescent()) { long long se = sleepExpiry(); if (se < 0) { stuck = true; break; } if (se > vnow) vnow = se; }   // only a sleeping SleepAction is waited for (a pending timeout is not: `never` leaves must stay visible)
      pass(); if (gone) { epilogue(); return; }         // (no per-pass snapshot in the drain: a pass that runs a deferred task without any observable effect must not count as a difference)
    }
    if (!viol.empty()) return;
    if (!root->isUnderway()) {
      for (int j = 0; j < 8 && viol.empty() && !quiescent() && !gone; j++) pass();    // flush
      if (gone) { epilogue(); return; }
      snapshot();
      if (!viol.empty()) return;
      if (root->state() == St::kFinished && fdeliv[0] != 1) V("root-finish-callback-not-delivered-exactly-once", "delivered " + std::to_string(fdeliv[0]) + " times, root finished");
      end_status = root->state() == St::kFinished ? (by_timeout[0] ? "finished-by-timeout" : root->result() == Action::Result::kSuccess ? "finished-true" : "finished-false") : sname(root->state());
    } else if (stuck) { explain(0); end_status = "waits-for-never-leaf"; }
    else { if (!anyLoopUnderway()) V("root-not-finished-after-48-passes-without-a-loop", ""); end_status = "endless-loop"; }
  }

  // ---------------------------------------------------------------- canonical state
  std::string canon_impl() {
    std::string c; char b[96]; typedef std::chrono::steady_clock::time_point TP; typedef std::chrono::milliseconds MS;
    for (int i = 0; i < N; i++) { const Node &n = P.n[i]; Action *a = act[i]; c += sc(a->state()); c += "usf"[(int)a->result()];
      if (n.k == LEAF && !leaf[i]) { if (isSleep(i)) { auto *sl = static_cast<SleepAction *>(a); long long e = expiry(sl->timer_); snprintf(b, sizeof b, "t%lld", e < 0 ? e : e - vnow); c += b;
          if (a->isUnderway()) { long long ft = std::chrono::duration_cast<MS>(VF_GET(finish_time_, *sl, TP()).time_since_epoch()).count() - vnow; snprintf(b, sizeof b, "f%lld", std::max(-999LL, std::min(999LL, ft))); c += b; }
          if (a->state() == St::kPause) { snprintf(b, sizeof b, "r%lld", (long long)VF_GET(remain_time_span_, *sl, MS(0)).count()); c += b; } } }
      else if (n.k == LEAF) { ProbeLeaf *l = leaf[i]; bool flip = l->sc.out == oSF || l->sc.out == oFS; snprintf(b, sizeof b, "%d%d%d%d%d%d", l->remaining, l->what, (int)l->blocked, (int)l->active, flip ? std::min(l->runs, 1) : 0, l->nblocks); c += b; }
      else if (n.k == PAR) { auto fc = VF_GET(finished_children_, *static_cast<ParallelAction *>(a), (std::map<int, bool>())); for (auto &kv : fc) { snprintf(b, sizeof b, "%d%c", kv.first, kv.second ? '+' : '-'); c += b; } }
      else { auto *s = static_cast<SerialAssembleAction *>(a); Action *ca = VF_GET(curr_action_, *s, (Action *)nullptr); int cur = -1; for (size_t k = 0; k < n.ch.size(); k++) if (act[n.ch[k]] == ca) cur = (int)k; if (ca && cur < 0) cur = 9;
        long extra = n.k == SEQ ? VF_GET(index_, *static_cast<SequenceAction *>(a), 0L) : n.k == IFTHEN ? VF_GET(index_, *static_cast<IfThenAction *>(a), 0L) : n.k == REPEAT ? (long)std::min<size_t>(VF_GET(remain_times_, *static_cast<RepeatAction *>(a), (size_t)0), 9) : 0;
        snprintf(b, sizeof b, "c%d%c%ld", cur, VF_GET(child_finish_func_, *s, false) ? 'h' : '.', extra); c += b; }
      if (event::TimerEvent *te = VF_GET(timer_ev_, *a, (event::TimerEvent *)nullptr)) { long long e = expiry(te); snprintf(b, sizeof b, "T%lld", e < 0 ? e : e - vnow); c += b; }
      c += ','; }
    c += "Q:"; for (auto &it : g_cl->run_next_func_queue_) { std::string wt = VF_GET(what, it, std::string("?")); c += wt.empty() ? "anon" : wt; c += ';'; }
    return c;
  }
  std::string canon() {
    if (gone) { std::string c = "gone Q:"; for (auto &it : g_cl->run_next_func_queue_) { c += VF_GET(what, it, std::string("?")); c += ';'; } return c; }
    std::string c = canon_impl(); char b[96]; c += "#";
    for (int i = 0; i < N; i++) { Mon &m = mon[i]; snprintf(b, sizeof b, "%d%d%d%d%d%d%d%d%d%d%d%d%d%d%d;", m.exp, m.ec + 1, m.er, m.cur + 1, std::min(m.remain, 9), m.k, m.rec[0], m.rec[1], m.rec[2], m.rec[3], (int)m.dwp, (int)m.done, std::min(finals[i], 2), std::min(fdeliv[i], 2), (int)by_timeout[i]); c += b;
      if (i == 0) { c += (char)('0' + root_mode); c += (char)('0' + std::min(root_times, 9)); } if (i == 0 && restart_armed) c += 'R'; if (i == 0 && user_paused) c += 'U'; c += live[i] ? 'L' : '.'; c += (char)('0' + std::min(bcall[i], 3)); c += (char)('0' + std::min(bdeliv[i], 3)); c += (char)('0' + std::min(bgot[i], 3)); if (to_conf[i]) c += (vnow - t_arm[i] >= T_MS) ? "C+" : "C-"; }
    return c;
  }
};

void ProbeLeaf::onStart() {
  Action::onStart(); w->hookStart(ni);
  active = true; blocked = false; runs++;
  int o = sc.out; if (o == oSF) o = runs == 1 ? oS : oF; else if (o == oFS) o = runs == 1 ? oF : oS; else if (o == oLS) o = oS; else if (o == oLF) o = oF; else if (o == oLB || o == oBB) o = oB; else if (o == oSX) { o = oS; w->stopFromInside(); }
  what = o == oS ? 1 : o == oF ? 2 : o == oB ? 3 : 0; remaining = -1; nblocks = 0;
  if (what) arm(sc.delay);
}
void ProbeLeaf::onFinished(bool ok, const Reason &r, const Trace &t) { active = false; blocked = false; remaining = -1; w->live[ni] = 0; Action::onFinished(ok, r, t); }
void ProbeLeaf::fire() {
  remaining = -1; int wh = what;
  if (w->user_paused && !late()) w->V("leaf-completes-while-the-tree-is-paused", "leaf " + std::to_string(ni) + " was still counting down and " + (wh == 3 ? "blocked" : "finished") + " after pause() and before resume()/stop()/reset()");
  if (wh == 3) { St before = state(); bool over = before == St::kStoped || before == St::kFinished;   // only a late leaf gets here when its run is over
    what = (sc.out == oBB && ++nblocks < 2) ? 3 : 1; w->tr("b%d", ni); bool acc = block(Reason(1000, "probe-block")); blocked = acc; if (acc) w->bcall[ni]++;
    if (over && (acc || state() != before)) w->V("block-accepted-after-the-run-was-over", "leaf " + std::to_string(ni) + " called block() while " + World::sname(before) + ": returned " + (acc ? "true" : "false") + ", state now " + World::sname(state()));
    if (!over && !acc) w->V("block-refused-while-under-way", "leaf " + std::to_string(ni) + " called block() while " + World::sname(before)); }
  else { St before = state(); bool over = before == St::kStoped || before == St::kFinished;   // only a late leaf gets here when its run is over
    active = false; if (!over) w->live[ni] = 0; w->tr(wh == 1 ? "f%d+" : "f%d-", ni); bool acc = finish(wh == 1, Reason(1001, kMsg[sc.msg]));
    if (over && (acc || state() != before)) w->V("finish-accepted-after-the-run-was-over", "leaf " + std::to_string(ni) + " called finish() while " + World::sname(before) + ": returned " + (acc ? "true" : "false") + ", state now " + World::sname(state()));
    if (!over && !acc) w->V("finish-refused-while-under-way", "leaf " + std::to_string(ni) + " called finish() while " + World::sname(before)); }
}
void ProbeLeaf::onResume() { Action::onResume(); if (blocked) { blocked = false; arm(sc.delay); } }
void ProbeLeaf::onStop() { if (!late()) remaining = -1; blocked = false; active = false; w->hookStop(ni); Action::onStop(); }
void ProbeLeaf::onReset() { remaining = -1; blocked = false; active = false; w->hookReset(ni); Action::onReset(); }
void ProbeLeaf::onFinal() { w->finalHook(ni); }
template <class T> void Tap<T>::onStart() { w->hookStart(ni); T::onStart(); }
template <class T> void Tap<T>::onStop() { w->hookStop(ni); T::onStop(); }
template <class T> void Tap<T>::onReset() { w->hookReset(ni); T::onReset(); }
template <class T> void Tap<T>::onFinished(bool ok, const Action::Reason &r, const Action::Trace &t) { w->hookFinished(ni, ok); T::onFinished(ok, r, t); }
template <class T> void LeafTap<T>::onFinal() { this->w->finalHook(this->ni); T::onFinal(); }

// ------------------------------------------------------------------------------------------------ exploration
struct Op { int k; };
static const char *kOp[] = {"start", "pause", "resume", "stop", "reset", "pass", "advance-timeout", "set-timeout", "reset-timeout", "advance+7"};
static const int N_OPS = 10;
struct HInfo { uint8_t state, quiescent, queue_empty, timer_armed, to_conf, pending; };
static double g_deadline = 1e18; static bool g_stop = false; static long g_evals = 0;
static long T_states = 0, T_trans = 0, T_exec = 0, T_viol = 0, T_redet = 0, T_programs = 0, T_fix = 0, T_diff = 0, T_maxdepth = 0, T_destroy = 0;

static std::string hist_text(const std::vector<Op> &h) { std::string s; for (auto &o : h) { if (!s.empty()) s += ' '; s += kOp[o.k]; } return s.empty() ? "<empty>" : s; }
static void report(const Program &P, const std::vector<Op> &h, const std::string &viol, const std::string &trace) {
  std::string sig = viol.substr(0, viol.find(' ')); long &n = g_sig_count[sig]; n++;
  if (n > 3) return;
  std::string t = trace; if (t.size() > 1500) t = t.substr(0, 700) + " ... " + t.substr(t.size() - 700);
  g_out_lines.push_back("@VIOL sig=" + sig + " :: program#" + std::to_string(P.index) + " " + P.text + " ; history: " + hist_text(h) + " ; " + viol.substr(viol.find(' ') == std::string::npos ? viol.size() : viol.find(' ') + 1) +
                        " ; trace (S=leaf start f/b=leaf calls finish/block F/B=notification delivered X=final hook |=state,result of every node in preorder): " + t);
}

// evaluate one history on a fresh tree; returns the canonical state after the history (before the drain)
static std::string evaluate(const Program &P, const std::vector<Op> &h, std::string &viol, HInfo *info, std::string *full_trace = nullptr) {
  World A(P); A.build();
  int mark = -1, conf_at_mark = 0, mode_at_mark = 0, times_at_mark = 0; bool restart_at_mark = false; size_t markpos = 0; std::vector<int> runs_at_mark;
  for (size_t k = 0; k < h.size() && A.viol.empty(); k++) { A.op(h[k].k); if (h[k].k == World::O_RESET && !A.gone) { mark = (int)k; markpos = A.trace.size(); conf_at_mark = A.to_conf[0]; mode_at_mark = A.root_mode; times_at_mark = A.root_times; restart_at_mark = A.restart_armed; runs_at_mark.clear(); for (int i = 0; i < A.N; i++) runs_at_mark.push_back(A.leaf[i] ? A.leaf[i]->runs : 0); } }
  std::string canon = A.viol.empty() ? A.canon() : std::string("viol");
  if (vf_any_missing()) { canon += "~"; for (size_t k = h.size() > 3 ? h.size() - 3 : 0; k < h.size(); k++) canon += (char)('0' + h[k].k); }   // a probed key field is gone: tell apart by the last ops instead
  if (info) { info->state = A.gone ? 9 : (uint8_t)A.root->state(); info->quiescent = A.quiescent(); info->queue_empty = A.queueEmpty(); info->timer_armed = A.timerArmed(); info->to_conf = (uint8_t)A.to_conf[0];
    info->pending = !A.queueEmpty() || World::heapMin() >= 0; }
  if (A.viol.empty() && !A.gone) A.probes();
  if (A.viol.empty()) A.epilogue();
  std::string atrace = A.trace, aviol = A.viol, status = A.end_status; bool stale_replay = A.stale_replay_ran; A.destroy();
  if (aviol.empty() && mark >= 0) {   // differential oracle: continuation after the last reset == same continuation on a freshly built tree
    T_diff++;
    World B(P); B.build(conf_at_mark, mode_at_mark, times_at_mark); B.restart_armed = restart_at_mark; for (int i = 0; i < B.N; i++) if (B.leaf[i]) B.leaf[i]->runs = runs_at_mark[i];   // same environment: a leaf's outcome depends on how often it ran before
    for (size_t k = (size_t)mark + 1; k < h.size() && B.viol.empty(); k++) B.op(h[k].k);
    if (B.viol.empty() && !B.gone) B.probes();
    if (B.viol.empty()) B.epilogue();
    std::string btrace = B.trace; bool bv = !B.viol.empty(); bool both_endless = status == "endless-loop" && B.end_status == "endless-loop"; B.destroy();
    std::string acont = atrace.substr(markpos);
    // two endless loops are cut off after the same number of drain passes, not after the same number of rounds (the reset tree may spend a pass on a
    // housekeeping task of the loop that the fresh tree never had): compare what both have produced, provided that is most of it
    if (both_endless && acont != btrace) { size_t m = std::min(acont.size(), btrace.size()); if (m * 4 >= std::max(acont.size(), btrace.size()) * 3) { acont.resize(m); btrace.resize(m); } }
    if (!bv && acont != btrace) { size_t d = 0; while (d < acont.size() && d < btrace.size() && acont[d] == btrace[d]) d++;
      aviol = std::string(stale_replay ? "held-child-finish-replayed-after-reset [observed as reset-tree-differs-from-fresh-tree]" : "reset-tree-differs-from-fresh-tree") + " continuation after reset diverges at char " + std::to_string(d) + ": reset tree [..." + acont.substr(d > 30 ? d - 30 : 0, 90) + "] fresh tree [..." + btrace.substr(d > 30 ? d - 30 : 0, 90) + "]"; }
  }
  if (aviol.empty() && !status.empty()) g_outcomes.insert(std::string(kKind[P.n[0].k]) + (P.timeout == 1 ? "+timeout" : P.timeout == 2 ? "+inner-timeout" : "") + " ends " + status);
  if (full_trace) *full_trace = atrace;
  viol = aviol;
  if (!aviol.empty()) report(P, h, aviol, atrace);
  return canon;
}

// terminal op `destroy`: replay the history, then delete the tree as it is (queued notifications, held results, armed timers) and let the loop run on
static void destroy_probe(const Program &P, const std::vector<Op> &h, std::string &viol) {
  T_destroy++;
  World C(P); C.build(); C.quiet_trace = true;
  for (size_t k = 0; k < h.size() && C.viol.empty(); k++) C.op(h[k].k);
  if (!C.viol.empty() || C.gone) { C.destroy(); return; }     // (already reported by evaluate / already deleted by its own finish callback)
  hx::set_current("program#" + std::to_string(P.index) + " " + P.text + " ; history: " + hist_text(h) + " destroy");
  C.destroyLive();
  if (!C.viol.empty()) { viol = C.viol; std::vector<Op> h2 = h; report(P, h2, C.viol + " [history followed by: delete the tree, run the loop]", C.trace); }
}

static FILE *g_null;
static void explore_program(const Program &P, size_t depth) {
  hx::Explorer<Op> ex; ex.name = "program#" + std::to_string(P.index) + " " + P.text; ex.max_viol_print = 0;
  std::unordered_map<std::string, HInfo> info;
  auto key = [](const std::vector<Op> &h) { std::string s; for (auto &o : h) s += (char)('0' + o.k); return s; };
  ex.show = [](const Op &o) { return std::string(kOp[o.k]); };
  ex.menu = [&](const std::vector<Op> &h) {
    std::vector<Op> m;
    if (!g_stop && (++g_evals & 15) == 0 && real_now() > g_deadline) g_stop = true;    // the deadline is polled when a history is expanded: the layer under evaluation is finished
    if (g_stop) return m;
    auto it = info.find(key(h)); if (it == info.end()) { for (int k = 0; k < 7; k++) m.push_back(Op{k}); return m; }
    HInfo f = it->second; St s = (St)f.state;
    // calls that are answered without any effect in the current state (start while running, pause while paused, stop/pause/resume when not under
    // way, ...) are not expanded; they are issued as probes at the end of every history instead. A pass is expanded only if something is pending.
    switch (s) {
      case St::kIdle: m.push_back(Op{World::O_START}); break;
      case St::kRunning: m.push_back(Op{World::O_PAUSE}); m.push_back(Op{World::O_STOP}); m.push_back(Op{World::O_RESET}); break;
      case St::kPause: m.push_back(Op{World::O_RESUME}); m.push_back(Op{World::O_STOP}); m.push_back(Op{World::O_RESET}); break;
      case St::kFinished: case St::kStoped: m.push_back(Op{World::O_RESET}); break;
      default: break;   // (9: the tree deleted itself)
    }
    if (!f.quiescent) m.push_back(Op{World::O_PASS});
    if (f.timer_armed) m.push_back(Op{World::O_ADV});
    if (f.timer_armed && (g_lane == 'X' || g_lane == 'T')) m.push_back(Op{World::O_ADV7});
    if (g_lane == 'T' && (s == St::kRunning || s == St::kPause)) { m.push_back(Op{World::O_SETTO}); if (f.to_conf) m.push_back(Op{World::O_RSTTO}); }
    return m; };
  std::unordered_set<std::string> destroyed_at;
  ex.run = [&](const std::vector<Op> &h, std::string &viol) {
    HInfo f; std::string c = evaluate(P, h, viol, &f); info[key(h)] = f;
    if (viol.empty() && f.pending && destroyed_at.insert(c).second) destroy_probe(P, h, viol);    // once per canonical state that has something queued or armed
    return c; };
  FILE *real = stdout; stdout = g_null;     // Explorer's per-program protocol lines are aggregated below instead of printed once per program
  ex.explore(depth);
  fflush(g_null); stdout = real;
  T_states += ex.states; T_trans += ex.transitions; T_exec += ex.transitions + ex.redet + 1; T_viol += ex.violations; T_redet += ex.redet; T_programs++; T_fix += ex.fixpoint ? 1 : 0; T_maxdepth = std::max<long>(T_maxdepth, ex.maxdepth);
  for (auto &l : g_out_lines) puts(l.c_str()); g_out_lines.clear();
}

int main(int argc, char **argv) {
  std::string mode = argc > 1 ? argv[1] : "run";
  hx::install_crash_reporter("C17-crash");
  g_null = fopen("/dev/null", "w");
  g_loop = event::Loop::New(); g_cl = static_cast<event::CommonLoop *>(g_loop);
  if (mode == "list") { if (argc > 6) g_lane = argv[6][0]; Family fam(atoi(argv[4]), atoi(argv[3]), atoi(argv[2]), argc > 5 ? atoi(argv[5]) : 0); long n = 0; std::map<int, long> perw; fam.each([&](Program &p) { if (n < 100000) { Family::set_text(p); printf("%ld w=%d %s\n", p.index, p.weight, p.text.c_str()); } n++; perw[p.weight]++; return true; });
    printf("shapes=%zu programs=%ld total()=%ld\n", fam.shapes.size(), n, fam.total()); for (auto &kv : perw) printf("weight %d: %ld programs\n", kv.first, kv.second); return 0; }
  if (mode == "replay") { if (argc > 9) g_lane = argv[9][0]; Family fam(atoi(argv[5]), atoi(argv[4]), atoi(argv[3]), argc > 8 ? atoi(argv[8]) : 0); long want = atol(argv[6]); std::vector<Op> h; std::string hs = argc > 7 ? argv[7] : ""; size_t p = 0;
    while (p < hs.size()) { size_t q = hs.find(' ', p); if (q == std::string::npos) q = hs.size(); std::string tok = hs.substr(p, q - p); for (int k = 0; k < N_OPS; k++) if (tok == kOp[k]) h.push_back(Op{k}); p = q + 1; }
    fam.each([&](Program &P) { if (P.index != want) return true; Family::set_text(P); std::string viol, trace; HInfo f; std::string c = evaluate(P, h, viol, &f, &trace);
      printf("program#%ld %s\nhistory: %s\ntrace: %s\ncanon: %s\nviolation: %s\n", P.index, P.text.c_str(), hist_text(h).c_str(), trace.c_str(), c.c_str(), viol.empty() ? "none" : viol.c_str());
      if (viol.empty()) { std::string dv; destroy_probe(P, h, dv); printf("followed by destroy (delete the tree as it is, run the loop): %s\n", dv.empty() ? "none" : dv.c_str()); }
      return false; });
    return 0; }
  int part = atoi(argv[2]), nparts = atoi(argv[3]); size_t depth = (size_t)atoi(argv[4]); int maxw = atoi(argv[5]), maxc = atoi(argv[6]), maxd = atoi(argv[7]), mind = argc > 8 ? atoi(argv[8]) : 0; if (argc > 9) g_lane = argv[9][0];
  const char *e = getenv("VERIF_DEADLINE_S"); g_deadline = real_now() + (e ? atof(e) : 600);
  Family fam(maxd, maxc, maxw, mind);
  long last_index = -1, total = fam.total(), first_skipped = -1; int last_weight = -1; long samples = 0;
  fam.each([&](Program &P) {
    if (P.index % nparts != part) return true;
    if (g_stop) { if (first_skipped < 0) first_skipped = P.index; return false; }
    Family::set_text(P);
    if (samples < 2 && P.index >= nparts * 3) { samples++; std::string v, t; HInfo f; std::vector<Op> h; h.push_back(Op{0}); h.push_back(Op{5}); h.push_back(Op{1}); h.push_back(Op{5}); std::string c = evaluate(P, h, v, &f, &t); printf("@SAMPLE program#%ld %s ; history: %s ; trace: %s\n", P.index, P.text.c_str(), hist_text(h).c_str(), t.substr(0, 400).c_str()); g_out_lines.clear(); }
    explore_program(P, depth);
    if (g_stop) { if (first_skipped < 0) first_skipped = P.index; } else { last_index = P.index; last_weight = P.weight; }
    return true; });
  if (g_stop) printf("@CAP lane %c part %d/%d: deadline reached; programs are explored in canonical order, the first program of this partition that was not (completely) explored is #%ld of %ld (last complete one #%ld, weight class %d)\n", g_lane, part, nparts, first_skipped, total, last_index, last_weight);
  printf("@STAT states=%ld transitions=%ld executions=%ld violations=%ld replay_checks=%ld programs=%ld programs_reaching_fixpoint=%ld differential_runs=%ld destroy_runs=%ld\n", T_states, T_trans, T_exec + T_diff + T_destroy, T_viol, T_redet, T_programs, T_fix, T_diff, T_destroy);
  for (auto &kv : g_sig_count) printf("@STAT viol[%s]=%ld\n", kv.first.c_str(), kv.second);
  for (auto &o : g_outcomes) printf("@OUTCOME %s\n", o.c_str());
  printf("@INFO lane %c part %d/%d: family programs=%ld shapes=%zu (weight<=%d, composites<=%d, %d<=depth<=%d), explored here=%ld, history depth bound=%zu, deepest new state at depth %ld, last complete program #%ld\n", g_lane, part, nparts, total, fam.shapes.size(), maxw, maxc, mind, maxd, T_programs, depth, T_maxdepth, last_index);
  fflush(stdout);
  return 0;
}
