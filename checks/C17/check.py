import os, time, vf
PID = "C17"
# (history depth, max program weight, max composite nodes, max tree depth, deadline s, processes)
# thorough runs two canonical enumerations one after the other: A = all trees of depth <= 2 by weight (80 % of the time),
# B = the trees of depth exactly 3 (three nested composites, <= 2 plain leaves; weight class 6 of the same order) (20 %)
TIERS = {"quick": (6, 2, 1, 1, 40, 12), "thorough": (8, 5, 3, 2, 1100, 16)}
# side lanes (same harness, other program families / op menus), run next to enumeration A:  lane -> (history depth, max weight, max composites, max depth, min depth, processes)
#   X = one composite level over the library's own leaves (SleepAction 50 ms, FunctionAction, all overloads) and "late" probe leaves (complete although paused/stopped meanwhile)
#   N = two nested composites (one representative mode per kind, arity <= 2), leaves S0/F1 (+ one B1 / flip / a timeout on the INNER composite)
#   T = one composite level, root timeout set / set again / withdrawn while the tree is under way (ops set-timeout, reset-timeout)
#   R = one composite level (family A's shapes and leaves), the root's finish callback re-uses the tree once: reset(); start(); from inside the notification
LANES = {"quick": {"X": (6, 2, 1, 1, 0, 4), "N": (6, 4, 2, 2, 2, 4), "T": (6, 2, 1, 1, 0, 3), "R": (6, 1, 1, 1, 0, 4)},
         "thorough": {"X": (8, 3, 1, 1, 0, 5), "N": (8, 5, 2, 2, 2, 5), "T": (8, 3, 1, 1, 0, 2), "R": (8, 2, 1, 1, 0, 4)}}
ASAN = "detect_leaks=0:abort_on_error=0:quarantine_size_mb=32"
def replay(exe, path):
    """./check C17 --replay replays/C17/<tier>_<n>.replay : re-run every recorded (program, history) and print its full trace and verdict."""
    import re, subprocess
    tier = "thorough" if os.path.basename(path).startswith("thorough") else "quick"
    depth, maxw, maxc, maxd, dl, np = TIERS[tier]
    for line in open(path):
        m = re.match(r"(\S+) :: program#(\d+) (.*?) ; history: (.*?) ; ", line)
        if not m:
            continue
        lane = m.group(1)[0]
        if lane in LANES[tier]:
            d, w, c, dd, mind, _ = LANES[tier][lane]
            argv = [exe, "replay", str(d), str(w), str(c), str(dd), m.group(2), m.group(4), str(mind), lane]
        else:
            fam = [str(depth), "6", "3", "3"] if lane == "B" else [str(depth), str(maxw), str(maxc), str(maxd)]
            argv = [exe, "replay"] + fam + [m.group(2), m.group(4)] + (["3"] if lane == "B" else [])
        out = subprocess.run(argv, capture_output=True, env=dict(os.environ, ASAN_OPTIONS=ASAN)).stdout.decode()
        print(out.strip())
        if m.group(3) not in out:
            print("NOTE: program text differs from the recorded one (%s): the family parameters of the tier changed" % m.group(3))
        print()

def main(tier, args):
    t0 = time.time()
    exe = vf.build("C17/actions", [vf.VERIF + "/checks/C17/harness.cpp"],
                   vf.module_sources("flow/action.cpp", "flow/actions", "event", "util/variables.cpp", "util/string.cpp", "util/json.cpp"),
                   mode="asan", plain_srcs=[vf.VERIF + "/engine/sched/log_stub.cpp"])
    if args.replay:
        return replay(exe, args.replay)
    depth, maxw, maxc, maxd, dl, np = TIERS[tier]
    dl = int(os.environ.get("VERIF_DEADLINE_S", dl))
    res = vf.Result(); log = open(vf.BUILD + "/C17/log.txt", "w")
    parts = range(np) if not args.only else [int(args.only)]
    dl_a = dl if tier == "quick" else int(dl * 0.7)
    dl_b = 0 if tier == "quick" else int(dl * 0.15)
    def lanes(deadline):
        cmds = []
        for lane, (d, w, c, dd, mind, n) in sorted(LANES[tier].items()):
            cmds += [("%s:p%d" % (lane, i), [exe, "run", str(i), str(n), str(d), str(w), str(c), str(dd), str(mind), lane], {"VERIF_DEADLINE_S": str(deadline)}) for i in range(n)]
        return cmds
    cmds_a = [("A:p%d" % i, [exe, "run", str(i), str(np), str(depth), str(maxw), str(maxc), str(maxd)]) for i in parts]
    # quick: the side lanes run next to enumeration A (they are small); thorough: A, then B, then the side lanes, each with its share of the deadline
    vf.run_procs(res, cmds_a + (lanes(dl) if tier == "quick" and not args.only else []), env={"VERIF_DEADLINE_S": str(dl_a), "ASAN_OPTIONS": ASAN}, log=log)
    if tier != "quick":
        vf.run_procs(res, [("B:p%d" % i, [exe, "run", str(i), str(np), str(depth), "6", "3", "3", "3"]) for i in parts],
                     env={"VERIF_DEADLINE_S": str(dl_b), "ASAN_OPTIONS": ASAN}, log=log)
        if not args.only:
            vf.run_procs(res, lanes(dl - dl_a - dl_b), env={"ASAN_OPTIONS": ASAN}, log=log)
    # at most 3 replays per signature over all processes: the shortest ones (totals stay in counters viol[<sig>])
    best = {}
    for v in sorted(res.viols, key=lambda v: len(v[1])):
        best.setdefault(v[0], [])
        if len(best[v[0]]) < 3:
            best[v[0]].append(v)
    res.viols = [v for l in best.values() for v in l]
    shape = ("one composite level (every composite kind and mode over 1-4 leaves)" if maxd == 1 else
             "trees of depth <= %d with <= %d composite nodes (enumeration A) and, separately, the trees of depth 3 = three nested composites over <= 2 plain leaves (enumeration B)" % (maxd, maxc))
    vf.finish(PID, tier, res, t0,
              rule="enumeration A: programs = real tbox::flow action trees (every library class wrapped in a hook-announcing subclass; constructor / setter / role-alias "
                   "variant of each composite picked from the program index), %s, <= 4 ProbeLeaf leaves, enumerated canonically by weight <= %d "
                   "(shape weight 2*(composites-1)+(depth-1)+max(0,leaves-2); leaf script weight S0,S1,F0,F1=0, N,B1 and the "
                   "succeed-once/fail-once flips (below loops) =1, B0,S2,F2=2, B2 and delayed flips=3; root timeout=1; "
                   "Switch reason messages enumerated for free); Repeat times in {1,2}; for every program a BFS over all control "
                   "histories of start/pause/resume/stop/reset/pass/advance-to-the-earliest-armed-timer up to depth %d (calls that the base class answers "
                   "without effect in the current state are issued as probes at the end of every history instead of being expanded), "
                   "followed by a drain (resume + passes until nothing is pending) and, once per new canonical state with something queued or armed, by a terminal "
                   "destroy (delete the tree as it is, run the loop: no notification afterwards, no timer left, ASan); a pass = the body of one CommonLoop iteration on the real loop "
                   "under a virtual clock; oracles = structural invariants (finish callback once, no node started while its previous run is under way, nothing left under way below a finished/stopped "
                   "node, no stale notification after stop/reset by epoch tag on EVERY node, final hook once, reset-then-continue trace-equal to a fresh tree, "
                   "a tree that can complete does complete, a timeout fires only while configured and after its full span, between an accepted pause() of the root and the next "
                   "resume/stop/reset nothing starts, completes, blocks or runs below the root and no paused SleepAction is armed, block() is refused without effect after stop and "
                   "every block notification has a cause) + one reference monitor per composite applying the documented step function to the "
                   "notifications actually delivered; ASan/UBSan. Side lanes, same BFS and oracles (lane: history depth, weight bound): %s. "
                   "X = one composite level (+ Repeat without setTimes) over S0/F1 + at least one of the library's own leaves (SleepAction 50 ms both constructors, FunctionAction all four overloads by constructor or setFunc; results checked), "
                   "Fn! (a FunctionAction whose function stops the root from inside the start), late probe leaves whose finish()/block() arrives although paused/stopped meanwhile (LS1/LF1/LB1: refused after stop, "
                   "accepted while paused) and BB1 (blocks again after the resume), extra op advance+7 (the clock overshoots the earliest timer by 7 ms); "
                   "N = two nested composites (Sequence, Parallel, IfThen, Loop.UntilSucc, LoopIf, Repeat(2), Wrapper.Invert, Composite; arity <= 2) over S0/F1 + one of "
                   "B1 / fail-once flip / a 100 ms timeout on the inner composite, on root and inner composite together, or on the first leaf; inner Sequence/Parallel also without any child; T = 8 representative shapes over S1 + up to two of N/F1/B1/SleepAction, with and without an "
                   "initial root timeout, extra ops set-timeout (running or paused root, repeatable), reset-timeout and advance+7; R = lane A's programs of weight <= bound (+ Repeat without setTimes) whose root "
                   "finish callback acts from inside the notification, once: re-uses the tree (reset(); start()) or, by variant bit, deletes it (then three loop passes: nothing may arrive; ASan). "
                   "Zero-weight variants by program index: constructors / setMode on every kind that has it / setFunc / role aliases / LoopIf finish result, and re-configuration of the root "
                   "(next mode, Repeat times 1<->2) at every reset, followed by monitors and fresh twin"
                   % (shape, maxw, depth, ", ".join("%s: %d, %d" % (l, v[0], v[1]) for l, v in sorted(LANES[tier].items()))),
              assumptions=["a loop pass is modelled as handleExpiredTimers()+handleNextFunc() of the real CommonLoop (what runLoop(kForever) does per wake-up); "
                           "runLoop(kOnce) is not used because its exit path drains up to 100 rounds of deferred tasks and would hide the interleavings",
                           "control calls are applied to the root only, between passes; from inside callbacks only: reset+start or delete in the root's finish notification (lane R) and stop() of the root from a "
                           "FunctionAction's function that then returns (lane X, Fn!). NOT demanded (switches, default off, both fail on the unchanged code - reading questions): C17_STOP_IN_ONSTART_DELAYED=1 "
                           "(a leaf that stops the root in its onStart and completes later is left running below the stopped root: startThisAction() records the child only after start() returns) and "
                           "C17_PAUSE_ORACLE_ANY=1 (no running descendant below ANY paused node: a block notification still queued when the tree is paused and resumed turns the root kPause over a running leaf); "
                           "pause/resume/reset from inside a start and calls from final hooks are not explored; leaves complete from inside the loop (runNext), one pass before their notification is delivered",
                           "timeouts: WHEN a configured timeout may fire is modelled permissively (not before the full span since the run started or the timeout was set; pause/resume/block re-arming is "
                           "not documented and not compared); that an armed timeout does fire is not demanded; SleepAction durations are not compared, only that a sleeping leaf completes once its timer is due",
                           "ActionExecutor (priority queueing on top of whole trees) is not part of the closed system; what it does to a tree (pause/resume/stop/delete at any moment) is covered by the root ops and the terminal destroy",
                           "Repeat with times==0 is outside the family (DESIGN 5); results that are neither documented nor pinned (terminating Loop, Repeat running out of times in a Break mode) are not compared",
                           "the canonical state contains the `what` text of queued loop tasks but not their bound arguments (the result bit is still readable from the node)",
                           "thorough tier: programs beyond the index printed in caps_hit were not explored (deadline)"],
              extra={"family": {"history_depth": depth, "max_weight": maxw, "max_composites": maxc, "max_tree_depth": maxd, "processes": np, "deadline_s": dl,
                                "side_lanes": {l: {"history_depth": v[0], "max_weight": v[1], "max_composites": v[2], "max_tree_depth": v[3], "min_tree_depth": v[4], "processes": v[5]} for l, v in LANES[tier].items()}}})
