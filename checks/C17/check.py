import os, time, vf
PID = "C17"
# (history depth, max program weight, max composite nodes, max tree depth, deadline s, processes)
# thorough runs two canonical enumerations one after the other: A = all trees of depth <= 2 by weight (80 % of the time),
# B = the trees of depth exactly 3 (three nested composites, <= 2 plain leaves; weight class 6 of the same order) (20 %)
TIERS = {"quick": (6, 2, 1, 1, 40, 12), "thorough": (8, 5, 3, 2, 1100, 16)}
# side lanes (same harness, other program families / op menus), run next to enumeration A:  lane -> (history depth, max weight, max composites, max depth, min depth, processes)
#   X = one composite level over the library's own leaves (SleepAction 50 ms, FunctionAction, all overloads) and "late" probe leaves (complete although paused/stopped meanwhile)
#   N = two nested composites (one representative mode per kind, arity <= 2), leaves S0/F1 (+ one B1 / flip / a timeout on the INNER composite)
#   T = one composite level, root timeout set / set again / withdrawn while the tree is under way (ops set-timeout, reset-timeout)
LANES = {"quick": {"X": (6, 2, 1, 1, 0, 4), "N": (6, 4, 2, 2, 2, 4), "T": (7, 2, 1, 1, 0, 2)},
         "thorough": {"X": (7, 3, 1, 1, 0, 6), "N": (7, 5, 2, 2, 2, 6), "T": (8, 3, 1, 1, 0, 4)}}
ASAN = "detect_leaks=0:abort_on_error=0:quarantine_size_mb=32"
def replay(exe, path):
    """./check C17 --replay replays/C17/<tier>_<n>.replay : re-run every recorded (program, history) and print its full trace and verdict."""
    import re, subprocess
    tier = "thorough" if os.path.basename(path).startswith("thorough") else "quick"
    depth, maxw, maxc, maxd, dl, np = TIERS[tier]
    for line in open(path):
        m = re.match(r"(\S+) :: program#(\d+) (.*?) ; history: (.*?) ; ", line)
        if not m:
            continue
        lane = m.group(1)[0]
        if lane in LANES[tier]:
            d, w, c, dd, mind, _ = LANES[tier][lane]
            argv = [exe, "replay", str(d), str(w), str(c), str(dd), m.group(2), m.group(4), str(mind), lane]
        else:
            fam = [str(depth), "6", "3", "3"] if lane == "B" else [str(depth), str(maxw), str(maxc), str(maxd)]
            argv = [exe, "replay"] + fam + [m.group(2), m.group(4)] + (["3"] if lane == "B" else [])
        out = subprocess.run(argv, capture_output=True, env=dict(os.environ, ASAN_OPTIONS=ASAN)).stdout.decode()
        print(out.strip())
        if m.group(3) not in out:
            print("NOTE: program text differs from the recorded one (%s): the family parameters of the tier changed" % m.group(3))
        print()

def main(tier, args):
    t0 = time.time()
    exe = vf.build("C17/actions", [vf.VERIF + "/checks/C17/harness.cpp"],
                   vf.module_sources("flow/action.cpp", "flow/actions", "event", "util/variables.cpp", "util/string.cpp", "util/json.cpp"),
                   mode="asan", plain_srcs=[vf.VERIF + "/engine/sched/log_stub.cpp"])
    if args.replay:
        return replay(exe, args.replay)
    depth, maxw, maxc, maxd, dl, np = TIERS[tier]
    dl = int(os.environ.get("VERIF_DEADLINE_S", dl))
    res = vf.Result(); log = open(vf.BUILD + "/C17/log.txt", "w")
    parts = range(np) if not args.only else [int(args.only)]
    dl_a = dl if tier == "quick" else int(dl * 0.7)
    dl_b = 0 if tier == "quick" else int(dl * 0.15)
    def lanes(deadline):
        cmds = []
        for lane, (d, w, c, dd, mind, n) in sorted(LANES[tier].items()):
            cmds += [("%s:p%d" % (lane, i), [exe, "run", str(i), str(n), str(d), str(w), str(c), str(dd), str(mind), lane], {"VERIF_DEADLINE_S": str(deadline)}) for i in range(n)]
        return cmds
    cmds_a = [("A:p%d" % i, [exe, "run", str(i), str(np), str(depth), str(maxw), str(maxc), str(maxd)]) for i in parts]
    # quick: the side lanes run next to enumeration A (they are small); thorough: A, then B, then the side lanes, each with its share of the deadline
    vf.run_procs(res, cmds_a + (lanes(dl) if tier == "quick" and not args.only else []), env={"VERIF_DEADLINE_S": str(dl_a), "ASAN_OPTIONS": ASAN}, log=log)
    if tier != "quick":
        vf.run_procs(res, [("B:p%d" % i, [exe, "run", str(i), str(np), str(depth), "6", "3", "3", "3"]) for i in parts],
                     env={"VERIF_DEADLINE_S": str(dl_b), "ASAN_OPTIONS": ASAN}, log=log)
        if not args.only:
            vf.run_procs(res, lanes(dl - dl_a - dl_b), env={"ASAN_OPTIONS": ASAN}, log=log)
    # at most 3 replays per signature over all processes: the shortest ones (totals stay in counters viol[<sig>])
    best = {}
    for v in sorted(res.viols, key=lambda v: len(v[1])):
        best.setdefault(v[0], [])
        if len(best[v[0]]) < 3:
            best[v[0]].append(v)
    res.viols = [v for l in best.values() for v in l]
    shape = ("one composite level (every composite kind and mode over 1-4 leaves)" if maxd == 1 else
             "trees of depth <= %d with <= %d composite nodes (enumeration A) and, separately, the trees of depth 3 = three nested composites over <= 2 plain leaves (enumeration B)" % (maxd, maxc))
    vf.finish(PID, tier, res, t0,
              rule="programs = real tbox::flow action trees, %s, <= 4 ProbeLeaf leaves, enumerated canonically by weight <= %d "
                   "(shape weight 2*(composites-1)+(depth-1)+max(0,leaves-2); leaf script weight S0,S1,F0,F1=0, N,B1 and the "
                   "succeed-once/fail-once flips (below loops) =1, B0,S2,F2=2, B2 and delayed flips=3; root timeout=1; "
                   "Switch reason messages enumerated for free); Repeat times in {1,2}; for every program a BFS over all control "
                   "histories of start/pause/resume/stop/reset/pass/advance-timeout up to depth %d (calls that the base class answers "
                   "without effect in the current state are issued as probes at the end of every history instead of being expanded), "
                   "followed by a drain (resume + passes until nothing is pending); a pass = the body of one CommonLoop iteration on the real loop "
                   "under a virtual clock; oracles = structural invariants (finish callback once, nothing left under way below a finished/stopped "
                   "node, no stale notification after stop/reset by epoch tag, final hook once, reset-then-continue trace-equal to a fresh tree, "
                   "a tree that can complete does complete) + one reference monitor per composite applying the documented step function to the "
                   "notifications actually delivered; ASan/UBSan" % (shape, maxw, depth),
              assumptions=["a loop pass is modelled as handleExpiredTimers()+handleNextFunc() of the real CommonLoop (what runLoop(kForever) does per wake-up); "
                           "runLoop(kOnce) is not used because its exit path drains up to 100 rounds of deferred tasks and would hide the interleavings",
                           "control calls are applied to the root only, between passes; leaves complete from inside the loop (runNext), one pass before their notification is delivered",
                           "Repeat with times==0 is outside the family (DESIGN 5); results that are neither documented nor pinned (terminating Loop, Repeat running out of times in a Break mode) are not compared",
                           "the canonical state contains the `what` text of queued loop tasks but not their bound arguments (the result bit is still readable from the node)",
                           "thorough tier: programs beyond the index printed in caps_hit were not explored (deadline)"],
              extra={"family": {"history_depth": depth, "max_weight": maxw, "max_composites": maxc, "max_tree_depth": maxd, "processes": np, "deadline_s": dl}})
