import glob, os, time, vf
PID = "C16"
NPARTS = 16
def main(tier, args):
    t0 = time.time()
    exe = vf.build("C16/hsm", [vf.VERIF + "/checks/C16/harness.cpp"], vf.module_sources("flow/state_machine.cpp"),
                   mode="asan", plain_srcs=[vf.VERIF + "/engine/sched/log_stub.cpp"])
    # (machine cap, call-sequence depth, max nesting depth, deadline s)
    cap, depth, nest, dl = (20000, 5, 2, 45) if tier == "quick" else (250000, 7, 3, 1100)
    dl = int(os.environ.get("VERIF_DEADLINE_S", dl))
    res = vf.Result(); log = open(vf.BUILD + "/C16/log.txt", "w")
    for f in glob.glob(vf.BUILD + "/C16/hashes_*.bin"):
        os.remove(f)
    hf = [vf.BUILD + "/C16/hashes_%d.bin" % i for i in range(NPARTS)]
    parts = range(NPARTS) if not args.only else [int(args.only)]
    jobs = [("p%d" % i, [exe, str(i), str(NPARTS), str(cap), str(depth), str(nest), hf[i]]) for i in parts]
    # lanes: (tag, environment, machine cap, processes, max nesting depth, machine filter); 41 processes in the quick tier, as before round 2
    k = 1 if tier == "quick" else 2     # thorough: the small lanes get half their quick share (their machines are small; depth 7 is what costs)
    lanes = [("late", {"C16_TERM_LATE": "1"}, cap * 3 // 8, 6, nest, None),     # terminal state 0 and setInitState issued after states/routes/handlers
             ("idmap", {"C16_IDMAP": "1"}, cap // (8 * k), 2, nest, None),        # sparse / unordered / negative / INT_MAX ids; the initial state is not the lowest id
             ("badh", {"C16_BAD_HANDLER": "1"}, cap * 3 // 16, 3, nest, None),   # declining handlers return an id that names no state
             ("share", {"C16_SHARE_SUB": "1"}, min(cap * 9 // 50, 8000) // k, 1, nest, "share"),   # one sub-machine instance attached under two states (only machines that have such a pair)
             ("null1", {"C16_NULLS": "1"}, cap // (8 * k), 2, nest, None),       # half of the enter/exit/route actions nullptr, outermost machine without state-changed callback
             ("null2", {"C16_NULLS": "2"}, cap // (8 * k), 2, nest, None),       # the complementary half
             ("null3", {"C16_NULLS": "3"}, cap // (16 * k), 1, nest, None),      # no enter/exit/route action, no callback at all
             ("twoph", {"C16_TWO_PHASE": "1"}, cap // (8 * k), 2, nest, None),   # states; start();stop() on every machine; rest of the definition
             ("enum2h", {"C16_ENUM": "1", "C16_TWO_HANDLERS": "1", "C16_IDMAP": "1"}, cap // (8 * k), 2, nest, None)]   # templated enum overloads with translated ids; two specific handlers per state
    if nest < 3:     # nesting depth 3 only (double hand-back: grandchild and child terminate on one event), plain and combined with two other lanes
        lanes += [("deep", {}, cap // 10, 2, 3, "deep"), ("deepnull", {"C16_NULLS": "1"}, cap // 20, 1, 3, "deep"), ("deepbadh", {"C16_BAD_HANDLER": "1"}, cap // 20, 1, 3, "deep")]
    if not args.only:
        for tag, env, lcap, np_, nd, flt in lanes:
            hl = [vf.BUILD + "/C16/hashes_%s_%d.bin" % (tag, i) for i in range(np_)]
            jobs += [("%s%d" % (tag, i), [exe, str(i), str(np_), str(lcap), str(depth), str(nd), hl[i]] + ([flt] if flt else []), env) for i in range(np_)]
            hf = hf + hl
    vf.run_procs(res, jobs, env={"VERIF_DEADLINE_S": str(dl)}, log=log, jobs=24)
    vf.run_procs(res, [("merge", [exe, "merge"] + hf)], log=log)
    for f in hf:
        if os.path.exists(f):
            os.remove(f)
    # at most 3 replays per signature over all processes: the shortest ones (totals stay in counters viol[<sig>])
    best = {}
    for v in sorted(res.viols, key=lambda v: len(v[1])):
        best.setdefault(v[0], [])
        if len(best[v[0]]) < 3:
            best[v[0]].append(v)
    res.viols = [v for l in best.values() for v in l]
    st = res.stats
    vf.finish(PID, tier, res, t0,
              rule="PROGRAMS: every canonical StateMachine definition in order of weight (<=3 states + optional user-defined terminal state, events {1,2} + any, "
                   "<=3 routes/state over (event|any, target incl. terminal, guard none/true/false/flip-flop), per-state handlers for a specific event and for any event "
                   "returning -1 or an existing target, a sub-machine per state, nesting depth <=%d, optional setInitState(1) with states registered in descending order, plus the one-state machines "
                   "whose initial state does not exist (setInitState(7); setInitState(0) without a state 0: start() must fail, as top machine and as sub-machine, until the op setInitState(1) repairs them); "
                   "every machine is first started while it has no state at all (must fail and leave nothing behind); "
                   "weight = states+routes+guards+handlers+flags+sub-machines; canonical = all states reachable, numbered in discovery order, first specific event is 1), first %d machines "
                   "(see caps_hit for the weight reached). LANES on a share of that cap (same enumeration; shares of the quick tier, the thorough tier halves those below 3/16): 3/8 terminal state and setInitState issued after the routes that refer to them; "
                   "3/16 declining handlers return an id that names no state (event dropped, machine stays usable); 1/8 id translation (state ids 1000, 7, INT_MAX, event ids 65537, -5: sparse, negative, "
                   "first-registered/initial state is not the lowest id; the model keeps 1,2,3); 9/50 restricted to machines in which two states have the same sub-machine definition (weight <=7): both states "
                   "get ONE StateMachine instance; 1/8+1/8+1/16 enter/exit/route actions nullptr and state-changed callback not set "
                   "(two complementary halves by parity, then all of them); 1/8 two-phase definition (states, start();stop() on every machine, then terminal state, routes, handlers, sub-machines, "
                   "setInitState, callback); 1/8 every definition call, run() and observer through the templated enum overloads with translated ids, and every state with a specific handler has a second, declining handler for "
                   "the other event; quick tier only: 1/10 restricted to machines of nesting depth 3 (thorough has depth 3 everywhere) + 1/20 of those with null actions + 1/20 with bad handlers. "
                   "run(1) carries a payload pointer (Event::extra), run(2) uses the one-argument Event(id); every trace token records the payload seen and, for sub-machine callbacks, the observers of every ancestor. "
                   "HISTORIES: per machine BFS over call sequences of {start,run(1),run(2),stop,restart} x {plain, every action of a machine calls start/run(1)/run(2)/stop/restart on its own machine} "
                   "+ {start,run(1),run(2),stop} x {every action calls newState/addRoute/addEvent/setSubStateMachine with valid arguments on its own machine} + the op 'definition calls the reference "
                   "rejects in any phase' (duplicate newState, unknown from/to state, route/handler/sub-machine on a never-created state 0) on every machine of the hierarchy (35 ops; + setInitState(1) on the stopped unstartable machines where the hierarchy has one), "
                   "to depth %d, deduplicated on the observers of every machine of the hierarchy + guard parity + enter/exit ledger + which machines were repaired (states = distinct (machine, state) pairs; "
                   "transitions = evaluated call sequences, each replayed on a fresh real hierarchy; the must-fail definition calls are also issued once after every build; every evaluated sequence, "
                   "deduplicated or not, is followed by the epilogue restart; stop on the outermost machine and then start(); stop() directly on every other machine, under all oracles). ORACLE: reference interpreter written from state_machine.h + property statement "
                   "(+ pinned tests), compared step by step (guard/handler/exit/route/enter/state-changed trace incl. event id, payload and current/last/next/isRunning/isTerminated inside every action, "
                   "return value, observers of all machines after every call); enter/exit ledger balanced whenever the outermost machine is stopped (hence at the end of every sequence); re-entrant calls "
                   "(life-cycle and definition) rejected with state unchanged; definition calls the reference rejects return false and run no callback; ASan+UBSan; "
                   "distinct_nontrivial = distinct (trace+return value+observer) sequences (64-bit hashes, union over processes)" % (nest, cap, depth),
              assumptions=["handlers return -1 or an existing state id (other negative values are undocumented, DESIGN 1.7); the lane with an id that names no state expects the event to be dropped",
                           "re-entrant calls are made on the machine whose action is running, not on its parent or child (DESIGN 1.7)",
                           "hierarchies are trees, except in the shared lane where two states of ONE machine share a sub-machine instance; an instance shared between different parents or levels is not generated",
                           "the user-defined terminal state has enter/exit actions only (no routes, handlers or sub-machine); setInitState(0) is generated only when state 0 was never created",
                           "a state exists when newState() created it: a state 0 that was never created is a legal route target / handler result but cannot carry routes, handlers or a sub-machine (state_machine.h: addRoute fails when the state does not exist)",
                           "definition calls with valid arguments are demanded to fail only when made from inside an action of the machine (the statement); between calls on a running machine only the always-invalid ones are issued; "
                           "setInitState/setStateChangedCallback from inside actions, addEvent with a null handler and a second addEvent for the same (state,event) are not issued (header silent)",
                           "lastState() is taken to survive stop()/start() as in the code (header silent); stop order inner-first as pinned for terminated sub-machines (SubSMActionOrder)",
                           "event ids 1 and 2 are interchangeable (definitions whose first specific event is 2 are skipped as mirror images)",
                           "the enter/exit ledger counts states that have both actions (all states outside the null-action lanes)",
                           "distinct traces are counted through a 64-bit FNV-1a hash"],
              extra={"distinct_nontrivial": st.get("distinct_traces", 0), "distinct_traces": st.get("distinct_traces", 0),
                     "programs": st.get("machines", 0)})
