import glob, os, time, vf
PID = "C16"
NPARTS = 16
def main(tier, args):
    t0 = time.time()
    exe = vf.build("C16/hsm", [vf.VERIF + "/checks/C16/harness.cpp"], vf.module_sources("flow/state_machine.cpp"),
                   mode="asan", plain_srcs=[vf.VERIF + "/engine/sched/log_stub.cpp"])
    # (machine cap, call-sequence depth, max nesting depth, deadline s)
    cap, depth, nest, dl = (20000, 5, 2, 45) if tier == "quick" else (250000, 7, 3, 1100)
    dl = int(os.environ.get("VERIF_DEADLINE_S", dl))
    res = vf.Result(); log = open(vf.BUILD + "/C16/log.txt", "w")
    for f in glob.glob(vf.BUILD + "/C16/hashes_*.bin"):
        os.remove(f)
    hf = [vf.BUILD + "/C16/hashes_%d.bin" % i for i in range(NPARTS)]
    parts = range(NPARTS) if not args.only else [int(args.only)]
    jobs = [("p%d" % i, [exe, str(i), str(NPARTS), str(cap), str(depth), str(nest), hf[i]]) for i in parts]
    # second definition order: the user-defined terminal state is created after the routes that target it
    NL = 8; hl = [vf.BUILD + "/C16/hashes_late_%d.bin" % i for i in range(NL)]
    if not args.only:
        jobs += [("late%d" % i, [exe, str(i), str(NL), str(cap // 2), str(depth), str(nest), hl[i]], {"C16_TERM_LATE": "1"}) for i in range(NL)]
        hb = [vf.BUILD + "/C16/hashes_badh_%d.bin" % i for i in range(4)]
        jobs += [("badh%d" % i, [exe, str(i), "4", str(cap // 4), str(depth), str(nest), hb[i]], {"C16_BAD_HANDLER": "1"}) for i in range(4)]
        hf = hf + hl + hb
    vf.run_procs(res, jobs, env={"VERIF_DEADLINE_S": str(dl)}, log=log, jobs=24)
    vf.run_procs(res, [("merge", [exe, "merge"] + hf)], log=log)
    for f in hf:
        if os.path.exists(f):
            os.remove(f)
    # at most 3 replays per signature over all processes: the shortest ones (totals stay in counters viol[<sig>])
    best = {}
    for v in sorted(res.viols, key=lambda v: len(v[1])):
        best.setdefault(v[0], [])
        if len(best[v[0]]) < 3:
            best[v[0]].append(v)
    res.viols = [v for l in best.values() for v in l]
    st = res.stats
    vf.finish(PID, tier, res, t0,
              rule="PROGRAMS (plus a lane on a quarter of the cap in which declining handlers return an id that names no state: the event must be dropped and the machine stay usable; each in two definition orders: terminal state created before / after the routes that target it; the second order on half the cap): every canonical StateMachine definition in order of weight (<=3 states + optional user-defined terminal state, events {1,2} + any, "
                   "<=3 routes/state over (event|any, target incl. terminal, guard none/true/false/flip-flop), per-state handlers for a specific event and for any event "
                   "returning -1 or an existing target, a sub-machine per state, nesting depth <=%d, optional setInitState; weight = states+routes+guards+handlers+flags+sub-machines; "
                   "canonical = all states reachable, numbered in discovery order, first specific event is 1), first %d machines (see caps_hit for the weight reached); "
                   "HISTORIES: per machine BFS over call sequences of {start,run(1),run(2),stop,restart} x {plain, every action of a machine calls start/run(1)/run(2)/stop/restart on its own machine} "
                   "to depth %d, deduplicated on the observers of every machine of the hierarchy + guard parity + enter/exit ledger (states = distinct (machine, state) pairs; "
                   "transitions = evaluated call sequences, each replayed on a fresh real hierarchy); ORACLE: reference interpreter written from state_machine.h + property statement "
                   "(+ pinned tests), compared step by step (guard/handler/exit/route/enter/state-changed trace incl. event id and current/last/next/isRunning/isTerminated inside every action, "
                   "return value, observers of all machines after every call); enter/exit ledger balanced whenever the outermost machine is stopped; re-entrant calls rejected with "
                   "state unchanged; ASan+UBSan; distinct_nontrivial = distinct (trace+return value+observer) sequences (64-bit hashes, union over processes)" % (nest, cap, depth),
              assumptions=["handlers return -1 or an existing state id (other negative values are undocumented, DESIGN 1.7)",
                           "re-entrant calls are made on the machine whose action is running, not on its parent or child (DESIGN 1.7)",
                           "the user-defined terminal state has enter/exit actions only (no routes, handlers or sub-machine); setInitState(0) is not generated",
                           "lastState() is taken to survive stop()/start() as in the code (header silent); stop order inner-first as pinned for terminated sub-machines (SubSMActionOrder)",
                           "event ids 1 and 2 are interchangeable (definitions whose first specific event is 2 are skipped as mirror images)",
                           "distinct traces are counted through a 64-bit FNV-1a hash"],
              extra={"distinct_nontrivial": st.get("distinct_traces", 0), "distinct_traces": st.get("distinct_traces", 0),
                     "programs": st.get("machines", 0)})
